"""Regenerate MANIFEST.json from props/*.py metadata (checks) and properties.jsonl (not_applicable)."""
import sys, os, json, glob, importlib
HERE = os.path.dirname(os.path.dirname(os.path.abspath(__file__)))
sys.path.insert(0, os.path.join(HERE, "harness")); sys.path.insert(0, HERE)
props = [json.loads(l) for l in open(os.path.join(HERE, "properties.jsonl"))]
na_reasons = json.load(open(os.path.join(HERE, "tools", "not_claimed.json"))) if os.path.exists(os.path.join(HERE, "tools", "not_claimed.json")) else {}
ready = set(open(os.path.join(HERE, "tools", "ready.txt")).read().split())
checks, na = [], []
for p in props:
    pid = p["id"]
    f = os.path.join(HERE, "props", pid + ".py")
    if os.path.exists(f) and pid in ready:
        mod = importlib.import_module("props." + pid)
        checks.append({
            "property_id": pid,
            "quick_cmd": "./check %s --tier quick" % pid,
            "thorough_cmd": "./check %s --tier thorough" % pid,
            "evidence_file": "/verif/evidence/%s.json" % pid,
            "replay_cmd_template": "./check %s --replay {path}" % pid,
            "engine": "coq-proof+correspondence",
            "level_claimed": {"category": "proof",
                              "text": getattr(mod, "LEVEL_TEXT", getattr(mod, "EXPLANATION", "")),
                              "design_ref": "DESIGN.md section 7, " + pid},
            "level_note": getattr(mod, "LEVEL_NOTE", "; ".join(getattr(mod, "TRUSTED", []) + getattr(mod, "ASSUMPTIONS", []))),
            "technique": getattr(mod, "TECHNIQUE", "Coq 8.16 theorems over a hand-written Gallina model + differential correspondence of the extracted model against the implementation"),
        })
    else:
        na.append({"property_id": pid, "reason": na_reasons.get(pid, "not claimed: no check is registered for this property yet (design in DESIGN.md section 7; nothing is asserted about it)")})
man = {
    "version": 1,
    "setup_cmd": "./setup.sh",
    "hooks": {"guard": "CYTHON_VERIF", "enable": "no hooks are needed: checks import /repo's .py sources, compile generated modules with the compiler under test, and use -D switches the utility code already honours",
              "baseline_off_cmd": "cd /repo && /venv/bin/python -m pytest -ra -q -p no:cacheprovider --timeout=900 --continue-on-collection-errors",
              "source_commits": [], "add_only": True},
    "engines": [{"name": "coq-proof+correspondence", "path": "/verif/check",
                 "serves_properties": [c["property_id"] for c in checks],
                 "kind_free_text": "Coq 8.16.1 development under coq/theories (Model/Proof/Prop), extracted to OCaml (ocaml/), driven by harness/framework.py; each check re-makes the theorems it depends on, re-runs coqc on Prop/<id>.v to read Print Assumptions, then runs the model against the implementation built from /repo's working tree"}],
    "checks": checks,
    "not_applicable": na,
    "notes": "Known findings: known_findings.json. Seeded mutants: seeded/. See DESIGN.md.",
}
json.dump(man, open(os.path.join(HERE, "MANIFEST.json"), "w"), indent=1)
print("checks:", len(checks), "not claimed:", len(na))
