#!/bin/sh
# tools/accept.sh Cxx [Cyy ...] : mark checks as accepted (ready), regenerate MANIFEST, validate, commit everything
set -e
cd /verif
for p in "$@"; do grep -qx "$p" tools/ready.txt || echo "$p" >> tools/ready.txt; done
sort -o tools/ready.txt tools/ready.txt
/venv/bin/python tools/gen_manifest.py
python3-vt tools/validate.py "$@"
git add -A
git commit -q -m "accept $*: checks registered in MANIFEST" && echo "committed $*"
