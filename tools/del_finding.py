#!/venv/bin/python
"""tools/del_finding.py Cxx <class>  -- locked removal of one entry of known_findings.json (a class that was
re-registered under a better (input-family) name, or that turned out to be a false alarm; never at check run time)"""
import sys, os, json, fcntl
HERE = os.path.dirname(os.path.dirname(os.path.abspath(__file__)))
pid, klass = sys.argv[1:3]
p = os.path.join(HERE, "known_findings.json")
with open(p + ".lock", "w") as lk:
    fcntl.flock(lk, fcntl.LOCK_EX)
    d = json.load(open(p))
    n = len(d["findings"])
    d["findings"] = [f for f in d["findings"] if not (f["property"] == pid and f["class"] == klass)]
    tmp = p + ".tmp"
    json.dump(d, open(tmp, "w"), indent=1); os.replace(tmp, p)
print("removed", n - len(d["findings"]), pid, klass)
