#!/bin/sh
# runs the pinned test suite of /repo (guard off) and prints passed/failed counts
cd /repo && /venv/bin/python -m pytest -ra -q -p no:cacheprovider --timeout=900 --continue-on-collection-errors 2>&1 | tail -3
git -C /repo status --short | grep '^??' | grep '_cython_inline_' | awk '{print $2}' | while read f; do rm -f "/repo/$f"; done
