#!/venv/bin/python
"""tools/add_finding.py Cxx <class> known|fixed "<what>" [commit]  -- locked edit of known_findings.json"""
import sys, os, json, fcntl
HERE = os.path.dirname(os.path.dirname(os.path.abspath(__file__)))
pid, klass, status, what = sys.argv[1:5]
commit = sys.argv[5] if len(sys.argv) > 5 else None
assert status in ("known", "fixed")
p = os.path.join(HERE, "known_findings.json")
with open(p + ".lock", "w") as lk:
    fcntl.flock(lk, fcntl.LOCK_EX)
    d = json.load(open(p))
    fs = [f for f in d["findings"] if not (f["property"] == pid and f["class"] == klass)]
    e = {"property": pid, "class": klass, "status": status, "what": what}
    if commit:
        e["commit"] = commit
        e["line"] = "fixed: property=%s %s %s" % (pid, commit, what)
    fs.append(e)
    fs.sort(key=lambda f: (f["property"], f["class"]))
    d["findings"] = fs
    tmp = p + ".tmp"
    json.dump(d, open(tmp, "w"), indent=1); os.replace(tmp, p)
print("registered", pid, klass, status)
