import sys, os, glob, importlib, subprocess
HERE = os.path.dirname(os.path.dirname(os.path.abspath(__file__)))
sys.path.insert(0, os.path.join(HERE, "harness")); sys.path.insert(0, HERE)
import framework

class _Ctx:  # minimal context for pre_coq hooks
    def __init__(self, pid):
        self.id = pid; self.repo = framework.REPO; self.tier = "quick"
        self.workdir = os.path.join(framework.WORK, "setup-" + pid); os.makedirs(self.workdir, exist_ok=True)
        self.notes = []
    def note(self, s): self.notes.append(s)

ok = True
ready = open(os.path.join(HERE, "tools", "ready.txt")).read().split()
targets, runners = [], []
for pid in ready:
    f = os.path.join(HERE, "props", pid + ".py")
    mod = importlib.import_module("props." + pid)
    if hasattr(mod, "pre_coq"):
        try:
            mod.pre_coq(_Ctx(pid))
        except Exception as e:
            print("pre_coq %s failed: %r" % (pid, e)); ok = False
    targets.append("theories/" + getattr(mod, "THEOREM_FILE", "Prop/%s.v" % pid) + "o")
    for x in getattr(mod, "EXTRACTS", []):
        targets.append("theories/Extract/X_%s.vo" % x)
        runners.append(x.lower())
targets = sorted(set(targets))
good, log = framework.coq_make(targets, timeout=3400)
open(os.path.join(framework.WORK, "setup_coq.log"), "w").write(log)
if not good:
    print(log[-3000:]); print("COQ BUILD FAILED"); sys.exit(1)
bad = framework.audit_sources([t[len("theories/"):-1] for t in targets])
if bad:
    print("forbidden declarations:", bad); sys.exit(1)
for name in sorted(set(runners)):
    framework.build_runner(name)
    print("built model runner", name)
print("setup ok" if ok else "setup finished with pre_coq failures")
sys.exit(0 if ok else 1)
