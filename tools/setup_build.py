import sys, os, glob, importlib, subprocess
HERE = os.path.dirname(os.path.dirname(os.path.abspath(__file__)))
sys.path.insert(0, os.path.join(HERE, "harness")); sys.path.insert(0, HERE)
import framework

class _Ctx:  # minimal context for pre_coq hooks
    def __init__(self, pid):
        self.id = pid; self.repo = framework.REPO; self.tier = "quick"
        self.workdir = os.path.join(framework.WORK, "setup-" + pid); os.makedirs(self.workdir, exist_ok=True)
        self.notes = []
    def note(self, s): self.notes.append(s)

ok = True
for f in sorted(glob.glob(os.path.join(HERE, "props", "C*.py"))):
    pid = os.path.basename(f)[:-3]
    mod = importlib.import_module("props." + pid)
    if hasattr(mod, "pre_coq"):
        try:
            mod.pre_coq(_Ctx(pid))
        except Exception as e:
            print("pre_coq %s failed: %r" % (pid, e)); ok = False
good, log = framework.coq_make(None, timeout=3400)
open(os.path.join(framework.WORK, "setup_coq.log"), "w").write(log)
if not good:
    print(log[-3000:]); print("COQ BUILD FAILED"); sys.exit(1)
bad = framework.audit_sources()
if bad:
    print("forbidden declarations:", bad); sys.exit(1)
for d in sorted(glob.glob(os.path.join(HERE, "ocaml", "drv_*.ml"))):
    name = os.path.basename(d)[4:-3]
    framework.build_runner(name)
    print("built model runner", name)
print("setup ok" if ok else "setup finished with pre_coq failures")
sys.exit(0 if ok else 1)
