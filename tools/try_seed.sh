#!/bin/bash
# tools/try_seed.sh <Cxx> <dir with patch.diff demo.py meta.json> [check ids...]
# Confirms the seeded change (demo fails with it, passes without), then runs the check(s) against a fresh
# worktree of /repo HEAD with the patch applied (VERIF_REPO), and records the verdict.
id=$1; src=$2; shift 2; checks=${@:-$id}
name=${SEED_NAME:-$(basename $src)}
wt=/tmp/eval-$name-$$
out=/verif/seeded/$name
mkdir -p $out
cp $src/patch.diff $src/demo.py $src/meta.json $out/ 2>/dev/null
git -C /repo worktree add --detach $wt HEAD >/dev/null 2>&1 || { echo "worktree failed"; exit 2; }
/venv/bin/python $out/demo.py $wt >/dev/null 2>&1; clean=$?
git -C $wt apply $out/patch.diff || { echo "patch does not apply to HEAD"; git -C /repo worktree remove --force $wt; exit 2; }
/venv/bin/python $out/demo.py $wt >/dev/null 2>&1; broken=$?
tests=$(cd $wt && /venv/bin/python -m pytest -q -p no:cacheprovider --timeout=900 --continue-on-collection-errors 2>&1 | tail -1)
echo "demo: clean=$clean broken=$broken ; tests: $tests"
res=""
for c in $checks; do
  v=$(cd /verif && VERIF_REPO=$wt ./check $c 2>&1 | grep -E "^VIOLATION|^OK " | head -1)
  echo "check $c: $v"
  res="$res$c: $v; "
  f=$(echo "$v" | sed -n 's/.*replay=\([^ ]*\).*/\1/p')
  [ -n "$f" ] && cp "$f" $out/replay-$c.json 2>/dev/null
done
python3 - "$out" "$clean" "$broken" "$tests" "$res" <<'PY'
import json,sys
out,clean,broken,tests,res=sys.argv[1:6]
p=out+"/meta.json"
try: m=json.load(open(p))
except Exception: m={}
if "confirmed" in m:
    m.setdefault("earlier_runs", []).append(m["confirmed"])
m["confirmed"]={"demo_exit_on_head":int(clean),"demo_exit_with_patch":int(broken),"pinned_tests_with_patch":tests,"check_verdicts":res}
json.dump(m,open(p,"w"),indent=1)
PY
git -C /repo worktree remove --force $wt
(cd /verif && ./check $id >/dev/null 2>&1)   # restore evidence/workdir from the real tree
