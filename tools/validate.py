import sys, json, jsonschema
s = json.load(open('/root/.vp/EVIDENCE.schema.json'))
for p in sys.argv[1:]:
    jsonschema.validate(json.load(open('/verif/evidence/%s.json' % p)), s); print(p, 'evidence valid')
jsonschema.validate(json.load(open('/verif/MANIFEST.json')), json.load(open('/root/.vp/MANIFEST.schema.json'))); print('manifest valid')
