#!/bin/sh
# Build the framework offline from files on disk: Gen_*.v from /repo's running code, the Coq
# development (full .vo build), the extracted OCaml model runners.
set -e
cd "$(dirname "$0")"
export PYTHONHASHSEED=0 PYTHONDONTWRITEBYTECODE=1
mkdir -p .work ocaml/gen coq/theories/Gen evidence
/venv/bin/python tools/setup_build.py
