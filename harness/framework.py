"""Check framework: Coq obligations + correspondence bookkeeping + verdict + evidence.

A property module props/Cxx.py defines
    TITLE, DESIGN_REF, THEOREM_FILE ('Prop/Cxx.v'), MODELS (ocaml runner names), TRUSTED (list)
    run(ctx)            -- performs the correspondence; calls ctx.case(...) / ctx.fail(...)
    optional pre_coq(ctx) -- writes coq/theories/Gen/*.v from the running code
    optional replay(ctx, obj)
"""
import os, sys, re, json, time, random, hashlib, subprocess, fcntl, shutil, glob

VERIF = os.path.dirname(os.path.dirname(os.path.abspath(__file__)))
COQ = os.path.join(VERIF, "coq")
OCAML = os.path.join(VERIF, "ocaml")
WORK = os.path.join(VERIF, ".work")
REPO = os.path.realpath(os.environ.get("VERIF_REPO", "/repo"))
PY = "/venv/bin/python"

ALLOWED_AXIOMS = [
    # standard-library axioms that may appear; each is reported in the evidence
    r"^Coq\.", r"^FloatAxioms\.", r"^PrimFloat\.", r"^Uint63\.", r"^PrimInt63\.", r"^Classical",
    r"functional_extensionality", r"proof_irrelevance", r"JMeq_eq", r"eq_rect_eq", r"^Eqdep\.",
    r"^Float", r"^Sint63", r"^ClassicalDedekindReals\.", r"^Prim2SF", r"^SF2Prim", r"_spec$",
    r"^(add|sub|mul|div|sqrt|opp|abs|eqb|ltb|leb|compare|classify|of_uint63|normfr_mantissa|frshiftexp|ldshiftexp|next_up|next_down)_",
]
FORBIDDEN = re.compile(
    r"\b(Admitted|admit|Axiom|Axioms|Parameter|Parameters|Conjecture|Conjectures|"
    r"Admit\s+Obligations|bypass_check|give_up)\b|Unset\s+Guard\s+Checking|"
    r"Unset\s+Positivity\s+Checking|Unset\s+Universe\s+Checking|type-in-type|impredicative-set")


class Lock:
    def __init__(self, path):
        self.path = path
    def __enter__(self):
        os.makedirs(os.path.dirname(self.path), exist_ok=True)
        self.f = open(self.path, "w")
        fcntl.flock(self.f, fcntl.LOCK_EX)
    def __exit__(self, *a):
        fcntl.flock(self.f, fcntl.LOCK_UN)
        self.f.close()


def strip_coq_comments(s):
    out, depth, i = [], 0, 0
    while i < len(s):
        if s.startswith("(*", i):
            depth += 1; i += 2
        elif s.startswith("*)", i) and depth:
            depth -= 1; i += 2
        else:
            if not depth:
                out.append(s[i])
            i += 1
    return "".join(out)


def coq_files():
    fs = sorted(glob.glob(os.path.join(COQ, "theories", "*", "*.v")))
    return [os.path.relpath(f, COQ) for f in fs]


def coq_prepare():
    """(re)generate _CoqProject and Makefile if the file list changed."""
    want = "-Q theories CyVerif\n" + "\n".join(coq_files()) + "\n"
    cp = os.path.join(COQ, "_CoqProject")
    cur = open(cp).read() if os.path.exists(cp) else ""
    if cur != want or not os.path.exists(os.path.join(COQ, "Makefile")):
        with open(cp, "w") as f:
            f.write(want)
        subprocess.run(["coq_makefile", "-f", "_CoqProject", "-o", "Makefile"], cwd=COQ,
                       capture_output=True, text=True, check=True)


def coq_make(targets=None, timeout=3000, jobs=16):
    """make (all or the given .vo targets). Returns (ok, log)."""
    with Lock(os.path.join(WORK, "coq.lock")):
        os.makedirs(os.path.join(OCAML, "gen"), exist_ok=True)
        coq_prepare()
        cmd = ["timeout", str(timeout), "make", "-k", "-j%d" % jobs] + (targets or [])
        p = subprocess.run(cmd, cwd=COQ, capture_output=True, text=True)
        return p.returncode == 0, (p.stdout + p.stderr)


def coq_deps(rel_files):
    """transitive closure of CyVerif dependencies of the given theories-relative .v files"""
    seen, todo = set(), list(rel_files)
    while todo:
        f = todo.pop()
        if f in seen:
            continue
        seen.add(f)
        path = os.path.join(COQ, "theories", f)
        if not os.path.exists(path):
            continue
        txt = strip_coq_comments(open(path).read())
        for m in re.finditer(r"From\s+CyVerif\s+Require\s+(.*?)\.(?=\s|$)", txt, re.S):
            for mod in m.group(1).split():
                if mod in ("Import", "Export"):
                    continue
                todo.append(mod.replace(".", "/") + ".v")
        for m in re.finditer(r"\bCyVerif\.([A-Za-z_][\w']*(?:\.[A-Za-z_][\w']*)*)", txt):
            todo.append(m.group(1).replace(".", "/") + ".v")
    return sorted(seen)


def audit_sources(rel_files=None):
    """forbidden declarations in the development (comments stripped); restricted to the
    dependency closure of rel_files (theories-relative) when given."""
    bad = []
    files = coq_files() if rel_files is None else ["theories/" + f for f in coq_deps(rel_files)]
    for rel in files:
        if not os.path.exists(os.path.join(COQ, rel)):
            continue
        txt = strip_coq_comments(open(os.path.join(COQ, rel)).read())
        for m in FORBIDDEN.finditer(txt):
            bad.append("%s: %s" % (rel, m.group(0)))
        # Variable/Hypothesis outside a section
        depth = 0
        for line in txt.splitlines():
            if re.match(r"\s*Section\b", line): depth += 1
            elif re.match(r"\s*End\b", line) and depth: depth -= 1
            elif depth == 0 and re.match(r"\s*(Variable|Variables|Hypothesis|Hypotheses|Context)\b", line):
                bad.append("%s: %s outside section" % (rel, line.strip()[:40]))
    return bad


def parse_assumptions(out):
    """Split coqc stdout of a Prop file into per-Print-Assumptions blocks."""
    blocks, cur = [], None
    for line in out.splitlines():
        if line.startswith("Closed under the global context"):
            blocks.append([]); cur = None
        elif line.startswith("Axioms:"):
            cur = []; blocks.append(cur)
        elif cur is not None:
            m = re.match(r"^([A-Za-z_][\w.']*)\s*:", line)
            if m:
                cur.append(m.group(1))
            elif line and not line.startswith(" "):
                cur = None
    return blocks


def build_runner(name):
    with Lock(os.path.join(WORK, "ocaml.lock")):
        exe = os.path.join(OCAML, "_build", name)
        srcs = [os.path.join(OCAML, "gen", "m_%s.ml" % name), os.path.join(OCAML, "zconv.ml"),
                os.path.join(OCAML, "drv_%s.ml" % name)]
        for s in srcs:
            if not os.path.exists(s):
                raise RuntimeError("missing " + s)
        if (not os.path.exists(exe)) or any(os.path.getmtime(s) > os.path.getmtime(exe) for s in srcs):
            p = subprocess.run([os.path.join(OCAML, "build.sh"), name], capture_output=True, text=True)
            if p.returncode != 0:
                raise RuntimeError("ocaml build failed: " + p.stderr[-2000:])
        return exe


class ModelRunner:
    """extracted model behind a line protocol; batch interface."""
    def __init__(self, exe):
        self.exe = exe
    def batch(self, lines, timeout=1800):
        if not lines:
            return []
        data = "\n".join(lines) + "\n"
        env = dict(os.environ); env["OCAMLRUNPARAM"] = "l=8G"
        p = subprocess.run(["bash", "-c", "ulimit -s unlimited 2>/dev/null; exec " + self.exe],
                           input=data, capture_output=True, text=True, timeout=timeout, env=env)
        out = p.stdout.split("\n")
        if out and out[-1] == "":
            out.pop()
        if len(out) != len(lines):
            raise RuntimeError("model runner %s: %d lines in, %d out (rc=%s) %s" % (
                self.exe, len(lines), len(out), p.returncode, p.stderr[-500:]))
        return out


def load_findings():
    p = os.path.join(VERIF, "known_findings.json")
    if not os.path.exists(p):
        return []
    return json.load(open(p)).get("findings", [])


class Ctx:
    def __init__(self, prop_id, mod, tier, seed):
        self.id = prop_id
        self.mod = mod
        self.tier = tier
        self.seed = seed
        self.rng = random.Random(seed * 1000003 + sum(map(ord, prop_id)))
        self.repo = REPO
        self.workdir = os.path.join(WORK, prop_id + ("" if tier == "quick" else "-" + tier))
        shutil.rmtree(self.workdir, ignore_errors=True)
        os.makedirs(self.workdir, exist_ok=True)
        self.t0 = time.time()
        self.evaluations = 0
        self.sigs = set()
        self.samples = []
        self.strata = {}
        self.prop_failures = []      # impl != oracle: (klass, input, observed, expected, note)
        self.corr_breaks = []        # impl != model : (what, input, impl, model)
        self.known_hits = {}
        self.proof = None
        self.proof_failures = []
        self.notes = []
        self.extra = {}
        self.traces_validated = 0
        self.findings = [f for f in load_findings() if f.get("property") == prop_id]
        self.known_classes = {f["class"]: f for f in self.findings if f.get("status") == "known"}

    # ---------------- Coq ----------------
    def coq_obligations(self):
        mod = self.mod
        tf = getattr(mod, "THEOREM_FILE", "Prop/%s.v" % self.id)
        res = {"theorem_file": tf, "obligations": 0, "discharged": 0, "axioms": [], "ok": False}
        if hasattr(mod, "pre_coq"):
            mod.pre_coq(self)
        targets = ["theories/" + tf + "o"] + ["theories/Extract/X_%s.vo" % m for m in getattr(mod, "EXTRACTS", [])]
        ok, log = coq_make(targets)
        with open(os.path.join(self.workdir, "coq_make.log"), "w") as f:
            f.write(log)
        src = os.path.join(COQ, "theories", tf)
        txt = strip_coq_comments(open(src).read()) if os.path.exists(src) else ""
        stmts = re.findall(r"^\s*(Theorem|Lemma|Corollary|Example|Fact|Proposition)\s+([\w']+)", txt, re.M)
        res["obligations"] = len(stmts)
        res["theorems"] = [n for _, n in stmts]
        checker = "cd /verif/coq && make -k theories/%so && coqc -Q theories CyVerif theories/%s" % (tf, tf)
        res["checker_cmd"] = checker
        if not ok:
            m = re.findall(r'File "\./([^"]+)", line (\d+)[^\n]*\n((?:.*\n){0,4})', log)
            where = "; ".join("%s:%s %s" % (a, b, c.strip().replace("\n", " ")[:200]) for a, b, c in m[:3])
            self.proof_failures.append("coq build failed for %s: %s" % (tf, where or log[-400:]))
            self.proof = res
            return res
        out_vo = os.path.join(self.workdir, os.path.basename(tf) + "o")
        p = subprocess.run(["timeout", "900", "coqc", "-Q", "theories", "CyVerif", "-o", out_vo,
                            "theories/" + tf], cwd=COQ, capture_output=True, text=True)
        with open(os.path.join(self.workdir, "coqc_prop.log"), "w") as f:
            f.write(p.stdout + p.stderr)
        if p.returncode != 0:
            self.proof_failures.append("coqc %s failed: %s" % (tf, (p.stdout + p.stderr)[-600:]))
            self.proof = res
            return res
        blocks = parse_assumptions(p.stdout)
        axioms = sorted({a for b in blocks for a in b})
        res["axioms"] = axioms
        res["print_assumptions_blocks"] = len(blocks)
        res["closed_blocks"] = sum(1 for b in blocks if not b)
        n_thm = len([1 for k, _ in stmts if k != "Example"])
        if len(blocks) < n_thm:
            self.proof_failures.append("%s: %d theorems but only %d Print Assumptions" % (tf, n_thm, len(blocks)))
        for a in axioms:
            if not any(re.search(pat, a) for pat in ALLOWED_AXIOMS):
                self.proof_failures.append("theorem depends on non-library axiom %s" % a)
        bad = audit_sources([tf] + ["Extract/X_%s.v" % m for m in getattr(mod, "EXTRACTS", [])])
        res["audited_files"] = coq_deps([tf])
        if bad:
            self.proof_failures.append("forbidden declarations: " + "; ".join(bad[:5]))
        res["discharged"] = res["obligations"] if not self.proof_failures else 0
        res["ok"] = not self.proof_failures
        self.proof = res
        return res

    def model(self, name):
        return ModelRunner(build_runner(name))

    # ---------------- bookkeeping ----------------
    def case(self, stratum, inp, sig=None, nontrivial=True):
        self.evaluations += 1
        self.strata[stratum] = self.strata.get(stratum, 0) + 1
        if nontrivial:
            self.sigs.add(sig if sig is not None else repr(inp))
        if len(self.samples) < 12 and (self.strata[stratum] <= 2):
            self.samples.append({"stratum": stratum, "input": _short(inp)})

    def count(self, stratum, n, distinct_sigs=None):
        """bulk accounting for exhaustive sweeps"""
        self.evaluations += n
        self.strata[stratum] = self.strata.get(stratum, 0) + n
        if distinct_sigs:
            self.sigs.update(distinct_sigs)

    def sample(self, obj):
        if len(self.samples) < 16:
            self.samples.append(_short(obj))

    def fail(self, klass, inp, observed, expected, note=""):
        """the implementation violates the property on a concrete input (impl != oracle)."""
        if klass in self.known_classes:
            k = self.known_hits.setdefault(klass, {"count": 0, "first": None})
            k["count"] += 1
            if k["first"] is None:
                k["first"] = {"input": _short(inp), "observed": _short(observed), "expected": _short(expected)}
            return
        if len(self.prop_failures) < 50:
            self.prop_failures.append({"class": klass, "input": inp, "observed": observed,
                                       "expected": expected, "note": note})

    def corr_break(self, what, inp, impl, model):
        """implementation and model disagree (the tie is broken)."""
        if len(self.corr_breaks) < 50:
            self.corr_breaks.append({"pair": what, "input": inp, "impl": impl, "model": model})

    def note(self, s):
        self.notes.append(s)

    # ---------------- verdict ----------------
    def finish(self):
        wall = time.time() - self.t0
        lines = []
        for klass, k in sorted(self.known_hits.items()):
            f = self.known_classes[klass]
            lines.append("KNOWN-FINDING: property=%s %s [class=%s, %d failing inputs this run, e.g. %s]" % (
                self.id, f.get("what", ""), klass, k["count"], json.dumps(k["first"]["input"])[:160]))
        violation = None
        rdir = os.path.join(WORK, "replays")
        os.makedirs(rdir, exist_ok=True)
        if self.prop_failures:
            f0 = self.prop_failures[0]
            obj = {"property": self.id, "kind": "failing-input", "class": f0["class"], "input": f0["input"],
                   "observed": f0["observed"], "expected": f0["expected"], "note": f0["note"],
                   "more": [_short(x) for x in self.prop_failures[1:10]],
                   "replay_cmd": "./check %s --replay <this file>" % self.id}
            path = _write_replay(rdir, self.id, obj)
            violation = "VIOLATION property=%s replay=%s" % (self.id, path)
        elif self.corr_breaks or self.proof_failures:
            obj = {"property": self.id, "kind": "no-failing-input-found",
                   "broken_proof_obligations": self.proof_failures,
                   "broken_correspondence": [_short(x) for x in self.corr_breaks[:10]],
                   "searched": "this run's generators compared the implementation with the property oracle on %d inputs without finding a failing one" % self.evaluations}
            path = _write_replay(rdir, self.id, obj)
            violation = "VIOLATION property=%s replay=%s no-failing-input-found" % (self.id, path)
        pr = self.proof or {}
        cov = {
            "obligations": pr.get("obligations", 0),
            "discharged": pr.get("discharged", 0),
            "checker_cmd": pr.get("checker_cmd", ""),
            "trusted_base": list(getattr(self.mod, "TRUSTED", [])) + [
                "Coq 8.16.1 kernel + vm_compute (no native_compute)",
                "axioms reported by Print Assumptions: %s" % (", ".join(pr.get("axioms", [])) or "none (closed under the global context)"),
                "extraction (ExtrOcamlBasic only; Z/N/positive/nat kept as Coq datatypes) + OCaml 4.13.1 + ocaml/zconv.ml text codec",
                "harness: generators, canonicalisation, pyload (forces .py sources of /repo), cybuild (compiler under test + gcc)"],
            "theorems": pr.get("theorems", []),
            "evaluations": self.evaluations,
            "distinct_nontrivial": len(self.sigs),
            "rule": getattr(self.mod, "RULE", "distinct by input signature"),
            "samples": self.samples or [{"note": "no correspondence cases"}],
            "traces_validated_against_impl": self.traces_validated or self.evaluations,
            "strata": self.strata,
            "explanation": getattr(self.mod, "EXPLANATION", ""),
            "known_findings_hit": {k: v["count"] for k, v in self.known_hits.items()},
            "notes": self.notes,
        }
        cov.update(self.extra)
        ev = {"property_id": self.id, "tier": self.tier, "seed": self.seed, "level": "proof",
              "coverage": cov, "assumptions": list(getattr(self.mod, "ASSUMPTIONS", [])),
              "wall_s": round(wall, 2), "violations": 1 if violation else 0}
        os.makedirs(os.path.join(VERIF, "evidence"), exist_ok=True)
        with open(os.path.join(VERIF, "evidence", self.id + ".json"), "w") as f:
            json.dump(ev, f, indent=1, default=str)
            f.write("\n")
        for l in lines:
            print(l)
        if violation:
            print(violation)
            return 1
        print("OK property=%s tier=%s obligations=%d/%d evaluations=%d distinct=%d wall=%.1fs" % (
            self.id, self.tier, cov["discharged"], cov["obligations"], self.evaluations, len(self.sigs), wall))
        return 0


def _short(x, n=400):
    try:
        s = json.dumps(x, default=str)
    except Exception:
        s = repr(x)
    if len(s) <= n:
        try:
            return json.loads(s)
        except Exception:
            return s
    return s[:n] + "...(%d chars)" % len(s)


def _write_replay(rdir, pid, obj):
    s = json.dumps(obj, indent=1, default=str)
    h = hashlib.sha1(s.encode()).hexdigest()[:10]
    path = os.path.join(rdir, "%s-%s.json" % (pid, h))
    with open(path, "w") as f:
        f.write(s + "\n")
    return path
