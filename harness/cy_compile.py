"""Worker: translate one .pyx/.py to C with the compiler under test (repo *sources*).

argv: JSON spec {"src":..., "out":..., "directives":{...}, "cplus":bool, "options":{...}}
prints one JSON line {"ok":bool, "errors":str, "crash":str|null}
"""
import sys, os, json, io, traceback
sys.path.insert(0, os.path.dirname(os.path.abspath(__file__)))
import pyload
pyload.install()


def main():
    spec = json.loads(sys.argv[1])
    from Cython.Compiler import Main, Options, Errors
    pyload.assert_sources()
    for k, v in (spec.get("global_options") or {}).items():
        setattr(Options, k, v)      # module-level switches such as Options.cache_builtins
    directives = dict(Options.get_directive_defaults())
    directives.update(spec.get("directives") or {})
    if "language_level" not in (spec.get("directives") or {}):
        directives["language_level"] = 3
    kw = dict(spec.get("options") or {})
    opts = Main.CompilationOptions(
        Main.default_options, compiler_directives=directives,
        output_file=spec["out"], cplus=bool(spec.get("cplus")), **kw)
    err = io.StringIO()
    old = sys.stderr
    res = {"ok": False, "errors": "", "crash": None}
    try:
        sys.stderr = err
        try:
            r = Main.compile(spec["src"], opts)
            res["ok"] = (r.num_errors == 0) and os.path.exists(spec["out"])
        finally:
            sys.stderr = old
    except BaseException as e:  # internal compiler crash is an observed outcome
        res["crash"] = "".join(traceback.format_exception(type(e), e, e.__traceback__))[-4000:]
    res["errors"] = err.getvalue()[-8000:]
    print(json.dumps(res))


if __name__ == "__main__":
    main()
