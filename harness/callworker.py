"""Generic worker: import modules from cwd, call functions on cases, print one JSON line per case.

stdin JSON: {"setup": "python source executed first (optional)",
             "cases": [[func_expr, [args...]], ...], "start": k, "alarm": seconds}
An argument that is a dict {"py": "<expr>"} is eval'ed in the setup namespace.
Each output line: {"i": index, "t": type name, "r": repr}  |  {"i":, "e": exception type, "m": message}
The parent detects a crash (signal) by the missing line and resumes after it.
"""
import sys, os, json, signal, math, resource


class CaseTimeout(Exception):
    pass


def _alarm(signum, frame):
    raise CaseTimeout()


def canon(r):
    if isinstance(r, float):
        return {"t": "float", "r": r.hex() if r == r else "nan"}
    if isinstance(r, complex):
        return {"t": "complex", "r": [canon(r.real)["r"], canon(r.imag)["r"]]}
    if isinstance(r, (list, tuple)) and len(r) < 2000000:
        return {"t": type(r).__name__, "r": [canon(x) for x in r]}
    return {"t": type(r).__name__, "r": repr(r)}


def main():
    spec = json.load(sys.stdin)
    if spec.get("rlimit_as", True) and not os.environ.get("VERIF_NO_RLIMIT"):
        try:
            resource.setrlimit(resource.RLIMIT_AS, (6 << 30, 6 << 30))
        except Exception:
            pass
    sys.path.insert(0, os.getcwd())
    ns = {"__name__": "__worker__"}
    if spec.get("setup"):
        exec(spec["setup"], ns)
    signal.signal(signal.SIGALRM, _alarm)
    per = int(spec.get("alarm", 10))
    out = sys.stdout
    cases = spec["cases"]
    for i in range(int(spec.get("start", 0)), len(cases)):
        fexpr, args = cases[i]
        out.write(json.dumps({"i": i, "begin": 1}) + "\n"); out.flush()
        try:
            signal.alarm(per)
            f = eval(fexpr, ns)
            a = [eval(x["py"], ns) if isinstance(x, dict) and "py" in x else x for x in args]
            r = f(*a)
            signal.alarm(0)
            d = canon(r)
        except CaseTimeout:
            d = {"e": "TIMEOUT", "m": ""}
        except BaseException as e:
            signal.alarm(0)
            d = {"e": type(e).__name__, "m": str(e)[:300]}
        d["i"] = i
        out.write(json.dumps(d) + "\n"); out.flush()


if __name__ == "__main__":
    main()
