"""Force the *source* (.py) modules of the repository under test.

/repo/Cython contains stale compiled extension modules (git-ignored build products) that
shadow Code.py, LZSS.py, StringEncoding.py, Plex/*, ... .  Checks must judge the working
tree, so before anything from Cython is imported we install a path hook that serves every
directory under the repo root with a FileFinder restricted to SourceFileLoader.

Usage (must be the first import of a worker):
    import pyload; pyload.install()          # repo root from $VERIF_REPO or /repo
"""
import os
import sys
import importlib.machinery as _m

REPO = os.path.realpath(os.environ.get("VERIF_REPO", "/repo"))


def install(repo=None):
    global REPO
    if repo:
        REPO = os.path.realpath(repo)
    root = REPO
    sys.dont_write_bytecode = True

    def hook(path):
        rp = os.path.realpath(path)
        if rp == root or rp.startswith(root + os.sep):
            return _m.FileFinder(path, (_m.SourceFileLoader, [".py"]))
        raise ImportError

    # drop any already imported Cython modules (there should be none)
    for k in [k for k in sys.modules if k == "Cython" or k.startswith("Cython.")]:
        del sys.modules[k]
    sys.path_hooks.insert(0, hook)
    sys.path_importer_cache.clear()
    # the repo root must come first on sys.path
    while root in sys.path:
        sys.path.remove(root)
    sys.path.insert(0, root)
    return root


def assert_sources():
    bad = []
    for k, m in list(sys.modules.items()):
        if k == "Cython" or k.startswith("Cython."):
            f = getattr(m, "__file__", None) or ""
            if f.endswith(".so"):
                bad.append((k, f))
            elif f and not os.path.realpath(f).startswith(REPO + os.sep):
                bad.append((k, f))
    if bad:
        raise RuntimeError("Cython modules not loaded from repo sources: %r" % bad)
