"""Build extension modules with the compiler under test + gcc, and run driver scripts in
fresh subprocesses (a crash of the subprocess is an observed outcome)."""
import os, sys, json, subprocess, sysconfig, concurrent.futures as cf, shlex

HERE = os.path.dirname(os.path.abspath(__file__))
PY = "/venv/bin/python"
REPO = os.path.realpath(os.environ.get("VERIF_REPO", "/repo"))
EXT = sysconfig.get_config_var("EXT_SUFFIX") or ".so"
INC = sysconfig.get_paths()["include"]


def base_env():
    env = dict(os.environ)
    env["PYTHONHASHSEED"] = "0"
    env["PYTHONDONTWRITEBYTECODE"] = "1"
    env["PYTHONPATH"] = HERE + os.pathsep + REPO
    env["VERIF_REPO"] = REPO
    return env


class BuildError(Exception):
    def __init__(self, stage, detail):
        Exception.__init__(self, "%s: %s" % (stage, detail[-3000:]))
        self.stage = stage
        self.detail = detail


def translate(src, out, directives=None, cplus=False, options=None, timeout=600, global_options=None):
    spec = {"src": src, "out": out, "directives": directives or {}, "cplus": cplus,
            "options": options or {}, "global_options": global_options or {}}
    p = subprocess.run([PY, os.path.join(HERE, "cy_compile.py"), json.dumps(spec)],
                       capture_output=True, text=True, env=base_env(), timeout=timeout)
    line = p.stdout.strip().splitlines()[-1] if p.stdout.strip() else ""
    try:
        res = json.loads(line)
    except Exception:
        res = {"ok": False, "errors": p.stderr[-4000:], "crash": "worker died rc=%s" % p.returncode}
    return res


def cc(c_file, so_file, cflags=None, macros=None, cplus=False, compiler=None, ldflags=None,
       timeout=1200):
    comp = compiler or ("g++" if cplus else "gcc")
    cmd = [comp, "-shared", "-fPIC", "-w", "-I" + INC]
    try:
        import numpy
        cmd.append("-I" + numpy.get_include())
    except Exception:
        pass
    cmd += (cflags if cflags is not None else ["-O1"])
    for m in (macros or []):
        cmd.append("-D" + m)
    cmd += [c_file, "-o", so_file] + (ldflags or [])
    p = subprocess.run(cmd, capture_output=True, text=True, timeout=timeout)
    return p.returncode, p.stderr


def build(name, source, workdir, directives=None, cflags=None, macros=None, cplus=False,
          compiler=None, ldflags=None, suffix=".pyx", options=None, global_options=None):
    """Write source, translate with the compiler under test, compile with gcc.
    Returns path of the .so; raises BuildError."""
    os.makedirs(workdir, exist_ok=True)
    src = os.path.join(workdir, name + suffix)
    with open(src, "w") as f:
        f.write(source)
    c_file = os.path.join(workdir, name + (".cpp" if cplus else ".c"))
    if os.path.exists(c_file):
        os.unlink(c_file)
    res = translate(src, c_file, directives, cplus, options, global_options=global_options)
    if res.get("crash"):
        raise BuildError("cython-crash", res["crash"])
    if not res.get("ok"):
        raise BuildError("cython-error", res.get("errors", ""))
    so = os.path.join(workdir, name + EXT)
    rc, err = cc(c_file, so, cflags, macros, cplus, compiler, ldflags)
    if rc != 0:
        raise BuildError("cc-error", err)
    return so


def build_many(specs, jobs=8):
    """specs: list of dict(kwargs for build). Returns list of (so|None, error|None)."""
    out = [None] * len(specs)

    def one(i):
        try:
            return i, build(**specs[i]), None
        except BuildError as e:
            return i, None, e
    with cf.ThreadPoolExecutor(max_workers=jobs) as ex:
        for i, so, e in ex.map(one, range(len(specs))):
            out[i] = (so, e)
    return out


def run_script(script_text, workdir, stdin_obj=None, timeout=600, extra_env=None, pypath=None,
               name="driver.py", args=None):
    """Run python source in a fresh subprocess with cwd=workdir; JSON on stdin; returns
    dict(rc, out, err, json) where json is the parsed last stdout line if possible."""
    os.makedirs(workdir, exist_ok=True)
    path = os.path.join(workdir, name)
    with open(path, "w") as f:
        f.write(script_text)
    env = base_env()
    env["PYTHONPATH"] = workdir + os.pathsep + env["PYTHONPATH"]
    if pypath:
        env["PYTHONPATH"] = pypath + os.pathsep + env["PYTHONPATH"]
    if extra_env:
        env.update(extra_env)
    try:
        p = subprocess.run([PY, path] + list(args or []),
                           input=(json.dumps(stdin_obj) if stdin_obj is not None else None),
                           capture_output=True, text=True, env=env, cwd=workdir, timeout=timeout)
        rc, out, err = p.returncode, p.stdout, p.stderr
    except subprocess.TimeoutExpired as e:
        rc, out, err = -999, (e.stdout or b"").decode("utf8", "replace") if isinstance(e.stdout, bytes) else (e.stdout or ""), "TIMEOUT"
    js = None
    lines = out.strip().splitlines() if out else []
    if lines:
        try:
            js = json.loads(lines[-1])
        except Exception:
            js = None
    return {"rc": rc, "out": out, "err": err, "json": js}


def call_cases(workdir, cases, setup="", alarm=10, timeout=1800, extra_env=None, max_crashes=50,
               preload=None):
    """Run [[func_expr, args], ...] in fresh subprocess(es) with cwd=workdir (where the built
    .so files live).  Returns a list of result dicts, one per case; a case that kills the
    process yields {"e": "CRASH", "m": "signal N"}; the run resumes after it."""
    results = [None] * len(cases)
    start = 0
    crashes = 0
    env = base_env()
    env["PYTHONPATH"] = workdir + os.pathsep + env["PYTHONPATH"]
    if extra_env:
        env.update(extra_env)
    if preload:
        env["LD_PRELOAD"] = preload
    while start < len(cases):
        spec = {"setup": setup, "cases": cases, "start": start, "alarm": alarm}
        try:
            p = subprocess.run([PY, os.path.join(HERE, "callworker.py")], input=json.dumps(spec),
                               capture_output=True, text=True, env=env, cwd=workdir, timeout=timeout)
            rc, out, err = p.returncode, p.stdout, p.stderr
        except subprocess.TimeoutExpired as e:
            rc, out, err = -998, (e.stdout.decode("utf8", "replace") if isinstance(e.stdout, bytes) else (e.stdout or "")), "TIMEOUT"
        begun = None
        for line in out.splitlines():
            try:
                d = json.loads(line)
            except Exception:
                continue
            if "begin" in d:
                begun = d["i"]
            elif "i" in d:
                results[d["i"]] = d
                if begun == d["i"]:
                    begun = None
        if rc == 0 and all(r is not None for r in results[start:]):
            break
        # crashed (or setup failed): mark the case that had begun
        if begun is None:
            # died outside a case (setup/import failure): everything left is a harness error
            for i in range(start, len(cases)):
                if results[i] is None:
                    results[i] = {"i": i, "e": "WORKER", "m": "rc=%s %s" % (rc, err[-300:])}
            break
        sig = -rc if rc < 0 else rc
        results[begun] = {"i": begun, "e": "CRASH", "m": "signal/rc %s %s" % (sig, err[-200:].replace("\n", " "))}
        start = begun + 1
        crashes += 1
        if crashes > max_crashes:
            for i in range(start, len(cases)):
                if results[i] is None:
                    results[i] = {"i": i, "e": "WORKER", "m": "too many crashes"}
            break
    return results
