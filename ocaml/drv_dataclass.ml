(* driver for m_dataclass
   dec cyHM|py   (H = 1: repaired hash-is-None test, M = 1: repaired __match_args__ loop; cy00 = the code as it is)
             <opts: 8 x 0/1 init repr eq order unsafe_hash frozen match_args kw_only>
             <user: init repr eq hash(0 missing,1 None,2 def) match_args post_init>
             <fields: name:d:i:r:c:h:k:v separated by commas, or ->   d in n/v/f, h k in n/t/f
   ord <lt|le|gt|ge> <pairs x:y,...>   values: integer or N (None)       -> cy py   (T/F/E each)
   equ <pairs x:y,...>                 values: integer z or nz (nan with identity z) -> cy py *)
let b c = (c = '1')
let ob = function "n" -> None | "t" -> Some true | "f" -> Some false | _ -> failwith "ob"
let dk = function "n" -> DNone | "v" -> DValue | "f" -> DFactory | _ -> failwith "dk"
let parse_field s =
  match String.split_on_char ':' s with
  | [n; d; i; r; c; h; k; v] ->
      { f_name = n_of_string n; f_default = dk d; f_init = (i = "1"); f_repr = (r = "1"); f_cmp = (c = "1");
        f_hash = ob h; f_kw = ob k; f_initvar = (v = "1") }
  | _ -> failwith "field"
let parse_opts s =
  { o_init = b s.[0]; o_repr = b s.[1]; o_eq = b s.[2]; o_order = b s.[3]; o_unsafe_hash = b s.[4];
    o_frozen = b s.[5]; o_match_args = b s.[6]; o_kw_only = b s.[7] }
let parse_user s =
  { u_init = b s.[0]; u_repr = b s.[1]; u_eq = b s.[2];
    u_hash = (match s.[3] with '0' -> HMissing | '1' -> HNone | _ -> HDef);
    u_match_args = b s.[4]; u_post_init = b s.[5] }
let nl l = if l = [] then "_" else String.concat "." (List.map string_of_n l)
let onl = function None -> "-" | Some l -> nl l
let s_sig = function
  | SigNone -> "NONE"
  | SigErr n -> "ERR:" ^ string_of_n n
  | SigOk ps -> "OK:" ^ (if ps = [] then "_" else String.concat "." (List.map (fun ((n, k), d) ->
      string_of_n n ^ (match k with PPos -> "p" | PKw -> "k") ^ (if d then "1" else "0")) ps))
let s_hash = function HKeep -> "KEEP" | HSetNone -> "NONE" | HAdd l -> "ADD:" ^ nl l | HErr -> "ERR"
let s_src = function SParam -> "P" | SParamOrFactory -> "PF" | SDefault -> "D" | SFactory -> "F"
  | SUnset -> "U" | SZero -> "Z"
let s_body l = if l = [] then "_" else String.concat "." (List.map (fun (n, s) -> string_of_n n ^ "=" ^ s_src s) l)
let s_dec d =
  Printf.sprintf "rej=%s sig=%s repr=%s eq=%s ord=%s hash=%s match=%s body=%s post=%s"
    (string_of_bool d.d_rejected) (s_sig d.d_sig) (onl d.d_repr) (onl d.d_eq) (onl d.d_order)
    (s_hash d.d_hash) (onl d.d_match) (s_body d.d_body) (onl d.d_post)
let cop_of = function "lt" -> OLt | "le" -> OLe | "gt" -> OGt | "ge" -> OGe | _ -> failwith "cop"
let oz s = if s = "N" then None else Some (z_of_string s)
let nv s = if String.length s > 0 && s.[0] = 'n' then (true, z_of_string (String.sub s 1 (String.length s - 1)))
           else (false, z_of_string s)
let pairs f s = List.map (fun p -> match String.split_on_char ':' p with
  | [x; y] -> (f x, f y) | _ -> failwith "pair") (split_on ',' s)
let s_ob = function None -> "E" | Some true -> "T" | Some false -> "F"

let handle = function
  | ["dec"; who; o; u; fs] ->
      let fl = List.map parse_field (split_on ',' fs) in
      let f = if who = "py" then py_decide
              else if String.length who = 4 && String.sub who 0 2 = "cy" then cy_decide (who.[2] = '1') (who.[3] = '1')
              else failwith "who" in
      s_dec (f (parse_opts o) (parse_user u) fl)
  | ["ord"; c; ps] ->
      let l = pairs oz ps in
      s_ob (cy_order oz_ident oz_rel (cop_of c) l) ^ " " ^ s_ob (py_order oz_ident oz_ident oz_rel (cop_of c) l)
  | ["equ"; ps] ->
      let l = pairs nv ps in
      string_of_bool (cy_equal nv_eqv l) ^ " " ^ string_of_bool (py_equal nv_ident nv_eqv l)
  | _ -> "!ERR badcmd"

let () = main_loop handle
