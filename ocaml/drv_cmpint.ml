(* driver for m_cmpint (property C19, PyObjectCompare on two ints).
   row <cfg> <same> <x> <y>      -> <six results, operators < <= == != > >=; 1/0/U> <branch> <loop iterations>
   cmp <cfg> <op> <same> <x> <y> -> 1 | 0 | U          (U = undefined behaviour in the model)
   mem <cfg> <x>                 -> <lv_tag> <digits, little endian>     (3.12 layout)
   cfg: 312 | 311 | noint | ilp32 ; op: 0..5 in the order above ; x, y decimal *)

let cfg_of = function
  | "312" -> lp64_312 | "311" -> lp64_311 | "noint" -> lp64_noint | "ilp32" -> ilp32_15
  | s -> failwith ("cfg " ^ s)

let ops = [| OpLt; OpLe; OpEq; OpNe; OpGt; OpGe |]

let str_res = function Some true -> "1" | Some false -> "0" | None -> "U"

let handle = function
  | ["row"; c; same; x; y] ->
    let c = cfg_of c and same = bool_of_string same and x = z_of_string x and y = z_of_string y in
    let rs = Array.to_list (Array.map (fun op -> str_res (cmp_values c op same x y)) ops) in
    let (br, it) = branch_values c x y in
    String.concat "" rs ^ " " ^ string_of_z br ^ " " ^ string_of_z it
  | ["cmp"; c; op; same; x; y] ->
    str_res (cmp_values (cfg_of c) ops.(int_of_string op) (bool_of_string same) (z_of_string x) (z_of_string y))
  | ["mem"; c; x] ->
    let c = cfg_of c in
    let v = of_Z c.i_sh (z_of_string x) in
    string_of_z (tag v) ^ " " ^ string_of_zlist v.pl_digits
  | _ -> "!ERR badcmd"

let () = main_loop handle
