(* driver for m_cmpint (property C19, PyObjectCompare on two ints).
   row <cfg> <same> <x> <y>      -> <six results, operators < <= == != > >=; 1/0/U> <branch> <loop iterations>
   cmp <cfg> <op> <same> <x> <y> -> 1 | 0 | U          (U = undefined behaviour in the model)
   mem <cfg> <x>                 -> <lv_tag> <digits, little endian>     (3.12 layout)
   cfg: 312 | 311 | noint | ilp32 ; op: 0..5 in the order above ; x, y decimal.
   Operands: the sign/digit representation is cut out of the decimal text with zarith shifts (the
   extracted of_Z divides 1200-bit numbers bit by bit: too slow for the thorough tier) and then
   CERTIFIED by the extracted model itself: wfb (proved equivalent to wf) must hold and the
   extracted [value] must give back x, otherwise the line is an error.  So every evaluated call is
   cmp_exact on a pair that satisfies the hypotheses of C19_intint_identity_eq.  For operands of
   at most 8 digits the representation is also compared with the extracted of_Z. *)

let cfg_of = function
  | "312" -> lp64_312 | "311" -> lp64_311 | "noint" -> lp64_noint | "ilp32" -> ilp32_15
  | s -> failwith ("cfg " ^ s)

let ops = [| OpLt; OpLe; OpEq; OpNe; OpGt; OpGe |]

let str_res = function Some true -> "1" | Some false -> "0" | None -> "U"

let cache : (string * string, pylong) Hashtbl.t = Hashtbl.create 4096

let repr_of (c : icfg) (cname : string) (s : string) : pylong =
  match Hashtbl.find_opt cache (cname, s) with
  | Some r -> r
  | None ->
    let sh = ZA.to_int (zt_of_z c.i_sh) in
    let v = ZA.of_string s in
    let mask = ZA.pred (ZA.shift_left ZA.one sh) in
    let rec cut m = if ZA.sign m = 0 then [] else z_of_zt (ZA.logand m mask) :: cut (ZA.shift_right m sh) in
    let r = { pl_neg = ZA.sign v < 0; pl_digits = cut (ZA.abs v) } in
    let xz = z_of_zt v in
    if not (wfb c.i_sh r) then failwith ("representation not well-formed: " ^ s);
    if not (ZA.equal (zt_of_z (value c.i_sh r)) v) then failwith ("representation has another value: " ^ s);
    if List.length r.pl_digits <= 8 && of_Z c.i_sh xz <> r then failwith ("of_Z differs: " ^ s);
    Hashtbl.replace cache (cname, s) r; r

let handle = function
  | ["row"; cn; same; x; y] ->
    let c = cfg_of cn and same = bool_of_string same in
    let a = repr_of c cn x and b = repr_of c cn y in
    let rs = Array.to_list (Array.map (fun op -> str_res (cmp_exact c zop op same a b)) ops) in
    let br = branch_of c a b and it = loop_iters c.i_ssz a b (nat_of_int (List.length a.pl_digits)) Z0 in
    String.concat "" rs ^ " " ^ string_of_z br ^ " " ^ string_of_z it
  | ["cmp"; cn; op; same; x; y] ->
    let c = cfg_of cn in
    str_res (cmp_exact c zop ops.(int_of_string op) (bool_of_string same) (repr_of c cn x) (repr_of c cn y))
  | ["mem"; cn; x] ->
    let c = cfg_of cn in
    let v = repr_of c cn x in
    string_of_z (tag v) ^ " " ^ string_of_zlist v.pl_digits
  | _ -> "!ERR badcmd"

let () = main_loop handle
