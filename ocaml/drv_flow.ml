(* driver for m_flow.
   an <ne> <closureflags> <staticflags> <blocks>
     flags: string of 0/1 per entry ("-" if none)
     blocks: B0|B1|...   each block = parents/stats/bounded ; parents, bounded: comma lists of ints ("-" empty)
             stats: comma list of A<e> D<e> R<e> ("-" empty)
   answer: masks ; per block "gen,kill,in,out" ; per block stat bits ; per block classes (N/M/B)   or NONE (fuel) *)
let ints s = List.map int_of_string (split_on ',' s)
let nats s = List.map nat_of_int (ints s)
let flags s = if s = "-" then [] else List.init (String.length s) (fun i -> s.[i] = '1')
let stat_of s =
  let e = nat_of_int (int_of_string (String.sub s 1 (String.length s - 1))) in
  match s.[0] with 'A' -> SAssign e | 'D' -> SDel e | 'R' -> SRef e | _ -> failwith "stat"
let block_of s =
  match String.split_on_char '/' s with
  | [p; st; bd] -> { b_parents = nats p; b_stats = List.map stat_of (split_on ',' st); b_bounded = nats bd }
  | _ -> failwith "block"
let cls_char = function DefNull -> "N" | MaybeNull -> "M" | Bound -> "B"
let dash s = if s = "" then "-" else s
let handle = function
  | ["an"; ne; clo; sta; bl] ->
      let c = { c_ne = nat_of_int (int_of_string ne); c_closure = flags clo; c_static = flags sta;
                c_blocks = List.map block_of (String.split_on_char '|' bl) } in
      (match analyse c with
       | None -> "NONE"
       | Some r ->
           let rec zip3 a b c = match a, b, c with
             | x :: a', y :: b', z :: c' -> (x, y, z) :: zip3 a' b' c' | _ -> [] in
           let blocks = List.map (fun (rb, i, o) ->
               String.concat "," [string_of_n rb.r_gen; string_of_n rb.r_kill; string_of_n i; string_of_n o])
               (zip3 r.res_raw r.res_in r.res_out) in
           String.concat " " [
             string_of_nlist r.res_masks;
             String.concat "|" blocks;
             String.concat "|" (List.map (fun l -> dash (String.concat "," (List.map (fun k -> string_of_int (int_of_nat k)) l))) r.res_bits);
             String.concat "|" (List.map (fun l -> dash (String.concat "" (List.map cls_char l))) r.res_cls) ])
  | _ -> "!ERR badcmd"

let () = main_loop handle
