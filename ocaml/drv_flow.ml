(* driver for m_flow.
   an <ne> <closureflags> <staticflags> <blocks>
     flags: string of 0/1 per entry ("-" if none)
     blocks: B0|B1|...   each block = parents/stats/bounded ; parents, bounded: comma lists of ints ("-" empty)
             stats: comma list of A<e> D<e> R<e> ("-" empty)
   answer: masks ; per block "gen,kill,in,out" ; per block stat bits ; per block classes (N/M/B)   or NONE (fuel) *)
let ints s = List.map int_of_string (split_on ',' s)
let nats s = List.map nat_of_int (ints s)
let flags s = if s = "-" then [] else List.init (String.length s) (fun i -> s.[i] = '1')
let stat_of s =
  let e = nat_of_int (int_of_string (String.sub s 1 (String.length s - 1))) in
  match s.[0] with 'A' -> SAssign e | 'D' -> SDel e | 'R' -> SRef e | _ -> failwith "stat"
let block_of s =
  match String.split_on_char '/' s with
  | [p; st; bd] -> { b_parents = nats p; b_stats = List.map stat_of (split_on ',' st); b_bounded = nats bd }
  | _ -> failwith "block"
(* ---- CFG construction (M_FlowCFG)
   cfg <fx> <ne> <args: l.e,l.e,...> <program: comma separated prefix tokens>
     S skip | C call | R l e | A l e | D l e ign | Q a b | I n (l e)*n th hasel el
     L isfor n (l e)*n m (l e)*m body hasel el | T body hasel el n handler*n | F body fexc fnorm
     B break | K continue | X return | Z raise ;  handler = hastg tl te body
   answer: "<wf> <graph_ok> <nblocks> <stat>;<stat>;..." in creation order,
           stat = label:kind:entry:block:class   (class N/M/B, X = block detached)  or NONE *)
let parse_prog (toks : string list) : stmt =
  let r = ref toks in
  let next () = match !r with t :: tl -> r := tl; t | [] -> failwith "eof" in
  let nat () = nat_of_int (int_of_string (next ())) in
  let bool () = (next () = "1") in
  let rec refs n = if n = 0 then [] else let l = nat () in let e = nat () in (l, e) :: refs (n - 1) in
  let reflist () = let n = int_of_string (next ()) in refs n in
  let rec stmt () =
    match next () with
    | "S" -> Skip | "C" -> Call
    | "R" -> let l = nat () in let e = nat () in Ref (l, e)
    | "A" -> let l = nat () in let e = nat () in Asg (l, e)
    | "D" -> let l = nat () in let e = nat () in let i = bool () in Del (l, e, i)
    | "Q" -> let a = stmt () in let b = stmt () in Seq (a, b)
    | "I" -> let c = reflist () in let th = stmt () in let h = bool () in let el = stmt () in If (c, th, h, el)
    | "L" -> let f = bool () in let c = reflist () in let tg = reflist () in let b = stmt () in
             let h = bool () in let el = stmt () in Loop (f, c, tg, b, h, el)
    | "T" -> let b = stmt () in let h = bool () in let el = stmt () in
             let n = int_of_string (next ()) in
             let rec hs k = if k = 0 then HNil else
               let ht = bool () in let tl = nat () in let te = nat () in
               let hb = stmt () in let rest = hs (k - 1) in HCons (ht, tl, te, hb, rest) in
             let h' = hs n in Try (b, h, el, h')
    | "F" -> let b = stmt () in let fe = stmt () in let fn = stmt () in TryFin (b, fe, fn)
    | "B" -> Break | "K" -> Continue | "X" -> Return | "Z" -> Raise
    | t -> failwith ("tok " ^ t) in
  let s = stmt () in
  if !r <> [] then failwith "trailing"; s

let cfg_cmd fx ne args prog =
  let fx = (fx = "1") in
  let ne = nat_of_int (int_of_string ne) in
  let args = List.map (fun s -> match String.split_on_char '.' s with
      | [l; e] -> (nat_of_int (int_of_string l), nat_of_int (int_of_string e)) | _ -> failwith "arg")
      (split_on ',' args) in
  let body = parse_prog (String.split_on_char ',' prog) in
  let (st, ro) = run_cfg fx ne args body in
  match ro with
  | None -> "NONE"
  | Some r ->
      let cnt = Hashtbl.create 16 in
      let one (b, s) =
        let bi = int_of_nat b in
        let k = try Hashtbl.find cnt bi with Not_found -> 0 in
        Hashtbl.replace cnt bi (k + 1);
        let (l, kind, e) = match s with LRef (l, e) -> (l, "R", e) | LAsg (l, e) -> (l, "A", e)
                                      | LDel (l, e) -> (l, "D", e) in
        let c = match cls_at ne st r b (nat_of_int k) with
          | None -> "X" | Some DefNull -> "N" | Some MaybeNull -> "M" | Some Bound -> "B" in
        Printf.sprintf "%d:%s:%d:%d:%s" (int_of_nat l) kind (int_of_nat e) bi c in
      let items = List.map one (List.rev st.sts) in
      String.concat " " [ string_of_bool (wf false body); string_of_bool (graph_ok ne st);
                          string_of_int (int_of_nat st.nb);
                          if items = [] then "-" else String.concat ";" items ]

let cls_char = function DefNull -> "N" | MaybeNull -> "M" | Bound -> "B"
let dash s = if s = "" then "-" else s
let handle = function
  | ["an"; ne; clo; sta; bl] ->
      let c = { c_ne = nat_of_int (int_of_string ne); c_closure = flags clo; c_static = flags sta;
                c_blocks = List.map block_of (String.split_on_char '|' bl) } in
      (match analyse c with
       | None -> "NONE"
       | Some r ->
           let rec zip3 a b c = match a, b, c with
             | x :: a', y :: b', z :: c' -> (x, y, z) :: zip3 a' b' c' | _ -> [] in
           let blocks = List.map (fun (rb, i, o) ->
               String.concat "," [string_of_n rb.r_gen; string_of_n rb.r_kill; string_of_n i; string_of_n o])
               (zip3 r.res_raw r.res_in r.res_out) in
           String.concat " " [
             string_of_nlist r.res_masks;
             String.concat "|" blocks;
             String.concat "|" (List.map (fun l -> dash (String.concat "," (List.map (fun k -> string_of_int (int_of_nat k)) l))) r.res_bits);
             String.concat "|" (List.map (fun l -> dash (String.concat "" (List.map cls_char l))) r.res_cls) ])
  | ["cfg"; fx; ne; args; prog] -> cfg_cmd fx ne args prog
  | _ -> "!ERR badcmd"

let () = main_loop handle
