(* driver for m_deptree
   tables:  "k:a,b;k2:;..."  ("-" = empty table);  int lists: "a,b,c" ("-" = empty)
   run <fuel|auto> <out> <ext> <queries>          -> OK <ans>|<ans>... # <cache>   or FAIL
   helper <fuel|auto> <out> <ext> <n> <seen> <stack(k:depth;..)>
                                                   -> OK <deps> <loop|None> # <cache> | OUTOFFUEL | KEYERROR
   newest <out> <ext> <ts table> <q>              -> max timestamp over all_dependencies(q) | VALUEERROR
   rebuild <force> <c_ts> <ts table k:t;..> <source> <deps> -> 1 | 0 | VALUEERROR
   answers are printed as sorted duplicate-free lists (sets are compared extensionally). *)
let ints_of s = if s = "-" || s = "" then [] else List.map int_of_string (String.split_on_char ',' s)
let nats_of s = List.map nat_of_int (ints_of s)

let entries s =
  if s = "-" || s = "" then []
  else List.map (fun e ->
      match String.index_opt e ':' with
      | None -> failwith "entry"
      | Some i -> (String.sub e 0 i, String.sub e (i + 1) (String.length e - i - 1)))
    (String.split_on_char ';' s)

let table_of s = List.map (fun (k, v) -> (nat_of_int (int_of_string k), nats_of v)) (entries s)
let stack_of s = List.map (fun (k, v) -> (nat_of_int (int_of_string k), nat_of_int (int_of_string v))) (entries s)

let set_str (l : nat list) =
  let l = List.sort_uniq compare (List.map int_of_nat l) in
  if l = [] then "-" else String.concat "," (List.map string_of_int l)

(* a dict: for duplicate keys the first (most recent) binding is the live one *)
let cache_str (c : (nat * nat list) list) =
  let rec dedup seen = function
    | [] -> []
    | (k, v) :: t -> let k = int_of_nat k in
      if List.mem k seen then dedup seen t else (k, v) :: dedup (k :: seen) t in
  let l = List.sort compare (List.map (fun (k, v) -> (k, set_str v)) (dedup [] c)) in
  if l = [] then "-" else String.concat ";" (List.map (fun (k, v) -> string_of_int k ^ ":" ^ v) l)

let fuel_of s out = if s = "auto" then fuel_for (List.map fst out) else nat_of_int (int_of_string s)

let handle = function
  | ["run"; fuel; out; ext; qs] ->
      let out = table_of out and ext = table_of ext in
      (match run_table out ext (fuel_of fuel out) (nats_of qs) with
       | QOk (ans, seen) -> "OK " ^ String.concat "|" (List.map set_str ans) ^ " # " ^ cache_str seen
       | QFail -> "FAIL")
  | ["helper"; fuel; out; ext; n; seen; stack] ->
      let out = table_of out and ext = table_of ext in
      (match helper_table out ext (fuel_of fuel out) (nat_of_int (int_of_string n)) (table_of seen) (stack_of stack) with
       | Ok (deps, loop, seen1) ->
           "OK " ^ set_str deps ^ " " ^ (match loop with None -> "None" | Some l -> string_of_int (int_of_nat l))
           ^ " # " ^ cache_str seen1
       | OutOfFuel -> "OUTOFFUEL"
       | KeyError -> "KEYERROR")
  | ["newest"; out; ext; ts; q] ->
      (* newest_dependency(q)[0]: all_dependencies on a fresh tree, then max of the timestamps *)
      let out = table_of out and ext = table_of ext in
      let tst = List.map (fun (k, v) -> (int_of_string k, z_of_string v)) (entries ts) in
      let tsf n = (try List.assoc (int_of_nat n) tst with Not_found -> failwith "no timestamp") in
      (match run_table out ext (fuel_of "auto" out) [nat_of_int (int_of_string q)] with
       | QOk ([d], _) -> (match newest tsf d with None -> "VALUEERROR" | Some t -> string_of_z t)
       | _ -> "FAIL")
  | ["rebuild"; force; c_ts; ts; source; deps] ->
      let tst = List.map (fun (k, v) -> (int_of_string k, z_of_string v)) (entries ts) in
      let tsf n = (try List.assoc (int_of_nat n) tst with Not_found -> failwith "no timestamp") in
      (match rebuild_decision (bool_of_string force) (z_of_string c_ts) tsf (nat_of_int (int_of_string source)) (nats_of deps) with
       | None -> "VALUEERROR"
       | Some b -> string_of_bool b)
  | _ -> "!ERR badcmd"

let () = main_loop handle
