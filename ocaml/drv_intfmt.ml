(* driver for m_intfmt:
     fmt <w> <s> <value> <width> <pad> <fc>      -> "T c1,c2,..." | "E <err>"
     pyfmt <value> <width> <fill> <fc>           -> "T c1,c2,..."
     uchar <fixed> <w> <s> <value> <width> <pad> -> "T ..." | OverflowError | ValueError | UnicodeDecodeError
     pychar <value> <width> <pad>                -> "T ..." | OverflowError
     ucharb <fixed> <w> <s> <value> <width> <pad> -> same, byte-level model (UTF-8 encode/decode, chars[256])
     utf8enc <v>                                 -> bytes of the C encoder branches | utf8ref <cp> -> RFC 3629 bytes
     padconsts                                   -> ENC2_LIMIT,ENC3_LIMIT,LATIN1_MAX,PAD_LIMIT,CHARS_SIZE,SURR_LO,SURR_HI
     utf8dec <bytes>                             -> "T cps" | UnicodeDecodeError
     parse <b> <codes>                           -> value
     tables                                      -> the three tables *)
let string_of_err = function
  | ErrBufferOverflow -> "BufferOverflow" | ErrTableIndex -> "TableIndex" | ErrOutOfFuel -> "OutOfFuel"
  | ErrAssert -> "Assert" | ErrReadOutside -> "ReadOutside" | ErrWriteOutside -> "WriteOutside"
let string_of_result = function
  | Text l -> "T " ^ string_of_zlist l
  | Err e -> "E " ^ string_of_err e
let string_of_cres = function
  | CText l -> "T " ^ string_of_zlist l
  | COverflowError -> "OverflowError" | CValueError -> "ValueError"
  | CUnicodeDecodeError -> "UnicodeDecodeError" | CAbort -> "CRASH"
  | CBufferOverflow -> "BufferOverflow"
let z = z_of_string
let handle = function
  | ["fmt"; w; s; v; width; pad; fc] ->
      string_of_result (cint_to_unicode (z w) (bool_of_string s) (z v) (z width) (z pad) (z fc))
  | ["pyfmt"; v; width; fill; fc] -> "T " ^ string_of_zlist (py_format_int (z v) (z width) (z fill) (z fc))
  | ["uchar"; fx; w; s; v; width; pad] ->
      string_of_cres (uchar_to_unicode (bool_of_string fx) (z w) (bool_of_string s) (z v) (z width) (z pad))
  | ["ucharb"; fx; w; s; v; width; pad] ->
      string_of_cres (uchar_to_unicode_b (bool_of_string fx) (z w) (bool_of_string s) (z v) (z width) (z pad))
  | ["padconsts"] -> string_of_zlist padded_consts
  | ["utf8enc"; v] -> string_of_zlist (utf8_enc_c (z v))
  | ["utf8ref"; v] -> string_of_zlist (utf8_ref (z v))
  | ["utf8dec"; l] -> (match utf8_decode (if l = "-" then [] else zlist_of_string l) with
                       | Some cps -> "T " ^ string_of_zlist cps | None -> "UnicodeDecodeError")
  | ["pychar"; v; width; pad] -> string_of_cres (py_format_char (z v) (z width) (z pad))
  | ["parse"; b; l] -> string_of_z (parse_base (z b) (zlist_of_string l))
  | ["bufsize"; w] -> string_of_z (buf_size (z w))
  | ["tables"] -> string_of_zlist dIGIT_PAIRS_10 ^ " " ^ string_of_zlist dIGIT_PAIRS_8 ^ " " ^ string_of_zlist dIGITS_HEX
  | _ -> "!ERR badcmd"

let () = main_loop handle
