(* driver for m_shadowcast.
     type token : <layers>:<cls>    cls = i | f | o<k> | n
     value token: N | I<z> | F<s>:<m>:<e> | Inf<s> | Nan | O<c>:<id> | W<c>:<n>
     cast <type> <value>*       -> V <value> | E <name>
     declare <type> [<value>]   -> same
     ctrunc <s> <m> <e>         -> integer (the C conversion)                      *)
let ty_of_string s =
  match String.split_on_char ':' s with
  | [k; c] ->
      let b = if c = "i" then TClass KInt else if c = "f" then TClass KFloat
        else if c = "n" then TNon
        else TClass (KOther (z_of_string (String.sub c 1 (String.length c - 1)))) in
      wrapn (nat_of_int (int_of_string k)) b
  | _ -> failwith "type"

let rest s k = String.sub s k (String.length s - k)

let val_of_string s =
  if s = "N" then VNone
  else if s = "Nan" then VNan
  else if String.length s > 3 && String.sub s 0 3 = "Inf" then VInf (bool_of_string (rest s 3))
  else match s.[0] with
    | 'I' -> VInt (z_of_string (rest s 1))
    | 'F' -> (match String.split_on_char ':' (rest s 1) with
              | [sg; m; e] -> VFloat (bool_of_string sg, z_of_string m, z_of_string e)
              | _ -> failwith "float")
    | 'O' -> (match String.split_on_char ':' (rest s 1) with
              | [c; i] -> VOther (z_of_string c, z_of_string i) | _ -> failwith "other")
    | 'W' -> (match String.split_on_char ':' (rest s 1) with
              | [c; i] -> VNew (z_of_string c, z_of_string i) | _ -> failwith "new")
    | _ -> failwith "value"

let string_of_val = function
  | VNone -> "N"
  | VInt z -> "I" ^ string_of_z z
  | VFloat (s, m, e) -> "F" ^ string_of_bool s ^ ":" ^ string_of_z m ^ ":" ^ string_of_z e
  | VInf s -> "Inf" ^ string_of_bool s
  | VNan -> "Nan"
  | VOther (c, i) -> "O" ^ string_of_z c ^ ":" ^ string_of_z i
  | VNew (c, n) -> "W" ^ string_of_z c ^ ":" ^ string_of_z n

let string_of_res = function
  | RVal v -> "V " ^ string_of_val v
  | RErr TypeError -> "E TypeError"
  | RErr ValueError -> "E ValueError"
  | RErr OverflowError -> "E OverflowError"
  | RErr IndexError -> "E IndexError"

let handle = function
  | "cast" :: t :: vs -> string_of_res (cast (ty_of_string t) (List.map val_of_string vs))
  | ["declare"; t] -> string_of_res (declare (ty_of_string t) None)
  | ["declare"; t; v] -> string_of_res (declare (ty_of_string t) (Some (val_of_string v)))
  | ["ctrunc"; s; m; e] -> string_of_z (c_trunc (bool_of_string s) (z_of_string m) (z_of_string e))
  | _ -> "!ERR badcmd"

let () = main_loop handle
