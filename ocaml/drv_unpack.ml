(* driver for m_unpack:
     cy <st> <target> <val>      st = o|l|t|b (static type of the rhs: object/list/tuple/other builtin)
     ref <target> <val>
     items <fx> <target> <val>   for k, v in obj.items(): top level through __Pyx_unpack_tuple2
   <target> = n <x> | q <k> target*k <-|x> <k> target*k
   <val>    = a <z> | s <kind> <id> <logs> <end> <k> val*k | S <kind> <id> <logs> <end> <k> store*k <k> val*k
   kind = t|l|u|o (tuple/list/tuple subclass/other), end = s|r (StopIteration / raises)
   answer: <events> ; <result>   events: N<id> (observable next-call), B<x>=<value> *)
exception Parse of string

let toks = ref ([] : string list)
let next () = match !toks with [] -> raise (Parse "eof") | t :: r -> toks := r; t
let rec rep k f = if k <= 0 then [] else let x = f () in x :: rep (k - 1) f
let p_int () = int_of_string (next ())
let p_nat () = nat_of_int (p_int ())
let p_kind () = match next () with
  | "t" -> KTuple | "l" -> KList | "u" -> KTupleSub | "o" -> KOther | t -> raise (Parse ("kind " ^ t))
let p_end () = match next () with "s" -> EndStop | "r" -> EndRaise | t -> raise (Parse ("end " ^ t))
let p_hdr () =
  let k = p_kind () in let i = p_nat () in let lg = (next () = "1") in let e = p_end () in
  { h_kind = k; h_id = i; h_logs = lg; h_end = e }
let rec p_val () = match next () with
  | "a" -> VAtom (z_of_string (next ()))
  | "s" -> let h = p_hdr () in let k = p_int () in let it = rep k p_val in VSeq (h, it, it)
  | "S" -> let h = p_hdr () in let k = p_int () in let st = rep k p_val in
           let k2 = p_int () in let it = rep k2 p_val in VSeq (h, st, it)
  | t -> raise (Parse ("val " ^ t))
let rec p_target () = match next () with
  | "n" -> TName (p_nat ())
  | "q" -> let k = p_int () in let ls = rep k p_target in
           let star = (match next () with "-" -> None | x -> Some (nat_of_int (int_of_string x))) in
           let k2 = p_int () in let rs = rep k2 p_target in TSeq (ls, star, rs)
  | t -> raise (Parse ("target " ^ t))
let p_st () = match next () with
  | "o" -> SObj | "l" -> SList | "t" -> STuple | "b" -> SBuiltin | t -> raise (Parse ("stype " ^ t))

let rec s_val = function
  | VAtom z -> "a" ^ string_of_z z
  | VSeq (h, _, items) ->
      if int_of_nat h.h_id <> 0 then "o" ^ string_of_int (int_of_nat h.h_id)
      else "l[" ^ String.concat "," (List.map s_val items) ^ "]"
let s_event = function
  | EvNext i -> "N" ^ string_of_int (int_of_nat i)
  | EvBind (x, v) -> "B" ^ string_of_int (int_of_nat x) ^ "=" ^ s_val v
let s_events l = if l = [] then "-" else String.concat " " (List.map s_event l)
let si n = string_of_int (int_of_nat n)
let s_cexn = function
  | CTypeError -> "TypeError" | CNeedMore g -> "NeedMore:" ^ si g | CTooMany e -> "TooMany:" ^ si e
  | CIterExc i -> "Iter:" ^ si i | COutOfBounds -> "OOB"
let s_rexn = function
  | RTypeError -> "TypeError"
  | RNotEnough (e, al, g) -> "NotEnough:" ^ si e ^ ":" ^ (if al then "1" else "0") ^ ":" ^ si g
  | RTooMany e -> "TooMany:" ^ si e | RIterExc i -> "Iter:" ^ si i
let s_ares f = function ADone -> "ok" | AExc e -> "E:" ^ f e | AStuck -> "STUCK"
let s_out f (ev, a) = s_events ev ^ " ; " ^ s_ares f a

let fin x = if !toks <> [] then raise (Parse "trailing") else x

let handle ws =
  try
    match ws with
    | "cy" :: rest -> toks := rest;
        let st = p_st () in let t = p_target () in let v = fin (p_val ()) in s_out s_cexn (cy_assign st t v)
    | "ref" :: rest -> toks := rest;
        let t = p_target () in let v = fin (p_val ()) in s_out s_rexn (ref_assign t v)
    | "items" :: fx :: rest -> toks := rest;
        let t = p_target () in let v = fin (p_val ()) in
        s_out s_cexn (cy_items_assign (bool_of_string fx) t v)
    | _ -> "!ERR badcmd"
  with Parse m -> "!ERR parse " ^ m | Failure m -> "!ERR " ^ m

let () = main_loop handle
