(* driver for m_buffmt
   check <fx3bits> <hexfmt> <tisize> <fields> <itemsize>
       fields: g:sz:off:dims joined by '/', dims joined by '.', "-" = no dims; a segment may end in *K
               (K members at off, off+sz, ...)
       -> Accept | Reject | OOB | NullDeref | IntOvf | OutOfFuel
   spec <P body | R pre body post> ... <tisize> <fields> <itemsize>
       tokens joined by ',' ("-" = none): w<code> mN mS0 mS1 mU mB0 mB1 n<hex> i<digits>_<code> p<digits>
               a token may end in *n (n copies)
       -> <hex of rendered string> <0|1 spec_accept> <layout k:sz:off;... | None>
   specq P <toks> <tisize> <fields> <itemsize>
       -> <length of rendered string> <0|1> <None | nitems end first last>   (long layouts)
   pnum <hexstring>   -> None | <n> <length of rest> | IntOvf          (parse_number)
   dec <n>            -> hex of (decimal n)
   tcheck <fx3bits> <deep><grand> <hexfmt> <tree> <itemsize>     (check_tree: the struct-stack checker)
       tree: l<g>:<sz>:<dims>  |  s<size>[<tree>@<off>;<tree>@<off>;...]
       -> Accept | Reject | ...
   twalk <deep><grand> <tree>  -> members the struct stack visits  g:sz:off:dims/...  (or the error)
   tflat <tree>                -> flatten tree 0 in the same notation
   ticmp <fixh> <cinfo a> <cinfo b>   -> 0 | 1      (__pyx_typeinfo_cmp(a, b))
       cinfo: c<size>:<group>:<unsigned>:<dims>:<flags>  optionally followed by [<cinfo>@<off>;...]
   ticompat <cinfo a> <cinfo b>       -> 0 | 1      (cinfo_compat: the specification)
   axes <n|c|f> <axes: S strided, C contig (::1), F follow> <itemsize> <shape,..> <strides,..>  -> 0 | 1   (validate_axes) *)
let zl_of_bytes s = List.map z_of_int (ints_of_hex s)
let leaf_of s =
  match String.split_on_char ':' s with
  | [g; sz; o; dims] ->
      let d = if dims = "-" then [] else List.map z_of_string (String.split_on_char '.' dims) in
      ({ l_group = z_of_string g; l_size = z_of_string sz; l_arr = d }, z_of_string o)
  | _ -> failwith "leaf"
(* a field segment may carry a repeat suffix "g:sz:off:dims*K": K members at off, off+sz, ... *)
let leaves_of s =
  match String.index_opt s '*' with
  | None -> [leaf_of s]
  | Some k ->
      let (l, o) = leaf_of (String.sub s 0 k) in
      let n = int_of_string (String.sub s (k + 1) (String.length s - k - 1)) in
      let o0 = int_of_z o and sz = int_of_z l.l_size in
      List.init n (fun i -> (l, z_of_int (o0 + i * sz)))
let ti_of size fields =
  { ti_fields = List.concat_map leaves_of (String.split_on_char '/' fields); ti_size = z_of_string size; ti_flags = Z0 }
let fx_of s = { fx_name = s.[0] = '1'; fx_arrws = s.[1] = '1'; fx_null = s.[2] = '1' }
let string_of_res = function
  | Ok _ -> "Accept" | Err -> "Reject" | OOB -> "OOB" | NullDeref -> "NullDeref"
  | IntOvf -> "IntOvf" | OutOfFuel -> "OutOfFuel"
let code_of = function
  | "c" -> Cc | "b" -> Cb | "B" -> CB | "h" -> Ch | "H" -> CH | "i" -> Ci | "I" -> CI
  | "l" -> Cl | "L" -> CL | "q" -> Cq | "Q" -> CQ | "?" -> Cbool | "f" -> Cf | "d" -> Cd
  | "g" -> Cg | "Zf" -> CZf | "Zd" -> CZd | "Zg" -> CZg | _ -> failwith "code"
let digits_of s = List.init (String.length s) (fun i -> z_of_int (Char.code s.[i]))
let tok_of s =
  let rest = String.sub s 1 (String.length s - 1) in
  match s.[0] with
  | 'w' -> TWs (z_of_string rest)
  | 'm' -> (match rest with
            | "N" -> TMode (MNative, false) | "S0" -> TMode (MStd, false) | "S1" -> TMode (MStd, true)
            | "U" -> TMode (MUnaligned, false) | "B0" -> TMode (MBig, false) | "B1" -> TMode (MBig, true)
            | _ -> failwith "mode")
  | 'n' -> TName (zl_of_bytes rest)
  | 'i' -> (match String.index_opt rest '_' with
            | Some k -> TItem (digits_of (String.sub rest 0 k),
                               code_of (String.sub rest (k + 1) (String.length rest - k - 1)))
            | None -> failwith "item")
  | 'p' -> TPad (digits_of rest)
  | _ -> failwith "tok"
(* a token may carry a repeat suffix "tok*n" (n copies) *)
let toks1_of s =
  match String.index_opt s '*' with
  | None -> [tok_of s]
  | Some k -> let t = tok_of (String.sub s 0 k) in
              List.init (int_of_string (String.sub s (k + 1) (String.length s - k - 1))) (fun _ -> t)
let toks_of s = if s = "-" then [] else List.concat_map toks1_of (String.split_on_char ',' s)
let kind_str = function KChar -> "H" | KInt -> "I" | KUInt -> "U" | KReal -> "R" | KComplex -> "C"
let spec_out f size fields isz =
  let ti = ti_of size fields in
  let r = hex_of_zbytes (render f) in
  let a = if spec_accept f ti (z_of_string isz) then "1" else "0" in
  let l = match layout (fmt_toks f) MNative Z0 with
    | None -> "None"
    | Some (items, e) ->
        let s = String.concat ";" (List.map (fun ((k, sz), o) ->
                  kind_str k ^ ":" ^ string_of_z sz ^ ":" ^ string_of_z o) items) in
        (if s = "" then "-" else s) ^ " " ^ string_of_z e in
  r ^ " " ^ a ^ " " ^ l
(* compact form for long layouts: <sha-free summary> = item count, end offset, first and last item *)
let specq_out f size fields isz =
  let ti = ti_of size fields in
  let a = if spec_accept f ti (z_of_string isz) then "1" else "0" in
  let it ((k, sz), o) = kind_str k ^ ":" ^ string_of_z sz ^ ":" ^ string_of_z o in
  let l = match layout (fmt_toks f) MNative Z0 with
    | None -> "None"
    | Some (items, e) ->
        let n = List.length items in
        string_of_int n ^ " " ^ string_of_z e ^ " " ^
        (if n = 0 then "- -" else it (List.hd items) ^ " " ^ it (List.nth items (n - 1))) in
  string_of_int (List.length (render f)) ^ " " ^ a ^ " " ^ l
let pnum_out h =
  match parse_number (zl_of_bytes h) with
  | Ok None -> "None"
  | Ok (Some (n, r)) -> string_of_z n ^ " " ^ string_of_int (List.length r)
  | IntOvf -> "IntOvf"
  | _ -> "!ERR pnum"
(* ---- nested struct dtypes ---- *)
let parse_tree (s : string) : ttype =
  let n = String.length s in
  let pos = ref 0 in
  let peek () = if !pos < n then s.[!pos] else '\000' in
  let upto stops =
    let st = !pos in
    while !pos < n && not (List.mem s.[!pos] stops) do incr pos done;
    String.sub s st (!pos - st) in
  let rec tree () =
    match peek () with
    | 'l' -> incr pos;
        let body = upto ['@'; ';'; ']'] in
        (match String.split_on_char ':' body with
         | [g; sz; dims] ->
             let d = if dims = "-" then [] else List.map z_of_string (String.split_on_char '.' dims) in
             TLeaf { l_group = z_of_string g; l_size = z_of_string sz; l_arr = d }
         | _ -> failwith "tleaf")
    | 's' -> incr pos;
        let size = upto ['['] in
        incr pos;
        let fs = ref [] in
        while peek () <> ']' do
          let t = tree () in
          if peek () <> '@' then failwith "tree@";
          incr pos;
          let o = upto [';'; ']'] in
          fs := (t, z_of_string o) :: !fs;
          if peek () = ';' then incr pos
        done;
        incr pos;
        TStruct (z_of_string size, List.rev !fs)
    | _ -> failwith "tree" in
  let t = tree () in
  if !pos <> n then failwith "tree-trailing";
  t
let members_str l =
  let one (lf, o) =
    string_of_z lf.l_group ^ ":" ^ string_of_z lf.l_size ^ ":" ^ string_of_z o ^ ":" ^
    (if lf.l_arr = [] then "-" else String.concat "." (List.map string_of_z lf.l_arr)) in
  if l = [] then "-" else String.concat "/" (List.map one l)
let twalk_out v tree =
  match walk (v.[0] = '1') (v.[1] = '1') (parse_tree tree) with
  | Ok l -> members_str l
  | r -> string_of_res r
let parse_cinfo (s : string) : cinfo =
  let n = String.length s in
  let pos = ref 0 in
  let peek () = if !pos < n then s.[!pos] else '\000' in
  let upto stops =
    let st = !pos in
    while !pos < n && not (List.mem s.[!pos] stops) do incr pos done;
    String.sub s st (!pos - st) in
  let rec ci () =
    if peek () <> 'c' then failwith "cinfo";
    incr pos;
    let body = upto ['['; '@'; ';'; ']'] in
    let (size, g, u, dims, fl) =
      match String.split_on_char ':' body with
      | [a; b; c; d; e] -> (a, b, c, d, e)
      | _ -> failwith "cinfo-fields" in
    let d = if dims = "-" then [] else List.map z_of_string (String.split_on_char '.' dims) in
    let fields =
      if peek () = '[' then begin
        incr pos;
        let fs = ref [] in
        while peek () <> ']' do
          let t = ci () in
          if peek () <> '@' then failwith "cinfo@";
          incr pos;
          let o = upto [';'; ']'] in
          fs := (t, z_of_string o) :: !fs;
          if peek () = ';' then incr pos
        done;
        incr pos;
        Some (List.rev !fs)
      end else None in
    CInfo (z_of_string size, z_of_string g, z_of_string u, d, z_of_string fl, fields) in
  let t = ci () in
  if !pos <> n then failwith "cinfo-trailing";
  t
let zcsv s = if s = "" then [] else List.map z_of_string (String.split_on_char ',' s)
let axes_out fl spec isz shape strides =
  let ax = List.init (String.length spec) (fun i ->
    match spec.[i] with 'S' -> AStrided | 'C' -> AContig | 'F' -> AFollow | _ -> failwith "axis") in
  let f = match fl with "c" -> FC | "f" -> FF | _ -> FNone in
  if validate_axes ax f (z_of_string isz) (zcsv shape) (zcsv strides) then "1" else "0"
let handle = function
  | ["axes"; fl; spec; isz; shape; strides] -> axes_out fl spec isz shape strides
  | ["ticmp"; fixh; a; b] -> if ticmp (fixh = "1") (parse_cinfo a) (parse_cinfo b) then "1" else "0"
  | ["ticompat"; a; b] -> if cinfo_compat (parse_cinfo a) (parse_cinfo b) then "1" else "0"
  | ["tcheck"; fx; v; h; tree; isz] ->
      string_of_res (check_tree (fx_of fx) (v.[0] = '1') (v.[1] = '1') (zl_of_bytes h) (parse_tree tree) (z_of_string isz))
  | ["twalk"; v; tree] -> twalk_out v tree
  | ["tflat"; tree] -> members_str (flatten (parse_tree tree) Z0)
  | ["pnum"; h] -> pnum_out (if h = "-" then "" else h)
  | ["dec"; n] -> hex_of_zbytes (decimal (z_of_string n))
  | ["specq"; "P"; body; size; fields; isz] -> specq_out (FPlain (toks_of body)) size fields isz
  | ["check"; fx; h; size; fields; isz] ->
      string_of_res (check (fx_of fx) (zl_of_bytes h) (ti_of size fields) (z_of_string isz))
  | ["spec"; "P"; body; size; fields; isz] -> spec_out (FPlain (toks_of body)) size fields isz
  | ["spec"; "R"; pre; body; post; size; fields; isz] ->
      spec_out (FRec (toks_of pre, toks_of body, toks_of post)) size fields isz
  | _ -> "!ERR badcmd"

let () = main_loop handle
