(* driver for m_cmpfold (property C19, constant folding of comparison chains).
   operand   id:log:res:const        res = v<val> | x<exn>
   fold <tail_fix> <drop_left> <e0> <links> <cttab> <cmptab> <truthtab> <loud>
        links = op,operand;...   cttab = op,a,b,t|f;...   cmptab = op,a,b,res;...
        truthtab = v,t|f|x<exn>;...   loud = v,v,...     True = value 2, False = value 5
   answer: <nodes> | <obs trace of the folded chain> | <outcome> | <obs trace of the reference> | <outcome>
        nodes = node&node...   node = B0 | B1 | C<id>(op.id,op.id...)
   notfold <tail_fix> <e0> <links> <cttab> <cmptab> <truthtab> <loud>      not (<chain>): _handle_NotNode
        nodes = N(nodes) when the NotNode is kept *)

let split c s = if s = "" || s = "-" then [] else String.split_on_char c s
let zs = z_of_string
let sz = string_of_z
let bs = bool_of_string
let zeq a b = ZA.equal (zt_of_z a) (zt_of_z b)

let parse_res s : (val0, exn) sum =
  let n = String.sub s 1 (String.length s - 1) in
  if s.[0] = 'v' then Inl (zs n) else Inr (zs n)

let parse_fop s : cfop =
  match String.split_on_char ':' s with
  | [id; lg; r; c] -> { f_op = { o_id = zs id; o_log = bs lg; o_res = parse_res r }; f_const = bs c }
  | _ -> failwith ("operand " ^ s)

let parse_links s = List.map (fun l ->
    match String.split_on_char ',' l with
    | [op; e] -> (zs op, parse_fop e)
    | _ -> failwith "link") (split ';' s)

let parse_cttab s =
  let t = List.map (fun e -> match String.split_on_char ',' e with
      | [op; a; b; r] -> ((zs op, zs a, zs b), r = "t")
      | _ -> failwith "cttab") (split ';' s) in
  fun op a b ->
    (try Some (snd (List.find (fun ((o, x, y), _) -> zeq o op && zeq x a && zeq y b) t))
     with Not_found -> None)

let parse_cmptab s =
  let t = List.map (fun e -> match String.split_on_char ',' e with
      | [op; a; b; r] -> ((zs op, zs a, zs b), parse_res r)
      | _ -> failwith "cmptab") (split ';' s) in
  fun op a b ->
    (try snd (List.find (fun ((o, x, y), _) -> zeq o op && zeq x a && zeq y b) t)
     with Not_found -> Inr (zs "999"))

let parse_truthtab s =
  let t = List.map (fun e -> match String.split_on_char ',' e with
      | [v; r] -> (zs v, (if r = "t" then Inl true else if r = "f" then Inl false
                          else Inr (zs (String.sub r 1 (String.length r - 1)))))
      | _ -> failwith "truthtab") (split ';' s) in
  fun v -> (try snd (List.find (fun (x, _) -> zeq x v) t) with Not_found -> Inr (zs "998"))

let parse_loud s = let l = List.map zs (split ',' s) in fun v -> List.exists (zeq v) l

let str_event = function
  | EvOp i -> "o" ^ sz i
  | EvCmp (o, a, b) -> "c" ^ sz o ^ "/" ^ sz a ^ "/" ^ sz b
  | EvTruth v -> "t" ^ sz v
let str_trace tr = if tr = [] then "-" else String.concat "," (List.map str_event tr)
let str_out = function OVal v -> "V" ^ sz v | ORaise e -> "X" ^ sz e | OUndef -> "U"

let str_node = function
  | FBool b -> if b then "B1" else "B0"
  | FCasc (h, ls) ->
    "C" ^ sz h.o_id ^ "(" ^ String.concat "," (List.map (fun (op, e) -> sz op ^ "." ^ sz e.o_id) ls) ^ ")"

let vbool b = if b then zs "2" else zs "5"

let handle = function
  | ["fold"; tf; dl; e0; links; ct; cm; tt; ld] ->
    let c = (parse_fop e0, parse_links links) in
    let ct = parse_cttab ct and cmp = parse_cmptab cm and truth = parse_truthtab tt
    and loud = parse_loud ld in
    let nodes = fold ct (bs tf) (bs dl) c in
    let (t1, o1) = obs loud (run_fold cmp truth vbool ct (bs tf) (bs dl) c) in
    let (t2, o2) = obs loud (ref_cascade cmp truth (plain c)) in
    String.concat "&" (List.map str_node nodes) ^ " | " ^ str_trace t1 ^ " | " ^ str_out o1
    ^ " | " ^ str_trace t2 ^ " | " ^ str_out o2
  | ["notfold"; tf; e0; links; ct; cm; tt; ld] ->
    let c = (parse_fop e0, parse_links links) in
    let ct = parse_cttab ct and cmp = parse_cmptab cm and truth = parse_truthtab tt
    and loud = parse_loud ld in
    let ns = fold ct (bs tf) false c in
    let str_ns l = String.concat "&" (List.map str_node l) in
    let st = (match handle_not ns with NPlain l -> str_ns l | NNot l -> "N(" ^ str_ns l ^ ")") in
    let (t1, o1) = obs loud (run_not cmp truth vbool ct (bs tf) c) in
    let (t2, o2) = obs loud (ref_not cmp truth vbool ct (bs tf) c) in
    st ^ " | " ^ str_trace t1 ^ " | " ^ str_out o1 ^ " | " ^ str_trace t2 ^ " | " ^ str_out o2
  | _ -> "!ERR badcmd"

let () = main_loop handle
