(* driver for m_overflow.  Numbers in decimal, booleans 0/1.
   opall  B OP W S LW LLW A B   -> "V n" | "O"  (all 8 is_constant choices must agree, else !DISAGREE)
   op     B OP W S LW LLW CB CA SW A B -> "V n" | "O"
   ubfree OP W S LW LLW A B     -> 1/0 (and of the helper's ub-free predicate over the 8 choices)
   spur   B OP W S LW LLW A B   -> 1/0
   neg C W S A | abs W A | div W S BC A B | dispatch B OP IW LW LLW W S A B | sdiv W A B | udiv W A B
   td FX CMP B OP IW LW LLW W S A B -> "V n" | "O" | "UB"   (typedef'd result type; CMP lt|le; all 8
        is_constant choices must agree)
   choice CMP IW LW LLW W S -> "narrow" | "base W S" | "fatal"
   ngop GILFIXED INNOGIL B OP W S LW LLW A B -> "V n" | "O" | "UB"   (checked operation in a nogil context)
   tree B W LW LLW S FOLD ENV tok...   (prefix expression: + - * << vN cN) -> "V n" | "O" | "LOST" *)
let zs = z_of_string
let bs = bool_of_string

let string_of_oc = function
  | Val v -> "V " ^ string_of_z v
  | Ovf -> "O"
  | Undef -> "UB"

let string_of_outcome = function
  | Value v -> "V " ^ string_of_z v
  | ZeroDivisionError -> "Z"
  | OverflowError -> "O"
  | UB -> "UB"

let cop_of = function
  | "add" | "+" -> OAdd | "sub" | "-" -> OSub | "mul" | "*" -> OMul | "lshift" | "<<" -> OLshift
  | _ -> failwith "op"

let binop_of = function "add" -> Add | "sub" -> Sub | "mul" -> Mul | _ -> failwith "binop"

let bools3 = [ (false,false,false); (false,false,true); (false,true,false); (false,true,true);
               (true,false,false); (true,false,true); (true,true,false); (true,true,true) ]

let rec parse toks = match toks with
  | [] -> failwith "parse"
  | t :: rest ->
    if t = "+" || t = "-" || t = "*" || t = "<<" then begin
      let (e1, r1) = parse rest in
      let (e2, r2) = parse r1 in
      (EBin (cop_of t, e1, e2), r2) end
    else if t.[0] = 'v' then (EVar (nat_of_int (int_of_string (String.sub t 1 (String.length t - 1)))), rest)
    else if t.[0] = 'c' then (EConst (zs (String.sub t 1 (String.length t - 1))), rest)
    else failwith "tok"

let handle = function
  | ["opall"; bi; op; w; s; lw; llw; a; b] ->
      let f (cb, ca, sw) =
        string_of_oc (binop_node (bs bi) (cop_of op) (zs w) (bs s) (zs lw) (zs llw) cb ca sw (zs a) (zs b)) in
      let rs = List.map f bools3 in
      let r0 = List.hd rs in
      if List.for_all (fun r -> r = r0) rs then r0 else "!DISAGREE " ^ String.concat "|" rs
  | ["op"; bi; op; w; s; lw; llw; cb; ca; sw; a; b] ->
      string_of_oc (binop_node (bs bi) (cop_of op) (zs w) (bs s) (zs lw) (zs llw) (bs cb) (bs ca) (bs sw) (zs a) (zs b))
  | ["ubfree"; op; w; s; lw; llw; a; b] ->
      let w = zs w and lw = zs lw and llw = zs llw and a = zs a and b = zs b in
      let r = (match op, bs s with
        | "add", true -> sadd_ub_free w lw llw a b
        | "sub", true -> ssub_ub_free w a b
        | "mul", true -> List.for_all (fun (cb, ca, sw) -> smul_ub_free w lw llw cb ca sw a b) bools3
        | "lshift", sg -> lshift_ub_free w sg a b
        | _, false -> true
        | _ -> failwith "op") in
      string_of_bool r
  | ["spur"; bi; op; w; s; lw; llw; a; b] ->
      string_of_bool (spurious (bs bi) (cop_of op) (zs w) (bs s) (zs lw) (zs llw) false false false (zs a) (zs b))
  | ["neg"; c; w; s; a] -> string_of_oc (neg_node (bs c) (zs w) (bs s) (zs a))
  | ["abs"; w; a] -> string_of_oc (abs_node (zs w) (zs a))
  | ["div"; w; s; bc; a; b] -> string_of_outcome (div_node true (zs w) (bs s) (bs bc) (zs a) (zs b))
  | ["dispatch"; bi; op; iw; lw; llw; w; s; a; b] ->
      (match binop_dispatch (bs bi) (binop_of op) (zs iw) (zs lw) (zs llw) (zs w) (bs s) false false false (zs a) (zs b) with
       | R (v, f) -> if f then "O" else "V " ^ string_of_z v
       | Fatal -> "FATAL")
  | ["sdiv"; w; a; b] -> let (v, f) = sdiv_helper (zs w) (zs a) (zs b) in string_of_z v ^ " " ^ string_of_bool f
  | ["udiv"; w; a; b] -> let (v, f) = udiv_helper (zs w) (zs a) (zs b) in string_of_z v ^ " " ^ string_of_bool f
  | "tree" :: bi :: w :: lw :: llw :: s :: fold :: env :: toks ->
      let (e, rest) = parse toks in
      if rest <> [] then failwith "trailing" else
      let ae = annotate e in
      let ae = if bs fold then consolidate false ae else ae in
      (match run_top (bs bi) (zs w) (zs lw) (zs llw) (bs s) (env_of_list (zlist_of_string env)) ae with
       | None -> "LOST"
       | Some None -> "O"
       | Some (Some v) -> "V " ^ string_of_z v)
  | ["td"; fx; c; bi; op; iw; lw; llw; w; s; a; b] ->
      let c = (match c with "lt" -> CmpLt | "le" -> CmpLe | _ -> failwith "cmp") in
      let f (cb, ca, sw) =
        string_of_oc (typedef_node (bs fx) c (bs bi) (cop_of op) (zs iw) (zs lw) (zs llw) (zs w) (bs s) cb ca sw (zs a) (zs b)) in
      let rs = List.map f bools3 in
      let r0 = List.hd rs in
      if List.for_all (fun r -> r = r0) rs then r0 else "!DISAGREE " ^ String.concat "|" rs
  | ["choice"; c; iw; lw; llw; w; s] ->
      let c = (match c with "lt" -> CmpLt | "le" -> CmpLe | _ -> failwith "cmp") in
      (match dispatch_choice c (zs iw) (zs lw) (zs llw) (zs w) (bs s) with
       | CNarrow -> "narrow"
       | CBase (bw, sg) -> "base " ^ string_of_z bw ^ " " ^ (if sg then "1" else "0")
       | CFatal -> "fatal")
  | ["ngop"; gf; ng; bi; op; w; s; lw; llw; a; b] ->
      let f (cb, ca, sw) =
        string_of_oc (nogil_node (bs gf) (bs ng)
          (binop_node (bs bi) (cop_of op) (zs w) (bs s) (zs lw) (zs llw) cb ca sw (zs a) (zs b))) in
      let rs = List.map f bools3 in
      let r0 = List.hd rs in
      if List.for_all (fun r -> r = r0) rs then r0 else "!DISAGREE " ^ String.concat "|" rs
  | ["skip"] -> "SKIP"
  | _ -> "!ERR badcmd"

let () = main_loop handle
