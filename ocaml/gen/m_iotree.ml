
(** val negb : bool -> bool **)

let negb = function
| true -> false
| false -> true

type nat =
| O
| S of nat

(** val option_map : ('a1 -> 'a2) -> 'a1 option -> 'a2 option **)

let option_map f = function
| Some a -> Some (f a)
| None -> None

(** val fst : ('a1 * 'a2) -> 'a1 **)

let fst = function
| (x, _) -> x

(** val snd : ('a1 * 'a2) -> 'a2 **)

let snd = function
| (_, y) -> y

(** val length : 'a1 list -> nat **)

let rec length = function
| [] -> O
| _ :: l' -> S (length l')

(** val app : 'a1 list -> 'a1 list -> 'a1 list **)

let rec app l m =
  match l with
  | [] -> m
  | a :: l1 -> a :: (app l1 m)

(** val add : nat -> nat -> nat **)

let rec add n0 m =
  match n0 with
  | O -> m
  | S p -> S (add p m)

type positive =
| XI of positive
| XO of positive
| XH

type n =
| N0
| Npos of positive

type z =
| Z0
| Zpos of positive
| Zneg of positive

module Nat =
 struct
  (** val eqb : nat -> nat -> bool **)

  let rec eqb n0 m =
    match n0 with
    | O -> (match m with
            | O -> true
            | S _ -> false)
    | S n' -> (match m with
               | O -> false
               | S m' -> eqb n' m')

  (** val leb : nat -> nat -> bool **)

  let rec leb n0 m =
    match n0 with
    | O -> true
    | S n' -> (match m with
               | O -> false
               | S m' -> leb n' m')

  (** val ltb : nat -> nat -> bool **)

  let ltb n0 m =
    leb (S n0) m
 end

module Pos =
 struct
  (** val eqb : positive -> positive -> bool **)

  let rec eqb p q =
    match p with
    | XI p0 -> (match q with
                | XI q0 -> eqb p0 q0
                | _ -> false)
    | XO p0 -> (match q with
                | XO q0 -> eqb p0 q0
                | _ -> false)
    | XH -> (match q with
             | XH -> true
             | _ -> false)
 end

module N =
 struct
  (** val eqb : n -> n -> bool **)

  let eqb n0 m =
    match n0 with
    | N0 -> (match m with
             | N0 -> true
             | Npos _ -> false)
    | Npos p -> (match m with
                 | N0 -> false
                 | Npos q -> Pos.eqb p q)
 end

(** val nth_error : 'a1 list -> nat -> 'a1 option **)

let rec nth_error l = function
| O -> (match l with
        | [] -> None
        | x :: _ -> Some x)
| S n1 -> (match l with
           | [] -> None
           | _ :: l0 -> nth_error l0 n1)

(** val concat : 'a1 list list -> 'a1 list **)

let rec concat = function
| [] -> []
| x :: l0 -> app x (concat l0)

(** val map : ('a1 -> 'a2) -> 'a1 list -> 'a2 list **)

let rec map f = function
| [] -> []
| a :: t -> (f a) :: (map f t)

(** val fold_left : ('a1 -> 'a2 -> 'a1) -> 'a2 list -> 'a1 -> 'a1 **)

let rec fold_left f l a0 =
  match l with
  | [] -> a0
  | b :: t -> fold_left f t (f a0 b)

(** val existsb : ('a1 -> bool) -> 'a1 list -> bool **)

let rec existsb f = function
| [] -> false
| a :: l0 -> (||) (f a) (existsb f l0)

(** val ex_keep :
    (((((nat * n) * z) * z list) * z option) * positive) * bool **)

let ex_keep =
  ((((((O, N0), Z0), []), None), XH), true)

type text = n list

type marker = n

type obj = { o_children : nat list; o_stream : text; o_markers : marker list }

type heap = obj list

(** val empty_obj : obj **)

let empty_obj =
  { o_children = []; o_stream = []; o_markers = [] }

(** val set_nth : nat -> 'a1 -> 'a1 list -> 'a1 list **)

let rec set_nth n0 x = function
| [] -> []
| y :: r -> (match n0 with
             | O -> x :: r
             | S k -> y :: (set_nth k x r))

(** val is_nil : 'a1 list -> bool **)

let is_nil = function
| [] -> true
| _ :: _ -> false

(** val h_commit : heap -> nat -> heap option **)

let h_commit h a =
  match nth_error h a with
  | Some o ->
    if is_nil o.o_stream
    then Some h
    else Some
           (app
             (set_nth a { o_children = (app o.o_children ((length h) :: []));
               o_stream = []; o_markers = [] } h) ({ o_children = [];
             o_stream = o.o_stream; o_markers = o.o_markers } :: []))
  | None -> None

(** val h_add_child : heap -> nat -> nat -> heap option **)

let h_add_child h a c =
  match nth_error h a with
  | Some o ->
    Some
      (set_nth a { o_children = (app o.o_children (c :: [])); o_stream =
        o.o_stream; o_markers = o.o_markers } h)
  | None -> None

(** val h_insertion_point : heap -> nat -> (heap * nat) option **)

let h_insertion_point h a =
  match h_commit h a with
  | Some h1 ->
    let c = length h1 in
    (match h_add_child (app h1 (empty_obj :: [])) a c with
     | Some h2 -> Some (h2, c)
     | None -> None)
  | None -> None

(** val h_insert : heap -> nat -> nat -> heap option **)

let h_insert h a t =
  match h_commit h a with
  | Some h1 -> h_add_child h1 a t
  | None -> None

(** val h_reset : heap -> nat -> heap option **)

let h_reset h a =
  match nth_error h a with
  | Some _ -> Some (set_nth a empty_obj h)
  | None -> None

(** val h_write : heap -> nat -> text -> marker list -> heap option **)

let h_write h a s ms =
  match nth_error h a with
  | Some o ->
    Some
      (set_nth a { o_children = o.o_children; o_stream = (app o.o_stream s);
        o_markers = (app o.o_markers ms) } h)
  | None -> None

(** val ocat : ('a1 -> 'a2 list option) -> 'a1 list -> 'a2 list option **)

let rec ocat f = function
| [] -> Some []
| x :: r ->
  (match f x with
   | Some u -> (match ocat f r with
                | Some v -> Some (app u v)
                | None -> None)
   | None -> None)

(** val oall : ('a1 -> bool option) -> 'a1 list -> bool option **)

let rec oall f = function
| [] -> Some true
| x :: r ->
  (match f x with
   | Some u -> (match oall f r with
                | Some v -> Some ((&&) u v)
                | None -> None)
   | None -> None)

(** val collect : nat -> heap -> nat -> text list option **)

let rec collect fuel h a =
  match fuel with
  | O -> None
  | S f ->
    (match nth_error h a with
     | Some o ->
       (match ocat (collect f h) o.o_children with
        | Some cs ->
          Some (app cs (if is_nil o.o_stream then [] else o.o_stream :: []))
        | None -> None)
     | None -> None)

(** val h_allmarkers : nat -> heap -> nat -> marker list option **)

let rec h_allmarkers fuel h a =
  match fuel with
  | O -> None
  | S f ->
    (match nth_error h a with
     | Some o ->
       (match ocat (h_allmarkers f h) o.o_children with
        | Some cs -> Some (app cs o.o_markers)
        | None -> None)
     | None -> None)

(** val h_empty : nat -> heap -> nat -> bool option **)

let rec h_empty fuel h a =
  match fuel with
  | O -> None
  | S f ->
    (match nth_error h a with
     | Some o ->
       if is_nil o.o_stream
       then oall (h_empty f h) o.o_children
       else Some false
     | None -> None)

type state = { st_heap : heap; st_handles : nat list }

(** val init_state : state **)

let init_state =
  { st_heap = []; st_handles = [] }

type op =
| ONew
| OPoint of nat
| OWrite of nat * text * marker list
| OInsert of nat * nat
| OCommit of nat
| OReset of nat

(** val step : state -> op -> state option **)

let step st o =
  let h = st.st_heap in
  let hs = st.st_handles in
  (match o with
   | ONew ->
     Some { st_heap = (app h (empty_obj :: [])); st_handles =
       (app hs ((length h) :: [])) }
   | OPoint b ->
     (match nth_error hs b with
      | Some a ->
        (match h_insertion_point h a with
         | Some p ->
           let (h', c) = p in
           Some { st_heap = h'; st_handles = (app hs (c :: [])) }
         | None -> None)
      | None -> None)
   | OWrite (b, s, ms) ->
     (match nth_error hs b with
      | Some a ->
        option_map (fun h' -> { st_heap = h'; st_handles = hs })
          (h_write h a s ms)
      | None -> None)
   | OInsert (b, t) ->
     (match nth_error hs b with
      | Some a ->
        (match nth_error hs t with
         | Some c ->
           option_map (fun h' -> { st_heap = h'; st_handles = hs })
             (h_insert h a c)
         | None -> None)
      | None -> None)
   | OCommit b ->
     (match nth_error hs b with
      | Some a ->
        option_map (fun h' -> { st_heap = h'; st_handles = hs })
          (h_commit h a)
      | None -> None)
   | OReset b ->
     (match nth_error hs b with
      | Some a ->
        option_map (fun h' -> { st_heap = h'; st_handles = hs }) (h_reset h a)
      | None -> None))

(** val ostep : state option -> op -> state option **)

let ostep acc o =
  match acc with
  | Some st -> step st o
  | None -> None

(** val run : op list -> state option **)

let run ops =
  fold_left ostep ops (Some init_state)

(** val fuel_of : state -> nat **)

let fuel_of st =
  S (length st.st_heap)

(** val copyto : state -> nat -> text list option **)

let copyto st b =
  match nth_error st.st_handles b with
  | Some a -> collect (fuel_of st) st.st_heap a
  | None -> None

(** val getvalue : state -> nat -> text option **)

let getvalue st b =
  option_map concat (copyto st b)

(** val allmarkers : state -> nat -> marker list option **)

let allmarkers st b =
  match nth_error st.st_handles b with
  | Some a -> h_allmarkers (fuel_of st) st.st_heap a
  | None -> None

(** val is_empty : state -> nat -> bool option **)

let is_empty st b =
  match nth_error st.st_handles b with
  | Some a -> h_empty (fuel_of st) st.st_heap a
  | None -> None

type item =
| SOpen of nat
| SClose of nat
| STxt of text * marker list

(** val is_open : nat -> item -> bool **)

let is_open b = function
| SOpen c -> Nat.eqb c b
| _ -> false

(** val is_close : nat -> item -> bool **)

let is_close b = function
| SClose c -> Nat.eqb c b
| _ -> false

(** val ins_before_close : nat -> item list -> item list -> item list **)

let rec ins_before_close b x = function
| [] -> []
| i :: r ->
  if is_close b i then app x (i :: r) else i :: (ins_before_close b x r)

type doc = item list

type spec = { sp_docs : doc list; sp_n : nat }

(** val init_spec : spec **)

let init_spec =
  { sp_docs = []; sp_n = O }

(** val is_root : nat -> doc -> bool **)

let is_root t = function
| [] -> false
| i :: _ -> is_open t i

(** val take_doc : nat -> doc list -> (doc * doc list) option **)

let rec take_doc t = function
| [] -> None
| d :: r ->
  if is_root t d
  then Some (d, r)
  else (match take_doc t r with
        | Some p -> let (x, r') = p in Some (x, (d :: r'))
        | None -> None)

(** val has_close : nat -> doc -> bool **)

let has_close b d =
  existsb (is_close b) d

(** val after_open : nat -> item list -> item list option **)

let rec after_open b = function
| [] -> None
| i :: r -> if is_open b i then Some r else after_open b r

(** val until_close : nat -> item list -> item list option **)

let rec until_close b = function
| [] -> None
| i :: r ->
  if is_close b i
  then Some []
  else option_map (fun x -> i :: x) (until_close b r)

(** val region : nat -> item list -> item list option **)

let region b l =
  match after_open b l with
  | Some r -> until_close b r
  | None -> None

(** val sregion : spec -> nat -> item list option **)

let sregion sp b =
  region b (concat sp.sp_docs)

(** val frags : item list -> (text * marker list) list **)

let rec frags = function
| [] -> []
| i :: r -> (match i with
             | STxt (s, ms) -> (s, ms) :: (frags r)
             | _ -> frags r)

(** val texts_of : (text * marker list) list -> text **)

let texts_of fs =
  concat (map fst fs)

(** val marks_of : (text * marker list) list -> marker list **)

let marks_of fs =
  concat (map snd fs)

(** val svalue : spec -> nat -> text option **)

let svalue sp b =
  option_map (fun l -> texts_of (frags l)) (sregion sp b)

(** val smarkers : spec -> nat -> marker list option **)

let smarkers sp b =
  option_map (fun l -> marks_of (frags l)) (sregion sp b)

(** val split_top : nat -> item list -> item list -> doc list **)

let rec split_top d acc = function
| [] -> []
| i :: r ->
  (match i with
   | SOpen b -> split_top (S d) (app acc ((SOpen b) :: [])) r
   | SClose b ->
     (match d with
      | O -> split_top O acc r
      | S d' ->
        (match d' with
         | O -> (app acc ((SClose b) :: [])) :: (split_top O [] r)
         | S _ -> split_top d' (app acc ((SClose b) :: [])) r))
   | STxt (s, ms) ->
     (match d with
      | O -> split_top d acc r
      | S _ -> split_top d (app acc ((STxt (s, ms)) :: [])) r))

(** val drop_until_close : nat -> item list -> item list **)

let rec drop_until_close b = function
| [] -> []
| j :: q -> if is_close b j then j :: q else drop_until_close b q

(** val clear_hole : nat -> item list -> item list **)

let rec clear_hole b = function
| [] -> []
| i :: r ->
  if is_open b i then i :: (drop_until_close b r) else i :: (clear_hole b r)

(** val spec_step : spec -> op -> spec **)

let spec_step sp o =
  let ds = sp.sp_docs in
  let n0 = sp.sp_n in
  (match o with
   | ONew ->
     { sp_docs = (app ds (((SOpen n0) :: ((SClose n0) :: [])) :: [])); sp_n =
       (S n0) }
   | OPoint b ->
     { sp_docs =
       (map (ins_before_close b ((SOpen n0) :: ((SClose n0) :: []))) ds);
       sp_n = (S n0) }
   | OWrite (b, s, ms) ->
     if is_nil s
     then sp
     else { sp_docs = (map (ins_before_close b ((STxt (s, ms)) :: [])) ds);
            sp_n = n0 }
   | OInsert (b, t) ->
     (match take_doc t ds with
      | Some p ->
        let (d, rest) = p in
        { sp_docs = (map (ins_before_close b d) rest); sp_n = n0 }
      | None -> sp)
   | OCommit _ -> sp
   | OReset b ->
     (match sregion sp b with
      | Some body ->
        { sp_docs = (app (map (clear_hole b) ds) (split_top O [] body));
          sp_n = n0 }
      | None -> sp))

(** val wf_op : spec -> op -> bool **)

let wf_op sp o =
  let n0 = sp.sp_n in
  (match o with
   | ONew -> true
   | OPoint b -> Nat.ltb b n0
   | OWrite (b, s, ms) ->
     (&&) (Nat.ltb b n0) ((||) (negb (is_nil s)) (is_nil ms))
   | OInsert (b, t) ->
     (&&) (Nat.ltb b n0)
       (match take_doc t sp.sp_docs with
        | Some p -> let (d, _) = p in negb (has_close b d)
        | None -> false)
   | OCommit b -> Nat.ltb b n0
   | OReset b -> Nat.ltb b n0)

(** val wf_hist : spec -> op list -> bool **)

let rec wf_hist sp = function
| [] -> true
| o :: r -> (&&) (wf_op sp o) (wf_hist (spec_step sp o) r)

(** val spec_run : op list -> spec **)

let spec_run ops =
  fold_left spec_step ops init_spec

(** val written : op list -> (text * marker list) list **)

let rec written = function
| [] -> []
| o :: r ->
  (match o with
   | OWrite (_, s, ms) ->
     if is_nil s then written r else (s, ms) :: (written r)
   | _ -> written r)

(** val count_nl : text -> nat **)

let rec count_nl = function
| [] -> O
| c :: r ->
  add (if N.eqb c (Npos (XO (XI (XO XH)))) then S O else O) (count_nl r)
