
(** val negb : bool -> bool **)

let negb = function
| true -> false
| false -> true

type nat =
| O
| S of nat

(** val option_map : ('a1 -> 'a2) -> 'a1 option -> 'a2 option **)

let option_map f = function
| Some a -> Some (f a)
| None -> None

(** val fst : ('a1 * 'a2) -> 'a1 **)

let fst = function
| (x, _) -> x

(** val snd : ('a1 * 'a2) -> 'a2 **)

let snd = function
| (_, y) -> y

(** val length : 'a1 list -> nat **)

let rec length = function
| [] -> O
| _ :: l' -> S (length l')

type positive =
| XI of positive
| XO of positive
| XH

type n =
| N0
| Npos of positive

type z =
| Z0
| Zpos of positive
| Zneg of positive

module Nat =
 struct
  (** val leb : nat -> nat -> bool **)

  let rec leb n0 m =
    match n0 with
    | O -> true
    | S n' -> (match m with
               | O -> false
               | S m' -> leb n' m')

  (** val ltb : nat -> nat -> bool **)

  let ltb n0 m =
    leb (S n0) m
 end

(** val nth : nat -> 'a1 list -> 'a1 -> 'a1 **)

let rec nth n0 l default =
  match n0 with
  | O -> (match l with
          | [] -> default
          | x :: _ -> x)
  | S m -> (match l with
            | [] -> default
            | _ :: t -> nth m t default)

(** val repeat : 'a1 -> nat -> 'a1 list **)

let rec repeat x = function
| O -> []
| S k -> x :: (repeat x k)

(** val ex_keep :
    (((((nat * n) * z) * z list) * z option) * positive) * bool **)

let ex_keep =
  ((((((O, N0), Z0), []), None), XH), true)

type blk = { b_c : z list; b_o : z list }

type tclass =
| TExact
| TSameSize
| TOther

type cfg = { c_use_fl : bool; c_type_specs : bool; c_memset : bool;
             c_cap : nat; c_nc : nat; c_no : nat }

(** val zero_blk : cfg -> blk **)

let zero_blk c =
  { b_c = (repeat Z0 c.c_nc); b_o = (repeat Z0 c.c_no) }

(** val eligible : cfg -> tclass -> bool **)

let eligible c t =
  (&&) c.c_use_fl
    (match t with
     | TExact -> true
     | TSameSize -> negb c.c_type_specs
     | TOther -> false)

(** val init : cfg -> blk -> blk **)

let init c b =
  { b_c = b.b_c; b_o = (repeat (Zpos XH) c.c_no) }

(** val alloc_raw : cfg -> tclass -> blk list -> blk * blk list **)

let alloc_raw c t fl =
  if eligible c t
  then (match fl with
        | [] -> ((zero_blk c), [])
        | b :: fl' -> ((if c.c_memset then zero_blk c else b), fl'))
  else ((zero_blk c), fl)

(** val alloc : cfg -> tclass -> blk list -> blk * blk list **)

let alloc c t fl =
  let (b, fl') = alloc_raw c t fl in ((init c b), fl')

(** val dealloc : cfg -> tclass -> blk -> blk list -> blk list **)

let dealloc c t b fl =
  let b' = { b_c = b.b_c; b_o = (repeat Z0 (length b.b_o)) } in
  if (&&) (eligible c t) (Nat.ltb (length fl) c.c_cap) then b' :: fl else fl

type store = (tclass * blk) option list

(** val sget : store -> nat -> (tclass * blk) option **)

let sget s i =
  nth i s None

(** val sset : store -> nat -> (tclass * blk) option -> store **)

let rec sset s i v =
  match i with
  | O -> (match s with
          | [] -> v :: []
          | _ :: r -> v :: r)
  | S j ->
    (match s with
     | [] -> None :: (sset [] j v)
     | x :: r -> x :: (sset r j v))

(** val upd : z list -> nat -> z -> z list **)

let rec upd l i v =
  match l with
  | [] -> []
  | x :: r -> (match i with
               | O -> v :: r
               | S j -> x :: (upd r j v))

type op =
| ONew of nat * tclass
| OSetC of nat * nat * z
| OSetO of nat * nat * z
| OFree of nat
| OGet of nat

(** val release : cfg -> (tclass * blk) option -> blk list -> blk list **)

let release c old fl =
  match old with
  | Some p -> let (t, b) = p in dealloc c t b fl
  | None -> fl

(** val step :
    cfg -> blk list -> store -> op -> (blk list * store) * blk option option **)

let step c fl s = function
| ONew (i, t) ->
  let (b, fl1) = alloc c t fl in
  (((release c (sget s i) fl1), (sset s i (Some (t, b)))), None)
| OSetC (i, f, v) ->
  (match sget s i with
   | Some p ->
     let (t, b) = p in
     ((fl, (sset s i (Some (t, { b_c = (upd b.b_c f v); b_o = b.b_o })))),
     None)
   | None -> ((fl, s), None))
| OSetO (i, f, v) ->
  (match sget s i with
   | Some p ->
     let (t, b) = p in
     ((fl, (sset s i (Some (t, { b_c = b.b_c; b_o = (upd b.b_o f v) })))),
     None)
   | None -> ((fl, s), None))
| OFree i -> (((release c (sget s i) fl), (sset s i None)), None)
| OGet i -> ((fl, s), (Some (option_map snd (sget s i))))

(** val run :
    cfg -> blk list -> store -> op list -> blk option list * blk list **)

let rec run c fl s = function
| [] -> ([], fl)
| o :: r ->
  let (p0, ob) = step c fl s o in
  let (fl1, s1) = p0 in
  let (tr, flz) = run c fl1 s1 r in
  ((match ob with
    | Some x -> x :: tr
    | None -> tr), flz)

(** val trace : cfg -> blk list -> store -> op list -> blk option list **)

let trace c fl s p =
  fst (run c fl s p)

(** val final_freelist : cfg -> blk list -> store -> op list -> blk list **)

let final_freelist c fl s p =
  snd (run c fl s p)

(** val new_blk : nat -> nat -> blk **)

let new_blk nc no =
  { b_c = (repeat Z0 nc); b_o = (repeat (Zpos XH) no) }

(** val step_ref : nat -> nat -> store -> op -> store * blk option option **)

let step_ref nc no s = function
| ONew (i, t) -> ((sset s i (Some (t, (new_blk nc no)))), None)
| OSetC (i, f, v) ->
  (match sget s i with
   | Some p ->
     let (t, b) = p in
     ((sset s i (Some (t, { b_c = (upd b.b_c f v); b_o = b.b_o }))), None)
   | None -> (s, None))
| OSetO (i, f, v) ->
  (match sget s i with
   | Some p ->
     let (t, b) = p in
     ((sset s i (Some (t, { b_c = b.b_c; b_o = (upd b.b_o f v) }))), None)
   | None -> (s, None))
| OFree i -> ((sset s i None), None)
| OGet i -> (s, (Some (option_map snd (sget s i))))

(** val trace_ref : nat -> nat -> store -> op list -> blk option list **)

let rec trace_ref nc no s = function
| [] -> []
| o :: r ->
  let (s1, ob) = step_ref nc no s o in
  (match ob with
   | Some x -> x :: (trace_ref nc no s1 r)
   | None -> trace_ref nc no s1 r)

(** val mk_cfg : bool -> bool -> bool -> nat -> nat -> nat -> cfg **)

let mk_cfg use_fl specs mset cap nc no =
  { c_use_fl = use_fl; c_type_specs = specs; c_memset = mset; c_cap = cap;
    c_nc = nc; c_no = no }
