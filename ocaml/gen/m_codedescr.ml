
(** val negb : bool -> bool **)

let negb = function
| true -> false
| false -> true

type nat =
| O
| S of nat

(** val fst : ('a1 * 'a2) -> 'a1 **)

let fst = function
| (x, _) -> x

(** val snd : ('a1 * 'a2) -> 'a2 **)

let snd = function
| (_, y) -> y

(** val length : 'a1 list -> nat **)

let rec length = function
| [] -> O
| _ :: l' -> S (length l')

(** val app : 'a1 list -> 'a1 list -> 'a1 list **)

let rec app l m =
  match l with
  | [] -> m
  | a :: l1 -> a :: (app l1 m)

type comparison =
| Eq
| Lt
| Gt

(** val compOpp : comparison -> comparison **)

let compOpp = function
| Eq -> Eq
| Lt -> Gt
| Gt -> Lt

(** val pred : nat -> nat **)

let pred n0 = match n0 with
| O -> n0
| S u -> u

module Coq__1 = struct
 (** val add : nat -> nat -> nat **)
 let rec add n0 m =
   match n0 with
   | O -> m
   | S p -> S (add p m)
end
include Coq__1

type positive =
| XI of positive
| XO of positive
| XH

type n =
| N0
| Npos of positive

type z =
| Z0
| Zpos of positive
| Zneg of positive

module Pos =
 struct
  (** val succ : positive -> positive **)

  let rec succ = function
  | XI p -> XO (succ p)
  | XO p -> XI p
  | XH -> XO XH

  (** val add : positive -> positive -> positive **)

  let rec add x y =
    match x with
    | XI p ->
      (match y with
       | XI q -> XO (add_carry p q)
       | XO q -> XI (add p q)
       | XH -> XO (succ p))
    | XO p ->
      (match y with
       | XI q -> XI (add p q)
       | XO q -> XO (add p q)
       | XH -> XI p)
    | XH -> (match y with
             | XI q -> XO (succ q)
             | XO q -> XI q
             | XH -> XO XH)

  (** val add_carry : positive -> positive -> positive **)

  and add_carry x y =
    match x with
    | XI p ->
      (match y with
       | XI q -> XI (add_carry p q)
       | XO q -> XO (add_carry p q)
       | XH -> XI (succ p))
    | XO p ->
      (match y with
       | XI q -> XO (add_carry p q)
       | XO q -> XI (add p q)
       | XH -> XO (succ p))
    | XH ->
      (match y with
       | XI q -> XI (succ q)
       | XO q -> XO (succ q)
       | XH -> XI XH)

  (** val pred_double : positive -> positive **)

  let rec pred_double = function
  | XI p -> XI (XO p)
  | XO p -> XI (pred_double p)
  | XH -> XH

  (** val pred_N : positive -> n **)

  let pred_N = function
  | XI p -> Npos (XO p)
  | XO p -> Npos (pred_double p)
  | XH -> N0

  (** val mul : positive -> positive -> positive **)

  let rec mul x y =
    match x with
    | XI p -> add y (XO (mul p y))
    | XO p -> XO (mul p y)
    | XH -> y

  (** val iter : ('a1 -> 'a1) -> 'a1 -> positive -> 'a1 **)

  let rec iter f x = function
  | XI n' -> f (iter f (iter f x n') n')
  | XO n' -> iter f (iter f x n') n'
  | XH -> f x

  (** val size : positive -> positive **)

  let rec size = function
  | XI p0 -> succ (size p0)
  | XO p0 -> succ (size p0)
  | XH -> XH

  (** val compare_cont : comparison -> positive -> positive -> comparison **)

  let rec compare_cont r x y =
    match x with
    | XI p ->
      (match y with
       | XI q -> compare_cont r p q
       | XO q -> compare_cont Gt p q
       | XH -> Gt)
    | XO p ->
      (match y with
       | XI q -> compare_cont Lt p q
       | XO q -> compare_cont r p q
       | XH -> Gt)
    | XH -> (match y with
             | XH -> r
             | _ -> Lt)

  (** val compare : positive -> positive -> comparison **)

  let compare =
    compare_cont Eq

  (** val eqb : positive -> positive -> bool **)

  let rec eqb p q =
    match p with
    | XI p0 -> (match q with
                | XI q0 -> eqb p0 q0
                | _ -> false)
    | XO p0 -> (match q with
                | XO q0 -> eqb p0 q0
                | _ -> false)
    | XH -> (match q with
             | XH -> true
             | _ -> false)

  (** val coq_Nsucc_double : n -> n **)

  let coq_Nsucc_double = function
  | N0 -> Npos XH
  | Npos p -> Npos (XI p)

  (** val coq_Ndouble : n -> n **)

  let coq_Ndouble = function
  | N0 -> N0
  | Npos p -> Npos (XO p)

  (** val coq_lor : positive -> positive -> positive **)

  let rec coq_lor p q =
    match p with
    | XI p0 ->
      (match q with
       | XI q0 -> XI (coq_lor p0 q0)
       | XO q0 -> XI (coq_lor p0 q0)
       | XH -> p)
    | XO p0 ->
      (match q with
       | XI q0 -> XI (coq_lor p0 q0)
       | XO q0 -> XO (coq_lor p0 q0)
       | XH -> XI p0)
    | XH -> (match q with
             | XO q0 -> XI q0
             | _ -> q)

  (** val coq_land : positive -> positive -> n **)

  let rec coq_land p q =
    match p with
    | XI p0 ->
      (match q with
       | XI q0 -> coq_Nsucc_double (coq_land p0 q0)
       | XO q0 -> coq_Ndouble (coq_land p0 q0)
       | XH -> Npos XH)
    | XO p0 ->
      (match q with
       | XI q0 -> coq_Ndouble (coq_land p0 q0)
       | XO q0 -> coq_Ndouble (coq_land p0 q0)
       | XH -> N0)
    | XH -> (match q with
             | XO _ -> N0
             | _ -> Npos XH)

  (** val ldiff : positive -> positive -> n **)

  let rec ldiff p q =
    match p with
    | XI p0 ->
      (match q with
       | XI q0 -> coq_Ndouble (ldiff p0 q0)
       | XO q0 -> coq_Nsucc_double (ldiff p0 q0)
       | XH -> Npos (XO p0))
    | XO p0 ->
      (match q with
       | XI q0 -> coq_Ndouble (ldiff p0 q0)
       | XO q0 -> coq_Ndouble (ldiff p0 q0)
       | XH -> Npos p)
    | XH -> (match q with
             | XO _ -> Npos XH
             | _ -> N0)

  (** val testbit : positive -> n -> bool **)

  let rec testbit p n0 =
    match p with
    | XI p0 -> (match n0 with
                | N0 -> true
                | Npos n1 -> testbit p0 (pred_N n1))
    | XO p0 -> (match n0 with
                | N0 -> false
                | Npos n1 -> testbit p0 (pred_N n1))
    | XH -> (match n0 with
             | N0 -> true
             | Npos _ -> false)

  (** val iter_op : ('a1 -> 'a1 -> 'a1) -> positive -> 'a1 -> 'a1 **)

  let rec iter_op op p a =
    match p with
    | XI p0 -> op a (iter_op op p0 (op a a))
    | XO p0 -> iter_op op p0 (op a a)
    | XH -> a

  (** val to_nat : positive -> nat **)

  let to_nat x =
    iter_op Coq__1.add x (S O)

  (** val of_succ_nat : nat -> positive **)

  let rec of_succ_nat = function
  | O -> XH
  | S x -> succ (of_succ_nat x)
 end

module N =
 struct
  (** val succ_pos : n -> positive **)

  let succ_pos = function
  | N0 -> XH
  | Npos p -> Pos.succ p

  (** val eqb : n -> n -> bool **)

  let eqb n0 m =
    match n0 with
    | N0 -> (match m with
             | N0 -> true
             | Npos _ -> false)
    | Npos p -> (match m with
                 | N0 -> false
                 | Npos q -> Pos.eqb p q)

  (** val coq_land : n -> n -> n **)

  let coq_land n0 m =
    match n0 with
    | N0 -> N0
    | Npos p -> (match m with
                 | N0 -> N0
                 | Npos q -> Pos.coq_land p q)

  (** val ldiff : n -> n -> n **)

  let ldiff n0 m =
    match n0 with
    | N0 -> N0
    | Npos p -> (match m with
                 | N0 -> n0
                 | Npos q -> Pos.ldiff p q)

  (** val testbit : n -> n -> bool **)

  let testbit a n0 =
    match a with
    | N0 -> false
    | Npos p -> Pos.testbit p n0
 end

module Z =
 struct
  (** val double : z -> z **)

  let double = function
  | Z0 -> Z0
  | Zpos p -> Zpos (XO p)
  | Zneg p -> Zneg (XO p)

  (** val succ_double : z -> z **)

  let succ_double = function
  | Z0 -> Zpos XH
  | Zpos p -> Zpos (XI p)
  | Zneg p -> Zneg (Pos.pred_double p)

  (** val pred_double : z -> z **)

  let pred_double = function
  | Z0 -> Zneg XH
  | Zpos p -> Zpos (Pos.pred_double p)
  | Zneg p -> Zneg (XI p)

  (** val pos_sub : positive -> positive -> z **)

  let rec pos_sub x y =
    match x with
    | XI p ->
      (match y with
       | XI q -> double (pos_sub p q)
       | XO q -> succ_double (pos_sub p q)
       | XH -> Zpos (XO p))
    | XO p ->
      (match y with
       | XI q -> pred_double (pos_sub p q)
       | XO q -> double (pos_sub p q)
       | XH -> Zpos (Pos.pred_double p))
    | XH ->
      (match y with
       | XI q -> Zneg (XO q)
       | XO q -> Zneg (Pos.pred_double q)
       | XH -> Z0)

  (** val add : z -> z -> z **)

  let add x y =
    match x with
    | Z0 -> y
    | Zpos x' ->
      (match y with
       | Z0 -> x
       | Zpos y' -> Zpos (Pos.add x' y')
       | Zneg y' -> pos_sub x' y')
    | Zneg x' ->
      (match y with
       | Z0 -> x
       | Zpos y' -> pos_sub y' x'
       | Zneg y' -> Zneg (Pos.add x' y'))

  (** val opp : z -> z **)

  let opp = function
  | Z0 -> Z0
  | Zpos x0 -> Zneg x0
  | Zneg x0 -> Zpos x0

  (** val sub : z -> z -> z **)

  let sub m n0 =
    add m (opp n0)

  (** val mul : z -> z -> z **)

  let mul x y =
    match x with
    | Z0 -> Z0
    | Zpos x' ->
      (match y with
       | Z0 -> Z0
       | Zpos y' -> Zpos (Pos.mul x' y')
       | Zneg y' -> Zneg (Pos.mul x' y'))
    | Zneg x' ->
      (match y with
       | Z0 -> Z0
       | Zpos y' -> Zneg (Pos.mul x' y')
       | Zneg y' -> Zpos (Pos.mul x' y'))

  (** val pow_pos : z -> positive -> z **)

  let pow_pos z0 =
    Pos.iter (mul z0) (Zpos XH)

  (** val pow : z -> z -> z **)

  let pow x = function
  | Z0 -> Zpos XH
  | Zpos p -> pow_pos x p
  | Zneg _ -> Z0

  (** val compare : z -> z -> comparison **)

  let compare x y =
    match x with
    | Z0 -> (match y with
             | Z0 -> Eq
             | Zpos _ -> Lt
             | Zneg _ -> Gt)
    | Zpos x' -> (match y with
                  | Zpos y' -> Pos.compare x' y'
                  | _ -> Gt)
    | Zneg x' ->
      (match y with
       | Zneg y' -> compOpp (Pos.compare x' y')
       | _ -> Lt)

  (** val leb : z -> z -> bool **)

  let leb x y =
    match compare x y with
    | Gt -> false
    | _ -> true

  (** val ltb : z -> z -> bool **)

  let ltb x y =
    match compare x y with
    | Lt -> true
    | _ -> false

  (** val eqb : z -> z -> bool **)

  let eqb x y =
    match x with
    | Z0 -> (match y with
             | Z0 -> true
             | _ -> false)
    | Zpos p -> (match y with
                 | Zpos q -> Pos.eqb p q
                 | _ -> false)
    | Zneg p -> (match y with
                 | Zneg q -> Pos.eqb p q
                 | _ -> false)

  (** val max : z -> z -> z **)

  let max n0 m =
    match compare n0 m with
    | Lt -> m
    | _ -> n0

  (** val to_nat : z -> nat **)

  let to_nat = function
  | Zpos p -> Pos.to_nat p
  | _ -> O

  (** val of_nat : nat -> z **)

  let of_nat = function
  | O -> Z0
  | S n1 -> Zpos (Pos.of_succ_nat n1)

  (** val pos_div_eucl : positive -> z -> z * z **)

  let rec pos_div_eucl a b =
    match a with
    | XI a' ->
      let (q, r) = pos_div_eucl a' b in
      let r' = add (mul (Zpos (XO XH)) r) (Zpos XH) in
      if ltb r' b
      then ((mul (Zpos (XO XH)) q), r')
      else ((add (mul (Zpos (XO XH)) q) (Zpos XH)), (sub r' b))
    | XO a' ->
      let (q, r) = pos_div_eucl a' b in
      let r' = mul (Zpos (XO XH)) r in
      if ltb r' b
      then ((mul (Zpos (XO XH)) q), r')
      else ((add (mul (Zpos (XO XH)) q) (Zpos XH)), (sub r' b))
    | XH -> if leb (Zpos (XO XH)) b then (Z0, (Zpos XH)) else ((Zpos XH), Z0)

  (** val div_eucl : z -> z -> z * z **)

  let div_eucl a b =
    match a with
    | Z0 -> (Z0, Z0)
    | Zpos a' ->
      (match b with
       | Z0 -> (Z0, a)
       | Zpos _ -> pos_div_eucl a' b
       | Zneg b' ->
         let (q, r) = pos_div_eucl a' (Zpos b') in
         (match r with
          | Z0 -> ((opp q), Z0)
          | _ -> ((opp (add q (Zpos XH))), (add b r))))
    | Zneg a' ->
      (match b with
       | Z0 -> (Z0, a)
       | Zpos _ ->
         let (q, r) = pos_div_eucl a' b in
         (match r with
          | Z0 -> ((opp q), Z0)
          | _ -> ((opp (add q (Zpos XH))), (sub b r)))
       | Zneg b' -> let (q, r) = pos_div_eucl a' (Zpos b') in (q, (opp r)))

  (** val div : z -> z -> z **)

  let div a b =
    let (q, _) = div_eucl a b in q

  (** val modulo : z -> z -> z **)

  let modulo a b =
    let (_, r) = div_eucl a b in r

  (** val odd : z -> bool **)

  let odd = function
  | Z0 -> false
  | Zpos p -> (match p with
               | XO _ -> false
               | _ -> true)
  | Zneg p -> (match p with
               | XO _ -> false
               | _ -> true)

  (** val log2 : z -> z **)

  let log2 = function
  | Zpos p0 ->
    (match p0 with
     | XI p -> Zpos (Pos.size p)
     | XO p -> Zpos (Pos.size p)
     | XH -> Z0)
  | _ -> Z0

  (** val testbit : z -> z -> bool **)

  let testbit a = function
  | Z0 -> odd a
  | Zpos p ->
    (match a with
     | Z0 -> false
     | Zpos a0 -> Pos.testbit a0 (Npos p)
     | Zneg a0 -> negb (N.testbit (Pos.pred_N a0) (Npos p)))
  | Zneg _ -> false

  (** val coq_lor : z -> z -> z **)

  let coq_lor a b =
    match a with
    | Z0 -> b
    | Zpos a0 ->
      (match b with
       | Z0 -> a
       | Zpos b0 -> Zpos (Pos.coq_lor a0 b0)
       | Zneg b0 -> Zneg (N.succ_pos (N.ldiff (Pos.pred_N b0) (Npos a0))))
    | Zneg a0 ->
      (match b with
       | Z0 -> a
       | Zpos b0 -> Zneg (N.succ_pos (N.ldiff (Pos.pred_N a0) (Npos b0)))
       | Zneg b0 ->
         Zneg (N.succ_pos (N.coq_land (Pos.pred_N a0) (Pos.pred_N b0))))
 end

(** val nth_error : 'a1 list -> nat -> 'a1 option **)

let rec nth_error l = function
| O -> (match l with
        | [] -> None
        | x :: _ -> Some x)
| S n1 -> (match l with
           | [] -> None
           | _ :: l0 -> nth_error l0 n1)

(** val map : ('a1 -> 'a2) -> 'a1 list -> 'a2 list **)

let rec map f = function
| [] -> []
| a :: t -> (f a) :: (map f t)

(** val fold_right : ('a2 -> 'a1 -> 'a1) -> 'a1 -> 'a2 list -> 'a1 **)

let rec fold_right f a0 = function
| [] -> a0
| b :: t -> f b (fold_right f a0 t)

(** val existsb : ('a1 -> bool) -> 'a1 list -> bool **)

let rec existsb f = function
| [] -> false
| a :: l0 -> (||) (f a) (existsb f l0)

(** val forallb : ('a1 -> bool) -> 'a1 list -> bool **)

let rec forallb f = function
| [] -> true
| a :: l0 -> (&&) (f a) (forallb f l0)

(** val filter : ('a1 -> bool) -> 'a1 list -> 'a1 list **)

let rec filter f = function
| [] -> []
| x :: l0 -> if f x then x :: (filter f l0) else filter f l0

(** val combine : 'a1 list -> 'a2 list -> ('a1 * 'a2) list **)

let rec combine l l' =
  match l with
  | [] -> []
  | x :: tl ->
    (match l' with
     | [] -> []
     | y :: tl' -> (x, y) :: (combine tl tl'))

(** val firstn : nat -> 'a1 list -> 'a1 list **)

let rec firstn n0 l =
  match n0 with
  | O -> []
  | S n1 -> (match l with
             | [] -> []
             | a :: l0 -> a :: (firstn n1 l0))

(** val skipn : nat -> 'a1 list -> 'a1 list **)

let rec skipn n0 l =
  match n0 with
  | O -> l
  | S n1 -> (match l with
             | [] -> []
             | _ :: l0 -> skipn n1 l0)

(** val ex_keep :
    (((((nat * n) * z) * z list) * z option) * positive) * bool **)

let ex_keep =
  ((((((O, N0), Z0), []), None), XH), true)

type name = n

type dflt = n

type fkind =
| KPlain
| KGen
| KCoro
| KAsyncGen
| KGenExpr

(** val fkind_eqb : fkind -> fkind -> bool **)

let fkind_eqb a b =
  match a with
  | KPlain -> (match b with
               | KPlain -> true
               | _ -> false)
  | KGen -> (match b with
             | KGen -> true
             | _ -> false)
  | KCoro -> (match b with
              | KCoro -> true
              | _ -> false)
  | KAsyncGen -> (match b with
                  | KAsyncGen -> true
                  | _ -> false)
  | KGenExpr -> (match b with
                 | KGenExpr -> true
                 | _ -> false)

type param = name * dflt option

type fsrc = { s_kind : fkind; s_po : param list; s_pk : param list;
              s_star : name option; s_ko : param list; s_ss : name option;
              s_locals : name list; s_synth : z; s_line : z }

type pkind =
| POnly
| PosOrKw
| VarPos
| KwOnly
| VarKw

type sigparam = (name * pkind) * dflt option

(** val tag : pkind -> param -> sigparam **)

let tag k p =
  (((fst p), k), (snd p))

(** val opt_list : ('a1 -> 'a2) -> 'a1 option -> 'a2 list **)

let opt_list f = function
| Some x -> (f x) :: []
| None -> []

(** val source_sig : fsrc -> sigparam list **)

let source_sig f =
  app (map (tag POnly) f.s_po)
    (app (map (tag PosOrKw) f.s_pk)
      (app (opt_list (fun n0 -> ((n0, VarPos), None)) f.s_star)
        (app (map (tag KwOnly) f.s_ko)
          (opt_list (fun n0 -> ((n0, VarKw), None)) f.s_ss))))

(** val is_some : 'a1 option -> bool **)

let is_some = function
| Some _ -> true
| None -> false

(** val somes : 'a1 option list -> 'a1 list **)

let rec somes = function
| [] -> []
| o :: r -> (match o with
             | Some x -> x :: (somes r)
             | None -> somes r)

(** val defaults_of : fsrc -> dflt list **)

let defaults_of f =
  somes (map snd (app f.s_po f.s_pk))

(** val kwd_of : param list -> (name * dflt) list **)

let rec kwd_of = function
| [] -> []
| p :: r ->
  let (n0, o) = p in
  (match o with
   | Some d -> (n0, d) :: (kwd_of r)
   | None -> kwd_of r)

(** val kwdefaults_of : fsrc -> (name * dflt) list **)

let kwdefaults_of f =
  kwd_of f.s_ko

(** val suffix_defaults : dflt option list -> bool **)

let rec suffix_defaults = function
| [] -> true
| o :: r ->
  (match o with
   | Some _ -> forallb is_some r
   | None -> suffix_defaults r)

(** val nodupb : n list -> bool **)

let rec nodupb = function
| [] -> true
| x :: r -> (&&) (negb (existsb (N.eqb x) r)) (nodupb r)

(** val wf_src : fsrc -> bool **)

let wf_src f =
  (&&)
    ((&&)
      ((&&)
        ((&&) (suffix_defaults (map snd (app f.s_po f.s_pk)))
          (nodupb (map fst f.s_ko))) (Z.leb Z0 f.s_synth))
      (Z.leb Z0 f.s_line))
    (if fkind_eqb f.s_kind KGenExpr
     then (match f.s_po with
           | [] ->
             (match f.s_pk with
              | [] ->
                (match f.s_ko with
                 | [] ->
                   (match f.s_star with
                    | Some _ -> false
                    | None ->
                      (match f.s_ss with
                       | Some _ -> false
                       | None -> true))
                 | _ :: _ -> false)
              | _ :: _ -> false)
           | _ :: _ -> false)
     else true)

(** val zlen : 'a1 list -> z **)

let zlen l =
  Z.of_nat (length l)

(** val num_posonly : fsrc -> z **)

let num_posonly f =
  zlen f.s_po

(** val num_kwonly : fsrc -> z **)

let num_kwonly f =
  zlen f.s_ko

(** val num_args : fsrc -> z **)

let num_args f =
  if fkind_eqb f.s_kind KGenExpr
  then f.s_synth
  else Z.add (Z.add (zlen f.s_po) (zlen f.s_pk)) (zlen f.s_ko)

(** val varnames : fsrc -> name list **)

let varnames f =
  app (map fst f.s_po)
    (app (map fst f.s_pk)
      (app (map fst f.s_ko)
        (app (opt_list (fun n0 -> n0) f.s_star)
          (app (opt_list (fun n0 -> n0) f.s_ss) f.s_locals))))

(** val cO_OPTIMIZED : z **)

let cO_OPTIMIZED =
  Zpos XH

(** val cO_NEWLOCALS : z **)

let cO_NEWLOCALS =
  Zpos (XO XH)

(** val cO_VARARGS : z **)

let cO_VARARGS =
  Zpos (XO (XO XH))

(** val cO_VARKEYWORDS : z **)

let cO_VARKEYWORDS =
  Zpos (XO (XO (XO XH)))

(** val cO_GENERATOR : z **)

let cO_GENERATOR =
  Zpos (XO (XO (XO (XO (XO XH)))))

(** val cO_COROUTINE : z **)

let cO_COROUTINE =
  Zpos (XO (XO (XO (XO (XO (XO (XO XH)))))))

(** val cO_ASYNC_GENERATOR : z **)

let cO_ASYNC_GENERATOR =
  Zpos (XO (XO (XO (XO (XO (XO (XO (XO (XO XH)))))))))

(** val kind_flag : fkind -> z **)

let kind_flag = function
| KPlain -> Z0
| KCoro -> cO_COROUTINE
| KAsyncGen -> cO_ASYNC_GENERATOR
| _ -> cO_GENERATOR

(** val flags_gen : fkind -> bool -> bool -> z **)

let flags_gen k star ss =
  Z.coq_lor
    (Z.coq_lor
      (Z.coq_lor (Z.coq_lor cO_OPTIMIZED cO_NEWLOCALS)
        (if star then cO_VARARGS else Z0))
      (if ss then cO_VARKEYWORDS else Z0)) (kind_flag k)

(** val flags_of : fsrc -> z **)

let flags_of f =
  flags_gen f.s_kind (is_some f.s_star) (is_some f.s_ss)

type descr = { d_argcount : z; d_posonly : z; d_kwonly : z; d_nlocals : 
               z; d_flags : z; d_line : z }

(** val emitted : fsrc -> descr **)

let emitted f =
  let argcount = if fkind_eqb f.s_kind KGenExpr then Z0 else num_args f in
  { d_argcount = (Z.sub argcount (num_kwonly f)); d_posonly =
  (num_posonly f); d_kwonly = (num_kwonly f); d_nlocals =
  (zlen (varnames f)); d_flags = (flags_of f); d_line = f.s_line }

(** val bitlen : z -> z **)

let bitlen z0 =
  if Z.leb z0 Z0 then Z0 else Z.add (Z.log2 z0) (Zpos XH)

(** val maxl : z list -> z **)

let maxl l =
  fold_right Z.max (Zpos XH) l

(** val skip_genexpr : fkind -> bool **)

let skip_genexpr k =
  fkind_eqb k KGenExpr

(** val skip_generators : fkind -> bool **)

let skip_generators k =
  negb (fkind_eqb k KPlain)

(** val skip_none : fkind -> bool **)

let skip_none _ =
  false

(** val counted : (fkind -> bool) -> fsrc list -> fsrc list **)

let counted skip fs =
  filter (fun f -> negb (skip f.s_kind)) fs

(** val max_flags : z **)

let max_flags =
  Zpos (XI (XI (XI (XI (XI (XI (XI (XI (XI XH)))))))))

(** val widths : (fkind -> bool) -> fsrc list -> descr **)

let widths skip fs =
  let cs = counted skip fs in
  { d_argcount =
  (bitlen (maxl (map (fun f -> Z.sub (num_args f) (num_kwonly f)) cs)));
  d_posonly = (bitlen (maxl (map num_posonly cs))); d_kwonly =
  (bitlen (maxl (map num_kwonly cs))); d_nlocals =
  (bitlen (maxl (map (fun f -> zlen (varnames f)) fs))); d_flags =
  (bitlen max_flags); d_line = (bitlen (maxl (map (fun f -> f.s_line) fs))) }

(** val store_field : z -> z -> z **)

let store_field w v =
  Z.modulo v (Z.pow (Zpos (XO XH)) w)

(** val store : descr -> descr -> descr **)

let store w d =
  { d_argcount = (store_field w.d_argcount d.d_argcount); d_posonly =
    (store_field w.d_posonly d.d_posonly); d_kwonly =
    (store_field w.d_kwonly d.d_kwonly); d_nlocals =
    (store_field w.d_nlocals d.d_nlocals); d_flags =
    (store_field w.d_flags d.d_flags); d_line =
    (store_field w.d_line d.d_line) }

(** val fields : descr -> z list **)

let fields d =
  d.d_argcount :: (d.d_posonly :: (d.d_kwonly :: (d.d_nlocals :: (d.d_flags :: (d.d_line :: [])))))

(** val pack : z list -> z list -> z **)

let rec pack ws vs =
  match ws with
  | [] -> Z0
  | w :: wr ->
    (match vs with
     | [] -> Z0
     | v :: vr ->
       Z.add (Z.modulo v (Z.pow (Zpos (XO XH)) w))
         (Z.mul (Z.pow (Zpos (XO XH)) w) (pack wr vr)))

(** val unpack : z list -> z -> z list **)

let rec unpack ws x =
  match ws with
  | [] -> []
  | w :: wr ->
    (Z.modulo x (Z.pow (Zpos (XO XH)) w)) :: (unpack wr
                                               (Z.div x
                                                 (Z.pow (Zpos (XO XH)) w)))

type code = { co_argcount : z; co_posonlyargcount : z; co_kwonlyargcount : 
              z; co_nlocals : z; co_flags : z; co_firstlineno : z;
              co_varnames : name list }

(** val code_of_descr : descr -> name list -> code **)

let code_of_descr d names =
  { co_argcount = d.d_argcount; co_posonlyargcount = d.d_posonly;
    co_kwonlyargcount = d.d_kwonly; co_nlocals = d.d_nlocals; co_flags =
    d.d_flags; co_firstlineno = d.d_line; co_varnames =
    (firstn (Z.to_nat d.d_nlocals) names) }

(** val code_of : (fkind -> bool) -> fsrc list -> fsrc -> code **)

let code_of skip fs f =
  code_of_descr (store (widths skip fs) (emitted f)) (varnames f)

(** val lookup : name -> (name * dflt) list -> dflt option **)

let rec lookup n0 = function
| [] -> None
| p :: r -> let (m, d) = p in if N.eqb n0 m then Some d else lookup n0 r

(** val ploop : param list -> nat -> sigparam list **)

let rec ploop l left =
  match l with
  | [] -> []
  | p :: r ->
    (tag (match left with
          | O -> PosOrKw
          | S _ -> POnly) p) :: (ploop r (pred left))

type sigres =
| SigOk of sigparam list
| SigError

(** val zfirstn : z -> 'a1 list -> 'a1 list **)

let zfirstn n0 l =
  firstn (Z.to_nat n0) l

(** val zskipn : z -> 'a1 list -> 'a1 list **)

let zskipn n0 l =
  skipn (Z.to_nat n0) l

(** val py_upto : z -> 'a1 list -> 'a1 list **)

let py_upto n0 l =
  if Z.ltb n0 Z0 then zfirstn (Z.add (zlen l) n0) l else zfirstn n0 l

(** val py_from : z -> 'a1 list -> 'a1 list **)

let py_from n0 l =
  if Z.ltb n0 Z0 then zskipn (Z.add (zlen l) n0) l else zskipn n0 l

(** val sig_of_code : code -> dflt list -> (name * dflt) list -> sigres **)

let sig_of_code c defaults kwdefaults =
  let pos_count = c.co_argcount in
  let arg_names = c.co_varnames in
  let positional = py_upto pos_count arg_names in
  let kw_count = c.co_kwonlyargcount in
  let keyword_only = zfirstn kw_count (zskipn pos_count arg_names) in
  let non_default_count = Z.sub pos_count (zlen defaults) in
  let part1 =
    map (fun n0 -> (n0, None)) (py_upto non_default_count positional)
  in
  let part2 =
    combine (py_from non_default_count positional)
      (map (fun x -> Some x) defaults)
  in
  let pos_params = ploop (app part1 part2) (Z.to_nat c.co_posonlyargcount) in
  let has_var = Z.testbit c.co_flags (Zpos (XO XH)) in
  let has_kw = Z.testbit c.co_flags (Zpos (XI XH)) in
  let idx = Z.to_nat (Z.add pos_count kw_count) in
  let kw_params =
    map (fun n0 -> ((n0, KwOnly), (lookup n0 kwdefaults))) keyword_only
  in
  (match if has_var then nth_error arg_names idx else Some N0 with
   | Some vn ->
     (match if has_kw
            then nth_error arg_names (if has_var then S idx else idx)
            else Some N0 with
      | Some kn ->
        SigOk
          (app pos_params
            (app (if has_var then ((vn, VarPos), None) :: [] else [])
              (app kw_params
                (if has_kw then ((kn, VarKw), None) :: [] else []))))
      | None -> SigError)
   | None -> SigError)

(** val compiled_sig : (fkind -> bool) -> fsrc list -> fsrc -> sigres **)

let compiled_sig skip fs f =
  sig_of_code (code_of skip fs f) (defaults_of f) (kwdefaults_of f)

(** val descr_eqb : descr -> descr -> bool **)

let descr_eqb a b =
  (&&)
    ((&&)
      ((&&)
        ((&&)
          ((&&) (Z.eqb a.d_argcount b.d_argcount)
            (Z.eqb a.d_posonly b.d_posonly)) (Z.eqb a.d_kwonly b.d_kwonly))
        (Z.eqb a.d_nlocals b.d_nlocals)) (Z.eqb a.d_flags b.d_flags))
    (Z.eqb a.d_line b.d_line)

(** val survives : (fkind -> bool) -> fsrc list -> fsrc -> bool **)

let survives skip fs f =
  descr_eqb (store (widths skip fs) (emitted f)) (emitted f)
