
val negb : bool -> bool

type nat =
| O
| S of nat

val option_map : ('a1 -> 'a2) -> 'a1 option -> 'a2 option

val fst : ('a1 * 'a2) -> 'a1

val snd : ('a1 * 'a2) -> 'a2

val length : 'a1 list -> nat

type positive =
| XI of positive
| XO of positive
| XH

type n =
| N0
| Npos of positive

type z =
| Z0
| Zpos of positive
| Zneg of positive

module Nat :
 sig
  val leb : nat -> nat -> bool

  val ltb : nat -> nat -> bool
 end

val nth : nat -> 'a1 list -> 'a1 -> 'a1

val repeat : 'a1 -> nat -> 'a1 list

val ex_keep : (((((nat * n) * z) * z list) * z option) * positive) * bool

type blk = { b_c : z list; b_o : z list }

type tclass =
| TExact
| TSameSize
| TOther

type cfg = { c_use_fl : bool; c_type_specs : bool; c_memset : bool;
             c_cap : nat; c_nc : nat; c_no : nat }

val zero_blk : cfg -> blk

val eligible : cfg -> tclass -> bool

val init : cfg -> blk -> blk

val alloc_raw : cfg -> tclass -> blk list -> blk * blk list

val alloc : cfg -> tclass -> blk list -> blk * blk list

val dealloc : cfg -> tclass -> blk -> blk list -> blk list

type store = (tclass * blk) option list

val sget : store -> nat -> (tclass * blk) option

val sset : store -> nat -> (tclass * blk) option -> store

val upd : z list -> nat -> z -> z list

type op =
| ONew of nat * tclass
| OSetC of nat * nat * z
| OSetO of nat * nat * z
| OFree of nat
| OGet of nat

val release : cfg -> (tclass * blk) option -> blk list -> blk list

val step :
  cfg -> blk list -> store -> op -> (blk list * store) * blk option option

val run : cfg -> blk list -> store -> op list -> blk option list * blk list

val trace : cfg -> blk list -> store -> op list -> blk option list

val final_freelist : cfg -> blk list -> store -> op list -> blk list

val new_blk : nat -> nat -> blk

val step_ref : nat -> nat -> store -> op -> store * blk option option

val trace_ref : nat -> nat -> store -> op list -> blk option list

val mk_cfg : bool -> bool -> bool -> nat -> nat -> nat -> cfg
