
(** val negb : bool -> bool **)

let negb = function
| true -> false
| false -> true

type nat =
| O
| S of nat

(** val app : 'a1 list -> 'a1 list -> 'a1 list **)

let rec app l m =
  match l with
  | [] -> m
  | a :: l1 -> a :: (app l1 m)

type comparison =
| Eq
| Lt
| Gt

(** val compOpp : comparison -> comparison **)

let compOpp = function
| Eq -> Eq
| Lt -> Gt
| Gt -> Lt

module Coq__1 = struct
 (** val add : nat -> nat -> nat **)
 let rec add n0 m =
   match n0 with
   | O -> m
   | S p -> S (add p m)
end
include Coq__1

type positive =
| XI of positive
| XO of positive
| XH

type n =
| N0
| Npos of positive

type z =
| Z0
| Zpos of positive
| Zneg of positive

(** val eqb : bool -> bool -> bool **)

let eqb b1 b2 =
  if b1 then b2 else if b2 then false else true

module Pos =
 struct
  (** val succ : positive -> positive **)

  let rec succ = function
  | XI p -> XO (succ p)
  | XO p -> XI p
  | XH -> XO XH

  (** val add : positive -> positive -> positive **)

  let rec add x y =
    match x with
    | XI p ->
      (match y with
       | XI q -> XO (add_carry p q)
       | XO q -> XI (add p q)
       | XH -> XO (succ p))
    | XO p ->
      (match y with
       | XI q -> XI (add p q)
       | XO q -> XO (add p q)
       | XH -> XI p)
    | XH -> (match y with
             | XI q -> XO (succ q)
             | XO q -> XI q
             | XH -> XO XH)

  (** val add_carry : positive -> positive -> positive **)

  and add_carry x y =
    match x with
    | XI p ->
      (match y with
       | XI q -> XI (add_carry p q)
       | XO q -> XO (add_carry p q)
       | XH -> XI (succ p))
    | XO p ->
      (match y with
       | XI q -> XO (add_carry p q)
       | XO q -> XI (add p q)
       | XH -> XO (succ p))
    | XH ->
      (match y with
       | XI q -> XI (succ q)
       | XO q -> XO (succ q)
       | XH -> XI XH)

  (** val mul : positive -> positive -> positive **)

  let rec mul x y =
    match x with
    | XI p -> add y (XO (mul p y))
    | XO p -> XO (mul p y)
    | XH -> y

  (** val compare_cont : comparison -> positive -> positive -> comparison **)

  let rec compare_cont r x y =
    match x with
    | XI p ->
      (match y with
       | XI q -> compare_cont r p q
       | XO q -> compare_cont Gt p q
       | XH -> Gt)
    | XO p ->
      (match y with
       | XI q -> compare_cont Lt p q
       | XO q -> compare_cont r p q
       | XH -> Gt)
    | XH -> (match y with
             | XH -> r
             | _ -> Lt)

  (** val compare : positive -> positive -> comparison **)

  let compare =
    compare_cont Eq

  (** val eqb : positive -> positive -> bool **)

  let rec eqb p q =
    match p with
    | XI p0 -> (match q with
                | XI q0 -> eqb p0 q0
                | _ -> false)
    | XO p0 -> (match q with
                | XO q0 -> eqb p0 q0
                | _ -> false)
    | XH -> (match q with
             | XH -> true
             | _ -> false)

  (** val iter_op : ('a1 -> 'a1 -> 'a1) -> positive -> 'a1 -> 'a1 **)

  let rec iter_op op p a =
    match p with
    | XI p0 -> op a (iter_op op p0 (op a a))
    | XO p0 -> iter_op op p0 (op a a)
    | XH -> a

  (** val to_nat : positive -> nat **)

  let to_nat x =
    iter_op Coq__1.add x (S O)
 end

module Z =
 struct
  (** val mul : z -> z -> z **)

  let mul x y =
    match x with
    | Z0 -> Z0
    | Zpos x' ->
      (match y with
       | Z0 -> Z0
       | Zpos y' -> Zpos (Pos.mul x' y')
       | Zneg y' -> Zneg (Pos.mul x' y'))
    | Zneg x' ->
      (match y with
       | Z0 -> Z0
       | Zpos y' -> Zneg (Pos.mul x' y')
       | Zneg y' -> Zpos (Pos.mul x' y'))

  (** val compare : z -> z -> comparison **)

  let compare x y =
    match x with
    | Z0 -> (match y with
             | Z0 -> Eq
             | Zpos _ -> Lt
             | Zneg _ -> Gt)
    | Zpos x' -> (match y with
                  | Zpos y' -> Pos.compare x' y'
                  | _ -> Gt)
    | Zneg x' ->
      (match y with
       | Zneg y' -> compOpp (Pos.compare x' y')
       | _ -> Lt)

  (** val leb : z -> z -> bool **)

  let leb x y =
    match compare x y with
    | Gt -> false
    | _ -> true

  (** val eqb : z -> z -> bool **)

  let eqb x y =
    match x with
    | Z0 -> (match y with
             | Z0 -> true
             | _ -> false)
    | Zpos p -> (match y with
                 | Zpos q -> Pos.eqb p q
                 | _ -> false)
    | Zneg p -> (match y with
                 | Zneg q -> Pos.eqb p q
                 | _ -> false)

  (** val to_nat : z -> nat **)

  let to_nat = function
  | Zpos p -> Pos.to_nat p
  | _ -> O
 end

(** val map : ('a1 -> 'a2) -> 'a1 list -> 'a2 list **)

let rec map f = function
| [] -> []
| a :: t -> (f a) :: (map f t)

(** val flat_map : ('a1 -> 'a2 list) -> 'a1 list -> 'a2 list **)

let rec flat_map f = function
| [] -> []
| x :: t -> app (f x) (flat_map f t)

(** val forallb : ('a1 -> bool) -> 'a1 list -> bool **)

let rec forallb f = function
| [] -> true
| a :: l0 -> (&&) (f a) (forallb f l0)

(** val ex_keep :
    (((((nat * n) * z) * z list) * z option) * positive) * bool **)

let ex_keep =
  ((((((O, N0), Z0), []), None), XH), true)

type kind =
| KTuple
| KList

type value =
| VInt of z
| VBool of bool
| VOpq of bool
| VSeq of kind * value list

type expr =
| EInt of z
| EBool of bool
| EOpq of bool
| EVar of nat
| EStar of expr
| EDisp of kind * expr list
| EMul of expr * expr
| ECmp of expr * expr
| EOr of expr * expr
| ECond of expr * expr * expr

(** val kind_eqb : kind -> kind -> bool **)

let kind_eqb a b =
  match a with
  | KTuple -> (match b with
               | KTuple -> true
               | KList -> false)
  | KList -> (match b with
              | KTuple -> false
              | KList -> true)

(** val rep_nat : nat -> 'a1 list -> 'a1 list **)

let rec rep_nat n0 l =
  match n0 with
  | O -> []
  | S m -> app l (rep_nat m l)

(** val zrep : z -> 'a1 list -> 'a1 list **)

let zrep n0 l =
  rep_nat (Z.to_nat n0) l

(** val as_int : value -> z option **)

let as_int = function
| VInt z0 -> Some z0
| VBool b -> Some (if b then Zpos XH else Z0)
| _ -> None

(** val py_mul : value -> value -> value option **)

let py_mul a b =
  match a with
  | VSeq (k, l) ->
    (match as_int b with
     | Some n0 -> Some (VSeq (k, (zrep n0 l)))
     | None -> None)
  | _ ->
    (match b with
     | VSeq (k, l) ->
       (match as_int a with
        | Some n0 -> Some (VSeq (k, (zrep n0 l)))
        | None -> None)
     | _ ->
       (match as_int a with
        | Some p ->
          (match as_int b with
           | Some q -> Some (VInt (Z.mul p q))
           | None -> None)
        | None -> None))

(** val truthy : value -> bool **)

let truthy = function
| VInt z0 -> negb (Z.eqb z0 Z0)
| VBool b -> b
| VOpq b -> b
| VSeq (_, l) -> (match l with
                  | [] -> false
                  | _ :: _ -> true)

(** val py_eq : value -> value -> bool **)

let rec py_eq a b =
  match a with
  | VInt _ ->
    (match b with
     | VInt _ ->
       (match as_int a with
        | Some p -> (match as_int b with
                     | Some q -> Z.eqb p q
                     | None -> false)
        | None -> false)
     | VBool _ ->
       (match as_int a with
        | Some p -> (match as_int b with
                     | Some q -> Z.eqb p q
                     | None -> false)
        | None -> false)
     | _ -> false)
  | VBool _ ->
    (match b with
     | VInt _ ->
       (match as_int a with
        | Some p -> (match as_int b with
                     | Some q -> Z.eqb p q
                     | None -> false)
        | None -> false)
     | VBool _ ->
       (match as_int a with
        | Some p -> (match as_int b with
                     | Some q -> Z.eqb p q
                     | None -> false)
        | None -> false)
     | _ -> false)
  | VOpq x -> (match b with
               | VOpq y -> eqb x y
               | _ -> false)
  | VSeq (k1, l1) ->
    (match b with
     | VSeq (k2, l2) ->
       (&&) (kind_eqb k1 k2)
         (let rec go l3 l4 =
            match l3 with
            | [] -> (match l4 with
                     | [] -> true
                     | _ :: _ -> false)
            | x :: t ->
              (match l4 with
               | [] -> false
               | y :: u -> (&&) (py_eq x y) (go t u))
          in go l1 l2)
     | _ -> false)

(** val eval : (nat -> value) -> expr -> value option **)

let rec eval env = function
| EInt z0 -> Some (VInt z0)
| EBool b -> Some (VBool b)
| EOpq b -> Some (VOpq b)
| EVar n0 -> Some (env n0)
| EStar _ -> None
| EDisp (k, items) ->
  (match let rec go = function
         | [] -> Some []
         | x :: t ->
           (match x with
            | EInt _ ->
              (match eval env x with
               | Some v ->
                 (match go t with
                  | Some r -> Some (v :: r)
                  | None -> None)
               | None -> None)
            | EStar x0 ->
              (match eval env x0 with
               | Some v ->
                 (match v with
                  | VSeq (_, vs) ->
                    (match go t with
                     | Some r -> Some (app vs r)
                     | None -> None)
                  | _ -> None)
               | None -> None)
            | _ ->
              (match eval env x with
               | Some v ->
                 (match go t with
                  | Some r -> Some (v :: r)
                  | None -> None)
               | None -> None))
         in go items with
   | Some l -> Some (VSeq (k, l))
   | None -> None)
| EMul (a, b) ->
  (match eval env a with
   | Some x -> (match eval env b with
                | Some y -> py_mul x y
                | None -> None)
   | None -> None)
| ECmp (a, b) ->
  (match eval env a with
   | Some x ->
     (match eval env b with
      | Some y -> Some (VBool (py_eq x y))
      | None -> None)
   | None -> None)
| EOr (a, b) ->
  (match eval env a with
   | Some x -> if truthy x then Some x else eval env b
   | None -> None)
| ECond (c, a, b) ->
  (match eval env c with
   | Some x -> if truthy x then eval env a else eval env b
   | None -> None)

type fnode =
| FInt of z
| FBool of bool
| FOpq of bool
| FVar of nat
| FStar of fnode
| FSeq of kind * fnode list * fnode option * value option
| FMul of fnode * fnode * value option
| FCmp of fnode * fnode
| FOr of fnode * fnode
| FCond of fnode * fnode * fnode

(** val cres : fnode -> value option **)

let cres = function
| FInt z0 -> Some (VInt z0)
| FBool b -> Some (VBool b)
| FOpq b -> Some (VOpq b)
| FSeq (_, _, _, c) -> c
| FMul (_, _, c) -> c
| _ -> None

(** val fdenote : (nat -> value) -> fnode -> value option **)

let rec fdenote env = function
| FInt z0 -> Some (VInt z0)
| FBool b -> Some (VBool b)
| FOpq b -> Some (VOpq b)
| FVar v -> Some (env v)
| FStar _ -> None
| FSeq (k, items, m, _) ->
  (match let rec go = function
         | [] -> Some []
         | x :: t ->
           (match x with
            | FInt _ ->
              (match fdenote env x with
               | Some v ->
                 (match go t with
                  | Some r -> Some (v :: r)
                  | None -> None)
               | None -> None)
            | FStar x0 ->
              (match fdenote env x0 with
               | Some v ->
                 (match v with
                  | VSeq (_, vs) ->
                    (match go t with
                     | Some r -> Some (app vs r)
                     | None -> None)
                  | _ -> None)
               | None -> None)
            | _ ->
              (match fdenote env x with
               | Some v ->
                 (match go t with
                  | Some r -> Some (v :: r)
                  | None -> None)
               | None -> None))
         in go items with
   | Some l ->
     (match m with
      | Some mf ->
        (match fdenote env mf with
         | Some f ->
           (match as_int f with
            | Some n1 -> Some (VSeq (k, (zrep n1 l)))
            | None -> None)
         | None -> None)
      | None -> Some (VSeq (k, l)))
   | None -> None)
| FMul (a, b, _) ->
  (match fdenote env a with
   | Some x -> (match fdenote env b with
                | Some y -> py_mul x y
                | None -> None)
   | None -> None)
| FCmp (a, b) ->
  (match fdenote env a with
   | Some x ->
     (match fdenote env b with
      | Some y -> Some (VBool (py_eq x y))
      | None -> None)
   | None -> None)
| FOr (a, b) ->
  (match fdenote env a with
   | Some x -> if truthy x then Some x else fdenote env b
   | None -> None)
| FCond (c, a, b) ->
  (match fdenote env c with
   | Some x -> if truthy x then fdenote env a else fdenote env b
   | None -> None)

(** val flatten : bool -> fnode list -> fnode list **)

let flatten guard items =
  flat_map (fun it ->
    match it with
    | FStar x ->
      (match x with
       | FSeq (_, args, m, _) ->
         (match m with
          | Some _ -> if guard then it :: [] else args
          | None -> args)
       | _ -> it :: [])
    | _ -> it :: []) items

(** val items_cres : fnode list -> value list option **)

let rec items_cres = function
| [] -> Some []
| x :: t ->
  (match cres x with
   | Some v ->
     (match items_cres t with
      | Some r -> Some (v :: r)
      | None -> None)
   | None -> None)

(** val is_int_value : value option -> z option **)

let is_int_value = function
| Some v0 ->
  (match v0 with
   | VInt z0 -> Some z0
   | VBool b -> Some (if b then Zpos XH else Z0)
   | _ -> None)
| None -> None

(** val differs_from_one : value option -> bool **)

let differs_from_one v =
  match is_int_value v with
  | Some z0 -> negb (Z.eqb z0 (Zpos XH))
  | None -> true

(** val binop_mul : fnode -> fnode -> value option -> fnode **)

let binop_mul a b c = match c with
| Some v ->
  (match v with
   | VInt z0 ->
     (match a with
      | FInt _ ->
        (match b with
         | FInt _ -> FInt z0
         | FBool _ -> FInt z0
         | _ -> FMul (a, b, c))
      | FBool _ ->
        (match b with
         | FInt _ -> FInt z0
         | FBool _ -> FInt z0
         | _ -> FMul (a, b, c))
      | _ -> FMul (a, b, c))
   | _ -> FMul (a, b, c))
| None -> FMul (a, b, c)

(** val calc_seq :
    bool -> fnode -> kind -> fnode list -> fnode option -> value option ->
    fnode -> fnode **)

let calc_seq fx node k args m sc factor =
  let fc = cres factor in
  if (&&) (differs_from_one fc) (match args with
                                 | [] -> false
                                 | _ :: _ -> true)
  then (match is_int_value fc with
        | Some z0 ->
          if Z.leb z0 Z0
          then FSeq (k, [], None, (if fx then Some (VSeq (k, [])) else sc))
          else (match m with
                | Some mf ->
                  (match is_int_value (cres mf) with
                   | Some mz ->
                     FSeq (k, args, (Some (FInt (Z.mul mz z0))),
                       (if fx then None else sc))
                   | None -> node)
                | None ->
                  FSeq (k, args, (Some factor), (if fx then None else sc)))
        | None ->
          (match m with
           | Some _ -> node
           | None -> FSeq (k, args, (Some factor), (if fx then None else sc))))
  else FSeq (k, args, m, sc)

(** val mul_node : bool -> fnode -> fnode -> fnode **)

let mul_node fx a b =
  let c =
    match cres a with
    | Some x -> (match cres b with
                 | Some y -> py_mul x y
                 | None -> None)
    | None -> None
  in
  (match a with
   | FInt _ ->
     (match b with
      | FSeq (k, args, m, sc) -> calc_seq fx (FMul (a, b, c)) k args m sc a
      | _ -> binop_mul a b c)
   | FSeq (k, args, m, sc) -> calc_seq fx (FMul (a, b, c)) k args m sc b
   | _ -> binop_mul a b c)

(** val fold : bool -> bool -> expr -> fnode **)

let rec fold fx guard = function
| EInt z0 -> FInt z0
| EBool b -> FBool b
| EOpq b -> FOpq b
| EVar n0 -> FVar n0
| EStar x -> FStar (fold fx guard x)
| EDisp (k, items) ->
  let fl = flatten guard (map (fold fx guard) items) in
  FSeq (k, fl, None,
  (match items_cres fl with
   | Some l -> Some (VSeq (k, l))
   | None -> None))
| EMul (a, b) -> mul_node fx (fold fx guard a) (fold fx guard b)
| ECmp (a, b) ->
  let a' = fold fx guard a in
  let b' = fold fx guard b in
  (match cres a' with
   | Some x ->
     (match cres b' with
      | Some y -> FBool (py_eq x y)
      | None -> FCmp (a', b'))
   | None -> FCmp (a', b'))
| EOr (a, b) ->
  let a' = fold fx guard a in
  let b' = fold fx guard b in
  (match cres a' with
   | Some x -> if truthy x then a' else b'
   | None -> FOr (a', b'))
| ECond (c, a, b) ->
  let c' = fold fx guard c in
  let a' = fold fx guard a in
  let b' = fold fx guard b in
  (match cres c' with
   | Some x -> if truthy x then a' else b'
   | None -> FCond (c', a', b'))

(** val display_only : expr -> bool **)

let rec display_only = function
| EStar x -> display_only x
| EDisp (_, items) -> forallb display_only items
| EMul (a, b) -> (&&) (display_only a) (display_only b)
| ECmp (_, _) -> false
| EOr (_, _) -> false
| ECond (_, _, _) -> false
| _ -> true
