
type nat =
| O
| S of nat

val length : 'a1 list -> nat

val app : 'a1 list -> 'a1 list -> 'a1 list

val sub : nat -> nat -> nat

type positive =
| XI of positive
| XO of positive
| XH

type n =
| N0
| Npos of positive

type z =
| Z0
| Zpos of positive
| Zneg of positive

module Nat :
 sig
  val eqb : nat -> nat -> bool

  val leb : nat -> nat -> bool

  val ltb : nat -> nat -> bool
 end

val tl : 'a1 list -> 'a1 list

val rev : 'a1 list -> 'a1 list

val map : ('a1 -> 'a2) -> 'a1 list -> 'a2 list

val fold_left : ('a1 -> 'a2 -> 'a1) -> 'a2 list -> 'a1 -> 'a1

val firstn : nat -> 'a1 list -> 'a1 list

val repeat : 'a1 -> nat -> 'a1 list

val ex_keep : (((((nat * n) * z) * z list) * z option) * positive) * bool

type str = nat list

val dOT : nat

val split_dots : str -> str list

val join_dots : str list -> str

val ends_with_dot : str -> bool

val starts_with_dot : str -> bool

val str_eqb : str -> str -> bool

type stmt =
| SFrom of str * str list
| SCimport of str list
| SExtern of str
| SInclude of str

type sep_rule =
| SepEndsWithDot
| SepOnlyOneDot

val sep_of : sep_rule -> str -> str

val from_candidates : sep_rule -> str -> str list -> str list

type scanned = { sc_cimports : str list; sc_includes : str list;
                 sc_externs : str list }

val scan_stmt : sep_rule -> stmt -> scanned -> scanned

val scan : sep_rule -> stmt list -> scanned

val package_rev : (str * bool) list -> str list

val package_of : (str * bool) list -> str list

val strip_levels : str list -> str list -> (str list * str list) option

val drop_trailing_empty : str list -> str list

val find_pxd_cands : bool -> str -> str list -> str list option

val render : nat -> str list -> str

val import_rule : nat -> str list -> str list -> str list option
