
val negb : bool -> bool

type nat =
| O
| S of nat

val app : 'a1 list -> 'a1 list -> 'a1 list

type comparison =
| Eq
| Lt
| Gt

val compOpp : comparison -> comparison

val add : nat -> nat -> nat

type positive =
| XI of positive
| XO of positive
| XH

type n =
| N0
| Npos of positive

type z =
| Z0
| Zpos of positive
| Zneg of positive

val eqb : bool -> bool -> bool

module Pos :
 sig
  val succ : positive -> positive

  val add : positive -> positive -> positive

  val add_carry : positive -> positive -> positive

  val mul : positive -> positive -> positive

  val compare_cont : comparison -> positive -> positive -> comparison

  val compare : positive -> positive -> comparison

  val eqb : positive -> positive -> bool

  val iter_op : ('a1 -> 'a1 -> 'a1) -> positive -> 'a1 -> 'a1

  val to_nat : positive -> nat
 end

module Z :
 sig
  val mul : z -> z -> z

  val compare : z -> z -> comparison

  val leb : z -> z -> bool

  val eqb : z -> z -> bool

  val to_nat : z -> nat
 end

val map : ('a1 -> 'a2) -> 'a1 list -> 'a2 list

val flat_map : ('a1 -> 'a2 list) -> 'a1 list -> 'a2 list

val forallb : ('a1 -> bool) -> 'a1 list -> bool

val ex_keep : (((((nat * n) * z) * z list) * z option) * positive) * bool

type kind =
| KTuple
| KList

type value =
| VInt of z
| VBool of bool
| VOpq of bool
| VSeq of kind * value list

type expr =
| EInt of z
| EBool of bool
| EOpq of bool
| EVar of nat
| EStar of expr
| EDisp of kind * expr list
| EMul of expr * expr
| ECmp of expr * expr
| EOr of expr * expr
| ECond of expr * expr * expr

val kind_eqb : kind -> kind -> bool

val rep_nat : nat -> 'a1 list -> 'a1 list

val zrep : z -> 'a1 list -> 'a1 list

val as_int : value -> z option

val py_mul : value -> value -> value option

val truthy : value -> bool

val py_eq : value -> value -> bool

val eval : (nat -> value) -> expr -> value option

type fnode =
| FInt of z
| FBool of bool
| FOpq of bool
| FVar of nat
| FStar of fnode
| FSeq of kind * fnode list * fnode option * value option
| FMul of fnode * fnode * value option
| FCmp of fnode * fnode
| FOr of fnode * fnode
| FCond of fnode * fnode * fnode

val cres : fnode -> value option

val fdenote : (nat -> value) -> fnode -> value option

val flatten : bool -> fnode list -> fnode list

val items_cres : fnode list -> value list option

val is_int_value : value option -> z option

val differs_from_one : value option -> bool

val binop_mul : fnode -> fnode -> value option -> fnode

val calc_seq :
  bool -> fnode -> kind -> fnode list -> fnode option -> value option ->
  fnode -> fnode

val mul_node : bool -> fnode -> fnode -> fnode

val fold : bool -> bool -> expr -> fnode

val display_only : expr -> bool
