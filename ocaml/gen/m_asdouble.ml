
(** val negb : bool -> bool **)

let negb = function
| true -> false
| false -> true

type nat =
| O
| S of nat

(** val fst : ('a1 * 'a2) -> 'a1 **)

let fst = function
| (x, _) -> x

(** val snd : ('a1 * 'a2) -> 'a2 **)

let snd = function
| (_, y) -> y

(** val length : 'a1 list -> nat **)

let rec length = function
| [] -> O
| _ :: l' -> S (length l')

(** val app : 'a1 list -> 'a1 list -> 'a1 list **)

let rec app l m =
  match l with
  | [] -> m
  | a :: l1 -> a :: (app l1 m)

type comparison =
| Eq
| Lt
| Gt

(** val compOpp : comparison -> comparison **)

let compOpp = function
| Eq -> Eq
| Lt -> Gt
| Gt -> Lt

(** val add : nat -> nat -> nat **)

let rec add n0 m =
  match n0 with
  | O -> m
  | S p -> S (add p m)

type positive =
| XI of positive
| XO of positive
| XH

type n =
| N0
| Npos of positive

type z =
| Z0
| Zpos of positive
| Zneg of positive

module Nat =
 struct
  (** val eqb : nat -> nat -> bool **)

  let rec eqb n0 m =
    match n0 with
    | O -> (match m with
            | O -> true
            | S _ -> false)
    | S n' -> (match m with
               | O -> false
               | S m' -> eqb n' m')

  (** val leb : nat -> nat -> bool **)

  let rec leb n0 m =
    match n0 with
    | O -> true
    | S n' -> (match m with
               | O -> false
               | S m' -> leb n' m')

  (** val ltb : nat -> nat -> bool **)

  let ltb n0 m =
    leb (S n0) m
 end

module Pos =
 struct
  (** val succ : positive -> positive **)

  let rec succ = function
  | XI p -> XO (succ p)
  | XO p -> XI p
  | XH -> XO XH

  (** val add : positive -> positive -> positive **)

  let rec add x y =
    match x with
    | XI p ->
      (match y with
       | XI q -> XO (add_carry p q)
       | XO q -> XI (add p q)
       | XH -> XO (succ p))
    | XO p ->
      (match y with
       | XI q -> XI (add p q)
       | XO q -> XO (add p q)
       | XH -> XI p)
    | XH -> (match y with
             | XI q -> XO (succ q)
             | XO q -> XI q
             | XH -> XO XH)

  (** val add_carry : positive -> positive -> positive **)

  and add_carry x y =
    match x with
    | XI p ->
      (match y with
       | XI q -> XI (add_carry p q)
       | XO q -> XO (add_carry p q)
       | XH -> XI (succ p))
    | XO p ->
      (match y with
       | XI q -> XO (add_carry p q)
       | XO q -> XI (add p q)
       | XH -> XO (succ p))
    | XH ->
      (match y with
       | XI q -> XI (succ q)
       | XO q -> XO (succ q)
       | XH -> XI XH)

  (** val pred_double : positive -> positive **)

  let rec pred_double = function
  | XI p -> XI (XO p)
  | XO p -> XI (pred_double p)
  | XH -> XH

  (** val compare_cont : comparison -> positive -> positive -> comparison **)

  let rec compare_cont r x y =
    match x with
    | XI p ->
      (match y with
       | XI q -> compare_cont r p q
       | XO q -> compare_cont Gt p q
       | XH -> Gt)
    | XO p ->
      (match y with
       | XI q -> compare_cont Lt p q
       | XO q -> compare_cont r p q
       | XH -> Gt)
    | XH -> (match y with
             | XH -> r
             | _ -> Lt)

  (** val compare : positive -> positive -> comparison **)

  let compare =
    compare_cont Eq

  (** val eqb : positive -> positive -> bool **)

  let rec eqb p q =
    match p with
    | XI p0 -> (match q with
                | XI q0 -> eqb p0 q0
                | _ -> false)
    | XO p0 -> (match q with
                | XO q0 -> eqb p0 q0
                | _ -> false)
    | XH -> (match q with
             | XH -> true
             | _ -> false)

  (** val of_succ_nat : nat -> positive **)

  let rec of_succ_nat = function
  | O -> XH
  | S x -> succ (of_succ_nat x)
 end

module Z =
 struct
  (** val double : z -> z **)

  let double = function
  | Z0 -> Z0
  | Zpos p -> Zpos (XO p)
  | Zneg p -> Zneg (XO p)

  (** val succ_double : z -> z **)

  let succ_double = function
  | Z0 -> Zpos XH
  | Zpos p -> Zpos (XI p)
  | Zneg p -> Zneg (Pos.pred_double p)

  (** val pred_double : z -> z **)

  let pred_double = function
  | Z0 -> Zneg XH
  | Zpos p -> Zpos (Pos.pred_double p)
  | Zneg p -> Zneg (XI p)

  (** val pos_sub : positive -> positive -> z **)

  let rec pos_sub x y =
    match x with
    | XI p ->
      (match y with
       | XI q -> double (pos_sub p q)
       | XO q -> succ_double (pos_sub p q)
       | XH -> Zpos (XO p))
    | XO p ->
      (match y with
       | XI q -> pred_double (pos_sub p q)
       | XO q -> double (pos_sub p q)
       | XH -> Zpos (Pos.pred_double p))
    | XH ->
      (match y with
       | XI q -> Zneg (XO q)
       | XO q -> Zneg (Pos.pred_double q)
       | XH -> Z0)

  (** val add : z -> z -> z **)

  let add x y =
    match x with
    | Z0 -> y
    | Zpos x' ->
      (match y with
       | Z0 -> x
       | Zpos y' -> Zpos (Pos.add x' y')
       | Zneg y' -> pos_sub x' y')
    | Zneg x' ->
      (match y with
       | Z0 -> x
       | Zpos y' -> pos_sub y' x'
       | Zneg y' -> Zneg (Pos.add x' y'))

  (** val opp : z -> z **)

  let opp = function
  | Z0 -> Z0
  | Zpos x0 -> Zneg x0
  | Zneg x0 -> Zpos x0

  (** val sub : z -> z -> z **)

  let sub m n0 =
    add m (opp n0)

  (** val compare : z -> z -> comparison **)

  let compare x y =
    match x with
    | Z0 -> (match y with
             | Z0 -> Eq
             | Zpos _ -> Lt
             | Zneg _ -> Gt)
    | Zpos x' -> (match y with
                  | Zpos y' -> Pos.compare x' y'
                  | _ -> Gt)
    | Zneg x' ->
      (match y with
       | Zneg y' -> compOpp (Pos.compare x' y')
       | _ -> Lt)

  (** val leb : z -> z -> bool **)

  let leb x y =
    match compare x y with
    | Gt -> false
    | _ -> true

  (** val ltb : z -> z -> bool **)

  let ltb x y =
    match compare x y with
    | Lt -> true
    | _ -> false

  (** val eqb : z -> z -> bool **)

  let eqb x y =
    match x with
    | Z0 -> (match y with
             | Z0 -> true
             | _ -> false)
    | Zpos p -> (match y with
                 | Zpos q -> Pos.eqb p q
                 | _ -> false)
    | Zneg p -> (match y with
                 | Zneg q -> Pos.eqb p q
                 | _ -> false)

  (** val of_nat : nat -> z **)

  let of_nat = function
  | O -> Z0
  | S n1 -> Zpos (Pos.of_succ_nat n1)
 end

(** val nth_error : 'a1 list -> nat -> 'a1 option **)

let rec nth_error l = function
| O -> (match l with
        | [] -> None
        | x :: _ -> Some x)
| S n1 -> (match l with
           | [] -> None
           | _ :: l0 -> nth_error l0 n1)

(** val removelast : 'a1 list -> 'a1 list **)

let rec removelast = function
| [] -> []
| a :: l0 -> (match l0 with
              | [] -> []
              | _ :: _ -> a :: (removelast l0))

(** val rev : 'a1 list -> 'a1 list **)

let rec rev = function
| [] -> []
| x :: l' -> app (rev l') (x :: [])

(** val map : ('a1 -> 'a2) -> 'a1 list -> 'a2 list **)

let rec map f = function
| [] -> []
| a :: t -> (f a) :: (map f t)

(** val existsb : ('a1 -> bool) -> 'a1 list -> bool **)

let rec existsb f = function
| [] -> false
| a :: l0 -> (||) (f a) (existsb f l0)

(** val forallb : ('a1 -> bool) -> 'a1 list -> bool **)

let rec forallb f = function
| [] -> true
| a :: l0 -> (&&) (f a) (forallb f l0)

(** val filter : ('a1 -> bool) -> 'a1 list -> 'a1 list **)

let rec filter f = function
| [] -> []
| x :: l0 -> if f x then x :: (filter f l0) else filter f l0

(** val combine : 'a1 list -> 'a2 list -> ('a1 * 'a2) list **)

let rec combine l l' =
  match l with
  | [] -> []
  | x :: tl ->
    (match l' with
     | [] -> []
     | y :: tl' -> (x, y) :: (combine tl tl'))

(** val ex_keep :
    (((((nat * n) * z) * z list) * z option) * positive) * bool **)

let ex_keep =
  ((((((O, N0), Z0), []), None), XH), true)

(** val isspace_b : z -> bool **)

let isspace_b c =
  (||) (Z.eqb c (Zpos (XO (XO (XO (XO (XO XH)))))))
    ((&&) (Z.leb (Zpos (XI (XO (XO XH)))) c)
      (Z.leb c (Zpos (XI (XO (XI XH))))))

(** val isspace_u : z -> bool **)

let isspace_u c =
  if Z.ltb c (Zpos (XO (XO (XO (XO (XO (XO (XO XH))))))))
  then (||)
         ((||) (Z.eqb c (Zpos (XO (XO (XO (XO (XO XH)))))))
           ((&&) (Z.leb (Zpos (XI (XO (XO XH)))) c)
             (Z.leb c (Zpos (XI (XO (XI XH)))))))
         ((&&) (Z.leb (Zpos (XO (XO (XI (XI XH))))) c)
           (Z.leb c (Zpos (XI (XI (XI (XI XH)))))))
  else (||)
         ((||)
           ((||)
             ((||)
               ((||)
                 ((||)
                   ((||)
                     ((||)
                       (Z.eqb c (Zpos (XI (XO (XI (XO (XO (XO (XO XH)))))))))
                       (Z.eqb c (Zpos (XO (XO (XO (XO (XO (XI (XO XH))))))))))
                     (Z.eqb c (Zpos (XO (XO (XO (XO (XO (XO (XO (XI (XO (XI
                       (XI (XO XH)))))))))))))))
                   ((&&)
                     (Z.leb (Zpos (XO (XO (XO (XO (XO (XO (XO (XO (XO (XO (XO
                       (XO (XO XH)))))))))))))) c)
                     (Z.leb c (Zpos (XO (XI (XO (XI (XO (XO (XO (XO (XO (XO
                       (XO (XO (XO XH)))))))))))))))))
                 (Z.eqb c (Zpos (XO (XO (XO (XI (XO (XI (XO (XO (XO (XO (XO
                   (XO (XO XH))))))))))))))))
               (Z.eqb c (Zpos (XI (XO (XO (XI (XO (XI (XO (XO (XO (XO (XO (XO
                 (XO XH))))))))))))))))
             (Z.eqb c (Zpos (XI (XI (XI (XI (XO (XI (XO (XO (XO (XO (XO (XO
               (XO XH))))))))))))))))
           (Z.eqb c (Zpos (XI (XI (XI (XI (XI (XO (XI (XO (XO (XO (XO (XO (XO
             XH))))))))))))))))
         (Z.eqb c (Zpos (XO (XO (XO (XO (XO (XO (XO (XO (XO (XO (XO (XO (XI
           XH)))))))))))))))

(** val isspace_u_new : z -> bool **)

let isspace_u_new c =
  if Z.ltb c (Zpos (XO (XO (XO (XO (XO (XO (XO XH))))))))
  then isspace_b c
  else isspace_u c

(** val is_digit : z -> bool **)

let is_digit c =
  (&&) (Z.leb (Zpos (XO (XO (XO (XO (XI XH)))))) c)
    (Z.leb c (Zpos (XI (XO (XO (XI (XI XH)))))))

(** val is_us : z -> bool **)

let is_us c =
  Z.eqb c (Zpos (XI (XI (XI (XI (XI (XO XH)))))))

(** val is2 : z -> z -> z -> bool **)

let is2 c a b =
  (||) (Z.eqb c a) (Z.eqb c b)

type scan_res =
| OOBRead
| OOBWrite
| Fallback
| Special of bool * bool
| Parse of z list

(** val lskip : (z -> bool) -> z list -> z list option **)

let rec lskip sp mem = match mem with
| [] -> None
| c :: t -> if sp c then lskip sp t else Some mem

(** val dropwhile : (z -> bool) -> z list -> z list **)

let rec dropwhile sp l = match l with
| [] -> []
| c :: t -> if sp c then dropwhile sp t else l

(** val rstrip : (z -> bool) -> z list -> z list **)

let rstrip sp = function
| [] -> []
| c :: t -> c :: (rev (dropwhile sp (rev t)))

type infnan_res =
| INFail
| INCont
| INVal of bool * bool
| INOOB

(** val rd : z list -> nat -> z option **)

let rd =
  nth_error

(** val inf_nan : z list -> z -> infnan_res **)

let inf_nan rest len =
  match rd rest O with
  | Some sign ->
    let sg =
      (||) (Z.eqb sign (Zpos (XI (XO (XI (XI (XO XH)))))))
        (Z.eqb sign (Zpos (XI (XI (XO (XI (XO XH)))))))
    in
    let st = if sg then S O else O in
    let len0 = if sg then Z.sub len (Zpos XH) else len in
    let neg = Z.eqb sign (Zpos (XI (XO (XI (XI (XO XH)))))) in
    (match rd rest st with
     | Some c0 ->
       if is2 c0 (Zpos (XO (XI (XI (XI (XO (XI XH))))))) (Zpos (XO (XI (XI
            (XI (XO (XO XH)))))))
       then if negb (Z.eqb len0 (Zpos (XI XH)))
            then INFail
            else (match rd rest (add st (S O)) with
                  | Some c1 ->
                    (match rd rest (add st (S (S O))) with
                     | Some c2 ->
                       if (&&)
                            (is2 c1 (Zpos (XI (XO (XO (XO (XO (XI XH)))))))
                              (Zpos (XI (XO (XO (XO (XO (XO XH))))))))
                            (is2 c2 (Zpos (XO (XI (XI (XI (XO (XI XH)))))))
                              (Zpos (XO (XI (XI (XI (XO (XO XH))))))))
                       then INVal (neg, true)
                       else INFail
                     | None -> INOOB)
                  | None -> INOOB)
       else if is2 c0 (Zpos (XI (XO (XO (XI (XO (XI XH))))))) (Zpos (XI (XO
                 (XO (XI (XO (XO XH)))))))
            then if Z.ltb len0 (Zpos (XI XH))
                 then INFail
                 else (match rd rest (add st (S O)) with
                       | Some c1 ->
                         (match rd rest (add st (S (S O))) with
                          | Some c2 ->
                            let m =
                              (&&)
                                (is2 c1 (Zpos (XO (XI (XI (XI (XO (XI
                                  XH))))))) (Zpos (XO (XI (XI (XI (XO (XO
                                  XH))))))))
                                (is2 c2 (Zpos (XO (XI (XI (XO (XO (XI
                                  XH))))))) (Zpos (XO (XI (XI (XO (XO (XO
                                  XH))))))))
                            in
                            if (&&) (Z.eqb len0 (Zpos (XI XH))) m
                            then INVal (neg, false)
                            else if negb (Z.eqb len0 (Zpos (XO (XO (XO XH)))))
                                 then INFail
                                 else (match rd rest (add st (S (S (S O)))) with
                                       | Some c3 ->
                                         (match rd rest
                                                  (add st (S (S (S (S O))))) with
                                          | Some c4 ->
                                            (match rd rest
                                                     (add st (S (S (S (S (S
                                                       O)))))) with
                                             | Some c5 ->
                                               (match rd rest
                                                        (add st (S (S (S (S
                                                          (S (S O))))))) with
                                                | Some c6 ->
                                                  (match rd rest
                                                           (add st (S (S (S
                                                             (S (S (S (S
                                                             O)))))))) with
                                                   | Some c7 ->
                                                     if (&&)
                                                          ((&&)
                                                            ((&&)
                                                              ((&&)
                                                                ((&&) m
                                                                  (is2 c3
                                                                    (Zpos (XI
                                                                    (XO (XO
                                                                    (XI (XO
                                                                    (XI
                                                                    XH)))))))
                                                                    (Zpos (XI
                                                                    (XO (XO
                                                                    (XI (XO
                                                                    (XO
                                                                    XH)))))))))
                                                                (is2 c4 (Zpos
                                                                  (XO (XI (XI
                                                                  (XI (XO (XI
                                                                  XH)))))))
                                                                  (Zpos (XO
                                                                  (XI (XI (XI
                                                                  (XO (XO
                                                                  XH)))))))))
                                                              (is2 c5 (Zpos
                                                                (XI (XO (XO
                                                                (XI (XO (XI
                                                                XH)))))))
                                                                (Zpos (XI (XO
                                                                (XO (XI (XO
                                                                (XO XH)))))))))
                                                            (is2 c6 (Zpos (XO
                                                              (XO (XI (XO (XI
                                                              (XI XH)))))))
                                                              (Zpos (XO (XO
                                                              (XI (XO (XI (XO
                                                              XH)))))))))
                                                          (is2 c7 (Zpos (XI
                                                            (XO (XO (XI (XI
                                                            (XI XH)))))))
                                                            (Zpos (XI (XO (XO
                                                            (XI (XI (XO
                                                            XH))))))))
                                                     then INVal (neg, false)
                                                     else INFail
                                                   | None -> INOOB)
                                                | None -> INOOB)
                                             | None -> INOOB)
                                          | None -> INOOB)
                                       | None -> INOOB)
                          | None -> INOOB)
                       | None -> INOOB)
            else if (||) (Z.eqb c0 (Zpos (XO (XI (XI (XI (XO XH)))))))
                      (is_digit c0)
                 then INCont
                 else INFail
     | None -> INOOB)
  | None -> INOOB

(** val is_punct_b : z -> bool **)

let is_punct_b c =
  (||)
    ((||) ((||) (is_us c) (Z.eqb c (Zpos (XO (XI (XI (XI (XO XH))))))))
      (Z.eqb c (Zpos (XI (XO (XI (XO (XO (XI XH)))))))))
    (Z.eqb c (Zpos (XI (XO (XI (XO (XO (XO XH))))))))

(** val is_punct_u : z -> bool **)

let is_punct_u c =
  (||) (is_us c) (Z.eqb c (Zpos (XO (XI (XI (XI (XO XH)))))))

type ust = { st_p : bool; st_d : bool; st_u : bool }

(** val ust0 : ust **)

let ust0 =
  { st_p = true; st_d = false; st_u = false }

(** val ustep : bool -> (z -> bool) -> ust -> z -> bool * ust **)

let ustep fix_us punct s c =
  if fix_us
  then (((||) ((&&) (is_us c) (negb s.st_d))
          ((&&) s.st_u (negb (is_digit c)))), { st_p = false; st_d =
         (is_digit c); st_u = (is_us c) })
  else (((&&) s.st_p (punct c)), { st_p = (punct c); st_d = false; st_u =
         false })

(** val ufinal : bool -> ust -> bool **)

let ufinal fix_us s =
  if fix_us then s.st_u else s.st_p

(** val copy_b :
    bool -> z list -> nat -> z list -> ust -> bool -> scan_res **)

let rec copy_b fix_us l cap out s err =
  match l with
  | [] ->
    if Nat.leb cap (length out)
    then OOBWrite
    else if (||) err (ufinal fix_us s) then Fallback else Parse (rev out)
  | c :: t ->
    if Nat.leb cap (length out)
    then OOBWrite
    else let (e, s') = ustep fix_us is_punct_b s c in
         copy_b fix_us t cap (if is_us c then out else c :: out) s'
           ((||) err e)

(** val copy_u : bool -> z list -> nat -> z list -> ust -> scan_res **)

let rec copy_u fix_us l cap out s =
  match l with
  | [] ->
    if ufinal fix_us s
    then Fallback
    else if Nat.leb cap (length out) then OOBWrite else Parse (rev out)
  | c :: t ->
    if Nat.leb cap (length out)
    then OOBWrite
    else if Z.ltb (Zpos (XI (XI (XI (XI (XI (XI XH))))))) c
         then Fallback
         else let (e, s') = ustep fix_us is_punct_u s c in
              if e
              then Fallback
              else copy_u fix_us t cap (if is_us c then out else c :: out) s'

(** val remove_us : z list -> z list **)

let remove_us l =
  filter (fun c -> negb (is_us c)) l

(** val scan_bytes : bool -> z list -> scan_res **)

let scan_bytes fix_us data =
  match lskip isspace_b (app data (Z0 :: [])) with
  | Some rest ->
    let region = rstrip isspace_b (removelast rest) in
    (match region with
     | [] -> Fallback
     | _ :: _ ->
       (match inf_nan rest (Z.of_nat (length region)) with
        | INFail -> Fallback
        | INCont ->
          let digits = length (remove_us region) in
          if Nat.eqb digits (length region)
          then Parse region
          else let cap =
                 if Nat.ltb digits (S (S (S (S (S (S (S (S (S (S (S (S (S (S
                      (S (S (S (S (S (S (S (S (S (S (S (S (S (S (S (S (S (S
                      (S (S (S (S (S (S (S (S
                      O))))))))))))))))))))))))))))))))))))))))
                 then S (S (S (S (S (S (S (S (S (S (S (S (S (S (S (S (S (S (S
                        (S (S (S (S (S (S (S (S (S (S (S (S (S (S (S (S (S (S
                        (S (S (S O)))))))))))))))))))))))))))))))))))))))
                 else S digits
               in
               copy_b fix_us region cap [] ust0 false
        | INVal (n0, k) -> Special (n0, k)
        | INOOB -> OOBRead))
  | None -> OOBRead

(** val scan_uni : bool -> bool -> bool -> z list -> scan_res **)

let scan_uni fix_le fix_us fix_sp data =
  let sp = if fix_sp then isspace_u_new else isspace_u in
  (match lskip sp (app data (Z0 :: [])) with
   | Some rest ->
     let region = rstrip sp (removelast rest) in
     (match region with
      | [] -> Fallback
      | _ :: _ ->
        let len = length region in
        (match inf_nan rest (Z.of_nat len) with
         | INFail -> Fallback
         | INCont ->
           let cap =
             if Nat.ltb len (S (S (S (S (S (S (S (S (S (S (S (S (S (S (S (S
                  (S (S (S (S (S (S (S (S (S (S (S (S (S (S (S (S (S (S (S (S
                  (S (S (S (S O))))))))))))))))))))))))))))))))))))))))
             then S (S (S (S (S (S (S (S (S (S (S (S (S (S (S (S (S (S (S (S
                    (S (S (S (S (S (S (S (S (S (S (S (S (S (S (S (S (S (S (S
                    (S O)))))))))))))))))))))))))))))))))))))))
             else S len
           in
           if fix_le
           then copy_u fix_us region cap [] ust0
           else (match rd rest len with
                 | Some x -> copy_u fix_us (app region (x :: [])) cap [] ust0
                 | None -> OOBRead)
         | INVal (n0, k) -> Special (n0, k)
         | INOOB -> OOBRead))
   | None -> OOBRead)

(** val is_ascii : z list -> bool **)

let is_ascii data =
  forallb (fun c -> Z.ltb c (Zpos (XO (XO (XO (XO (XO (XO (XO XH))))))))) data

(** val scan_str : bool -> bool -> bool -> z list -> scan_res **)

let scan_str fix_le fix_us fix_sp data =
  if is_ascii data
  then scan_bytes fix_us data
  else scan_uni fix_le fix_us fix_sp data

(** val us_ok_from : z -> z list -> bool **)

let rec us_ok_from prev = function
| [] -> negb (is_us prev)
| c :: t ->
  (&&)
    (if is_us c then is_digit prev else (||) (negb (is_us prev)) (is_digit c))
    (us_ok_from c t)

(** val us_ok : z list -> bool **)

let us_ok l =
  us_ok_from Z0 l

type py_res =
| PyError
| PyParse of z list

(** val py_inner : z list -> py_res **)

let py_inner t =
  match lskip isspace_b (app t (Z0 :: [])) with
  | Some rest ->
    (match rstrip isspace_b (removelast rest) with
     | [] -> PyError
     | z0 :: l -> PyParse (z0 :: l))
  | None -> PyError

(** val upto_nul : z list -> z list **)

let rec upto_nul = function
| [] -> []
| c :: t -> if Z.eqb c Z0 then [] else c :: (upto_nul t)

(** val py_with_underscores : z list -> py_res **)

let py_with_underscores t =
  if existsb is_us (upto_nul t)
  then if us_ok t then py_inner (remove_us t) else PyError
  else py_inner t

(** val py_scan_bytes : z list -> py_res **)

let py_scan_bytes =
  py_with_underscores

(** val transform : (z -> z option) -> z list -> z list **)

let rec transform todecimal = function
| [] -> []
| c :: t ->
  if Z.ltb c (Zpos (XI (XI (XI (XI (XI (XI XH)))))))
  then c :: (transform todecimal t)
  else if isspace_u c
       then (Zpos (XO (XO (XO (XO (XO XH)))))) :: (transform todecimal t)
       else (match todecimal c with
             | Some d ->
               (Z.add (Zpos (XO (XO (XO (XO (XI XH)))))) d) :: (transform
                                                                 todecimal t)
             | None -> (Zpos (XI (XI (XI (XI (XI XH)))))) :: [])

(** val py_scan_str : (z -> z option) -> z list -> py_res **)

let py_scan_str todecimal data =
  py_with_underscores
    (if is_ascii data then data else transform todecimal data)

(** val lower : z -> z **)

let lower c =
  if (&&) (Z.leb (Zpos (XI (XO (XO (XO (XO (XO XH))))))) c)
       (Z.leb c (Zpos (XO (XI (XO (XI (XI (XO XH))))))))
  then Z.add c (Zpos (XO (XO (XO (XO (XO XH))))))
  else c

(** val list_eqb : z list -> z list -> bool **)

let list_eqb a b =
  (&&) (Nat.eqb (length a) (length b))
    (forallb (fun p -> Z.eqb (fst p) (snd p)) (combine a b))

(** val infnan_spelling : z list -> (bool * bool) option **)

let infnan_spelling s = match s with
| [] ->
  let neg = false in
  let b = map lower s in
  if list_eqb b ((Zpos (XI (XO (XO (XI (XO (XI XH))))))) :: ((Zpos (XO (XI
       (XI (XI (XO (XI XH))))))) :: ((Zpos (XO (XI (XI (XO (XO (XI
       XH))))))) :: [])))
  then Some (neg, false)
  else if list_eqb b ((Zpos (XI (XO (XO (XI (XO (XI XH))))))) :: ((Zpos (XO
            (XI (XI (XI (XO (XI XH))))))) :: ((Zpos (XO (XI (XI (XO (XO (XI
            XH))))))) :: ((Zpos (XI (XO (XO (XI (XO (XI XH))))))) :: ((Zpos
            (XO (XI (XI (XI (XO (XI XH))))))) :: ((Zpos (XI (XO (XO (XI (XO
            (XI XH))))))) :: ((Zpos (XO (XO (XI (XO (XI (XI
            XH))))))) :: ((Zpos (XI (XO (XO (XI (XI (XI
            XH))))))) :: []))))))))
       then Some (neg, false)
       else if list_eqb b ((Zpos (XO (XI (XI (XI (XO (XI XH))))))) :: ((Zpos
                 (XI (XO (XO (XO (XO (XI XH))))))) :: ((Zpos (XO (XI (XI (XI
                 (XO (XI XH))))))) :: [])))
            then Some (neg, true)
            else None
| z0 :: t ->
  (match z0 with
   | Zpos p ->
     (match p with
      | XI p0 ->
        (match p0 with
         | XI p1 ->
           (match p1 with
            | XO p2 ->
              (match p2 with
               | XI p3 ->
                 (match p3 with
                  | XO p4 ->
                    (match p4 with
                     | XH ->
                       let neg = false in
                       let b = map lower t in
                       if list_eqb b ((Zpos (XI (XO (XO (XI (XO (XI
                            XH))))))) :: ((Zpos (XO (XI (XI (XI (XO (XI
                            XH))))))) :: ((Zpos (XO (XI (XI (XO (XO (XI
                            XH))))))) :: [])))
                       then Some (neg, false)
                       else if list_eqb b ((Zpos (XI (XO (XO (XI (XO (XI
                                 XH))))))) :: ((Zpos (XO (XI (XI (XI (XO (XI
                                 XH))))))) :: ((Zpos (XO (XI (XI (XO (XO (XI
                                 XH))))))) :: ((Zpos (XI (XO (XO (XI (XO (XI
                                 XH))))))) :: ((Zpos (XO (XI (XI (XI (XO (XI
                                 XH))))))) :: ((Zpos (XI (XO (XO (XI (XO (XI
                                 XH))))))) :: ((Zpos (XO (XO (XI (XO (XI (XI
                                 XH))))))) :: ((Zpos (XI (XO (XO (XI (XI (XI
                                 XH))))))) :: []))))))))
                            then Some (neg, false)
                            else if list_eqb b ((Zpos (XO (XI (XI (XI (XO (XI
                                      XH))))))) :: ((Zpos (XI (XO (XO (XO (XO
                                      (XI XH))))))) :: ((Zpos (XO (XI (XI (XI
                                      (XO (XI XH))))))) :: [])))
                                 then Some (neg, true)
                                 else None
                     | _ ->
                       let neg = false in
                       let b = map lower s in
                       if list_eqb b ((Zpos (XI (XO (XO (XI (XO (XI
                            XH))))))) :: ((Zpos (XO (XI (XI (XI (XO (XI
                            XH))))))) :: ((Zpos (XO (XI (XI (XO (XO (XI
                            XH))))))) :: [])))
                       then Some (neg, false)
                       else if list_eqb b ((Zpos (XI (XO (XO (XI (XO (XI
                                 XH))))))) :: ((Zpos (XO (XI (XI (XI (XO (XI
                                 XH))))))) :: ((Zpos (XO (XI (XI (XO (XO (XI
                                 XH))))))) :: ((Zpos (XI (XO (XO (XI (XO (XI
                                 XH))))))) :: ((Zpos (XO (XI (XI (XI (XO (XI
                                 XH))))))) :: ((Zpos (XI (XO (XO (XI (XO (XI
                                 XH))))))) :: ((Zpos (XO (XO (XI (XO (XI (XI
                                 XH))))))) :: ((Zpos (XI (XO (XO (XI (XI (XI
                                 XH))))))) :: []))))))))
                            then Some (neg, false)
                            else if list_eqb b ((Zpos (XO (XI (XI (XI (XO (XI
                                      XH))))))) :: ((Zpos (XI (XO (XO (XO (XO
                                      (XI XH))))))) :: ((Zpos (XO (XI (XI (XI
                                      (XO (XI XH))))))) :: [])))
                                 then Some (neg, true)
                                 else None)
                  | _ ->
                    let neg = false in
                    let b = map lower s in
                    if list_eqb b ((Zpos (XI (XO (XO (XI (XO (XI
                         XH))))))) :: ((Zpos (XO (XI (XI (XI (XO (XI
                         XH))))))) :: ((Zpos (XO (XI (XI (XO (XO (XI
                         XH))))))) :: [])))
                    then Some (neg, false)
                    else if list_eqb b ((Zpos (XI (XO (XO (XI (XO (XI
                              XH))))))) :: ((Zpos (XO (XI (XI (XI (XO (XI
                              XH))))))) :: ((Zpos (XO (XI (XI (XO (XO (XI
                              XH))))))) :: ((Zpos (XI (XO (XO (XI (XO (XI
                              XH))))))) :: ((Zpos (XO (XI (XI (XI (XO (XI
                              XH))))))) :: ((Zpos (XI (XO (XO (XI (XO (XI
                              XH))))))) :: ((Zpos (XO (XO (XI (XO (XI (XI
                              XH))))))) :: ((Zpos (XI (XO (XO (XI (XI (XI
                              XH))))))) :: []))))))))
                         then Some (neg, false)
                         else if list_eqb b ((Zpos (XO (XI (XI (XI (XO (XI
                                   XH))))))) :: ((Zpos (XI (XO (XO (XO (XO
                                   (XI XH))))))) :: ((Zpos (XO (XI (XI (XI
                                   (XO (XI XH))))))) :: [])))
                              then Some (neg, true)
                              else None)
               | _ ->
                 let neg = false in
                 let b = map lower s in
                 if list_eqb b ((Zpos (XI (XO (XO (XI (XO (XI
                      XH))))))) :: ((Zpos (XO (XI (XI (XI (XO (XI
                      XH))))))) :: ((Zpos (XO (XI (XI (XO (XO (XI
                      XH))))))) :: [])))
                 then Some (neg, false)
                 else if list_eqb b ((Zpos (XI (XO (XO (XI (XO (XI
                           XH))))))) :: ((Zpos (XO (XI (XI (XI (XO (XI
                           XH))))))) :: ((Zpos (XO (XI (XI (XO (XO (XI
                           XH))))))) :: ((Zpos (XI (XO (XO (XI (XO (XI
                           XH))))))) :: ((Zpos (XO (XI (XI (XI (XO (XI
                           XH))))))) :: ((Zpos (XI (XO (XO (XI (XO (XI
                           XH))))))) :: ((Zpos (XO (XO (XI (XO (XI (XI
                           XH))))))) :: ((Zpos (XI (XO (XO (XI (XI (XI
                           XH))))))) :: []))))))))
                      then Some (neg, false)
                      else if list_eqb b ((Zpos (XO (XI (XI (XI (XO (XI
                                XH))))))) :: ((Zpos (XI (XO (XO (XO (XO (XI
                                XH))))))) :: ((Zpos (XO (XI (XI (XI (XO (XI
                                XH))))))) :: [])))
                           then Some (neg, true)
                           else None)
            | _ ->
              let neg = false in
              let b = map lower s in
              if list_eqb b ((Zpos (XI (XO (XO (XI (XO (XI
                   XH))))))) :: ((Zpos (XO (XI (XI (XI (XO (XI
                   XH))))))) :: ((Zpos (XO (XI (XI (XO (XO (XI
                   XH))))))) :: [])))
              then Some (neg, false)
              else if list_eqb b ((Zpos (XI (XO (XO (XI (XO (XI
                        XH))))))) :: ((Zpos (XO (XI (XI (XI (XO (XI
                        XH))))))) :: ((Zpos (XO (XI (XI (XO (XO (XI
                        XH))))))) :: ((Zpos (XI (XO (XO (XI (XO (XI
                        XH))))))) :: ((Zpos (XO (XI (XI (XI (XO (XI
                        XH))))))) :: ((Zpos (XI (XO (XO (XI (XO (XI
                        XH))))))) :: ((Zpos (XO (XO (XI (XO (XI (XI
                        XH))))))) :: ((Zpos (XI (XO (XO (XI (XI (XI
                        XH))))))) :: []))))))))
                   then Some (neg, false)
                   else if list_eqb b ((Zpos (XO (XI (XI (XI (XO (XI
                             XH))))))) :: ((Zpos (XI (XO (XO (XO (XO (XI
                             XH))))))) :: ((Zpos (XO (XI (XI (XI (XO (XI
                             XH))))))) :: [])))
                        then Some (neg, true)
                        else None)
         | XO p1 ->
           (match p1 with
            | XI p2 ->
              (match p2 with
               | XI p3 ->
                 (match p3 with
                  | XO p4 ->
                    (match p4 with
                     | XH ->
                       let neg = true in
                       let b = map lower t in
                       if list_eqb b ((Zpos (XI (XO (XO (XI (XO (XI
                            XH))))))) :: ((Zpos (XO (XI (XI (XI (XO (XI
                            XH))))))) :: ((Zpos (XO (XI (XI (XO (XO (XI
                            XH))))))) :: [])))
                       then Some (neg, false)
                       else if list_eqb b ((Zpos (XI (XO (XO (XI (XO (XI
                                 XH))))))) :: ((Zpos (XO (XI (XI (XI (XO (XI
                                 XH))))))) :: ((Zpos (XO (XI (XI (XO (XO (XI
                                 XH))))))) :: ((Zpos (XI (XO (XO (XI (XO (XI
                                 XH))))))) :: ((Zpos (XO (XI (XI (XI (XO (XI
                                 XH))))))) :: ((Zpos (XI (XO (XO (XI (XO (XI
                                 XH))))))) :: ((Zpos (XO (XO (XI (XO (XI (XI
                                 XH))))))) :: ((Zpos (XI (XO (XO (XI (XI (XI
                                 XH))))))) :: []))))))))
                            then Some (neg, false)
                            else if list_eqb b ((Zpos (XO (XI (XI (XI (XO (XI
                                      XH))))))) :: ((Zpos (XI (XO (XO (XO (XO
                                      (XI XH))))))) :: ((Zpos (XO (XI (XI (XI
                                      (XO (XI XH))))))) :: [])))
                                 then Some (neg, true)
                                 else None
                     | _ ->
                       let neg = false in
                       let b = map lower s in
                       if list_eqb b ((Zpos (XI (XO (XO (XI (XO (XI
                            XH))))))) :: ((Zpos (XO (XI (XI (XI (XO (XI
                            XH))))))) :: ((Zpos (XO (XI (XI (XO (XO (XI
                            XH))))))) :: [])))
                       then Some (neg, false)
                       else if list_eqb b ((Zpos (XI (XO (XO (XI (XO (XI
                                 XH))))))) :: ((Zpos (XO (XI (XI (XI (XO (XI
                                 XH))))))) :: ((Zpos (XO (XI (XI (XO (XO (XI
                                 XH))))))) :: ((Zpos (XI (XO (XO (XI (XO (XI
                                 XH))))))) :: ((Zpos (XO (XI (XI (XI (XO (XI
                                 XH))))))) :: ((Zpos (XI (XO (XO (XI (XO (XI
                                 XH))))))) :: ((Zpos (XO (XO (XI (XO (XI (XI
                                 XH))))))) :: ((Zpos (XI (XO (XO (XI (XI (XI
                                 XH))))))) :: []))))))))
                            then Some (neg, false)
                            else if list_eqb b ((Zpos (XO (XI (XI (XI (XO (XI
                                      XH))))))) :: ((Zpos (XI (XO (XO (XO (XO
                                      (XI XH))))))) :: ((Zpos (XO (XI (XI (XI
                                      (XO (XI XH))))))) :: [])))
                                 then Some (neg, true)
                                 else None)
                  | _ ->
                    let neg = false in
                    let b = map lower s in
                    if list_eqb b ((Zpos (XI (XO (XO (XI (XO (XI
                         XH))))))) :: ((Zpos (XO (XI (XI (XI (XO (XI
                         XH))))))) :: ((Zpos (XO (XI (XI (XO (XO (XI
                         XH))))))) :: [])))
                    then Some (neg, false)
                    else if list_eqb b ((Zpos (XI (XO (XO (XI (XO (XI
                              XH))))))) :: ((Zpos (XO (XI (XI (XI (XO (XI
                              XH))))))) :: ((Zpos (XO (XI (XI (XO (XO (XI
                              XH))))))) :: ((Zpos (XI (XO (XO (XI (XO (XI
                              XH))))))) :: ((Zpos (XO (XI (XI (XI (XO (XI
                              XH))))))) :: ((Zpos (XI (XO (XO (XI (XO (XI
                              XH))))))) :: ((Zpos (XO (XO (XI (XO (XI (XI
                              XH))))))) :: ((Zpos (XI (XO (XO (XI (XI (XI
                              XH))))))) :: []))))))))
                         then Some (neg, false)
                         else if list_eqb b ((Zpos (XO (XI (XI (XI (XO (XI
                                   XH))))))) :: ((Zpos (XI (XO (XO (XO (XO
                                   (XI XH))))))) :: ((Zpos (XO (XI (XI (XI
                                   (XO (XI XH))))))) :: [])))
                              then Some (neg, true)
                              else None)
               | _ ->
                 let neg = false in
                 let b = map lower s in
                 if list_eqb b ((Zpos (XI (XO (XO (XI (XO (XI
                      XH))))))) :: ((Zpos (XO (XI (XI (XI (XO (XI
                      XH))))))) :: ((Zpos (XO (XI (XI (XO (XO (XI
                      XH))))))) :: [])))
                 then Some (neg, false)
                 else if list_eqb b ((Zpos (XI (XO (XO (XI (XO (XI
                           XH))))))) :: ((Zpos (XO (XI (XI (XI (XO (XI
                           XH))))))) :: ((Zpos (XO (XI (XI (XO (XO (XI
                           XH))))))) :: ((Zpos (XI (XO (XO (XI (XO (XI
                           XH))))))) :: ((Zpos (XO (XI (XI (XI (XO (XI
                           XH))))))) :: ((Zpos (XI (XO (XO (XI (XO (XI
                           XH))))))) :: ((Zpos (XO (XO (XI (XO (XI (XI
                           XH))))))) :: ((Zpos (XI (XO (XO (XI (XI (XI
                           XH))))))) :: []))))))))
                      then Some (neg, false)
                      else if list_eqb b ((Zpos (XO (XI (XI (XI (XO (XI
                                XH))))))) :: ((Zpos (XI (XO (XO (XO (XO (XI
                                XH))))))) :: ((Zpos (XO (XI (XI (XI (XO (XI
                                XH))))))) :: [])))
                           then Some (neg, true)
                           else None)
            | _ ->
              let neg = false in
              let b = map lower s in
              if list_eqb b ((Zpos (XI (XO (XO (XI (XO (XI
                   XH))))))) :: ((Zpos (XO (XI (XI (XI (XO (XI
                   XH))))))) :: ((Zpos (XO (XI (XI (XO (XO (XI
                   XH))))))) :: [])))
              then Some (neg, false)
              else if list_eqb b ((Zpos (XI (XO (XO (XI (XO (XI
                        XH))))))) :: ((Zpos (XO (XI (XI (XI (XO (XI
                        XH))))))) :: ((Zpos (XO (XI (XI (XO (XO (XI
                        XH))))))) :: ((Zpos (XI (XO (XO (XI (XO (XI
                        XH))))))) :: ((Zpos (XO (XI (XI (XI (XO (XI
                        XH))))))) :: ((Zpos (XI (XO (XO (XI (XO (XI
                        XH))))))) :: ((Zpos (XO (XO (XI (XO (XI (XI
                        XH))))))) :: ((Zpos (XI (XO (XO (XI (XI (XI
                        XH))))))) :: []))))))))
                   then Some (neg, false)
                   else if list_eqb b ((Zpos (XO (XI (XI (XI (XO (XI
                             XH))))))) :: ((Zpos (XI (XO (XO (XO (XO (XI
                             XH))))))) :: ((Zpos (XO (XI (XI (XI (XO (XI
                             XH))))))) :: [])))
                        then Some (neg, true)
                        else None)
         | XH ->
           let neg = false in
           let b = map lower s in
           if list_eqb b ((Zpos (XI (XO (XO (XI (XO (XI XH))))))) :: ((Zpos
                (XO (XI (XI (XI (XO (XI XH))))))) :: ((Zpos (XO (XI (XI (XO
                (XO (XI XH))))))) :: [])))
           then Some (neg, false)
           else if list_eqb b ((Zpos (XI (XO (XO (XI (XO (XI
                     XH))))))) :: ((Zpos (XO (XI (XI (XI (XO (XI
                     XH))))))) :: ((Zpos (XO (XI (XI (XO (XO (XI
                     XH))))))) :: ((Zpos (XI (XO (XO (XI (XO (XI
                     XH))))))) :: ((Zpos (XO (XI (XI (XI (XO (XI
                     XH))))))) :: ((Zpos (XI (XO (XO (XI (XO (XI
                     XH))))))) :: ((Zpos (XO (XO (XI (XO (XI (XI
                     XH))))))) :: ((Zpos (XI (XO (XO (XI (XI (XI
                     XH))))))) :: []))))))))
                then Some (neg, false)
                else if list_eqb b ((Zpos (XO (XI (XI (XI (XO (XI
                          XH))))))) :: ((Zpos (XI (XO (XO (XO (XO (XI
                          XH))))))) :: ((Zpos (XO (XI (XI (XI (XO (XI
                          XH))))))) :: [])))
                     then Some (neg, true)
                     else None)
      | _ ->
        let neg = false in
        let b = map lower s in
        if list_eqb b ((Zpos (XI (XO (XO (XI (XO (XI XH))))))) :: ((Zpos (XO
             (XI (XI (XI (XO (XI XH))))))) :: ((Zpos (XO (XI (XI (XO (XO (XI
             XH))))))) :: [])))
        then Some (neg, false)
        else if list_eqb b ((Zpos (XI (XO (XO (XI (XO (XI XH))))))) :: ((Zpos
                  (XO (XI (XI (XI (XO (XI XH))))))) :: ((Zpos (XO (XI (XI (XO
                  (XO (XI XH))))))) :: ((Zpos (XI (XO (XO (XI (XO (XI
                  XH))))))) :: ((Zpos (XO (XI (XI (XI (XO (XI
                  XH))))))) :: ((Zpos (XI (XO (XO (XI (XO (XI
                  XH))))))) :: ((Zpos (XO (XO (XI (XO (XI (XI
                  XH))))))) :: ((Zpos (XI (XO (XO (XI (XI (XI
                  XH))))))) :: []))))))))
             then Some (neg, false)
             else if list_eqb b ((Zpos (XO (XI (XI (XI (XO (XI
                       XH))))))) :: ((Zpos (XI (XO (XO (XO (XO (XI
                       XH))))))) :: ((Zpos (XO (XI (XI (XI (XO (XI
                       XH))))))) :: [])))
                  then Some (neg, true)
                  else None)
   | _ ->
     let neg = false in
     let b = map lower s in
     if list_eqb b ((Zpos (XI (XO (XO (XI (XO (XI XH))))))) :: ((Zpos (XO (XI
          (XI (XI (XO (XI XH))))))) :: ((Zpos (XO (XI (XI (XO (XO (XI
          XH))))))) :: [])))
     then Some (neg, false)
     else if list_eqb b ((Zpos (XI (XO (XO (XI (XO (XI XH))))))) :: ((Zpos
               (XO (XI (XI (XI (XO (XI XH))))))) :: ((Zpos (XO (XI (XI (XO
               (XO (XI XH))))))) :: ((Zpos (XI (XO (XO (XI (XO (XI
               XH))))))) :: ((Zpos (XO (XI (XI (XI (XO (XI
               XH))))))) :: ((Zpos (XI (XO (XO (XI (XO (XI
               XH))))))) :: ((Zpos (XO (XO (XI (XO (XI (XI
               XH))))))) :: ((Zpos (XI (XO (XO (XI (XI (XI
               XH))))))) :: []))))))))
          then Some (neg, false)
          else if list_eqb b ((Zpos (XO (XI (XI (XI (XO (XI
                    XH))))))) :: ((Zpos (XI (XO (XO (XO (XO (XI
                    XH))))))) :: ((Zpos (XO (XI (XI (XI (XO (XI
                    XH))))))) :: [])))
               then Some (neg, true)
               else None)
