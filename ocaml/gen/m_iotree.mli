
val negb : bool -> bool

type nat =
| O
| S of nat

val option_map : ('a1 -> 'a2) -> 'a1 option -> 'a2 option

val fst : ('a1 * 'a2) -> 'a1

val snd : ('a1 * 'a2) -> 'a2

val length : 'a1 list -> nat

val app : 'a1 list -> 'a1 list -> 'a1 list

val add : nat -> nat -> nat

type positive =
| XI of positive
| XO of positive
| XH

type n =
| N0
| Npos of positive

type z =
| Z0
| Zpos of positive
| Zneg of positive

module Nat :
 sig
  val eqb : nat -> nat -> bool

  val leb : nat -> nat -> bool

  val ltb : nat -> nat -> bool
 end

module Pos :
 sig
  val eqb : positive -> positive -> bool
 end

module N :
 sig
  val eqb : n -> n -> bool
 end

val nth_error : 'a1 list -> nat -> 'a1 option

val concat : 'a1 list list -> 'a1 list

val map : ('a1 -> 'a2) -> 'a1 list -> 'a2 list

val fold_left : ('a1 -> 'a2 -> 'a1) -> 'a2 list -> 'a1 -> 'a1

val existsb : ('a1 -> bool) -> 'a1 list -> bool

val ex_keep : (((((nat * n) * z) * z list) * z option) * positive) * bool

type text = n list

type marker = n

type obj = { o_children : nat list; o_stream : text; o_markers : marker list }

type heap = obj list

val empty_obj : obj

val set_nth : nat -> 'a1 -> 'a1 list -> 'a1 list

val is_nil : 'a1 list -> bool

val h_commit : heap -> nat -> heap option

val h_add_child : heap -> nat -> nat -> heap option

val h_insertion_point : heap -> nat -> (heap * nat) option

val h_insert : heap -> nat -> nat -> heap option

val h_reset : heap -> nat -> heap option

val h_write : heap -> nat -> text -> marker list -> heap option

val ocat : ('a1 -> 'a2 list option) -> 'a1 list -> 'a2 list option

val oall : ('a1 -> bool option) -> 'a1 list -> bool option

val collect : nat -> heap -> nat -> text list option

val h_allmarkers : nat -> heap -> nat -> marker list option

val h_empty : nat -> heap -> nat -> bool option

type state = { st_heap : heap; st_handles : nat list }

val init_state : state

type op =
| ONew
| OPoint of nat
| OWrite of nat * text * marker list
| OInsert of nat * nat
| OCommit of nat
| OReset of nat

val step : state -> op -> state option

val ostep : state option -> op -> state option

val run : op list -> state option

val fuel_of : state -> nat

val copyto : state -> nat -> text list option

val getvalue : state -> nat -> text option

val allmarkers : state -> nat -> marker list option

val is_empty : state -> nat -> bool option

type item =
| SOpen of nat
| SClose of nat
| STxt of text * marker list

val is_open : nat -> item -> bool

val is_close : nat -> item -> bool

val ins_before_close : nat -> item list -> item list -> item list

type doc = item list

type spec = { sp_docs : doc list; sp_n : nat }

val init_spec : spec

val is_root : nat -> doc -> bool

val take_doc : nat -> doc list -> (doc * doc list) option

val has_close : nat -> doc -> bool

val after_open : nat -> item list -> item list option

val until_close : nat -> item list -> item list option

val region : nat -> item list -> item list option

val sregion : spec -> nat -> item list option

val frags : item list -> (text * marker list) list

val texts_of : (text * marker list) list -> text

val marks_of : (text * marker list) list -> marker list

val svalue : spec -> nat -> text option

val smarkers : spec -> nat -> marker list option

val split_top : nat -> item list -> item list -> doc list

val drop_until_close : nat -> item list -> item list

val clear_hole : nat -> item list -> item list

val spec_step : spec -> op -> spec

val wf_op : spec -> op -> bool

val wf_hist : spec -> op list -> bool

val spec_run : op list -> spec

val written : op list -> (text * marker list) list

val count_nl : text -> nat
