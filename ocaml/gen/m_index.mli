
val negb : bool -> bool

type nat =
| O
| S of nat

type comparison =
| Eq
| Lt
| Gt

val compOpp : comparison -> comparison

type positive =
| XI of positive
| XO of positive
| XH

type n =
| N0
| Npos of positive

type z =
| Z0
| Zpos of positive
| Zneg of positive

module Pos :
 sig
  val succ : positive -> positive

  val add : positive -> positive -> positive

  val add_carry : positive -> positive -> positive

  val pred_double : positive -> positive

  val mul : positive -> positive -> positive

  val iter : ('a1 -> 'a1) -> 'a1 -> positive -> 'a1

  val compare_cont : comparison -> positive -> positive -> comparison

  val compare : positive -> positive -> comparison

  val eqb : positive -> positive -> bool
 end

module Z :
 sig
  val double : z -> z

  val succ_double : z -> z

  val pred_double : z -> z

  val pos_sub : positive -> positive -> z

  val add : z -> z -> z

  val opp : z -> z

  val sub : z -> z -> z

  val mul : z -> z -> z

  val pow_pos : z -> positive -> z

  val pow : z -> z -> z

  val compare : z -> z -> comparison

  val leb : z -> z -> bool

  val ltb : z -> z -> bool

  val eqb : z -> z -> bool

  val max : z -> z -> z

  val min : z -> z -> z

  val pos_div_eucl : positive -> z -> z * z

  val div_eucl : z -> z -> z * z

  val modulo : z -> z -> z
 end

val ex_keep : (((((nat * n) * z) * z list) * z option) * positive) * bool

val min_int : z -> bool -> z

val max_int : z -> bool -> z

val wrap : z -> bool -> z -> z

val sSZ_MIN : z

val sSZ_MAX : z

val in_sszb : z -> bool

val ssz : z -> z

type iresult =
| Elem of z
| IndexError
| OutOfBounds of z

val py_index : z -> z -> iresult

val cpython_subscript : z -> z -> iresult

val sq_slot : z -> z -> iresult

type bound =
| BAbsent
| BCInt of z
| BNone
| BPyInt of z

type sresult =
| Sel of z * z
| OverflowError
| SliceOOB of z * z

val norm_sel : z -> z -> sresult

val clamp_ssz : z -> z

val py_unpack_start : bound -> z

val py_unpack_stop : bound -> z

val py_adjust_bound : z -> z -> z

val py_slice_adjust : z -> z -> z -> (z * z) * z

val py_slice : z -> bound -> bound -> sresult

val py_slice_pos : z -> bound -> bound -> sresult

val fits_ssz : z -> bool -> z -> bool

val is_valid_index : z -> z -> bool

val wa_flag : bool -> bool -> bool -> bool

type access =
| Fast of z
| Generic of z
| SqSlot of z
| SqDispatch of z
| Raise

val run : z -> access -> iresult

val getitem_listtuple_fast : z -> z -> bool -> bool -> access

val getitem_unicode_fast : z -> z -> bool -> bool -> access

val getitem_bytes_fast : z -> z -> bool -> bool -> access

val sq_path : bool -> bool -> z -> z -> bool -> access

type kind =
| KList
| KTuple
| KStr
| KBytes
| KByteArray
| KObjList
| KObjTuple
| KObjMap
| KObjSeq
| KObjSeqPy

val getitem_generic_fast : bool -> kind -> z -> z -> bool -> bool -> access

val getitem_int :
  bool -> kind -> z -> bool -> z -> z -> bool -> bool -> access

val setitem_int :
  bool -> kind -> z -> bool -> z -> z -> bool -> bool -> access

val delitem_int : bool -> kind -> z -> bool -> z -> z -> bool -> access

val fast_index : access -> z option

val crop_slice : bool -> z -> z -> z -> (z * z) * z

val listtuple_getslice : bool -> z -> z -> z -> sresult

val unicode_substring : z -> z -> z -> sresult

val coerce_bound : bool -> z -> bound -> z option

val slice_node : bool -> bool -> kind -> z -> bound -> bound -> sresult

val setslice_node : bool -> kind -> z -> bound -> bound -> sresult
