
val negb : bool -> bool

type nat =
| O
| S of nat

val fst : ('a1 * 'a2) -> 'a1

val app : 'a1 list -> 'a1 list -> 'a1 list

val add : nat -> nat -> nat

val sub : nat -> nat -> nat

type positive =
| XI of positive
| XO of positive
| XH

type n =
| N0
| Npos of positive

type z =
| Z0
| Zpos of positive
| Zneg of positive

module Nat :
 sig
  val eqb : nat -> nat -> bool

  val max : nat -> nat -> nat
 end

val nth : nat -> 'a1 list -> 'a1 -> 'a1

val rev : 'a1 list -> 'a1 list

val map : ('a1 -> 'a2) -> 'a1 list -> 'a2 list

val flat_map : ('a1 -> 'a2 list) -> 'a1 list -> 'a2 list

val fold_left : ('a1 -> 'a2 -> 'a1) -> 'a2 list -> 'a1 -> 'a1

val existsb : ('a1 -> bool) -> 'a1 list -> bool

val filter : ('a1 -> bool) -> 'a1 list -> 'a1 list

val seq : nat -> nat -> nat list

val ex_keep : (((((nat * n) * z) * z list) * z option) * positive) * bool

type obj = nat

type event =
| Got of obj
| Give of obj

val bal : event list -> obj -> nat

val nanny_errs : event list -> nat

val nanny_leaks : event list -> obj list -> nat list

val nanny_report : event list -> obj list -> nat * nat list

type fmap = (nat * obj) list

val get : nat -> fmap -> obj option

val rem : nat -> fmap -> fmap

val put : nat -> obj -> fmap -> fmap

val kbound : fmap -> nat

type rand =
| RArg of nat
| RLoc of nat
| RTmp of nat

type instr =
| IOp of nat * rand list * nat list
| IVoid of rand list
| ITruth of rand
| IAlloc of nat
| IIncref of nat * rand
| IGiveB of rand
| ISteal of nat
| IDecref of nat
| ISetLoc of nat * rand
| ISetRes of rand
| INext of nat * nat

type code =
| CSkip
| CI of instr
| CSeq of code * code
| CIf of code * code
| CLoop of nat * nat * nat * code
| CBreak
| CContinue
| CReturn

type state = { temps : fmap; locs : fmap; res : obj option; tr : event list;
               nxt : obj; calls : nat; allocs : nat; flag : bool }

val set_temps : fmap -> state -> state

val set_locs : fmap -> state -> state

val set_res : obj option -> state -> state

val set_tr : event list -> state -> state

val set_flag : bool -> state -> state

val tick : state -> state

val atick : state -> state

val fresh : state -> state

type orc = { fail : (nat -> bool); afail : (nat -> bool);
             more : (nat -> bool); truth : (nat -> bool);
             alias : (nat -> nat option) }

type why =
| NullUse
| NullDecref
| TooManyDecref
| UseDead
| Overwrite
| BadJump

type result =
| Norm of state
| Err of state
| Ret of state
| Brk of state
| Cnt of state
| Stuck of why
| Fuel

val bind : result -> (state -> result) -> result

val got : obj -> state -> state

val give : obj -> state -> state option

type rdres =
| RdOk of obj
| RdUnbound
| RdStuck of why

val rd : state -> rand -> rdres

type rdsres =
| RsOk of obj list
| RsUnbound
| RsStuck of why

val rds : state -> rand list -> rdsres

val decref_clear : nat -> state -> result

val decref_all : nat list -> state -> result

val new_ref : nat -> obj -> state -> result

val take : rand -> state -> (obj -> state -> result) -> result

val release_old : obj option -> state -> result

val step : orc -> instr -> state -> result

val run : orc -> instr list -> state -> result

val loop_on :
  orc -> nat -> nat -> nat -> (state -> result) -> nat -> state -> result

val exec : orc -> nat -> code -> state -> result

val sweep :
  (state -> fmap) -> (fmap -> state -> state) -> nat list -> state -> result

val init : nat -> state

type final =
| Done of bool * state
| FStuck of why
| FFuel

val epilogue : bool -> state -> final

val run_fun : orc -> nat -> nat -> code -> final

type expr =
| EArg of nat
| ELoc of nat
| EOp of exprs
| ESeq of exprs
| ECall of expr * exprs
and exprs =
| ENil
| ECons of expr * exprs

type stmt =
| SSkip
| SSeq of stmt * stmt
| SAssign of nat * expr
| SExpr of expr
| SReturn of expr
| SStore of expr * exprs * bool
| SIf of expr * stmt * stmt
| SFor of nat * expr * stmt
| SBreak
| SContinue

type astate = { anext : nat; afree : nat list }

val alloc : astate -> nat * astate

val release : nat -> astate -> astate

val tmp_of : rand -> nat list

val tmps_of : rand list -> nat list

val release_all : nat list -> astate -> astate

val inuse_list : astate -> nat list

val give_of : rand -> instr

val gen_expr : expr -> astate -> (instr list * rand) * astate

val gen_list : exprs -> astate -> (instr list * rand list) * astate

val cseq : instr list -> code -> code

val gen_stmt : stmt -> astate -> code * astate

val a0 : astate

val gen_fun : nat -> stmt -> code

val orc_of : nat option -> nat list -> orc

val events_of : final -> (bool * event list) option

val exit_call : orc -> bool -> bool -> nat -> nat list -> state -> result

val exit_order : bool -> bool -> nat list

val exc_fetch : nat -> nat -> nat -> state -> result

val reraise3 : orc -> nat -> nat -> nat -> state -> result

val try_cleanup : nat list -> state -> result

val with_stat :
  orc -> bool -> rand -> nat -> nat -> nat -> nat -> nat -> nat -> nat option
  -> nat list -> (state -> result) -> state -> result
