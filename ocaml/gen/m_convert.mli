
val negb : bool -> bool

type nat =
| O
| S of nat

val option_map : ('a1 -> 'a2) -> 'a1 option -> 'a2 option

val fst : ('a1 * 'a2) -> 'a1

val snd : ('a1 * 'a2) -> 'a2

val length : 'a1 list -> nat

val app : 'a1 list -> 'a1 list -> 'a1 list

type comparison =
| Eq
| Lt
| Gt

val compOpp : comparison -> comparison

type positive =
| XI of positive
| XO of positive
| XH

type n =
| N0
| Npos of positive

type z =
| Z0
| Zpos of positive
| Zneg of positive

val eqb : bool -> bool -> bool

module Nat :
 sig
  val eqb : nat -> nat -> bool

  val leb : nat -> nat -> bool
 end

module Pos :
 sig
  val succ : positive -> positive

  val add : positive -> positive -> positive

  val add_carry : positive -> positive -> positive

  val pred_double : positive -> positive

  val mul : positive -> positive -> positive

  val iter : ('a1 -> 'a1) -> 'a1 -> positive -> 'a1

  val compare_cont : comparison -> positive -> positive -> comparison

  val compare : positive -> positive -> comparison

  val eqb : positive -> positive -> bool

  val of_succ_nat : nat -> positive
 end

module N :
 sig
  val compare : n -> n -> comparison

  val eqb : n -> n -> bool

  val leb : n -> n -> bool

  val ltb : n -> n -> bool

  val max : n -> n -> n
 end

module Z :
 sig
  val double : z -> z

  val succ_double : z -> z

  val pred_double : z -> z

  val pos_sub : positive -> positive -> z

  val add : z -> z -> z

  val opp : z -> z

  val sub : z -> z -> z

  val mul : z -> z -> z

  val pow_pos : z -> positive -> z

  val pow : z -> z -> z

  val compare : z -> z -> comparison

  val leb : z -> z -> bool

  val ltb : z -> z -> bool

  val eqb : z -> z -> bool

  val to_N : z -> n

  val of_nat : nat -> z

  val of_N : n -> z

  val pos_div_eucl : positive -> z -> z * z

  val div_eucl : z -> z -> z * z

  val div : z -> z -> z

  val modulo : z -> z -> z
 end

val map : ('a1 -> 'a2) -> 'a1 list -> 'a2 list

val fold_right : ('a2 -> 'a1 -> 'a1) -> 'a1 -> 'a2 list -> 'a1

val existsb : ('a1 -> bool) -> 'a1 list -> bool

val forallb : ('a1 -> bool) -> 'a1 list -> bool

val combine : 'a1 list -> 'a2 list -> ('a1 * 'a2) list

val firstn : nat -> 'a1 list -> 'a1 list

val ex_keep : (((((nat * n) * z) * z list) * z option) * positive) * bool

val min_int : z -> bool -> z

val max_int : z -> bool -> z

val in_rangeb : z -> bool -> z -> bool

val is_cont : z -> bool

val is_surrogate : z -> bool

val utf8_decode : z list -> z list option

val utf8_ref : z -> z list

type exc =
| TypeError
| ValueError
| OverflowError
| AttributeError
| UnicodeEncodeError
| UnicodeDecodeError
| SystemError
| IndexTooMany
| IndexNotEnough
| Unmodelled

type 'a res =
| Ok of 'a
| Err of exc

val bind : 'a1 res -> ('a1 -> 'a2 res) -> 'a2 res

val rmap : ('a1 -> 'a2) -> 'a1 res -> 'a2 res

type pyval =
| PNone
| PObj
| PBool of bool
| PInt of z
| PFloat of z
| PBytes of n list
| PByteArray of n list
| PStr of n list
| PList of pyval list
| PTuple of pyval list
| PSet of pyval list
| PDict of (pyval * pyval) list
| PIter of pyval list

type cval =
| CInt of z
| CDouble of z
| CBytes of n list
| CSeq of cval list
| CSet of cval list
| CMap of (cval * cval) list
| CUnion of nat * cval

val mapM : ('a1 -> 'a2 res) -> 'a1 list -> 'a2 list res

val list_eqb : ('a1 -> 'a1 -> bool) -> 'a1 list -> 'a1 list -> bool

val iter_items : pyval -> pyval list res

val py_len : pyval -> nat option

val seq_items : pyval -> pyval list res

val mapping_check : pyval -> bool

val seq_from_py : (pyval -> 'a1 res) -> pyval -> 'a1 list res

val set_insert : ('a1 -> 'a1 -> bool) -> 'a1 -> 'a1 list -> 'a1 list

val set_loop :
  (pyval -> 'a1 res) -> ('a1 -> 'a1 -> bool) -> pyval list -> 'a1 list -> 'a1
  list res

val set_from_py :
  (pyval -> 'a1 res) -> ('a1 -> 'a1 -> bool) -> pyval -> 'a1 list res

val dict_items : pyval -> (pyval * pyval) list res

val map_insert :
  ('a1 -> 'a1 -> bool) -> 'a1 -> 'a2 -> ('a1 * 'a2) list -> ('a1 * 'a2) list

val map_loop :
  (pyval -> 'a1 res) -> (pyval -> 'a2 res) -> ('a1 -> 'a1 -> bool) ->
  (pyval * pyval) list -> ('a1 * 'a2) list -> ('a1 * 'a2) list res

val map_from_py :
  (pyval -> 'a1 res) -> (pyval -> 'a2 res) -> ('a1 -> 'a1 -> bool) -> pyval
  -> ('a1 * 'a2) list res

val unpack2 : pyval -> (pyval * pyval) res

val pair_from_py :
  (pyval -> 'a1 res) -> (pyval -> 'a2 res) -> pyval -> ('a1 * 'a2) res

val arr_loop : (pyval -> 'a1 res) -> nat -> pyval list -> 'a1 list res

val arr_run : (pyval -> 'a1 res) -> nat -> pyval -> 'a1 list res

val arr_from_py : (pyval -> 'a1 res) -> nat -> pyval -> 'a1 list res

val hashable : pyval -> bool

val pyeqb : pyval -> pyval -> bool

val pyset_add : pyval -> pyval list -> pyval list res

val dict_set : pyval -> pyval -> (pyval * pyval) list -> (pyval * pyval) list

val pyset_loop :
  ('a1 -> pyval res) -> 'a1 list -> pyval list -> pyval list res

val pydict_loop :
  ('a1 -> pyval res) -> ('a2 -> pyval res) -> ('a1 * 'a2) list ->
  (pyval * pyval) list -> (pyval * pyval) list res

type stype =
| SBytes
| SByteArray
| SUnicode

type senc =
| ENone
| EAscii
| EUtf8
| ELatin1

type scfg = { sc_type : stype; sc_enc : senc }

val zs : n list -> z list

val ns : z list -> n list

val is_surrogate0 : n -> bool

val encodable : n -> bool

val utf8_enc1 : n -> n list option

val utf8_encode : n list -> n list res

val utf8_decode0 : n list -> n list res

val all_ascii : n list -> bool

val maxchar : n list -> n

type ukind =
| K1BYTE
| K2BYTE
| K4BYTE

val kind_of : n list -> ukind

val is_ascii : n list -> bool

type codec = { cd_enc : (n list -> n list res);
               cd_dec : (n list -> n list res) }

val ascii_codec : codec

val utf8_codec : codec

val str_accepts_unicode : senc -> bool

val encode_with : senc -> n list -> n list res

val py_as_utf8 : n list -> n list res

type api =
| Full
| Limited of bool

val unicode_asas : api -> senc -> n list -> (n list * nat) res

val obj_asas : api -> scfg -> pyval -> (n list * nat) res

val sized : (n list * nat) -> n list res

val as_string_and_size_l : api -> scfg -> pyval -> n list res

val decode_with : senc -> n list -> n list res

val from_string_and_size : scfg -> n list -> pyval res

val string_from_py_l : api -> scfg -> pyval -> cval res

val string_from_py : scfg -> pyval -> cval res

val string_to_py : scfg -> cval -> pyval res

val until_nul : n list -> n list

val charp_from_py_l : api -> scfg -> pyval -> cval res

val charp_from_py : scfg -> pyval -> cval res

val charp_to_py : scfg -> cval -> pyval res

val charp_roundtrip_l : api -> scfg -> pyval -> pyval res

val string_roundtrip_l : api -> scfg -> pyval -> pyval res

val charp_roundtrip : scfg -> pyval -> pyval res

val string_roundtrip : scfg -> pyval -> pyval res

val charp_strlen_l : api -> scfg -> pyval -> pyval res

val string_size_l : api -> scfg -> pyval -> pyval res

type leaf =
| LInt of z * bool
| LDouble
| LString
| LCharp

type ctype =
| TLeaf of leaf
| TVector of ctype
| TCppList of ctype
| TSet of ctype
| TUSet of ctype
| TMap of ctype * ctype
| TUMap of ctype * ctype
| TPair of ctype * ctype
| TArray of nat * ctype
| TStruct of ctype
| TUnion of ctype
| TCTuple of ctype
| FNil
| FCons of n list * ctype * ctype

val field_names : ctype -> n list list

val nfields : ctype -> nat

val rigid : ctype -> bool

val ceqb : cval -> cval -> bool

val int_from_py : z -> bool -> pyval -> cval res

val double_from_py : pyval -> cval res

val leaf_from_py : scfg -> leaf -> pyval -> cval res

val leaf_to_py : scfg -> leaf -> cval -> pyval res

val key_is : n list -> pyval -> bool

val dict_get : n list -> (pyval * pyval) list -> pyval option

val getitem_str : n list -> pyval -> pyval res

val lookup_all : n list list -> pyval -> pyval list res

val as_cseq : cval res -> cval list res

val from_py : scfg -> ctype -> pyval -> cval res

val as_ptuple : pyval res -> pyval list res

val to_py : scfg -> ctype -> cval -> pyval res

val roundtrip : scfg -> ctype -> pyval -> pyval res
