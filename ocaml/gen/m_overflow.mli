
val xorb : bool -> bool -> bool

val negb : bool -> bool

type nat =
| O
| S of nat

val fst : ('a1 * 'a2) -> 'a1

val snd : ('a1 * 'a2) -> 'a2

type comparison =
| Eq
| Lt
| Gt

val compOpp : comparison -> comparison

type positive =
| XI of positive
| XO of positive
| XH

type n =
| N0
| Npos of positive

type z =
| Z0
| Zpos of positive
| Zneg of positive

module Pos :
 sig
  type mask =
  | IsNul
  | IsPos of positive
  | IsNeg
 end

module Coq_Pos :
 sig
  val succ : positive -> positive

  val add : positive -> positive -> positive

  val add_carry : positive -> positive -> positive

  val pred_double : positive -> positive

  val pred_N : positive -> n

  type mask = Pos.mask =
  | IsNul
  | IsPos of positive
  | IsNeg

  val succ_double_mask : mask -> mask

  val double_mask : mask -> mask

  val double_pred_mask : positive -> mask

  val sub_mask : positive -> positive -> mask

  val sub_mask_carry : positive -> positive -> mask

  val mul : positive -> positive -> positive

  val iter : ('a1 -> 'a1) -> 'a1 -> positive -> 'a1

  val div2 : positive -> positive

  val div2_up : positive -> positive

  val compare_cont : comparison -> positive -> positive -> comparison

  val compare : positive -> positive -> comparison

  val eqb : positive -> positive -> bool

  val coq_Nsucc_double : n -> n

  val coq_Ndouble : n -> n

  val coq_lor : positive -> positive -> positive

  val coq_land : positive -> positive -> n

  val ldiff : positive -> positive -> n

  val coq_lxor : positive -> positive -> n
 end

module N :
 sig
  val succ_double : n -> n

  val double : n -> n

  val succ_pos : n -> positive

  val sub : n -> n -> n

  val compare : n -> n -> comparison

  val leb : n -> n -> bool

  val pos_div_eucl : positive -> n -> n * n

  val coq_lor : n -> n -> n

  val ldiff : n -> n -> n

  val coq_lxor : n -> n -> n
 end

module Z :
 sig
  val double : z -> z

  val succ_double : z -> z

  val pred_double : z -> z

  val pos_sub : positive -> positive -> z

  val add : z -> z -> z

  val opp : z -> z

  val pred : z -> z

  val sub : z -> z -> z

  val mul : z -> z -> z

  val pow_pos : z -> positive -> z

  val pow : z -> z -> z

  val compare : z -> z -> comparison

  val leb : z -> z -> bool

  val ltb : z -> z -> bool

  val eqb : z -> z -> bool

  val abs : z -> z

  val of_N : n -> z

  val pos_div_eucl : positive -> z -> z * z

  val div_eucl : z -> z -> z * z

  val modulo : z -> z -> z

  val quotrem : z -> z -> z * z

  val quot : z -> z -> z

  val div2 : z -> z

  val shiftl : z -> z -> z

  val shiftr : z -> z -> z

  val coq_land : z -> z -> z

  val coq_lxor : z -> z -> z

  val lnot : z -> z
 end

val nth : nat -> 'a1 list -> 'a1 -> 'a1

val ex_keep : (((((nat * n) * z) * z list) * z option) * positive) * bool

val min_int : z -> bool -> z

val max_int : z -> bool -> z

val in_rangeb : z -> bool -> z -> bool

val wrap : z -> bool -> z -> z

val b2z : bool -> z

val adapt_python : bool -> z -> z -> z

val div_int : z -> bool -> bool -> z -> z -> z

val div_ub : z -> bool -> z -> z -> bool

type outcome =
| Value of z
| ZeroDivisionError
| OverflowError
| UB

val div_node : bool -> z -> bool -> bool -> z -> z -> outcome

val pyx_half_max : z -> bool -> z

val pyx_min : z -> bool -> z

val pyx_max : z -> bool -> z

val pyx_min_no_overflow : z -> bool -> bool

val builtin_res : z -> bool -> z -> z * bool

val uadd_portable : z -> z -> z -> z * bool

val usub_portable : z -> z -> z -> z * bool

val umul_const_portable : z -> bool -> z -> z -> z * bool

val widen_res : z -> bool -> z -> z -> z * bool

val umul_portable : z -> z -> z -> bool -> bool -> bool -> z -> z -> z * bool

val udiv_helper : z -> z -> z -> z * bool

val sadd_flagword : z -> z -> z -> z

val sadd_portable : z -> z -> z -> z -> z -> z * bool

val ssub_flagword : z -> z -> z -> z

val ssub_portable : z -> z -> z -> z * bool

val smul_const_flag : z -> z -> z -> bool

val smul_const_portable : z -> bool -> z -> z -> z * bool

val smul_portable : z -> z -> z -> bool -> bool -> bool -> z -> z -> z * bool

val sdiv_helper : z -> z -> z -> z * bool

val cdiv_defined : z -> bool -> z -> z -> bool

val widen_ub_free : z -> bool -> z -> z -> bool

val sadd_ub_free : z -> z -> z -> z -> z -> bool

val ssub_ub_free : z -> z -> z -> bool

val smul_const_ub_free : z -> z -> z -> bool

val smul_ub_free : z -> z -> z -> bool -> bool -> bool -> z -> z -> bool

val lshift_check : z -> bool -> z -> z -> bool

val lshift_helper : z -> bool -> z -> z -> z * bool

val lshift_ub_free : z -> bool -> z -> z -> bool

type binop =
| Add
| Sub
| Mul

val exact_op : binop -> z -> z -> z

val base_helper :
  bool -> binop -> z -> bool -> z -> z -> bool -> bool -> bool -> z -> z ->
  z * bool

type hres =
| R of z * bool
| Fatal

val of_pair : (z * bool) -> hres

val binop_dispatch :
  bool -> binop -> z -> z -> z -> z -> bool -> bool -> bool -> bool -> z -> z
  -> hres

type oc =
| Val of z
| Ovf
| Undef

val raise_if : (z * bool) -> oc

type cop =
| OAdd
| OSub
| OMul
| OLshift

val exact_cop : cop -> z -> z -> z

val helper :
  bool -> cop -> z -> bool -> z -> z -> bool -> bool -> bool -> z -> z ->
  z * bool

val binop_node :
  bool -> cop -> z -> bool -> z -> z -> bool -> bool -> bool -> z -> z -> oc

val neg_node : bool -> z -> bool -> z -> oc

val abs_node : z -> z -> oc

val exact_defined : cop -> z -> bool

val spurious :
  bool -> cop -> z -> bool -> z -> z -> bool -> bool -> bool -> z -> z -> bool

type expr =
| EVar of nat
| EConst of z
| EBin of cop * expr * expr

type aexpr =
| AVar of nat
| AConst of z
| ABin of bool * cop * aexpr * aexpr

val annotate : expr -> aexpr

val consolidate : bool -> aexpr -> aexpr

val hlp : bool -> z -> z -> z -> bool -> cop -> z -> z -> z * bool

val run :
  bool -> z -> z -> z -> bool -> (nat -> z) -> aexpr -> (z * bool) option

val ref_eval : bool -> z -> z -> z -> bool -> (nat -> z) -> expr -> z option

val run_top :
  bool -> z -> z -> z -> bool -> (nat -> z) -> aexpr -> z option option

val env_of_list : z list -> nat -> z

type narrow_cmp =
| CmpLt
| CmpLe

val cmp_holds : narrow_cmp -> z -> z -> bool

type choice =
| CNarrow
| CBase of z * bool
| CFatal

val dispatch_choice : narrow_cmp -> z -> z -> z -> z -> bool -> choice

val narrow_unchecked : binop -> z -> z -> bool -> z -> z -> hres

val narrow_checked :
  bool -> binop -> z -> z -> z -> z -> bool -> bool -> bool -> bool -> z -> z
  -> hres

val binop_dispatch_v :
  bool -> narrow_cmp -> bool -> binop -> z -> z -> z -> z -> bool -> bool ->
  bool -> bool -> z -> z -> hres

val lshift_td : z -> z -> bool -> z -> z -> z * bool

val oc_of_hres : hres -> oc

val typedef_node :
  bool -> narrow_cmp -> bool -> cop -> z -> z -> z -> z -> bool -> bool ->
  bool -> bool -> z -> z -> oc

val nogil_node : bool -> bool -> oc -> oc
