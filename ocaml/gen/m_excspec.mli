
val negb : bool -> bool

type nat =
| O
| S of nat

val option_map : ('a1 -> 'a2) -> 'a1 option -> 'a2 option

val app : 'a1 list -> 'a1 list -> 'a1 list

type comparison =
| Eq
| Lt
| Gt

val compOpp : comparison -> comparison

type positive =
| XI of positive
| XO of positive
| XH

type n =
| N0
| Npos of positive

type z =
| Z0
| Zpos of positive
| Zneg of positive

val eqb : bool -> bool -> bool

module Pos :
 sig
  val succ : positive -> positive

  val add : positive -> positive -> positive

  val add_carry : positive -> positive -> positive

  val pred_double : positive -> positive

  val mul : positive -> positive -> positive

  val iter : ('a1 -> 'a1) -> 'a1 -> positive -> 'a1

  val compare_cont : comparison -> positive -> positive -> comparison

  val compare : positive -> positive -> comparison

  val eqb : positive -> positive -> bool
 end

module Z :
 sig
  val double : z -> z

  val succ_double : z -> z

  val pred_double : z -> z

  val pos_sub : positive -> positive -> z

  val add : z -> z -> z

  val opp : z -> z

  val sub : z -> z -> z

  val mul : z -> z -> z

  val pow_pos : z -> positive -> z

  val pow : z -> z -> z

  val compare : z -> z -> comparison

  val leb : z -> z -> bool

  val ltb : z -> z -> bool

  val eqb : z -> z -> bool

  val pos_div_eucl : positive -> z -> z * z

  val div_eucl : z -> z -> z * z

  val modulo : z -> z -> z
 end

val ex_keep : (((((nat * n) * z) * z list) * z option) * positive) * bool

val min_int : z -> bool -> z

val max_int : z -> bool -> z

val in_rangeb : z -> bool -> z -> bool

val wrap : z -> bool -> z -> z

type rkind =
| KInt of z * bool
| KEnum
| KFloat
| KPtr
| KVoid
| KStruct
| KObject

type dbl =
| DNaN
| DNegZero
| DNum of z

type cval =
| VInt of z
| VDbl of dbl
| VPtr of z
| VUnit
| VStruct of z * z
| VObj of z
| VNull
| VUndef

type exc = z

val deq : dbl -> dbl -> bool

val is_obj : rkind -> bool

val is_void : rkind -> bool

val val_okb : rkind -> cval -> bool

type handler =
| HDefault
| HStar
| HPy of exc

type chk =
| ChkNo
| ChkYes
| ChkPlus of handler

type sent =
| Sent of cval * bool

val sent_val : sent -> cval

type fspec = { ev : sent option; ec : chk }

type clause =
| CNone
| CNoexcept
| CExcept of sent
| CExceptQ of sent
| CStar
| CPlusC of handler

type dflags = { legacy : bool; extern : bool; in_pxd : bool;
                cclass_or_ptr : bool }

val parse_clause : bool -> clause -> (sent option * chk) * bool

val chk_true : chk -> bool

val chk_plus : chk -> bool

val type_exc_value : rkind -> cval option

val coerce_sent : rkind -> sent -> sent option

val normalise : dflags -> rkind -> clause -> fspec option

type state = { pending : exc option; unraisable : exc list; gil : bool;
               viol : nat }

val need_gil : state -> state

val set_gil : bool -> state -> state

val set_pending : exc option -> state -> state

val ensure : state -> bool * state

val restore : bool -> state -> state

val err_occurred : state -> bool * state

val err_occurred_with_gil : state -> bool * state

val write_unraisable : state -> state

val add_traceback : state -> state

type cpp =
| XBadAlloc
| XBadCast
| XBadTypeid
| XDomain
| XInvalidArg
| XIosFailure
| XOutOfRange
| XOverflow
| XRange
| XUnderflow
| XStdOther
| XNonStd

type body =
| Return of cval
| Raise of exc
| Throw of cpp
| SetAndReturn of exc * cval

type flavour =
| FPlain
| FNogil
| FWithGil

type cres =
| CRet of cval
| CThrown of cpp

val default_value : rkind -> cval option

val error_value : fspec -> rkind -> cval option

val error_retval : fspec -> rkind -> cval

val raise_in : flavour -> exc -> state -> state

val callee : fspec -> rkind -> flavour -> body -> state -> cres * state

val c_test : rkind -> sent -> cval -> bool

val e_MemoryError : exc

val e_TypeError : exc

val e_ValueError : exc

val e_IOError : exc

val e_IndexError : exc

val e_OverflowError : exc

val e_ArithmeticError : exc

val e_RuntimeError : exc

val cpp_map : cpp -> exc

type observed = { o_err : bool; o_val : cval; o_st : state }

val occurred_in : bool -> state -> bool * state

val call_site : fspec -> rkind -> bool -> cres -> state -> observed

val observe_via :
  fspec -> fspec -> rkind -> flavour -> bool -> body -> state -> observed

val observe : fspec -> rkind -> flavour -> bool -> body -> state -> observed

val propagates : fspec -> rkind -> bool

val noexcept_value : rkind -> cval

val documented : fspec -> rkind -> body -> state -> observed

val sent_okb : rkind -> sent -> bool

val kind_okb : rkind -> bool

val wf_specb : fspec -> rkind -> bool

val sent_eqb : sent -> sent -> bool

val oev_eqb : sent option -> sent option -> bool

val chk_eqb : chk -> chk -> bool

val exc_compatible : fspec -> fspec -> bool

type ity = { iw : z; isg : bool }

val t_INT : ity

val t_UINT : ity

val t_LONG : ity

val t_ULONG : ity

val ity_okb : ity -> bool

val in_ty : ity -> z -> bool

val conv : ity -> z -> z

val promote : ity -> ity

val uac : ity -> ity -> ity

type lsuf =
| SufNone
| SufL
| SufU
| SufUL

type cexpr =
| CDec of z * lsuf
| CHex of z * lsuf
| CInt of z
| CNeg of cexpr
| CAdd of cexpr * cexpr
| CSub of cexpr * cexpr
| CMul of cexpr * cexpr
| CCast of ity * cexpr

val lit_types : bool -> lsuf -> ity list

val first_fit : ity list -> z -> (ity * z) option

val arith : ity -> z -> (ity * z) option

val binop :
  (z -> z -> z) -> (ity * z) option -> (ity * z) option -> (ity * z) option

val ceval : cexpr -> (ity * z) option

val eq_test : ity -> z -> cexpr -> bool option

val emitted : ity option -> cexpr -> cexpr

val stored : ity -> cexpr -> z option

val fires : ity option -> ity -> cexpr -> z -> bool

val kind_of : ity -> rkind

val fn_spec : ity -> cexpr -> chk -> fspec option

val site_spec : ity option -> ity -> cexpr -> chk -> fspec option

val observe_value :
  ity option -> ity -> cexpr -> chk -> flavour -> bool -> body -> state ->
  observed option

type fty =
| F32
| F64

val fconv : ('a1 -> 'a1) -> fty -> 'a1 -> 'a1

val float_test :
  ('a1 -> 'a1 -> bool) -> ('a1 -> 'a1) -> bool -> fty option -> 'a1 -> 'a1 ->
  bool

val float_stored : ('a1 -> 'a1) -> fty -> 'a1 -> 'a1
