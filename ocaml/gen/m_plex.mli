
val negb : bool -> bool

type nat =
| O
| S of nat

val fst : ('a1 * 'a2) -> 'a1

val snd : ('a1 * 'a2) -> 'a2

val length : 'a1 list -> nat

val app : 'a1 list -> 'a1 list -> 'a1 list

type comparison =
| Eq
| Lt
| Gt

val compOpp : comparison -> comparison

val add : nat -> nat -> nat

val mul : nat -> nat -> nat

val sub : nat -> nat -> nat

type positive =
| XI of positive
| XO of positive
| XH

type n =
| N0
| Npos of positive

type z =
| Z0
| Zpos of positive
| Zneg of positive

module Nat :
 sig
  val eqb : nat -> nat -> bool

  val leb : nat -> nat -> bool

  val ltb : nat -> nat -> bool
 end

module Pos :
 sig
  val succ : positive -> positive

  val add : positive -> positive -> positive

  val add_carry : positive -> positive -> positive

  val pred_double : positive -> positive

  val pred_N : positive -> n

  val mul : positive -> positive -> positive

  val iter : ('a1 -> 'a1) -> 'a1 -> positive -> 'a1

  val pow : positive -> positive -> positive

  val size : positive -> positive

  val compare_cont : comparison -> positive -> positive -> comparison

  val compare : positive -> positive -> comparison

  val eqb : positive -> positive -> bool

  val coq_Nsucc_double : n -> n

  val coq_Ndouble : n -> n

  val coq_lor : positive -> positive -> positive

  val coq_land : positive -> positive -> n

  val ldiff : positive -> positive -> n

  val shiftl : positive -> n -> positive

  val testbit : positive -> n -> bool

  val iter_op : ('a1 -> 'a1 -> 'a1) -> positive -> 'a1 -> 'a1

  val to_nat : positive -> nat

  val of_succ_nat : nat -> positive
 end

module N :
 sig
  val succ_pos : n -> positive

  val compare : n -> n -> comparison

  val eqb : n -> n -> bool

  val ltb : n -> n -> bool

  val pow : n -> n -> n

  val size : n -> n

  val coq_lor : n -> n -> n

  val ldiff : n -> n -> n

  val shiftl : n -> n -> n

  val testbit : n -> n -> bool

  val to_nat : n -> nat

  val of_nat : nat -> n

  val setbit : n -> n -> n
 end

module Z :
 sig
  val double : z -> z

  val succ_double : z -> z

  val pred_double : z -> z

  val pos_sub : positive -> positive -> z

  val add : z -> z -> z

  val opp : z -> z

  val sub : z -> z -> z

  val mul : z -> z -> z

  val compare : z -> z -> comparison

  val leb : z -> z -> bool

  val ltb : z -> z -> bool

  val geb : z -> z -> bool

  val gtb : z -> z -> bool

  val eqb : z -> z -> bool

  val max : z -> z -> z

  val min : z -> z -> z

  val to_nat : z -> nat

  val of_nat : nat -> z

  val of_N : n -> z

  val pos_div_eucl : positive -> z -> z * z

  val div_eucl : z -> z -> z * z

  val div : z -> z -> z

  val coq_land : z -> z -> z
 end

val hd : 'a1 -> 'a1 list -> 'a1

val nth : nat -> 'a1 list -> 'a1 -> 'a1

val nth_error : 'a1 list -> nat -> 'a1 option

val last : 'a1 list -> 'a1 -> 'a1

val map : ('a1 -> 'a2) -> 'a1 list -> 'a2 list

val fold_left : ('a1 -> 'a2 -> 'a1) -> 'a2 list -> 'a1 -> 'a1

val fold_right : ('a2 -> 'a1 -> 'a1) -> 'a1 -> 'a2 list -> 'a1

val existsb : ('a1 -> bool) -> 'a1 list -> bool

val forallb : ('a1 -> bool) -> 'a1 list -> bool

val filter : ('a1 -> bool) -> 'a1 list -> 'a1 list

val find : ('a1 -> bool) -> 'a1 list -> 'a1 option

val firstn : nat -> 'a1 list -> 'a1 list

val skipn : nat -> 'a1 list -> 'a1 list

val seq : nat -> nat -> nat list

val ex_keep : (((((nat * n) * z) * z list) * z option) * positive) * bool

val maxint : z

val lOWEST_PRIORITY : z

type sset = n

val s_empty : sset

val s_mem : nat -> sset -> bool

val s_add : nat -> sset -> sset

val s_single : nat -> sset

val s_union : sset -> sset -> sset

val s_is_empty : sset -> bool

val s_elems : sset -> nat list

type tmap = { tm_codes : z list; tm_sets : sset list }

val tm_new : tmap

val code_at : z list -> z -> z

val split_loop : nat -> z list -> z -> z -> z -> (z * z) option

val tm_split : tmap -> z -> (z * tmap) option

val upd_from : z -> z -> z -> sset -> sset list -> sset list

val tm_add_set : tmap -> z -> z -> sset -> tmap option

val tm_add : tmap -> z -> z -> nat -> tmap option

val items_loop : bool -> z list -> sset list -> ((z * z) * sset) list

val tm_items : tmap -> ((z * z) * sset) list

type tev =
| TRange of z * z
| TEps
| TBol
| TEol
| TEof

type nstate = { n_tm : tmap; n_eps : sset; n_bol : sset; n_eol : sset;
                n_eof : sset; n_act : z option; n_prio : z }

val n_new : nstate

type nfa = nstate list

val new_state : nfa -> nfa * nat

val upd_nth : 'a1 list -> nat -> ('a1 -> 'a1 option) -> 'a1 list option

val node_add : nstate -> tev -> nat -> nstate option

val add_tr : nfa -> nat -> tev -> nat -> nfa option

val set_action : nfa -> nat -> z -> z -> nfa option

type special =
| SBol
| SEol
| SEof

type re =
| RRange of z * z
| RNewline
| RSpecial of special
| RSeq of re list
| RAlt of re list
| RRep1 of re
| RCase of re * bool

val re_nullable : re -> bool

val re_match_nl : re -> bool

val uppercase_range : z -> z -> (z * z) option

val lowercase_range : z -> z -> (z * z) option

val link : nfa -> nat -> nat -> nfa option

val build_opt : nfa -> nat -> tev -> (nfa * nat) option

val opt_bol : bool -> nfa -> nat -> (nfa * nat) option

val build : re -> nfa -> nat -> nat -> bool -> bool -> nfa option

val add_tokens : re list -> z -> nfa -> nfa option

val lexicon_nfa : re list -> nfa option

val n_get : nfa -> nat -> nstate

val eclose_add : nat -> nfa -> sset -> nat -> sset option

val eclose : nfa -> nat -> sset option

val eclose_set : nfa -> sset -> sset option

val best_action : nfa -> sset -> z option

type dstate = { d_chars : ((z * z) * nat) list; d_else : nat option;
                d_bol : nat option; d_eol : nat option; d_eof : nat option }

type smap = { sm_sets : sset list; sm_acts : z option list }

val find_idx : sset -> sset list -> nat -> nat option

val old_to_new : nfa -> smap -> sset -> smap * nat

type utrans = { u_tm : tmap; u_bol : sset; u_eol : sset; u_eof : sset }

val add_state_transitions : nfa -> utrans -> nat -> utrans option

val union_transitions : nfa -> sset -> utrans option

val add_range_items :
  nfa -> ((z * z) * sset) list -> smap -> dstate -> smap * dstate

val add_special : nfa -> sset -> smap -> smap * nat option

val process_state : nfa -> smap -> sset -> (smap * dstate) option

val worklist :
  nat -> nfa -> smap -> dstate list -> (smap * dstate list) option

type dfa = { dfa_sets : sset list; dfa_acts : z option list;
             dfa_trans : dstate list }

val nfa_to_dfa : nat -> nfa -> dfa option

type event =
| EvChar of z
| EvBol
| EvEol
| EvEof
| EvNone

val d_lookup : dstate -> event -> nat option

type config = { c_pos : z; c_line : z; c_lstart : z; c_char : event;
                c_ist : z; c_next : z }

val config0 : config

val next_char : z list -> config -> config

type run_result =
| RunOk of z * config
| RunFail of config
| RunBad
| RunFuel

val run_machine :
  nat -> z option list -> dstate list -> z list -> nat -> config ->
  (z * config) option -> run_result

type token =
| TokOk of z * z * z * z * z * config
| TokEof of config
| TokErr of config
| TokBad
| TokFuel

val is_eof : event -> bool

val scan_fuel : z list -> nat

val scan_a_token : dfa -> z list -> config -> token

val scan_tokens : nat -> dfa -> z list -> config -> token list

val events_from : nat -> z list -> config -> event list

type ere =
| EEmpty
| EEps
| ERange of z * z
| ESym of special
| ESeq of ere * ere
| EAlt of ere * ere
| ERep1 of ere

val eOpt : ere -> ere

val e_nullable : ere -> bool

val ev_matches : z -> z -> event -> bool

val ev_is : special -> event -> bool

val e_deriv : event -> ere -> ere

val e_matches : ere -> event list -> bool

val e_optbol : bool -> ere -> ere

val ere_of : re -> bool -> bool -> ere

val first_nullable : ere list -> z -> z option

val ref_longest :
  ere list -> event list -> z -> (z * z) option -> (z * z) option

val ref_scan : re list -> event list -> (z * z) option

val iter_next : nat -> z list -> config -> config

val ref_token : re list -> z list -> config -> token

val ref_tokens : nat -> re list -> z list -> config -> token list

val tm_else_ok : tmap -> bool

val nfa_else_ok : nfa -> bool

val sorted_b : z list -> bool

val tm_inv_b : tmap -> bool

val nfa_ok : nfa -> bool

val insert_sorted : z -> z list -> z list

val sort_codes : z list -> z list

val dedup_sorted : z list -> z list

val c2r_go : z -> z -> z list -> z list

val chars_to_ranges : bool -> z list -> z list

val ranges_cover : z list -> z -> bool

val set_bounded_b : nat -> sset -> bool

val nfa_bounded : nfa -> bool
