
val negb : bool -> bool

type nat =
| O
| S of nat

val length : 'a1 list -> nat

val app : 'a1 list -> 'a1 list -> 'a1 list

type comparison =
| Eq
| Lt
| Gt

val compOpp : comparison -> comparison

type positive =
| XI of positive
| XO of positive
| XH

type n =
| N0
| Npos of positive

type z =
| Z0
| Zpos of positive
| Zneg of positive

module Nat :
 sig
  val eqb : nat -> nat -> bool

  val leb : nat -> nat -> bool

  val ltb : nat -> nat -> bool
 end

module Pos :
 sig
  val compare_cont : comparison -> positive -> positive -> comparison

  val compare : positive -> positive -> comparison
 end

module Z :
 sig
  val compare : z -> z -> comparison

  val ltb : z -> z -> bool

  val max : z -> z -> z
 end

val fold_left : ('a1 -> 'a2 -> 'a1) -> 'a2 list -> 'a1 -> 'a1

val filter : ('a1 -> bool) -> 'a1 list -> 'a1 list

val ex_keep : (((((nat * n) * z) * z list) * z option) * positive) * bool

type node = nat

type nset = nat list

type cache = (node * nset) list

type stk = (node * nat) list

val mem : nat -> nset -> bool

val union : nset -> nset -> nset

val lookup : node -> (node * 'a1) list -> 'a1 option

type result =
| Ok of nset * node option * cache
| OutOfFuel
| KeyError

val choose_loop : stk -> node option -> node option -> node option option

val children :
  (node -> cache -> result) -> stk -> node list -> nset -> node option ->
  cache -> result

val opt_is : node option -> node -> bool

val tmh :
  (node -> node list) -> (node -> nset) -> nat -> node -> cache -> stk ->
  result

val transitive_merge :
  (node -> node list) -> (node -> nset) -> nat -> cache -> node -> result

type qresult =
| QOk of nset list * cache
| QFail

val run_queries :
  (node -> node list) -> (node -> nset) -> nat -> cache -> node list ->
  qresult

val fuel_for : node list -> nat

val newest : (nat -> z) -> nset -> z option

val rebuild_decision : bool -> z -> (nat -> z) -> nat -> nset -> bool option

val tab_fun : (node * nat list) list -> node -> nat list

val run_table :
  (node * nat list) list -> (node * nat list) list -> nat -> node list ->
  qresult

val helper_table :
  (node * nat list) list -> (node * nat list) list -> nat -> node -> cache ->
  stk -> result
