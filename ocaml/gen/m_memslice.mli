
val negb : bool -> bool

type nat =
| O
| S of nat

val option_map : ('a1 -> 'a2) -> 'a1 option -> 'a2 option

val fst : ('a1 * 'a2) -> 'a1

val length : 'a1 list -> nat

val app : 'a1 list -> 'a1 list -> 'a1 list

type comparison =
| Eq
| Lt
| Gt

val compOpp : comparison -> comparison

val add : nat -> nat -> nat

val sub : nat -> nat -> nat

type positive =
| XI of positive
| XO of positive
| XH

type n =
| N0
| Npos of positive

type z =
| Z0
| Zpos of positive
| Zneg of positive

val eqb : bool -> bool -> bool

module Pos :
 sig
  type mask =
  | IsNul
  | IsPos of positive
  | IsNeg
 end

module Coq_Pos :
 sig
  val succ : positive -> positive

  val add : positive -> positive -> positive

  val add_carry : positive -> positive -> positive

  val pred_double : positive -> positive

  type mask = Pos.mask =
  | IsNul
  | IsPos of positive
  | IsNeg

  val succ_double_mask : mask -> mask

  val double_mask : mask -> mask

  val double_pred_mask : positive -> mask

  val sub_mask : positive -> positive -> mask

  val sub_mask_carry : positive -> positive -> mask

  val mul : positive -> positive -> positive

  val compare_cont : comparison -> positive -> positive -> comparison

  val compare : positive -> positive -> comparison

  val eqb : positive -> positive -> bool
 end

module N :
 sig
  val succ_double : n -> n

  val double : n -> n

  val sub : n -> n -> n

  val compare : n -> n -> comparison

  val leb : n -> n -> bool

  val pos_div_eucl : positive -> n -> n * n
 end

module Z :
 sig
  val double : z -> z

  val succ_double : z -> z

  val pred_double : z -> z

  val pos_sub : positive -> positive -> z

  val add : z -> z -> z

  val opp : z -> z

  val sub : z -> z -> z

  val mul : z -> z -> z

  val compare : z -> z -> comparison

  val leb : z -> z -> bool

  val ltb : z -> z -> bool

  val geb : z -> z -> bool

  val gtb : z -> z -> bool

  val eqb : z -> z -> bool

  val of_N : n -> z

  val pos_div_eucl : positive -> z -> z * z

  val div_eucl : z -> z -> z * z

  val div : z -> z -> z

  val quotrem : z -> z -> z * z

  val quot : z -> z -> z
 end

val filter : ('a1 -> bool) -> 'a1 list -> 'a1 list

val repeat : 'a1 -> nat -> 'a1 list

val ex_keep : (((((nat * n) * z) * z list) * z option) * positive) * bool

type fixes = { fx_clamp : bool; fx_ceil : bool }

val fixes_none : fixes

val fixes_all : fixes

type err =
| IndexError
| ValueError

val clamp_low : fixes -> bool -> z

val norm_start : fixes -> z -> bool -> bool -> z -> z

val norm_stop : fixes -> z -> bool -> bool -> z -> z

val ceil_len : fixes -> z -> z -> z -> z

val slice_bounds :
  fixes -> z -> z -> z -> z -> bool -> bool -> bool -> (((z * z) * z) * z)
  option

type dim_res =
| DIndex of z
| DSlice of z * z * z
| DErr of err

val index_dim : z -> z -> z -> dim_res

val slice_dim :
  fixes -> z -> z -> z -> z -> z -> bool -> bool -> bool -> dim_res

val slice_triple :
  fixes -> z -> z -> z -> z -> bool -> bool -> bool -> ((z * z) * z) option

val simple_slice : z -> z -> dim_res

val slice_intermediates :
  fixes -> z -> z -> z -> z -> bool -> bool -> bool -> z list

val py_len : z -> z -> z -> z

val py_adjust : z -> z -> z -> z -> (z * z) * z

val py_unpack : z -> z option -> z option -> z option -> ((z * z) * z) option

val py_slice_ssize :
  z -> z -> z option -> z option -> z option -> ((z * z) * z) option

val py_slice_indices :
  z -> z option -> z option -> z option -> ((z * z) * z) option

val py_index : z -> z -> z option

type idx =
| IInt of z
| ISlice of z option * z option * z option
| INewaxis
| IEllipsis

val full_slice : idx

val is_newaxis : idx -> bool

val oz : z option -> z

val have : z option -> bool

val unell_go : nat -> bool -> idx list -> idx list

val unellipsify : nat -> idx list -> idx list

type nd_res =
| NdOk of z * (z * z) list
| NdErr of err
| NdBad

val slice_of_idx :
  fixes -> z -> z -> z option -> z option -> z option -> dim_res

val slice_nd : fixes -> (z * z) list -> idx list -> z -> nd_res

val getitem_nd : fixes -> (z * z) list -> idx list -> nd_res

val elem_offset : z -> (z * z) list -> z list -> z

val base_index : z list -> idx list -> z list -> z list option
