
(** val negb : bool -> bool **)

let negb = function
| true -> false
| false -> true

type nat =
| O
| S of nat

type ('a, 'b) sum =
| Inl of 'a
| Inr of 'b

(** val fst : ('a1 * 'a2) -> 'a1 **)

let fst = function
| (x, _) -> x

(** val snd : ('a1 * 'a2) -> 'a2 **)

let snd = function
| (_, y) -> y

(** val app : 'a1 list -> 'a1 list -> 'a1 list **)

let rec app l m =
  match l with
  | [] -> m
  | a :: l1 -> a :: (app l1 m)

type positive =
| XI of positive
| XO of positive
| XH

type n =
| N0
| Npos of positive

type z =
| Z0
| Zpos of positive
| Zneg of positive

module Pos =
 struct
  (** val eqb : positive -> positive -> bool **)

  let rec eqb p q =
    match p with
    | XI p0 -> (match q with
                | XI q0 -> eqb p0 q0
                | _ -> false)
    | XO p0 -> (match q with
                | XO q0 -> eqb p0 q0
                | _ -> false)
    | XH -> (match q with
             | XH -> true
             | _ -> false)
 end

module Z =
 struct
  (** val eqb : z -> z -> bool **)

  let eqb x y =
    match x with
    | Z0 -> (match y with
             | Z0 -> true
             | _ -> false)
    | Zpos p -> (match y with
                 | Zpos q -> Pos.eqb p q
                 | _ -> false)
    | Zneg p -> (match y with
                 | Zneg q -> Pos.eqb p q
                 | _ -> false)
 end

(** val map : ('a1 -> 'a2) -> 'a1 list -> 'a2 list **)

let rec map f = function
| [] -> []
| a :: t -> (f a) :: (map f t)

(** val existsb : ('a1 -> bool) -> 'a1 list -> bool **)

let rec existsb f = function
| [] -> false
| a :: l0 -> (||) (f a) (existsb f l0)

(** val filter : ('a1 -> bool) -> 'a1 list -> 'a1 list **)

let rec filter f = function
| [] -> []
| x :: l0 -> if f x then x :: (filter f l0) else filter f l0

(** val ex_keep :
    (((((nat * n) * z) * z list) * z option) * positive) * bool **)

let ex_keep =
  ((((((O, N0), Z0), []), None), XH), true)

type val0 = z

type exn = z

type event =
| EvOp of z
| EvCmp of z * val0 * val0
| EvTruth of val0

type 'a outcome =
| OVal of 'a
| ORaise of exn
| OUndef

type operand = { o_id : z; o_log : bool; o_res : (val0, exn) sum }

(** val ev_of : operand -> event list **)

let ev_of o =
  if o.o_log then (EvOp o.o_id) :: [] else []

type cascade = operand * (z * operand) list

(** val ref_links :
    (z -> val0 -> val0 -> (val0, exn) sum) -> (val0 -> (bool, exn) sum) ->
    val0 -> (z * operand) list -> event list -> event list * val0 outcome **)

let rec ref_links cmp truth vl links tr =
  match links with
  | [] -> (tr, (OVal vl))
  | p :: rest ->
    let (op, e) = p in
    let tr1 = app tr (ev_of e) in
    (match e.o_res with
     | Inl vr ->
       let tr2 = app tr1 ((EvCmp (op, vl, vr)) :: []) in
       (match cmp op vl vr with
        | Inl r ->
          (match rest with
           | [] -> (tr2, (OVal r))
           | _ :: _ ->
             let tr3 = app tr2 ((EvTruth r) :: []) in
             (match truth r with
              | Inl b ->
                if b then ref_links cmp truth vr rest tr3 else (tr3, (OVal r))
              | Inr x -> (tr3, (ORaise x))))
        | Inr x -> (tr2, (ORaise x)))
     | Inr x -> (tr1, (ORaise x)))

(** val ref_cascade :
    (z -> val0 -> val0 -> (val0, exn) sum) -> (val0 -> (bool, exn) sum) ->
    cascade -> event list * val0 outcome **)

let ref_cascade cmp truth c =
  let tr0 = ev_of (fst c) in
  (match (fst c).o_res with
   | Inl v0 -> ref_links cmp truth v0 (snd c) tr0
   | Inr x -> (tr0, (ORaise x)))

type cfop = { f_op : operand; f_const : bool }

type chain = cfop * (z * cfop) list

(** val plain_links : (z * cfop) list -> (z * operand) list **)

let plain_links ls =
  map (fun l -> ((fst l), (snd l).f_op)) ls

(** val plain : chain -> cascade **)

let plain c =
  ((fst c).f_op, (plain_links (snd c)))

type fnode =
| FBool of bool
| FCasc of cascade

(** val mk_casc : operand -> (z * operand) list -> fnode list **)

let mk_casc h cur = match cur with
| [] -> []
| _ :: _ -> (FCasc (h, cur)) :: []

(** val is_false_node : fnode -> bool **)

let is_false_node = function
| FBool b -> if b then false else true
| FCasc _ -> false

(** val status :
    (z -> val0 -> val0 -> bool option) -> z -> cfop -> cfop -> bool option **)

let status ct op l r =
  if (&&) l.f_const r.f_const
  then (match l.f_op.o_res with
        | Inl a ->
          (match r.f_op.o_res with
           | Inl b -> ct op a b
           | Inr _ -> None)
        | Inr _ -> None)
  else None

(** val fold_from :
    (z -> val0 -> val0 -> bool option) -> bool -> cfop -> (z * cfop) list ->
    (z * operand) list * fnode list **)

let rec fold_from ct tail_fix l = function
| [] -> ([], [])
| p :: rest ->
  let (op, r) = p in
  (match status ct op l r with
   | Some b ->
     if b
     then (match rest with
           | [] -> ([], (if tail_fix then (FBool true) :: [] else []))
           | _ :: _ ->
             let (cur, more) = fold_from ct tail_fix r rest in
             ([], (app (mk_casc r.f_op cur) more)))
     else ([], ((FBool false) :: []))
   | None ->
     let (cur, more) = fold_from ct tail_fix r rest in
     (((op, r.f_op) :: cur), more))

(** val fold :
    (z -> val0 -> val0 -> bool option) -> bool -> bool -> chain -> fnode list **)

let fold ct tail_fix drop_left c =
  let (cur, more) = fold_from ct tail_fix (fst c) (snd c) in
  let nodes = app (mk_casc (fst c).f_op cur) more in
  let nodes0 =
    if (&&) drop_left (existsb is_false_node nodes)
    then (FBool false) :: []
    else nodes
  in
  (match nodes0 with
   | [] -> (FBool true) :: []
   | _ :: _ -> nodes0)

(** val eval_node :
    (z -> val0 -> val0 -> (val0, exn) sum) -> (val0 -> (bool, exn) sum) ->
    (bool -> val0) -> fnode -> event list -> event list * val0 outcome **)

let eval_node cmp truth vbool n0 tr =
  match n0 with
  | FBool b -> (tr, (OVal (vbool b)))
  | FCasc c ->
    (match (fst c).o_res with
     | Inl v0 -> ref_links cmp truth v0 (snd c) (app tr (ev_of (fst c)))
     | Inr x -> ((app tr (ev_of (fst c))), (ORaise x)))

(** val and_then :
    (val0 -> (bool, exn) sum) -> (event list * val0 outcome) -> (event list
    -> event list * val0 outcome) -> event list * val0 outcome **)

let and_then truth r k =
  let (t1, o) = r in
  (match o with
   | OVal v ->
     let t2 = app t1 ((EvTruth v) :: []) in
     (match truth v with
      | Inl b -> if b then k t2 else (t2, (OVal v))
      | Inr x -> (t2, (ORaise x)))
   | _ -> r)

(** val eval_nodes :
    (z -> val0 -> val0 -> (val0, exn) sum) -> (val0 -> (bool, exn) sum) ->
    (bool -> val0) -> fnode list -> event list -> event list * val0 outcome **)

let rec eval_nodes cmp truth vbool ns tr =
  match ns with
  | [] -> (tr, OUndef)
  | n0 :: rest ->
    (match rest with
     | [] -> eval_node cmp truth vbool n0 tr
     | _ :: _ ->
       and_then truth (eval_node cmp truth vbool n0 tr)
         (eval_nodes cmp truth vbool rest))

(** val run_fold :
    (z -> val0 -> val0 -> (val0, exn) sum) -> (val0 -> (bool, exn) sum) ->
    (bool -> val0) -> (z -> val0 -> val0 -> bool option) -> bool -> bool ->
    chain -> event list * val0 outcome **)

let run_fold cmp truth vbool ct tail_fix drop_left c =
  eval_nodes cmp truth vbool (fold ct tail_fix drop_left c) []

(** val keep : (val0 -> bool) -> event -> bool **)

let keep loud = function
| EvOp _ -> true
| EvCmp (_, a, b) -> (||) (loud a) (loud b)
| EvTruth v -> loud v

(** val obs :
    (val0 -> bool) -> (event list * val0 outcome) -> event list * val0 outcome **)

let obs loud r =
  ((filter (keep loud) (fst r)), (snd r))

(** val negate_op : z -> z option **)

let negate_op op =
  if Z.eqb op (Zpos (XO (XI XH)))
  then Some (Zpos (XI (XI XH)))
  else if Z.eqb op (Zpos (XI (XI XH)))
       then Some (Zpos (XO (XI XH)))
       else if Z.eqb op (Zpos (XO (XO (XO XH))))
            then Some (Zpos (XI (XO (XO XH))))
            else if Z.eqb op (Zpos (XI (XO (XO XH))))
                 then Some (Zpos (XO (XO (XO XH))))
                 else None

type nexpr =
| NPlain of fnode list
| NNot of fnode list

(** val handle_not : fnode list -> nexpr **)

let handle_not ns = match ns with
| [] -> NNot ns
| f :: l ->
  (match f with
   | FBool b ->
     (match l with
      | [] -> NPlain ((FBool (negb b)) :: [])
      | _ :: _ -> NNot ns)
   | FCasc c ->
     let (h, l0) = c in
     (match l0 with
      | [] -> NNot ns
      | p :: l1 ->
        let (op, r) = p in
        (match l1 with
         | [] ->
           (match l with
            | [] ->
              (match negate_op op with
               | Some op' -> NPlain ((FCasc (h, ((op', r) :: []))) :: [])
               | None -> NNot ns)
            | _ :: _ -> NNot ns)
         | _ :: _ -> NNot ns)))

(** val eval_nexpr :
    (z -> val0 -> val0 -> (val0, exn) sum) -> (val0 -> (bool, exn) sum) ->
    (bool -> val0) -> nexpr -> event list * val0 outcome **)

let eval_nexpr cmp truth vbool = function
| NPlain ns -> eval_nodes cmp truth vbool ns []
| NNot ns ->
  let (t, o) = eval_nodes cmp truth vbool ns [] in
  (match o with
   | OVal v ->
     (match truth v with
      | Inl b -> ((app t ((EvTruth v) :: [])), (OVal (vbool (negb b))))
      | Inr x -> ((app t ((EvTruth v) :: [])), (ORaise x)))
   | x -> (t, x))

(** val run_not :
    (z -> val0 -> val0 -> (val0, exn) sum) -> (val0 -> (bool, exn) sum) ->
    (bool -> val0) -> (z -> val0 -> val0 -> bool option) -> bool -> chain ->
    event list * val0 outcome **)

let run_not cmp truth vbool ct tail_fix c =
  eval_nexpr cmp truth vbool (handle_not (fold ct tail_fix false c))

(** val ref_not :
    (z -> val0 -> val0 -> (val0, exn) sum) -> (val0 -> (bool, exn) sum) ->
    (bool -> val0) -> (z -> val0 -> val0 -> bool option) -> bool -> chain ->
    event list * val0 outcome **)

let ref_not cmp truth vbool ct tail_fix c =
  eval_nexpr cmp truth vbool (NNot (fold ct tail_fix false c))
