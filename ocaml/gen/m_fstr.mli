
val negb : bool -> bool

type nat =
| O
| S of nat

val length : 'a1 list -> nat

val app : 'a1 list -> 'a1 list -> 'a1 list

type comparison =
| Eq
| Lt
| Gt

val add : nat -> nat -> nat

type positive =
| XI of positive
| XO of positive
| XH

type n =
| N0
| Npos of positive

type z =
| Z0
| Zpos of positive
| Zneg of positive

module Nat :
 sig
  val eqb : nat -> nat -> bool
 end

module Pos :
 sig
  val compare_cont : comparison -> positive -> positive -> comparison

  val compare : positive -> positive -> comparison

  val eqb : positive -> positive -> bool
 end

module N :
 sig
  val compare : n -> n -> comparison

  val eqb : n -> n -> bool

  val ltb : n -> n -> bool

  val max : n -> n -> n
 end

val rev : 'a1 list -> 'a1 list

val map : ('a1 -> 'a2) -> 'a1 list -> 'a2 list

val fold_right : ('a2 -> 'a1 -> 'a1) -> 'a1 -> 'a2 list -> 'a1

val ex_keep : (((((nat * n) * z) * z list) * z option) * positive) * bool

type text = n list

type conv =
| CvNone
| CvS
| CvR
| CvA
| CvD

type vclass =
| KCInt
| KCDbl
| KCBint
| KStr
| KStrOpt
| KBuiltin
| KObj

type operand =
| OVar of nat * vclass
| OInt of text
| OStr of text

type spec =
| SNone
| SLit of text * bool
| SDyn of nat

type part =
| PLit of text
| PPh of operand * conv * spec

type node =
| NLit of text
| NName of nat
| NUni of nat
| NFmt of operand * conv * text option * spec
| NClone of nat

type shape =
| ShEmpty
| ShOne of node
| ShAdd of node * node
| ShJoin of node list

val norm_spec : spec -> spec

val plain : conv -> bool

val fold_part : part -> part

val merge : part list -> part list

val fold : part list -> part list

val default_cfmt : vclass -> text option

val cfmt_of : vclass -> spec -> text option

val analyse : part -> node

val conv_eqb : conv -> conv -> bool

val text_eqb : text -> text -> bool

val otext_eqb : text option -> text option -> bool

val onat_eqb : nat option -> nat option -> bool

type dkey = { k_name : nat; k_cfmt : text option; k_spec : nat option;
              k_conv : conv }

val key_eqb : dkey -> dkey -> bool

type kflags = { kf_conv : bool; kf_obj : bool }

val kflags_real : kflags

val conv_or_s : conv -> conv

val is_obj : vclass -> bool

val spec_id : nat -> spec -> nat option

val node_key : kflags -> nat -> node -> dkey option

val lookup : dkey -> (dkey * nat) list -> nat option

val dedup_from : kflags -> nat -> (dkey * nat) list -> node list -> node list

val dedup : kflags -> node list -> node list

val shape_of : kflags -> node list -> shape

val optimise : kflags -> part list -> shape

val optimise_inner : part list -> shape

val shape_nodes : shape -> node list

val is_unknown : node -> bool

val occ : nat -> node list -> nat

val known_len : node list -> nat

val len_terms_from : node list -> nat -> node list -> (nat * nat) list

val len_terms : node list -> (nat * nat) list

val char_kind : n -> n

val text_kind : text -> n

val lit_kind : node list -> n

val ends_with_c : text -> bool

val is_c_spec : bool -> text -> bool

val c_number_ascii : bool -> node -> bool

val kind_terms_from : bool -> nat -> node list -> nat list

val kind_terms : bool -> node list -> nat list
