
(** val negb : bool -> bool **)

let negb = function
| true -> false
| false -> true

type nat =
| O
| S of nat

(** val option_map : ('a1 -> 'a2) -> 'a1 option -> 'a2 option **)

let option_map f = function
| Some a -> Some (f a)
| None -> None

type ('a, 'b) sum =
| Inl of 'a
| Inr of 'b

(** val fst : ('a1 * 'a2) -> 'a1 **)

let fst = function
| (x, _) -> x

(** val snd : ('a1 * 'a2) -> 'a2 **)

let snd = function
| (_, y) -> y

(** val length : 'a1 list -> nat **)

let rec length = function
| [] -> O
| _ :: l' -> S (length l')

(** val app : 'a1 list -> 'a1 list -> 'a1 list **)

let rec app l m =
  match l with
  | [] -> m
  | a :: l1 -> a :: (app l1 m)

(** val add : nat -> nat -> nat **)

let rec add n0 m =
  match n0 with
  | O -> m
  | S p -> S (add p m)

(** val sub : nat -> nat -> nat **)

let rec sub n0 m =
  match n0 with
  | O -> n0
  | S k -> (match m with
            | O -> n0
            | S l -> sub k l)

type positive =
| XI of positive
| XO of positive
| XH

type n =
| N0
| Npos of positive

type z =
| Z0
| Zpos of positive
| Zneg of positive

(** val eqb : bool -> bool -> bool **)

let eqb b1 b2 =
  if b1 then b2 else if b2 then false else true

module Nat =
 struct
  (** val add : nat -> nat -> nat **)

  let rec add n0 m =
    match n0 with
    | O -> m
    | S p -> S (add p m)

  (** val eqb : nat -> nat -> bool **)

  let rec eqb n0 m =
    match n0 with
    | O -> (match m with
            | O -> true
            | S _ -> false)
    | S n' -> (match m with
               | O -> false
               | S m' -> eqb n' m')

  (** val leb : nat -> nat -> bool **)

  let rec leb n0 m =
    match n0 with
    | O -> true
    | S n' -> (match m with
               | O -> false
               | S m' -> leb n' m')

  (** val ltb : nat -> nat -> bool **)

  let ltb n0 m =
    leb (S n0) m

  (** val min : nat -> nat -> nat **)

  let rec min n0 m =
    match n0 with
    | O -> O
    | S n' -> (match m with
               | O -> O
               | S m' -> S (min n' m'))
 end

(** val nth : nat -> 'a1 list -> 'a1 -> 'a1 **)

let rec nth n0 l default =
  match n0 with
  | O -> (match l with
          | [] -> default
          | x :: _ -> x)
  | S m -> (match l with
            | [] -> default
            | _ :: t -> nth m t default)

(** val map : ('a1 -> 'a2) -> 'a1 list -> 'a2 list **)

let rec map f = function
| [] -> []
| a :: t -> (f a) :: (map f t)

(** val fold_left : ('a1 -> 'a2 -> 'a1) -> 'a2 list -> 'a1 -> 'a1 **)

let rec fold_left f l a0 =
  match l with
  | [] -> a0
  | b :: t -> fold_left f t (f a0 b)

(** val existsb : ('a1 -> bool) -> 'a1 list -> bool **)

let rec existsb f = function
| [] -> false
| a :: l0 -> (||) (f a) (existsb f l0)

(** val forallb : ('a1 -> bool) -> 'a1 list -> bool **)

let rec forallb f = function
| [] -> true
| a :: l0 -> (&&) (f a) (forallb f l0)

(** val filter : ('a1 -> bool) -> 'a1 list -> 'a1 list **)

let rec filter f = function
| [] -> []
| x :: l0 -> if f x then x :: (filter f l0) else filter f l0

(** val find : ('a1 -> bool) -> 'a1 list -> 'a1 option **)

let rec find f = function
| [] -> None
| x :: tl -> if f x then Some x else find f tl

(** val combine : 'a1 list -> 'a2 list -> ('a1 * 'a2) list **)

let rec combine l l' =
  match l with
  | [] -> []
  | x :: tl ->
    (match l' with
     | [] -> []
     | y :: tl' -> (x, y) :: (combine tl tl'))

(** val firstn : nat -> 'a1 list -> 'a1 list **)

let rec firstn n0 l =
  match n0 with
  | O -> []
  | S n1 -> (match l with
             | [] -> []
             | a :: l0 -> a :: (firstn n1 l0))

(** val skipn : nat -> 'a1 list -> 'a1 list **)

let rec skipn n0 l =
  match n0 with
  | O -> l
  | S n1 -> (match l with
             | [] -> []
             | _ :: l0 -> skipn n1 l0)

(** val seq : nat -> nat -> nat list **)

let rec seq start = function
| O -> []
| S len0 -> start :: (seq (S start) len0)

(** val repeat : 'a1 -> nat -> 'a1 list **)

let rec repeat x = function
| O -> []
| S k -> x :: (repeat x k)

(** val ex_keep :
    (((((nat * n) * z) * z list) * z option) * positive) * bool **)

let ex_keep =
  ((((((O, N0), Z0), []), None), XH), true)

type kkind =
| KInterned
| KEqual
| KSub
| KNonStr

type key = { k_name : nat; k_kind : kkind }

type param = { p_name : nat; p_def : bool }

type sig0 = { s_posonly : param list; s_poskw : param list; s_star : 
              bool; s_kwonly : param list; s_starstar : bool; s_kwused : 
              bool }

type 'v call = { c_pos : 'v list; c_kws : (key * 'v) list }

type path =
| PTuple
| PDict
| PNoArgs
| PMethO

type ekind =
| EArgTuple
| EMultiple
| EUnexpected
| ENonStr
| EKwRequired
| ENoArgs
| ETooMany
| EMissingPos
| EMissingKw
| EImpossible

type 'v arg =
| Given of 'v
| Default
| Unbound

type 'v outcome =
| Bound of (nat * 'v arg) list * 'v list option * (key * 'v) list option
| TypeErr of ekind

type 'v obs =
| OBound of (nat * 'v arg) list * 'v list option * (key * 'v) list option
| OTypeError
| OBroken

(** val erase : sig0 -> 'a1 outcome -> 'a1 obs **)

let erase s = function
| Bound (ps, st, kw) ->
  OBound (ps, st, (if (&&) s.s_starstar (negb s.s_kwused) then None else kw))
| TypeErr e -> (match e with
                | EImpossible -> OBroken
                | _ -> OTypeError)

(** val is_str : key -> bool **)

let is_str k =
  match k.k_kind with
  | KNonStr -> false
  | _ -> true

(** val is_exact : key -> bool **)

let is_exact k =
  match k.k_kind with
  | KInterned -> true
  | KEqual -> true
  | _ -> false

(** val key_is : key -> nat -> bool **)

let key_is k n0 =
  match k.k_kind with
  | KInterned -> Nat.eqb k.k_name n0
  | _ -> false

(** val key_eq : key -> nat -> bool **)

let key_eq k n0 =
  (&&) (is_str k) (Nat.eqb k.k_name n0)

(** val key_same : key -> key -> bool **)

let key_same a b =
  (&&) (eqb (is_str a) (is_str b)) (Nat.eqb a.k_name b.k_name)

(** val dict_set : key -> 'a1 -> (key * 'a1) list -> (key * 'a1) list **)

let rec dict_set k v = function
| [] -> (k, v) :: []
| p :: r ->
  let (k', v') = p in
  if key_same k' k then (k', v) :: r else (k', v') :: (dict_set k v r)

(** val dict_get : nat -> (key * 'a1) list -> 'a1 option **)

let rec dict_get n0 = function
| [] -> None
| p :: r -> let (k, v) = p in if key_eq k n0 then Some v else dict_get n0 r

(** val dict_del : nat -> (key * 'a1) list -> (key * 'a1) list **)

let rec dict_del n0 = function
| [] -> []
| p :: r ->
  let (k, v) = p in if key_eq k n0 then r else (k, v) :: (dict_del n0 r)

(** val dict_update :
    (key * 'a1) list -> (key * 'a1) list -> (key * 'a1) list **)

let dict_update d src =
  fold_left (fun acc kv -> dict_set (fst kv) (snd kv) acc) src d

(** val upd : nat -> 'a1 -> 'a1 list -> 'a1 list **)

let rec upd i x = function
| [] -> []
| h :: t -> (match i with
             | O -> x :: t
             | S j -> h :: (upd j x t))

(** val find_idx : ('a1 -> bool) -> 'a1 list -> nat option **)

let rec find_idx f = function
| [] -> None
| x :: r -> if f x then Some O else option_map (fun x0 -> S x0) (find_idx f r)

(** val find_from : ('a1 -> bool) -> nat -> 'a1 list -> nat option **)

let find_from f first l =
  option_map (Nat.add first) (find_idx f (skipn first l))

(** val fill_pos : nat -> nat -> 'a1 list -> 'a1 option list **)

let fill_pos n0 k pos =
  app (map (fun x -> Some x) (firstn k pos)) (repeat None (sub n0 k))

(** val nonstr_in : (key * 'a1) list -> bool **)

let nonstr_in kws =
  existsb (fun kv -> negb (is_str (fst kv))) kws

(** val required : param list -> param list **)

let required l =
  filter (fun p -> negb p.p_def) l

(** val optional : param list -> param list **)

let optional l =
  filter (fun p -> p.p_def) l

(** val positional_args : sig0 -> param list **)

let positional_args s =
  app s.s_posonly s.s_poskw

(** val kw_only_args : sig0 -> param list **)

let kw_only_args s =
  app (required s.s_kwonly) (optional s.s_kwonly)

(** val all_args : sig0 -> param list **)

let all_args s =
  app (positional_args s) (kw_only_args s)

(** val declared : sig0 -> param list **)

let declared s =
  app s.s_posonly (app s.s_poskw s.s_kwonly)

(** val npo : sig0 -> nat **)

let npo s =
  length s.s_posonly

(** val maxpos : sig0 -> nat **)

let maxpos s =
  length (positional_args s)

(** val minpos : sig0 -> nat **)

let minpos s =
  length (required (positional_args s))

(** val nreq_posonly : sig0 -> nat **)

let nreq_posonly s =
  length (required s.s_posonly)

(** val nreq_kw : sig0 -> nat **)

let nreq_kw s =
  length (required s.s_kwonly)

(** val argnames : sig0 -> nat list **)

let argnames s =
  map (fun p -> p.p_name) (app s.s_poskw (kw_only_args s))

(** val accept_kwd_args : sig0 -> bool **)

let accept_kwd_args s =
  (||) (negb (Nat.eqb (length (argnames s)) O)) s.s_starstar

type mres =
| MFound of nat
| MNone
| MBad of ekind

(** val match_scan : key -> nat list -> nat -> mres **)

let match_scan k names first =
  match find_from (key_eq k) first names with
  | Some i -> MFound i
  | None ->
    if existsb (key_eq k) (firstn first names) then MBad EMultiple else MNone

(** val match_kw : key -> nat list -> nat -> mres **)

let match_kw k names first =
  if is_exact k
  then match_scan k names first
  else if negb (is_str k) then MBad ENonStr else match_scan k names first

type 'v pstate = 'v option list * (key * 'v) list option

(** val parse_tuple :
    (key * 'a1) list -> nat list -> nat -> nat -> bool -> 'a1 option list ->
    (key * 'a1) list option -> (ekind, 'a1 pstate) sum **)

let rec parse_tuple kws names first off ignore values kwds2 =
  match kws with
  | [] -> Inr (values, kwds2)
  | p :: rest ->
    let (k, v) = p in
    (match find_from (key_is k) first names with
     | Some i ->
       parse_tuple rest names first off ignore
         (upd (add off i) (Some v) values) kwds2
     | None ->
       (match match_kw k names first with
        | MFound i ->
          parse_tuple rest names first off ignore
            (upd (add off i) (Some v) values) kwds2
        | MNone ->
          (match kwds2 with
           | Some d ->
             parse_tuple rest names first off ignore values (Some
               (dict_set k v d))
           | None ->
             if ignore
             then parse_tuple rest names first off ignore values None
             else Inl EUnexpected)
        | MBad e -> Inl e))

(** val validate_dup : (key * 'a1) list -> nat list -> nat -> bool **)

let validate_dup kws names first =
  existsb (fun n0 ->
    match dict_get n0 kws with
    | Some _ -> true
    | None -> false) (firstn first names)

(** val reject_unknown : (key * 'a1) list -> nat list -> nat -> ekind **)

let rec reject_unknown kws names first =
  match kws with
  | [] -> EImpossible
  | p :: rest ->
    let (k, _) = p in
    (match find_from (key_is k) first names with
     | Some _ -> reject_unknown rest names first
     | None ->
       (match match_kw k names first with
        | MFound _ -> reject_unknown rest names first
        | MNone -> EUnexpected
        | MBad e -> e))

(** val dict_extract :
    (key * 'a1) list -> nat -> nat list -> nat -> nat -> nat -> 'a1 option
    list -> 'a1 option list * nat **)

let rec dict_extract kwds nkw names idx off extracted values =
  match names with
  | [] -> (values, extracted)
  | n0 :: ns ->
    if Nat.ltb extracted nkw
    then (match dict_get n0 kwds with
          | Some v ->
            dict_extract kwds nkw ns (S idx) off (S extracted)
              (upd (add off idx) (Some v) values)
          | None -> dict_extract kwds nkw ns (S idx) off extracted values)
    else (values, extracted)

(** val parse_dict :
    (key * 'a1) list -> nat list -> nat -> nat -> bool -> 'a1 option list ->
    (ekind, 'a1 pstate) sum **)

let parse_dict kws names first off ignore values =
  if nonstr_in kws
  then Inl ENonStr
  else let (values', extracted) =
         dict_extract kws (length kws) (skipn first names) first off O values
       in
       if Nat.ltb extracted (length kws)
       then if ignore
            then if validate_dup kws names first
                 then Inl EMultiple
                 else Inr (values', None)
            else Inl (reject_unknown kws names first)
       else Inr (values', None)

(** val dict_pop_all :
    nat list -> nat -> nat -> 'a1 option list -> (key * 'a1) list -> 'a1
    option list * (key * 'a1) list **)

let rec dict_pop_all names idx off values d =
  match names with
  | [] -> (values, d)
  | n0 :: ns ->
    (match dict_get n0 d with
     | Some v ->
       dict_pop_all ns (S idx) off (upd (add off idx) (Some v) values)
         (dict_del n0 d)
     | None -> dict_pop_all ns (S idx) off values d)

(** val parse_dict2dict :
    (key * 'a1) list -> nat list -> nat -> nat -> 'a1 option list ->
    (key * 'a1) list -> (ekind, 'a1 pstate) sum **)

let parse_dict2dict kws names first off values d0 =
  if nonstr_in kws
  then Inl ENonStr
  else let d1 = dict_update d0 kws in
       let (values', d2) =
         dict_pop_all (skipn first names) first off values d1
       in
       if Nat.ltb O (length d2)
       then if validate_dup kws names first
            then Inl EMultiple
            else Inr (values', (Some d2))
       else Inr (values', (Some d2))

(** val parse_keywords :
    path -> (key * 'a1) list -> nat list -> nat -> nat -> bool -> 'a1 option
    list -> (key * 'a1) list option -> (ekind, 'a1 pstate) sum **)

let parse_keywords pth kws names first off ignore values kwds2 =
  match pth with
  | PDict ->
    (match kwds2 with
     | Some d -> parse_dict2dict kws names first off values d
     | None -> parse_dict kws names first off ignore values)
  | _ -> parse_tuple kws names first off ignore values kwds2

(** val reject_keywords : path -> (key * 'a1) list -> ekind **)

let reject_keywords pth kws =
  match pth with
  | PDict -> if nonstr_in kws then ENonStr else EUnexpected
  | _ -> EUnexpected

(** val assoc : nat -> (nat * 'a1) list -> 'a1 option **)

let assoc n0 l =
  option_map snd (find (fun x -> Nat.eqb (fst x) n0) l)

(** val to_arg : param -> 'a1 option option -> 'a1 arg **)

let to_arg p = function
| Some o0 ->
  (match o0 with
   | Some v -> Given v
   | None -> if p.p_def then Default else Unbound)
| None -> if p.p_def then Default else Unbound

(** val readout_cy : sig0 -> 'a1 option list -> (nat * 'a1 arg) list **)

let readout_cy s values =
  let tbl = combine (map (fun p -> p.p_name) (all_args s)) values in
  map (fun p -> (p.p_name, (to_arg p (assoc p.p_name tbl)))) (declared s)

(** val none_in : 'a1 option list -> nat -> nat -> bool **)

let none_in values lo hi =
  existsb (fun i ->
    match nth i values None with
    | Some _ -> false
    | None -> true) (seq lo (sub hi lo))

(** val posargs_kw : sig0 -> 'a1 list -> 'a1 option list option **)

let posargs_kw s pos =
  let nargs = length pos in
  let n0 = length (all_args s) in
  if Nat.ltb (maxpos s) nargs
  then if s.s_star then Some (fill_pos n0 (maxpos s) pos) else None
  else if Nat.ltb nargs (nreq_posonly s)
       then None
       else Some (fill_pos n0 nargs pos)

(** val bind_nokw :
    sig0 -> 'a1 list -> 'a1 list option -> (key * 'a1) list option -> 'a1
    outcome **)

let bind_nokw s pos star kw0 =
  let nargs = length pos in
  let n0 = length (all_args s) in
  let mn = minpos s in
  let mx = maxpos s in
  if (&&)
       ((||) ((&&) (Nat.ltb O (nreq_kw s)) (Nat.ltb O mn)) (Nat.eqb mn mx))
       (if (&&) (Nat.eqb mn mx) (negb s.s_star)
        then negb (Nat.eqb nargs mn)
        else Nat.ltb nargs mn)
  then TypeErr EArgTuple
  else if Nat.ltb O (nreq_kw s)
       then if (&&) ((&&) (Nat.ltb mn mx) (negb s.s_star)) (Nat.ltb mx nargs)
            then TypeErr EArgTuple
            else TypeErr EKwRequired
       else if Nat.eqb mn mx
            then Bound ((readout_cy s (fill_pos n0 mx pos)), star, kw0)
            else if Nat.ltb mx nargs
                 then if s.s_star
                      then Bound ((readout_cy s (fill_pos n0 mx pos)), star,
                             kw0)
                      else TypeErr EArgTuple
                 else if Nat.ltb nargs mn
                      then TypeErr EArgTuple
                      else Bound ((readout_cy s (fill_pos n0 nargs pos)),
                             star, kw0)

(** val bind_generic : path -> sig0 -> 'a1 call -> 'a1 outcome **)

let bind_generic pth s c =
  let pos = c.c_pos in
  let kws = c.c_kws in
  let nargs = length pos in
  let kw0 = if (&&) s.s_starstar s.s_kwused then Some [] else None in
  let star = if s.s_star then Some (skipn (maxpos s) pos) else None in
  if Nat.ltb O (length kws)
  then if negb (accept_kwd_args s)
       then TypeErr (reject_keywords pth kws)
       else (match posargs_kw s pos with
             | Some values ->
               let kwd_pos_args =
                 if Nat.ltb O (npo s) then sub nargs (npo s) else nargs
               in
               let first =
                 if Nat.eqb (maxpos s) O
                 then O
                 else if s.s_star
                      then Nat.min kwd_pos_args (sub (maxpos s) (npo s))
                      else kwd_pos_args
               in
               let off =
                 if (&&) (Nat.ltb O (npo s))
                      (Nat.ltb (npo s) (length (all_args s)))
                 then npo s
                 else O
               in
               (match parse_keywords pth kws (argnames s) first off
                        s.s_starstar values kw0 with
                | Inl e -> TypeErr e
                | Inr p ->
                  let (values', kwds2) = p in
                  if (&&) (Nat.ltb (nreq_posonly s) (minpos s))
                       (none_in values' nargs (minpos s))
                  then TypeErr EArgTuple
                  else if none_in values' (maxpos s)
                            (add (maxpos s) (nreq_kw s))
                       then TypeErr EKwRequired
                       else Bound ((readout_cy s values'), star, kwds2))
             | None -> TypeErr EArgTuple)
  else bind_nokw s pos star kw0

(** val bind_starcopy : path -> sig0 -> 'a1 call -> 'a1 outcome **)

let bind_starcopy pth s c =
  let pos = c.c_pos in
  let kws = c.c_kws in
  if (&&) (negb s.s_star) (Nat.ltb O (length pos))
  then TypeErr EArgTuple
  else let star = if s.s_star then Some pos else None in
       if s.s_starstar
       then if Nat.ltb O (length kws)
            then if match pth with
                    | PDict -> nonstr_in kws
                    | _ -> false
                 then TypeErr ENonStr
                 else Bound ([], star,
                        (if s.s_kwused
                         then Some
                                (match pth with
                                 | PDict -> kws
                                 | _ -> dict_update [] kws)
                         else None))
            else Bound ([], star, (if s.s_kwused then Some [] else None))
       else if Nat.ltb O (length kws)
            then TypeErr (reject_keywords pth kws)
            else Bound ([], star, None)

(** val bind_noargs : 'a1 call -> 'a1 outcome **)

let bind_noargs c =
  if Nat.ltb O (length c.c_kws)
  then TypeErr ENoArgs
  else if Nat.ltb O (length c.c_pos)
       then TypeErr ENoArgs
       else Bound ([], None, None)

(** val bind_metho : sig0 -> 'a1 call -> 'a1 outcome **)

let bind_metho s c =
  if Nat.ltb O (length c.c_kws)
  then TypeErr ENoArgs
  else (match c.c_pos with
        | [] -> TypeErr EArgTuple
        | v :: l ->
          (match l with
           | [] ->
             Bound ((map (fun p -> (p.p_name, (Given v))) (declared s)),
               None, None)
           | _ :: _ -> TypeErr EArgTuple))

(** val bind_cy : path -> sig0 -> 'a1 call -> 'a1 outcome **)

let bind_cy pth s c =
  match pth with
  | PNoArgs -> bind_noargs c
  | PMethO -> bind_metho s c
  | _ ->
    if Nat.eqb (length (all_args s)) O
    then bind_starcopy pth s c
    else bind_generic pth s c

(** val py_kw :
    (key * 'a1) list -> nat list -> nat -> 'a1 option list -> (key * 'a1)
    list option -> (ekind, 'a1 pstate) sum **)

let rec py_kw kws names npo0 slots kwdict =
  match kws with
  | [] -> Inr (slots, kwdict)
  | p :: rest ->
    let (k, v) = p in
    if negb (is_str k)
    then Inl ENonStr
    else let found =
           match find_from (key_is k) npo0 names with
           | Some j -> Some j
           | None -> find_from (key_eq k) npo0 names
         in
         (match found with
          | Some j ->
            (match nth j slots None with
             | Some _ -> Inl EMultiple
             | None -> py_kw rest names npo0 (upd j (Some v) slots) kwdict)
          | None ->
            (match kwdict with
             | Some d -> py_kw rest names npo0 slots (Some (dict_set k v d))
             | None -> Inl EUnexpected))

(** val readout_py : param list -> 'a1 option list -> (nat * 'a1 arg) list **)

let readout_py ps slots =
  map (fun ip -> ((snd ip).p_name,
    (to_arg (snd ip) (Some (nth (fst ip) slots None)))))
    (combine (seq O (length ps)) ps)

(** val missing_kwonly : nat -> param list -> 'a1 option list -> bool **)

let missing_kwonly co_argcount kwonly slots =
  existsb (fun ip ->
    (&&) (negb (snd ip).p_def)
      (match nth (fst ip) slots None with
       | Some _ -> false
       | None -> true)) (combine (seq co_argcount (length kwonly)) kwonly)

(** val bind_py : sig0 -> 'a1 call -> 'a1 outcome **)

let bind_py s c =
  let pos = c.c_pos in
  let kws = c.c_kws in
  let argcount = length pos in
  let ps = declared s in
  let co_argcount = maxpos s in
  let total = length ps in
  let n0 = Nat.min argcount co_argcount in
  let slots = fill_pos total n0 pos in
  let star = if s.s_star then Some (skipn n0 pos) else None in
  let kwdict = if s.s_starstar then Some [] else None in
  (match py_kw kws (map (fun p -> p.p_name) ps) (npo s) slots kwdict with
   | Inl e -> TypeErr e
   | Inr p ->
     let (slots', kwdict') = p in
     if (&&) (Nat.ltb co_argcount argcount) (negb s.s_star)
     then TypeErr ETooMany
     else let m = sub co_argcount (length (optional (positional_args s))) in
          if none_in slots' argcount m
          then TypeErr EMissingPos
          else if missing_kwonly co_argcount s.s_kwonly slots'
               then TypeErr EMissingKw
               else Bound ((readout_py ps slots'), star, kwdict'))

(** val defaults_trail : param list -> bool **)

let rec defaults_trail = function
| [] -> true
| p :: r ->
  (&&) (if p.p_def then forallb (fun p0 -> p0.p_def) r else true)
    (defaults_trail r)

(** val nodupb : nat list -> bool **)

let rec nodupb = function
| [] -> true
| x :: r -> (&&) (negb (existsb (Nat.eqb x) r)) (nodupb r)

(** val wf_sig : sig0 -> bool **)

let wf_sig s =
  (&&)
    ((&&) (nodupb (map (fun p -> p.p_name) (declared s)))
      (defaults_trail (positional_args s)))
    ((||) s.s_starstar (negb s.s_kwused))

(** val keys_nodup : (key * 'a1) list -> bool **)

let rec keys_nodup = function
| [] -> true
| p :: r ->
  let (k, _) = p in
  (&&) (negb (existsb (fun kv -> key_same k (fst kv)) r)) (keys_nodup r)

(** val wf_call : path -> 'a1 call -> bool **)

let wf_call pth c =
  (&&) (keys_nodup c.c_kws)
    (match pth with
     | PDict -> true
     | _ -> negb (nonstr_in c.c_kws))

(** val wf_path : path -> sig0 -> bool **)

let wf_path pth s =
  match pth with
  | PNoArgs ->
    (&&) ((&&) (Nat.eqb (length (declared s)) O) (negb s.s_star))
      (negb s.s_starstar)
  | PMethO ->
    (&&)
      ((&&)
        ((&&)
          (match s.s_posonly with
           | [] -> false
           | p :: l -> (match l with
                        | [] -> negb p.p_def
                        | _ :: _ -> false))
          (Nat.eqb (length (app s.s_poskw s.s_kwonly)) O)) (negb s.s_star))
      (negb s.s_starstar)
  | _ -> true

(** val call_cy : bool -> path -> sig0 -> 'a1 call -> 'a1 outcome **)

let call_cy vc pth s c =
  if (&&) vc (nonstr_in c.c_kws) then TypeErr ENonStr else bind_cy pth s c

(** val call_py : sig0 -> 'a1 call -> 'a1 outcome **)

let call_py s c =
  if nonstr_in c.c_kws then TypeErr ENonStr else bind_py s c

(** val wf_entry : bool -> path -> bool **)

let wf_entry vc = function
| PTuple -> vc
| _ -> true
