
(** val negb : bool -> bool **)

let negb = function
| true -> false
| false -> true

type nat =
| O
| S of nat

type comparison =
| Eq
| Lt
| Gt

(** val compOpp : comparison -> comparison **)

let compOpp = function
| Eq -> Eq
| Lt -> Gt
| Gt -> Lt

type positive =
| XI of positive
| XO of positive
| XH

type n =
| N0
| Npos of positive

type z =
| Z0
| Zpos of positive
| Zneg of positive

module Pos =
 struct
  (** val succ : positive -> positive **)

  let rec succ = function
  | XI p -> XO (succ p)
  | XO p -> XI p
  | XH -> XO XH

  (** val add : positive -> positive -> positive **)

  let rec add x y =
    match x with
    | XI p ->
      (match y with
       | XI q -> XO (add_carry p q)
       | XO q -> XI (add p q)
       | XH -> XO (succ p))
    | XO p ->
      (match y with
       | XI q -> XI (add p q)
       | XO q -> XO (add p q)
       | XH -> XI p)
    | XH -> (match y with
             | XI q -> XO (succ q)
             | XO q -> XI q
             | XH -> XO XH)

  (** val add_carry : positive -> positive -> positive **)

  and add_carry x y =
    match x with
    | XI p ->
      (match y with
       | XI q -> XI (add_carry p q)
       | XO q -> XO (add_carry p q)
       | XH -> XI (succ p))
    | XO p ->
      (match y with
       | XI q -> XO (add_carry p q)
       | XO q -> XI (add p q)
       | XH -> XO (succ p))
    | XH ->
      (match y with
       | XI q -> XI (succ q)
       | XO q -> XO (succ q)
       | XH -> XI XH)

  (** val pred_double : positive -> positive **)

  let rec pred_double = function
  | XI p -> XI (XO p)
  | XO p -> XI (pred_double p)
  | XH -> XH

  (** val mul : positive -> positive -> positive **)

  let rec mul x y =
    match x with
    | XI p -> add y (XO (mul p y))
    | XO p -> XO (mul p y)
    | XH -> y

  (** val iter : ('a1 -> 'a1) -> 'a1 -> positive -> 'a1 **)

  let rec iter f x = function
  | XI n' -> f (iter f (iter f x n') n')
  | XO n' -> iter f (iter f x n') n'
  | XH -> f x

  (** val compare_cont : comparison -> positive -> positive -> comparison **)

  let rec compare_cont r x y =
    match x with
    | XI p ->
      (match y with
       | XI q -> compare_cont r p q
       | XO q -> compare_cont Gt p q
       | XH -> Gt)
    | XO p ->
      (match y with
       | XI q -> compare_cont Lt p q
       | XO q -> compare_cont r p q
       | XH -> Gt)
    | XH -> (match y with
             | XH -> r
             | _ -> Lt)

  (** val compare : positive -> positive -> comparison **)

  let compare =
    compare_cont Eq

  (** val eqb : positive -> positive -> bool **)

  let rec eqb p q =
    match p with
    | XI p0 -> (match q with
                | XI q0 -> eqb p0 q0
                | _ -> false)
    | XO p0 -> (match q with
                | XO q0 -> eqb p0 q0
                | _ -> false)
    | XH -> (match q with
             | XH -> true
             | _ -> false)
 end

module Z =
 struct
  (** val double : z -> z **)

  let double = function
  | Z0 -> Z0
  | Zpos p -> Zpos (XO p)
  | Zneg p -> Zneg (XO p)

  (** val succ_double : z -> z **)

  let succ_double = function
  | Z0 -> Zpos XH
  | Zpos p -> Zpos (XI p)
  | Zneg p -> Zneg (Pos.pred_double p)

  (** val pred_double : z -> z **)

  let pred_double = function
  | Z0 -> Zneg XH
  | Zpos p -> Zpos (Pos.pred_double p)
  | Zneg p -> Zneg (XI p)

  (** val pos_sub : positive -> positive -> z **)

  let rec pos_sub x y =
    match x with
    | XI p ->
      (match y with
       | XI q -> double (pos_sub p q)
       | XO q -> succ_double (pos_sub p q)
       | XH -> Zpos (XO p))
    | XO p ->
      (match y with
       | XI q -> pred_double (pos_sub p q)
       | XO q -> double (pos_sub p q)
       | XH -> Zpos (Pos.pred_double p))
    | XH ->
      (match y with
       | XI q -> Zneg (XO q)
       | XO q -> Zneg (Pos.pred_double q)
       | XH -> Z0)

  (** val add : z -> z -> z **)

  let add x y =
    match x with
    | Z0 -> y
    | Zpos x' ->
      (match y with
       | Z0 -> x
       | Zpos y' -> Zpos (Pos.add x' y')
       | Zneg y' -> pos_sub x' y')
    | Zneg x' ->
      (match y with
       | Z0 -> x
       | Zpos y' -> pos_sub y' x'
       | Zneg y' -> Zneg (Pos.add x' y'))

  (** val opp : z -> z **)

  let opp = function
  | Z0 -> Z0
  | Zpos x0 -> Zneg x0
  | Zneg x0 -> Zpos x0

  (** val sub : z -> z -> z **)

  let sub m n0 =
    add m (opp n0)

  (** val mul : z -> z -> z **)

  let mul x y =
    match x with
    | Z0 -> Z0
    | Zpos x' ->
      (match y with
       | Z0 -> Z0
       | Zpos y' -> Zpos (Pos.mul x' y')
       | Zneg y' -> Zneg (Pos.mul x' y'))
    | Zneg x' ->
      (match y with
       | Z0 -> Z0
       | Zpos y' -> Zneg (Pos.mul x' y')
       | Zneg y' -> Zpos (Pos.mul x' y'))

  (** val pow_pos : z -> positive -> z **)

  let pow_pos z0 =
    Pos.iter (mul z0) (Zpos XH)

  (** val pow : z -> z -> z **)

  let pow x = function
  | Z0 -> Zpos XH
  | Zpos p -> pow_pos x p
  | Zneg _ -> Z0

  (** val compare : z -> z -> comparison **)

  let compare x y =
    match x with
    | Z0 -> (match y with
             | Z0 -> Eq
             | Zpos _ -> Lt
             | Zneg _ -> Gt)
    | Zpos x' -> (match y with
                  | Zpos y' -> Pos.compare x' y'
                  | _ -> Gt)
    | Zneg x' ->
      (match y with
       | Zneg y' -> compOpp (Pos.compare x' y')
       | _ -> Lt)

  (** val leb : z -> z -> bool **)

  let leb x y =
    match compare x y with
    | Gt -> false
    | _ -> true

  (** val ltb : z -> z -> bool **)

  let ltb x y =
    match compare x y with
    | Lt -> true
    | _ -> false

  (** val eqb : z -> z -> bool **)

  let eqb x y =
    match x with
    | Z0 -> (match y with
             | Z0 -> true
             | _ -> false)
    | Zpos p -> (match y with
                 | Zpos q -> Pos.eqb p q
                 | _ -> false)
    | Zneg p -> (match y with
                 | Zneg q -> Pos.eqb p q
                 | _ -> false)

  (** val max : z -> z -> z **)

  let max n0 m =
    match compare n0 m with
    | Lt -> m
    | _ -> n0

  (** val min : z -> z -> z **)

  let min n0 m =
    match compare n0 m with
    | Gt -> m
    | _ -> n0

  (** val pos_div_eucl : positive -> z -> z * z **)

  let rec pos_div_eucl a b =
    match a with
    | XI a' ->
      let (q, r) = pos_div_eucl a' b in
      let r' = add (mul (Zpos (XO XH)) r) (Zpos XH) in
      if ltb r' b
      then ((mul (Zpos (XO XH)) q), r')
      else ((add (mul (Zpos (XO XH)) q) (Zpos XH)), (sub r' b))
    | XO a' ->
      let (q, r) = pos_div_eucl a' b in
      let r' = mul (Zpos (XO XH)) r in
      if ltb r' b
      then ((mul (Zpos (XO XH)) q), r')
      else ((add (mul (Zpos (XO XH)) q) (Zpos XH)), (sub r' b))
    | XH -> if leb (Zpos (XO XH)) b then (Z0, (Zpos XH)) else ((Zpos XH), Z0)

  (** val div_eucl : z -> z -> z * z **)

  let div_eucl a b =
    match a with
    | Z0 -> (Z0, Z0)
    | Zpos a' ->
      (match b with
       | Z0 -> (Z0, a)
       | Zpos _ -> pos_div_eucl a' b
       | Zneg b' ->
         let (q, r) = pos_div_eucl a' (Zpos b') in
         (match r with
          | Z0 -> ((opp q), Z0)
          | _ -> ((opp (add q (Zpos XH))), (add b r))))
    | Zneg a' ->
      (match b with
       | Z0 -> (Z0, a)
       | Zpos _ ->
         let (q, r) = pos_div_eucl a' b in
         (match r with
          | Z0 -> ((opp q), Z0)
          | _ -> ((opp (add q (Zpos XH))), (sub b r)))
       | Zneg b' -> let (q, r) = pos_div_eucl a' (Zpos b') in (q, (opp r)))

  (** val modulo : z -> z -> z **)

  let modulo a b =
    let (_, r) = div_eucl a b in r
 end

(** val ex_keep :
    (((((nat * n) * z) * z list) * z option) * positive) * bool **)

let ex_keep =
  ((((((O, N0), Z0), []), None), XH), true)

(** val min_int : z -> bool -> z **)

let min_int w = function
| true -> Z.opp (Z.pow (Zpos (XO XH)) (Z.sub w (Zpos XH)))
| false -> Z0

(** val max_int : z -> bool -> z **)

let max_int w = function
| true -> Z.sub (Z.pow (Zpos (XO XH)) (Z.sub w (Zpos XH))) (Zpos XH)
| false -> Z.sub (Z.pow (Zpos (XO XH)) w) (Zpos XH)

(** val wrap : z -> bool -> z -> z **)

let wrap w s v =
  if s
  then Z.sub
         (Z.modulo (Z.add v (Z.pow (Zpos (XO XH)) (Z.sub w (Zpos XH))))
           (Z.pow (Zpos (XO XH)) w))
         (Z.pow (Zpos (XO XH)) (Z.sub w (Zpos XH)))
  else Z.modulo v (Z.pow (Zpos (XO XH)) w)

(** val sSZ_MIN : z **)

let sSZ_MIN =
  min_int (Zpos (XO (XO (XO (XO (XO (XO XH))))))) true

(** val sSZ_MAX : z **)

let sSZ_MAX =
  max_int (Zpos (XO (XO (XO (XO (XO (XO XH))))))) true

(** val in_sszb : z -> bool **)

let in_sszb v =
  (&&) (Z.leb sSZ_MIN v) (Z.leb v sSZ_MAX)

(** val ssz : z -> z **)

let ssz v =
  wrap (Zpos (XO (XO (XO (XO (XO (XO XH))))))) true v

type iresult =
| Elem of z
| IndexError
| OutOfBounds of z

(** val py_index : z -> z -> iresult **)

let py_index n0 i =
  if (&&) (Z.leb (Z.opp n0) i) (Z.ltb i n0)
  then Elem (if Z.ltb i Z0 then Z.add i n0 else i)
  else IndexError

(** val cpython_subscript : z -> z -> iresult **)

let cpython_subscript n0 i =
  if negb (in_sszb i)
  then IndexError
  else let j = if Z.ltb i Z0 then ssz (Z.add i n0) else i in
       if (&&) (Z.leb Z0 j) (Z.ltb j n0) then Elem j else IndexError

(** val sq_slot : z -> z -> iresult **)

let sq_slot n0 i =
  if (&&) (Z.leb Z0 i) (Z.ltb i n0) then Elem i else IndexError

type bound =
| BAbsent
| BCInt of z
| BNone
| BPyInt of z

type sresult =
| Sel of z * z
| OverflowError
| SliceOOB of z * z

(** val norm_sel : z -> z -> sresult **)

let norm_sel first count =
  if Z.leb count Z0 then Sel (Z0, Z0) else Sel (first, count)

(** val clamp_ssz : z -> z **)

let clamp_ssz z0 =
  Z.max sSZ_MIN (Z.min sSZ_MAX z0)

(** val py_unpack_start : bound -> z **)

let py_unpack_start = function
| BCInt v -> clamp_ssz v
| BPyInt z0 -> clamp_ssz z0
| _ -> Z0

(** val py_unpack_stop : bound -> z **)

let py_unpack_stop = function
| BCInt v -> clamp_ssz v
| BPyInt z0 -> clamp_ssz z0
| _ -> sSZ_MAX

(** val py_adjust_bound : z -> z -> z **)

let py_adjust_bound n0 v =
  if Z.ltb v Z0
  then if Z.ltb (Z.add v n0) Z0 then Z0 else Z.add v n0
  else if Z.leb n0 v then n0 else v

(** val py_slice_adjust : z -> z -> z -> (z * z) * z **)

let py_slice_adjust n0 start stop =
  let s = py_adjust_bound n0 start in
  let e = py_adjust_bound n0 stop in
  ((s, e), (if Z.ltb s e then Z.sub e s else Z0))

(** val py_slice : z -> bound -> bound -> sresult **)

let py_slice n0 bs be =
  let (p, len) = py_slice_adjust n0 (py_unpack_start bs) (py_unpack_stop be)
  in
  let (s, _) = p in norm_sel s len

(** val py_slice_pos : z -> bound -> bound -> sresult **)

let py_slice_pos n0 bs be =
  let (p, len) = py_slice_adjust n0 (py_unpack_start bs) (py_unpack_stop be)
  in
  let (s, _) = p in Sel (s, len)

(** val fits_ssz : z -> bool -> z -> bool **)

let fits_ssz tw ts v =
  (||)
    ((||) (Z.ltb tw (Zpos (XO (XO (XO (XO (XO (XO XH))))))))
      ((&&)
        ((&&) (Z.ltb (Zpos (XO (XO (XO (XO (XO (XO XH))))))) tw)
          (Z.leb v sSZ_MAX)) ((||) (negb ts) (Z.leb sSZ_MIN v))))
    ((&&) (Z.eqb tw (Zpos (XO (XO (XO (XO (XO (XO XH))))))))
      ((||) ts (Z.leb v sSZ_MAX)))

(** val is_valid_index : z -> z -> bool **)

let is_valid_index i limit =
  Z.ltb (wrap (Zpos (XO (XO (XO (XO (XO (XO XH))))))) false i)
    (wrap (Zpos (XO (XO (XO (XO (XO (XO XH))))))) false limit)

(** val wa_flag : bool -> bool -> bool -> bool **)

let wa_flag dir_wraparound idx_signed const_nonneg =
  (&&) ((&&) dir_wraparound idx_signed) (negb const_nonneg)

type access =
| Fast of z
| Generic of z
| SqSlot of z
| SqDispatch of z
| Raise

(** val run : z -> access -> iresult **)

let run n0 = function
| Fast k -> if (&&) (Z.leb Z0 k) (Z.ltb k n0) then Elem k else OutOfBounds k
| Generic i -> py_index n0 i
| SqSlot i -> sq_slot n0 i
| SqDispatch i -> py_index n0 i
| Raise -> IndexError

(** val getitem_listtuple_fast : z -> z -> bool -> bool -> access **)

let getitem_listtuple_fast n0 i wa bc =
  let size = if (||) wa bc then n0 else Zneg XH in
  let wrapped = if (&&) wa (Z.ltb i Z0) then ssz (Z.add i size) else i in
  if (||) (negb bc) (is_valid_index wrapped size)
  then Fast wrapped
  else Generic i

(** val getitem_unicode_fast : z -> z -> bool -> bool -> access **)

let getitem_unicode_fast n0 i wa bc =
  if (||) wa bc
  then let j = if (&&) wa (Z.ltb i Z0) then ssz (Z.add i n0) else i in
       if (||) (negb bc) (is_valid_index j n0) then Fast j else Raise
  else Fast i

(** val getitem_bytes_fast : z -> z -> bool -> bool -> access **)

let getitem_bytes_fast n0 i wa bc =
  let j = if (&&) wa (Z.ltb i Z0) then ssz (Z.add i n0) else i in
  if (&&) bc (negb (is_valid_index j n0)) then Raise else Fast j

(** val sq_path : bool -> bool -> z -> z -> bool -> access **)

let sq_path fix_dwrap disp n0 i wa =
  let j = if (&&) wa (Z.ltb i Z0) then ssz (Z.add i n0) else i in
  if (&&) ((&&) ((&&) fix_dwrap wa) (Z.ltb i Z0)) (Z.ltb j Z0)
  then Generic i
  else if disp then SqDispatch j else SqSlot j

type kind =
| KList
| KTuple
| KStr
| KBytes
| KByteArray
| KObjList
| KObjTuple
| KObjMap
| KObjSeq
| KObjSeqPy

(** val getitem_generic_fast :
    bool -> kind -> z -> z -> bool -> bool -> access **)

let getitem_generic_fast fx k n0 i wa bc =
  match k with
  | KList -> getitem_listtuple_fast n0 i wa bc
  | KTuple -> getitem_listtuple_fast n0 i wa bc
  | KObjList -> getitem_listtuple_fast n0 i wa bc
  | KObjTuple -> getitem_listtuple_fast n0 i wa bc
  | KObjSeq -> sq_path fx false n0 i wa
  | KObjSeqPy -> sq_path fx true n0 i wa
  | _ -> Generic i

(** val getitem_int :
    bool -> kind -> z -> bool -> z -> z -> bool -> bool -> access **)

let getitem_int fx k tw ts n0 v wa bc =
  let fits = fits_ssz tw ts v in
  let i = ssz v in
  (match k with
   | KList -> if fits then getitem_listtuple_fast n0 i wa bc else Raise
   | KTuple -> if fits then getitem_listtuple_fast n0 i wa bc else Raise
   | KStr -> if fits then getitem_unicode_fast n0 i wa bc else Raise
   | KBytes -> if fits then getitem_bytes_fast n0 i wa bc else Raise
   | KByteArray -> if fits then getitem_unicode_fast n0 i wa bc else Raise
   | _ -> if fits then getitem_generic_fast fx k n0 i wa bc else Generic v)

(** val setitem_int :
    bool -> kind -> z -> bool -> z -> z -> bool -> bool -> access **)

let setitem_int fx k tw ts n0 v wa bc =
  let fits = fits_ssz tw ts v in
  let i = ssz v in
  (match k with
   | KList ->
     if fits
     then let j =
            if negb wa then i else if Z.leb Z0 i then i else ssz (Z.add i n0)
          in
          if (||) (negb bc) (is_valid_index j n0) then Fast j else Generic i
     else Generic v
   | KByteArray -> if fits then getitem_unicode_fast n0 i wa bc else Raise
   | KObjList ->
     if fits
     then let j =
            if negb wa then i else if Z.leb Z0 i then i else ssz (Z.add i n0)
          in
          if (||) (negb bc) (is_valid_index j n0) then Fast j else Generic i
     else Generic v
   | KObjSeq -> if fits then sq_path fx false n0 i wa else Generic v
   | KObjSeqPy -> if fits then sq_path fx true n0 i wa else Generic v
   | _ -> Generic v)

(** val delitem_int :
    bool -> kind -> z -> bool -> z -> z -> bool -> access **)

let delitem_int fx k tw ts n0 v wa =
  let fits = fits_ssz tw ts v in
  let i = ssz v in
  (match k with
   | KList -> if fits then sq_path fx false n0 i wa else Generic v
   | KObjList -> if fits then sq_path fx false n0 i wa else Generic v
   | KObjSeq -> if fits then sq_path fx false n0 i wa else Generic v
   | KObjSeqPy -> if fits then sq_path fx true n0 i wa else Generic v
   | _ -> Generic v)

(** val fast_index : access -> z option **)

let fast_index = function
| Fast k -> Some k
| _ -> None

(** val crop_slice : bool -> z -> z -> z -> (z * z) * z **)

let crop_slice fix_crop n0 start stop =
  let s =
    if Z.ltb start Z0
    then let s1 = ssz (Z.add start n0) in if Z.ltb s1 Z0 then Z0 else s1
    else if (&&) fix_crop (Z.ltb n0 start) then n0 else start
  in
  let e =
    if Z.ltb stop Z0
    then ssz (Z.add stop n0)
    else if Z.ltb n0 stop then n0 else stop
  in
  ((s, e), (ssz (Z.sub e s)))

(** val listtuple_getslice : bool -> z -> z -> z -> sresult **)

let listtuple_getslice fix_crop n0 start stop =
  let (p, len) = crop_slice fix_crop n0 start stop in
  let (s, _) = p in
  if Z.leb len Z0
  then Sel (Z0, Z0)
  else if (&&) (Z.leb Z0 s) (Z.leb (Z.add s len) n0)
       then Sel (s, len)
       else SliceOOB (s, len)

(** val unicode_substring : z -> z -> z -> sresult **)

let unicode_substring n0 start stop =
  let s =
    if Z.ltb start Z0
    then let s1 = ssz (Z.add start n0) in if Z.ltb s1 Z0 then Z0 else s1
    else start
  in
  let e =
    if Z.ltb stop Z0
    then ssz (Z.add stop n0)
    else if Z.ltb n0 stop then n0 else stop
  in
  if Z.leb e s
  then Sel (Z0, Z0)
  else if (&&) (Z.eqb s Z0) (Z.eqb e n0)
       then norm_sel Z0 n0
       else let len = ssz (Z.sub e s) in
            if (&&) (Z.leb Z0 s) (Z.leb (Z.add s len) n0)
            then Sel (s, len)
            else SliceOOB (s, len)

(** val coerce_bound : bool -> z -> bound -> z option **)

let coerce_bound fix_clamp dflt = function
| BCInt v -> Some v
| BPyInt z0 ->
  if in_sszb z0
  then Some z0
  else if fix_clamp then Some (clamp_ssz z0) else None
| _ -> Some dflt

(** val slice_node :
    bool -> bool -> kind -> z -> bound -> bound -> sresult **)

let slice_node fix_crop fix_clamp k n0 bs be =
  match k with
  | KList ->
    (match coerce_bound fix_clamp Z0 bs with
     | Some s ->
       (match coerce_bound fix_clamp sSZ_MAX be with
        | Some e ->
          (match k with
           | KList -> listtuple_getslice fix_crop n0 s e
           | KTuple -> listtuple_getslice fix_crop n0 s e
           | KStr -> unicode_substring n0 s e
           | _ -> py_slice n0 (BCInt s) (BCInt e))
        | None -> OverflowError)
     | None -> OverflowError)
  | KTuple ->
    (match coerce_bound fix_clamp Z0 bs with
     | Some s ->
       (match coerce_bound fix_clamp sSZ_MAX be with
        | Some e ->
          (match k with
           | KList -> listtuple_getslice fix_crop n0 s e
           | KTuple -> listtuple_getslice fix_crop n0 s e
           | KStr -> unicode_substring n0 s e
           | _ -> py_slice n0 (BCInt s) (BCInt e))
        | None -> OverflowError)
     | None -> OverflowError)
  | KStr ->
    (match coerce_bound fix_clamp Z0 bs with
     | Some s ->
       (match coerce_bound fix_clamp sSZ_MAX be with
        | Some e ->
          (match k with
           | KList -> listtuple_getslice fix_crop n0 s e
           | KTuple -> listtuple_getslice fix_crop n0 s e
           | KStr -> unicode_substring n0 s e
           | _ -> py_slice n0 (BCInt s) (BCInt e))
        | None -> OverflowError)
     | None -> OverflowError)
  | KBytes ->
    (match coerce_bound fix_clamp Z0 bs with
     | Some s ->
       (match coerce_bound fix_clamp sSZ_MAX be with
        | Some e ->
          (match k with
           | KList -> listtuple_getslice fix_crop n0 s e
           | KTuple -> listtuple_getslice fix_crop n0 s e
           | KStr -> unicode_substring n0 s e
           | _ -> py_slice n0 (BCInt s) (BCInt e))
        | None -> OverflowError)
     | None -> OverflowError)
  | KByteArray ->
    (match coerce_bound fix_clamp Z0 bs with
     | Some s ->
       (match coerce_bound fix_clamp sSZ_MAX be with
        | Some e ->
          (match k with
           | KList -> listtuple_getslice fix_crop n0 s e
           | KTuple -> listtuple_getslice fix_crop n0 s e
           | KStr -> unicode_substring n0 s e
           | _ -> py_slice n0 (BCInt s) (BCInt e))
        | None -> OverflowError)
     | None -> OverflowError)
  | _ -> py_slice n0 bs be

(** val setslice_node : bool -> kind -> z -> bound -> bound -> sresult **)

let setslice_node fix_clamp k n0 bs be =
  match k with
  | KList ->
    (match coerce_bound fix_clamp Z0 bs with
     | Some s ->
       (match coerce_bound fix_clamp sSZ_MAX be with
        | Some e -> py_slice_pos n0 (BCInt s) (BCInt e)
        | None -> OverflowError)
     | None -> OverflowError)
  | KTuple ->
    (match coerce_bound fix_clamp Z0 bs with
     | Some s ->
       (match coerce_bound fix_clamp sSZ_MAX be with
        | Some e -> py_slice_pos n0 (BCInt s) (BCInt e)
        | None -> OverflowError)
     | None -> OverflowError)
  | KStr ->
    (match coerce_bound fix_clamp Z0 bs with
     | Some s ->
       (match coerce_bound fix_clamp sSZ_MAX be with
        | Some e -> py_slice_pos n0 (BCInt s) (BCInt e)
        | None -> OverflowError)
     | None -> OverflowError)
  | KBytes ->
    (match coerce_bound fix_clamp Z0 bs with
     | Some s ->
       (match coerce_bound fix_clamp sSZ_MAX be with
        | Some e -> py_slice_pos n0 (BCInt s) (BCInt e)
        | None -> OverflowError)
     | None -> OverflowError)
  | KByteArray ->
    (match coerce_bound fix_clamp Z0 bs with
     | Some s ->
       (match coerce_bound fix_clamp sSZ_MAX be with
        | Some e -> py_slice_pos n0 (BCInt s) (BCInt e)
        | None -> OverflowError)
     | None -> OverflowError)
  | _ -> py_slice_pos n0 bs be
