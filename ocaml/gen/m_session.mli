
type nat =
| O
| S of nat

val fst : ('a1 * 'a2) -> 'a1

val snd : ('a1 * 'a2) -> 'a2

val length : 'a1 list -> nat

val app : 'a1 list -> 'a1 list -> 'a1 list

type positive =
| XI of positive
| XO of positive
| XH

type n =
| N0
| Npos of positive

type z =
| Z0
| Zpos of positive
| Zneg of positive

module Nat :
 sig
  val eqb : nat -> nat -> bool
 end

val nth : nat -> 'a1 list -> 'a1 -> 'a1

val map : ('a1 -> 'a2) -> 'a1 list -> 'a2 list

val flat_map : ('a1 -> 'a2 list) -> 'a1 list -> 'a2 list

val existsb : ('a1 -> bool) -> 'a1 list -> bool

val filter : ('a1 -> bool) -> 'a1 list -> 'a1 list

val seq : nat -> nat -> nat list

val ex_keep : (((((nat * n) * z) * z list) * z option) * positive) * bool

type kind =
| KAlways
| KUsed

type pxd = kind list

type cimport = nat * nat list

type module0 = cimport list

type context = { loaded : nat list; marks : (nat * nat) list }

val fresh : context

val mem_nat : nat -> nat list -> bool

val pair_eqb : (nat * nat) -> (nat * nat) -> bool

val mem_pair : (nat * nat) -> (nat * nat) list -> bool

val load : context -> nat -> context * nat list

val load_all : context -> module0 -> context * nat list

val uses_of : module0 -> (nat * nat) list

val mark_all : context -> module0 -> context

val emits : kind -> bool -> bool

val entries_of : pxd list -> nat -> pxd

val emit_pxd : pxd list -> context -> nat -> (nat * nat) list

val emit : pxd list -> context -> module0 -> (nat * nat) list

val compile :
  pxd list -> context -> module0 -> context * (nat list * (nat * nat) list)

val session :
  pxd list -> bool -> context -> module0 list -> (nat list * (nat * nat)
  list) list

val run : pxd list -> context -> module0 list -> context

val isolated : pxd list -> module0 -> nat list * (nat * nat) list

val after : pxd list -> module0 list -> module0 -> nat list * (nat * nat) list
