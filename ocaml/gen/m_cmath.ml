
(** val xorb : bool -> bool -> bool **)

let xorb b1 b2 =
  if b1 then if b2 then false else true else b2

(** val negb : bool -> bool **)

let negb = function
| true -> false
| false -> true

type nat =
| O
| S of nat

(** val fst : ('a1 * 'a2) -> 'a1 **)

let fst = function
| (x, _) -> x

(** val snd : ('a1 * 'a2) -> 'a2 **)

let snd = function
| (_, y) -> y

type comparison =
| Eq
| Lt
| Gt

(** val compOpp : comparison -> comparison **)

let compOpp = function
| Eq -> Eq
| Lt -> Gt
| Gt -> Lt

type positive =
| XI of positive
| XO of positive
| XH

type n =
| N0
| Npos of positive

type z =
| Z0
| Zpos of positive
| Zneg of positive

module Pos =
 struct
  type mask =
  | IsNul
  | IsPos of positive
  | IsNeg
 end

module Coq_Pos =
 struct
  (** val succ : positive -> positive **)

  let rec succ = function
  | XI p -> XO (succ p)
  | XO p -> XI p
  | XH -> XO XH

  (** val add : positive -> positive -> positive **)

  let rec add x y =
    match x with
    | XI p ->
      (match y with
       | XI q -> XO (add_carry p q)
       | XO q -> XI (add p q)
       | XH -> XO (succ p))
    | XO p ->
      (match y with
       | XI q -> XI (add p q)
       | XO q -> XO (add p q)
       | XH -> XI p)
    | XH -> (match y with
             | XI q -> XO (succ q)
             | XO q -> XI q
             | XH -> XO XH)

  (** val add_carry : positive -> positive -> positive **)

  and add_carry x y =
    match x with
    | XI p ->
      (match y with
       | XI q -> XI (add_carry p q)
       | XO q -> XO (add_carry p q)
       | XH -> XI (succ p))
    | XO p ->
      (match y with
       | XI q -> XO (add_carry p q)
       | XO q -> XI (add p q)
       | XH -> XO (succ p))
    | XH ->
      (match y with
       | XI q -> XI (succ q)
       | XO q -> XO (succ q)
       | XH -> XI XH)

  (** val pred_double : positive -> positive **)

  let rec pred_double = function
  | XI p -> XI (XO p)
  | XO p -> XI (pred_double p)
  | XH -> XH

  (** val pred_N : positive -> n **)

  let pred_N = function
  | XI p -> Npos (XO p)
  | XO p -> Npos (pred_double p)
  | XH -> N0

  type mask = Pos.mask =
  | IsNul
  | IsPos of positive
  | IsNeg

  (** val succ_double_mask : mask -> mask **)

  let succ_double_mask = function
  | IsNul -> IsPos XH
  | IsPos p -> IsPos (XI p)
  | IsNeg -> IsNeg

  (** val double_mask : mask -> mask **)

  let double_mask = function
  | IsPos p -> IsPos (XO p)
  | x0 -> x0

  (** val double_pred_mask : positive -> mask **)

  let double_pred_mask = function
  | XI p -> IsPos (XO (XO p))
  | XO p -> IsPos (XO (pred_double p))
  | XH -> IsNul

  (** val sub_mask : positive -> positive -> mask **)

  let rec sub_mask x y =
    match x with
    | XI p ->
      (match y with
       | XI q -> double_mask (sub_mask p q)
       | XO q -> succ_double_mask (sub_mask p q)
       | XH -> IsPos (XO p))
    | XO p ->
      (match y with
       | XI q -> succ_double_mask (sub_mask_carry p q)
       | XO q -> double_mask (sub_mask p q)
       | XH -> IsPos (pred_double p))
    | XH -> (match y with
             | XH -> IsNul
             | _ -> IsNeg)

  (** val sub_mask_carry : positive -> positive -> mask **)

  and sub_mask_carry x y =
    match x with
    | XI p ->
      (match y with
       | XI q -> succ_double_mask (sub_mask_carry p q)
       | XO q -> double_mask (sub_mask p q)
       | XH -> IsPos (pred_double p))
    | XO p ->
      (match y with
       | XI q -> double_mask (sub_mask_carry p q)
       | XO q -> succ_double_mask (sub_mask_carry p q)
       | XH -> double_pred_mask p)
    | XH -> IsNeg

  (** val mul : positive -> positive -> positive **)

  let rec mul x y =
    match x with
    | XI p -> add y (XO (mul p y))
    | XO p -> XO (mul p y)
    | XH -> y

  (** val iter : ('a1 -> 'a1) -> 'a1 -> positive -> 'a1 **)

  let rec iter f x = function
  | XI n' -> f (iter f (iter f x n') n')
  | XO n' -> iter f (iter f x n') n'
  | XH -> f x

  (** val compare_cont : comparison -> positive -> positive -> comparison **)

  let rec compare_cont r x y =
    match x with
    | XI p ->
      (match y with
       | XI q -> compare_cont r p q
       | XO q -> compare_cont Gt p q
       | XH -> Gt)
    | XO p ->
      (match y with
       | XI q -> compare_cont Lt p q
       | XO q -> compare_cont r p q
       | XH -> Gt)
    | XH -> (match y with
             | XH -> r
             | _ -> Lt)

  (** val compare : positive -> positive -> comparison **)

  let compare =
    compare_cont Eq

  (** val eqb : positive -> positive -> bool **)

  let rec eqb p q =
    match p with
    | XI p0 -> (match q with
                | XI q0 -> eqb p0 q0
                | _ -> false)
    | XO p0 -> (match q with
                | XO q0 -> eqb p0 q0
                | _ -> false)
    | XH -> (match q with
             | XH -> true
             | _ -> false)

  (** val coq_Nsucc_double : n -> n **)

  let coq_Nsucc_double = function
  | N0 -> Npos XH
  | Npos p -> Npos (XI p)

  (** val coq_Ndouble : n -> n **)

  let coq_Ndouble = function
  | N0 -> N0
  | Npos p -> Npos (XO p)

  (** val coq_lxor : positive -> positive -> n **)

  let rec coq_lxor p q =
    match p with
    | XI p0 ->
      (match q with
       | XI q0 -> coq_Ndouble (coq_lxor p0 q0)
       | XO q0 -> coq_Nsucc_double (coq_lxor p0 q0)
       | XH -> Npos (XO p0))
    | XO p0 ->
      (match q with
       | XI q0 -> coq_Nsucc_double (coq_lxor p0 q0)
       | XO q0 -> coq_Ndouble (coq_lxor p0 q0)
       | XH -> Npos (XI p0))
    | XH ->
      (match q with
       | XI q0 -> Npos (XO q0)
       | XO q0 -> Npos (XI q0)
       | XH -> N0)
 end

module N =
 struct
  (** val succ_double : n -> n **)

  let succ_double = function
  | N0 -> Npos XH
  | Npos p -> Npos (XI p)

  (** val double : n -> n **)

  let double = function
  | N0 -> N0
  | Npos p -> Npos (XO p)

  (** val succ_pos : n -> positive **)

  let succ_pos = function
  | N0 -> XH
  | Npos p -> Coq_Pos.succ p

  (** val sub : n -> n -> n **)

  let sub n0 m =
    match n0 with
    | N0 -> N0
    | Npos n' ->
      (match m with
       | N0 -> n0
       | Npos m' ->
         (match Coq_Pos.sub_mask n' m' with
          | Coq_Pos.IsPos p -> Npos p
          | _ -> N0))

  (** val compare : n -> n -> comparison **)

  let compare n0 m =
    match n0 with
    | N0 -> (match m with
             | N0 -> Eq
             | Npos _ -> Lt)
    | Npos n' -> (match m with
                  | N0 -> Gt
                  | Npos m' -> Coq_Pos.compare n' m')

  (** val leb : n -> n -> bool **)

  let leb x y =
    match compare x y with
    | Gt -> false
    | _ -> true

  (** val pos_div_eucl : positive -> n -> n * n **)

  let rec pos_div_eucl a b =
    match a with
    | XI a' ->
      let (q, r) = pos_div_eucl a' b in
      let r' = succ_double r in
      if leb b r' then ((succ_double q), (sub r' b)) else ((double q), r')
    | XO a' ->
      let (q, r) = pos_div_eucl a' b in
      let r' = double r in
      if leb b r' then ((succ_double q), (sub r' b)) else ((double q), r')
    | XH ->
      (match b with
       | N0 -> (N0, (Npos XH))
       | Npos p -> (match p with
                    | XH -> ((Npos XH), N0)
                    | _ -> (N0, (Npos XH))))

  (** val coq_lxor : n -> n -> n **)

  let coq_lxor n0 m =
    match n0 with
    | N0 -> m
    | Npos p -> (match m with
                 | N0 -> n0
                 | Npos q -> Coq_Pos.coq_lxor p q)
 end

module Z =
 struct
  (** val double : z -> z **)

  let double = function
  | Z0 -> Z0
  | Zpos p -> Zpos (XO p)
  | Zneg p -> Zneg (XO p)

  (** val succ_double : z -> z **)

  let succ_double = function
  | Z0 -> Zpos XH
  | Zpos p -> Zpos (XI p)
  | Zneg p -> Zneg (Coq_Pos.pred_double p)

  (** val pred_double : z -> z **)

  let pred_double = function
  | Z0 -> Zneg XH
  | Zpos p -> Zpos (Coq_Pos.pred_double p)
  | Zneg p -> Zneg (XI p)

  (** val pos_sub : positive -> positive -> z **)

  let rec pos_sub x y =
    match x with
    | XI p ->
      (match y with
       | XI q -> double (pos_sub p q)
       | XO q -> succ_double (pos_sub p q)
       | XH -> Zpos (XO p))
    | XO p ->
      (match y with
       | XI q -> pred_double (pos_sub p q)
       | XO q -> double (pos_sub p q)
       | XH -> Zpos (Coq_Pos.pred_double p))
    | XH ->
      (match y with
       | XI q -> Zneg (XO q)
       | XO q -> Zneg (Coq_Pos.pred_double q)
       | XH -> Z0)

  (** val add : z -> z -> z **)

  let add x y =
    match x with
    | Z0 -> y
    | Zpos x' ->
      (match y with
       | Z0 -> x
       | Zpos y' -> Zpos (Coq_Pos.add x' y')
       | Zneg y' -> pos_sub x' y')
    | Zneg x' ->
      (match y with
       | Z0 -> x
       | Zpos y' -> pos_sub y' x'
       | Zneg y' -> Zneg (Coq_Pos.add x' y'))

  (** val opp : z -> z **)

  let opp = function
  | Z0 -> Z0
  | Zpos x0 -> Zneg x0
  | Zneg x0 -> Zpos x0

  (** val sub : z -> z -> z **)

  let sub m n0 =
    add m (opp n0)

  (** val mul : z -> z -> z **)

  let mul x y =
    match x with
    | Z0 -> Z0
    | Zpos x' ->
      (match y with
       | Z0 -> Z0
       | Zpos y' -> Zpos (Coq_Pos.mul x' y')
       | Zneg y' -> Zneg (Coq_Pos.mul x' y'))
    | Zneg x' ->
      (match y with
       | Z0 -> Z0
       | Zpos y' -> Zneg (Coq_Pos.mul x' y')
       | Zneg y' -> Zpos (Coq_Pos.mul x' y'))

  (** val pow_pos : z -> positive -> z **)

  let pow_pos z0 =
    Coq_Pos.iter (mul z0) (Zpos XH)

  (** val pow : z -> z -> z **)

  let pow x = function
  | Z0 -> Zpos XH
  | Zpos p -> pow_pos x p
  | Zneg _ -> Z0

  (** val compare : z -> z -> comparison **)

  let compare x y =
    match x with
    | Z0 -> (match y with
             | Z0 -> Eq
             | Zpos _ -> Lt
             | Zneg _ -> Gt)
    | Zpos x' -> (match y with
                  | Zpos y' -> Coq_Pos.compare x' y'
                  | _ -> Gt)
    | Zneg x' ->
      (match y with
       | Zneg y' -> compOpp (Coq_Pos.compare x' y')
       | _ -> Lt)

  (** val leb : z -> z -> bool **)

  let leb x y =
    match compare x y with
    | Gt -> false
    | _ -> true

  (** val ltb : z -> z -> bool **)

  let ltb x y =
    match compare x y with
    | Lt -> true
    | _ -> false

  (** val eqb : z -> z -> bool **)

  let eqb x y =
    match x with
    | Z0 -> (match y with
             | Z0 -> true
             | _ -> false)
    | Zpos p -> (match y with
                 | Zpos q -> Coq_Pos.eqb p q
                 | _ -> false)
    | Zneg p -> (match y with
                 | Zneg q -> Coq_Pos.eqb p q
                 | _ -> false)

  (** val of_N : n -> z **)

  let of_N = function
  | N0 -> Z0
  | Npos p -> Zpos p

  (** val pos_div_eucl : positive -> z -> z * z **)

  let rec pos_div_eucl a b =
    match a with
    | XI a' ->
      let (q, r) = pos_div_eucl a' b in
      let r' = add (mul (Zpos (XO XH)) r) (Zpos XH) in
      if ltb r' b
      then ((mul (Zpos (XO XH)) q), r')
      else ((add (mul (Zpos (XO XH)) q) (Zpos XH)), (sub r' b))
    | XO a' ->
      let (q, r) = pos_div_eucl a' b in
      let r' = mul (Zpos (XO XH)) r in
      if ltb r' b
      then ((mul (Zpos (XO XH)) q), r')
      else ((add (mul (Zpos (XO XH)) q) (Zpos XH)), (sub r' b))
    | XH -> if leb (Zpos (XO XH)) b then (Z0, (Zpos XH)) else ((Zpos XH), Z0)

  (** val div_eucl : z -> z -> z * z **)

  let div_eucl a b =
    match a with
    | Z0 -> (Z0, Z0)
    | Zpos a' ->
      (match b with
       | Z0 -> (Z0, a)
       | Zpos _ -> pos_div_eucl a' b
       | Zneg b' ->
         let (q, r) = pos_div_eucl a' (Zpos b') in
         (match r with
          | Z0 -> ((opp q), Z0)
          | _ -> ((opp (add q (Zpos XH))), (add b r))))
    | Zneg a' ->
      (match b with
       | Z0 -> (Z0, a)
       | Zpos _ ->
         let (q, r) = pos_div_eucl a' b in
         (match r with
          | Z0 -> ((opp q), Z0)
          | _ -> ((opp (add q (Zpos XH))), (sub b r)))
       | Zneg b' -> let (q, r) = pos_div_eucl a' (Zpos b') in (q, (opp r)))

  (** val div : z -> z -> z **)

  let div a b =
    let (q, _) = div_eucl a b in q

  (** val modulo : z -> z -> z **)

  let modulo a b =
    let (_, r) = div_eucl a b in r

  (** val quotrem : z -> z -> z * z **)

  let quotrem a b =
    match a with
    | Z0 -> (Z0, Z0)
    | Zpos a0 ->
      (match b with
       | Z0 -> (Z0, a)
       | Zpos b0 ->
         let (q, r) = N.pos_div_eucl a0 (Npos b0) in ((of_N q), (of_N r))
       | Zneg b0 ->
         let (q, r) = N.pos_div_eucl a0 (Npos b0) in
         ((opp (of_N q)), (of_N r)))
    | Zneg a0 ->
      (match b with
       | Z0 -> (Z0, a)
       | Zpos b0 ->
         let (q, r) = N.pos_div_eucl a0 (Npos b0) in
         ((opp (of_N q)), (opp (of_N r)))
       | Zneg b0 ->
         let (q, r) = N.pos_div_eucl a0 (Npos b0) in
         ((of_N q), (opp (of_N r))))

  (** val quot : z -> z -> z **)

  let quot a b =
    fst (quotrem a b)

  (** val rem : z -> z -> z **)

  let rem a b =
    snd (quotrem a b)

  (** val coq_lxor : z -> z -> z **)

  let coq_lxor a b =
    match a with
    | Z0 -> b
    | Zpos a0 ->
      (match b with
       | Z0 -> a
       | Zpos b0 -> of_N (Coq_Pos.coq_lxor a0 b0)
       | Zneg b0 ->
         Zneg (N.succ_pos (N.coq_lxor (Npos a0) (Coq_Pos.pred_N b0))))
    | Zneg a0 ->
      (match b with
       | Z0 -> a
       | Zpos b0 ->
         Zneg (N.succ_pos (N.coq_lxor (Coq_Pos.pred_N a0) (Npos b0)))
       | Zneg b0 -> of_N (N.coq_lxor (Coq_Pos.pred_N a0) (Coq_Pos.pred_N b0)))
 end

(** val ex_keep :
    (((((nat * n) * z) * z list) * z option) * positive) * bool **)

let ex_keep =
  ((((((O, N0), Z0), []), None), XH), true)

(** val min_int : z -> bool -> z **)

let min_int w = function
| true -> Z.opp (Z.pow (Zpos (XO XH)) (Z.sub w (Zpos XH)))
| false -> Z0

(** val max_int : z -> bool -> z **)

let max_int w = function
| true -> Z.sub (Z.pow (Zpos (XO XH)) (Z.sub w (Zpos XH))) (Zpos XH)
| false -> Z.sub (Z.pow (Zpos (XO XH)) w) (Zpos XH)

(** val in_rangeb : z -> bool -> z -> bool **)

let in_rangeb w s v =
  (&&) (Z.leb (min_int w s) v) (Z.leb v (max_int w s))

(** val wrap : z -> bool -> z -> z **)

let wrap w s v =
  if s
  then Z.sub
         (Z.modulo (Z.add v (Z.pow (Zpos (XO XH)) (Z.sub w (Zpos XH))))
           (Z.pow (Zpos (XO XH)) w))
         (Z.pow (Zpos (XO XH)) (Z.sub w (Zpos XH)))
  else Z.modulo v (Z.pow (Zpos (XO XH)) w)

(** val b2z : bool -> z **)

let b2z = function
| true -> Zpos XH
| false -> Z0

(** val adapt_python : bool -> z -> z -> z **)

let adapt_python bconst r b =
  if bconst
  then b2z ((&&) (negb (Z.eqb r Z0)) (xorb (Z.ltb r Z0) (Z.ltb b Z0)))
  else b2z ((&&) (negb (Z.eqb r Z0)) (Z.ltb (Z.coq_lxor r b) Z0))

(** val div_int : z -> bool -> bool -> z -> z -> z **)

let div_int w s bconst a b =
  let q = wrap w s (Z.quot a b) in
  let r = wrap w s (Z.sub a (wrap w s (Z.mul q b))) in
  wrap w s (Z.sub q (adapt_python bconst r b))

(** val mod_int_old : z -> bool -> bool -> z -> z -> z **)

let mod_int_old w s bconst a b =
  let r = wrap w s (Z.rem a b) in
  wrap w s (Z.add r (wrap w s (Z.mul (adapt_python bconst r b) b)))

(** val mod_int : z -> bool -> bool -> z -> z -> z **)

let mod_int w s bconst a b =
  if (&&) s (Z.eqb b (Zneg XH)) then Z0 else mod_int_old w s bconst a b

(** val cdiv_c : z -> bool -> z -> z -> z **)

let cdiv_c w s a b =
  wrap w s (Z.quot a b)

(** val cmod_c : z -> bool -> z -> z -> z **)

let cmod_c w s a b =
  wrap w s (Z.rem a b)

(** val div_ub : z -> bool -> z -> z -> bool **)

let div_ub w s a b =
  (||) (Z.eqb b Z0)
    ((&&) ((&&) s (Z.eqb a (min_int w s))) (Z.eqb b (Zneg XH)))

(** val div_int_no_overflow : z -> bool -> bool -> z -> z -> bool **)

let div_int_no_overflow w s bconst a b =
  let q = Z.quot a b in
  let r = Z.sub a (Z.mul q b) in
  (&&)
    ((&&) ((&&) (in_rangeb w s q) (in_rangeb w s (Z.mul q b)))
      (in_rangeb w s r)) (in_rangeb w s (Z.sub q (adapt_python bconst r b)))

(** val mod_int_no_overflow : z -> bool -> bool -> z -> z -> bool **)

let mod_int_no_overflow w s bconst a b =
  let r = Z.rem a b in
  (&&)
    ((&&) (in_rangeb w s r)
      (in_rangeb w s (Z.mul (adapt_python bconst r b) b)))
    (in_rangeb w s (Z.add r (Z.mul (adapt_python bconst r b) b)))

type outcome =
| Value of z
| ZeroDivisionError
| OverflowError
| UB

(** val div_node : bool -> z -> bool -> bool -> z -> z -> outcome **)

let div_node guard_all_widths w s bconst a b =
  if Z.eqb b Z0
  then ZeroDivisionError
  else if (&&)
            ((&&)
              ((&&) s
                ((||) guard_all_widths
                  (Z.eqb w (Zpos (XO (XO (XO (XO (XO (XO XH))))))))))
              (Z.eqb b (Zneg XH))) (Z.eqb a (min_int w s))
       then OverflowError
       else if div_ub w s a b then UB else Value (div_int w s bconst a b)

(** val mod_node : z -> bool -> bool -> z -> z -> outcome **)

let mod_node w s bconst a b =
  if Z.eqb b Z0 then ZeroDivisionError else Value (mod_int w s bconst a b)

(** val sh_cdiv : z -> z -> z **)

let sh_cdiv a b =
  if Z.ltb a Z0
  then let a0 = Z.opp a in
       let b0 = Z.opp b in
       if Z.ltb b0 Z0
       then Z.div (Z.add (Z.add a0 b0) (Zpos XH)) b0
       else Z.div a0 b0
  else if Z.ltb b Z0 then Z.div (Z.add (Z.add a b) (Zpos XH)) b else Z.div a b

(** val sh_cmod : z -> z -> z **)

let sh_cmod a b =
  let r = Z.modulo a b in
  if (&&) (Z.ltb (Z.mul a b) Z0) (negb (Z.eqb r Z0)) then Z.sub r b else r

type divisor =
| DRun
| DNum of z
| DOpaque

(** val has_constant_result : divisor -> bool **)

let has_constant_result = function
| DRun -> false
| _ -> true

type variant = { zc : bool; oq : bool }

(** val may_equal : variant -> divisor -> z -> bool **)

let may_equal v d x =
  match d with
  | DRun -> true
  | DNum c -> Z.eqb c x
  | DOpaque -> v.oq

type dcfg = { cdir : bool; cforced : bool }

(** val zerodivision_check : variant -> dcfg -> divisor -> bool **)

let zerodivision_check v c d =
  (&&) ((&&) (negb c.cforced) (negb c.cdir))
    (match d with
     | DNum k -> (&&) v.zc (Z.eqb k Z0)
     | _ -> may_equal v d Z0)

(** val min_division_check :
    variant -> dcfg -> bool -> bool -> divisor -> bool **)

let min_division_check v c is_mod s d =
  (&&) ((&&) ((&&) ((&&) (negb c.cforced) (negb c.cdir)) (negb is_mod)) s)
    (may_equal v d (Zneg XH))

(** val c_operator : dcfg -> bool -> bool **)

let c_operator c s =
  (||) ((||) c.cforced c.cdir) (negb s)

(** val decisions :
    variant -> dcfg -> bool -> bool -> divisor ->
    ((bool * bool) * bool) * bool **)

let decisions v c is_mod s d =
  ((((zerodivision_check v c d), (min_division_check v c is_mod s d)),
    (c_operator c s)), (has_constant_result d))

(** val div_stmt :
    variant -> dcfg -> z -> bool -> divisor -> z -> z -> outcome **)

let div_stmt v c w s d a b =
  if (&&) (zerodivision_check v c d) (Z.eqb b Z0)
  then ZeroDivisionError
  else if (&&) ((&&) (min_division_check v c false s d) (Z.eqb b (Zneg XH)))
            (Z.eqb a (min_int w s))
       then OverflowError
       else if div_ub w s a b
            then UB
            else if c_operator c s
                 then Value (cdiv_c w s a b)
                 else Value (div_int w s (has_constant_result d) a b)

(** val mod_stmt :
    variant -> dcfg -> z -> bool -> divisor -> z -> z -> outcome **)

let mod_stmt v c w s d a b =
  if (&&) (zerodivision_check v c d) (Z.eqb b Z0)
  then ZeroDivisionError
  else if c_operator c s
       then if div_ub w s a b then UB else Value (cmod_c w s a b)
       else if Z.eqb b Z0
            then UB
            else Value (mod_int w s (has_constant_result d) a b)

(** val divmod_q : bool -> z -> bool -> z -> z -> outcome **)

let divmod_q guard w s a b =
  if Z.eqb b Z0
  then ZeroDivisionError
  else if Z.eqb a Z0
       then Value Z0
       else if (&&) ((&&) ((&&) guard s) (Z.eqb b (Zneg XH)))
                 (Z.eqb a (min_int w s))
            then OverflowError
            else if div_ub w s a b
                 then UB
                 else if xorb (Z.ltb a Z0) (Z.ltb b Z0)
                      then let q = wrap w s (Z.quot a b) in
                           let r = wrap w s (Z.sub a (wrap w s (Z.mul q b)))
                           in
                           Value (wrap w s (Z.sub q (adapt_python true r b)))
                      else Value (wrap w s (Z.quot a b))

(** val divmod_r : bool -> z -> bool -> z -> z -> outcome **)

let divmod_r guard w s a b =
  if Z.eqb b Z0
  then ZeroDivisionError
  else if Z.eqb a Z0
       then Value Z0
       else if (&&) ((&&) ((&&) guard s) (Z.eqb b (Zneg XH)))
                 (Z.eqb a (min_int w s))
            then OverflowError
            else if div_ub w s a b
                 then UB
                 else if xorb (Z.ltb a Z0) (Z.ltb b Z0)
                      then let q = wrap w s (Z.quot a b) in
                           let r = wrap w s (Z.sub a (wrap w s (Z.mul q b)))
                           in
                           Value
                           (wrap w s
                             (Z.add r
                               (wrap w s (Z.mul (adapt_python true r b) b))))
                      else Value (wrap w s (Z.rem a b))
