
val negb : bool -> bool

type nat =
| O
| S of nat

val fst : ('a1 * 'a2) -> 'a1

val snd : ('a1 * 'a2) -> 'a2

val length : 'a1 list -> nat

val app : 'a1 list -> 'a1 list -> 'a1 list

type comparison =
| Eq
| Lt
| Gt

val compOpp : comparison -> comparison

val add : nat -> nat -> nat

type positive =
| XI of positive
| XO of positive
| XH

type n =
| N0
| Npos of positive

type z =
| Z0
| Zpos of positive
| Zneg of positive

module Nat :
 sig
  val eqb : nat -> nat -> bool
 end

module Pos :
 sig
  val succ : positive -> positive

  val add : positive -> positive -> positive

  val add_carry : positive -> positive -> positive

  val pred_double : positive -> positive

  val pred_N : positive -> n

  val mul : positive -> positive -> positive

  val iter : ('a1 -> 'a1) -> 'a1 -> positive -> 'a1

  val div2 : positive -> positive

  val div2_up : positive -> positive

  val compare_cont : comparison -> positive -> positive -> comparison

  val compare : positive -> positive -> comparison

  val eqb : positive -> positive -> bool

  val coq_Nsucc_double : n -> n

  val coq_Ndouble : n -> n

  val coq_lor : positive -> positive -> positive

  val coq_land : positive -> positive -> n

  val ldiff : positive -> positive -> n

  val coq_lxor : positive -> positive -> n

  val iter_op : ('a1 -> 'a1 -> 'a1) -> positive -> 'a1 -> 'a1

  val to_nat : positive -> nat
 end

module N :
 sig
  val succ_pos : n -> positive

  val coq_lor : n -> n -> n

  val coq_land : n -> n -> n

  val ldiff : n -> n -> n

  val coq_lxor : n -> n -> n
 end

module Z :
 sig
  val double : z -> z

  val succ_double : z -> z

  val pred_double : z -> z

  val pos_sub : positive -> positive -> z

  val add : z -> z -> z

  val opp : z -> z

  val sub : z -> z -> z

  val mul : z -> z -> z

  val pow_pos : z -> positive -> z

  val pow : z -> z -> z

  val compare : z -> z -> comparison

  val leb : z -> z -> bool

  val ltb : z -> z -> bool

  val eqb : z -> z -> bool

  val to_nat : z -> nat

  val of_N : n -> z

  val pos_div_eucl : positive -> z -> z * z

  val div_eucl : z -> z -> z * z

  val div : z -> z -> z

  val modulo : z -> z -> z

  val div2 : z -> z

  val shiftl : z -> z -> z

  val shiftr : z -> z -> z

  val coq_lor : z -> z -> z

  val coq_land : z -> z -> z

  val coq_lxor : z -> z -> z
 end

val map : ('a1 -> 'a2) -> 'a1 list -> 'a2 list

val flat_map : ('a1 -> 'a2 list) -> 'a1 list -> 'a2 list

val fold_left : ('a1 -> 'a2 -> 'a1) -> 'a2 list -> 'a1 -> 'a1

val existsb : ('a1 -> bool) -> 'a1 list -> bool

val ex_keep : (((((nat * n) * z) * z list) * z option) * positive) * bool

val wrap : z -> bool -> z -> z

val b2z : bool -> z

type var = nat

type iop =
| OAdd
| OMul
| OSub
| OAnd
| OXor
| OOr
| OShl
| OShr
| OFdiv

val iop_eqb : iop -> iop -> bool

val omp_ops : iop list

val omp_reduction_op : iop -> bool

type bop =
| BAdd
| BSub
| BMul
| BAnd
| BOr
| BXor
| BLt
| BEq

type expr =
| EC of z
| EV of var
| EB of bop * expr * expr

type stmt =
| SSkip
| SSeq of stmt * stmt
| SAssign of var * expr
| SInplace of var * iop * expr
| SIf of expr * stmt * stmt
| SLoop of bool * var * expr * stmt

type region = { r_pre : stmt option; r_tgt : var; r_body : stmt }

type alist = (var * iop option) list

val aget : alist -> var -> iop option option

val aset : alist -> var -> iop option -> alist

val aupdate : alist -> alist -> alist

val akeys : alist -> var list

val amem : alist -> var -> bool

type cerr =
| EInconsistent
| EReadReduction
| EOuterPrivate
| EBlockReduction
| EUnsupportedOp

type fixes = { fx_ops : bool; fx_nest : bool; fx_rhs : bool }

val no_fixes : fixes

val all_fixes : fixes

val mark : var -> iop option -> (alist * cerr list) -> alist * cerr list

val marks : stmt -> (alist * cerr list) -> alist * cerr list

val node_marks : stmt -> alist

val node_errs : stmt -> cerr list

val nested : stmt -> (var * stmt) list

val node_assignments : var -> stmt -> alist

val merge_errs : alist -> alist -> cerr list

val final_merge : var -> stmt -> alist * cerr list

val final_assignments : var -> stmt -> alist

val expr_vars : expr -> var list

val mem : var -> var list -> bool

val reads_any : var list -> expr -> bool

val inplace_vars : alist -> var list

val reads_bad : bool -> var list -> stmt -> bool

val has_unsupported : alist -> bool

type clause =
| CRed of iop
| CFirstLast
| CBlockPriv
| CShared

val clause_eqb : clause -> clause -> bool

val block_marks : region -> alist

val classify : region -> var -> clause

val opt_errs : bool -> cerr -> cerr list

val region_errors : fixes -> region -> cerr list

val w : z -> bool -> z -> z

type env = var -> z

val upd : env -> var -> z -> env

val bin : z -> bool -> bop -> z -> z -> z

val eval : z -> bool -> env -> expr -> z

val act : z -> bool -> iop -> z -> z -> z

val mop : z -> bool -> iop -> z -> z -> z

val ident : z -> bool -> iop -> z

val iter0 : nat -> z -> (z -> env -> env) -> env -> env

val exec : z -> bool -> stmt -> env -> env

val exec_iter : z -> bool -> var -> stmt -> z -> env -> env

val seq_run : z -> bool -> var -> stmt -> z list -> env -> env

val priv_init : z -> bool -> (var -> clause) -> env -> env

val thr_steps :
  z -> bool -> var -> stmt -> z list -> z -> env -> env option -> env * env
  option

val thr_run :
  z -> bool -> (var -> clause) -> var -> stmt -> z list -> z -> env ->
  env * env option

val first_some : env option list -> env option

val par_exec :
  z -> bool -> (var -> clause) -> var -> stmt -> z list list -> z -> env ->
  env

val region_seq : z -> bool -> region -> z list -> env -> env

val region_par : z -> bool -> region -> z list list -> z -> env -> env

val var_ok : (var -> clause) -> var list -> var -> bool

val expr_ok : (var -> clause) -> var list -> expr -> bool

val wf : (var -> clause) -> var list -> stmt -> var list option

val region_wf : fixes -> region -> var list option
