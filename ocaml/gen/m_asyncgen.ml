
(** val negb : bool -> bool **)

let negb = function
| true -> false
| false -> true

type nat =
| O
| S of nat

(** val fst : ('a1 * 'a2) -> 'a1 **)

let fst = function
| (x, _) -> x

(** val snd : ('a1 * 'a2) -> 'a2 **)

let snd = function
| (_, y) -> y

(** val app : 'a1 list -> 'a1 list -> 'a1 list **)

let rec app l m =
  match l with
  | [] -> m
  | a :: l1 -> a :: (app l1 m)

module Coq__1 = struct
 (** val add : nat -> nat -> nat **)
 let rec add n0 m =
   match n0 with
   | O -> m
   | S p -> S (add p m)
end
include Coq__1

type positive =
| XI of positive
| XO of positive
| XH

type n =
| N0
| Npos of positive

type z =
| Z0
| Zpos of positive
| Zneg of positive

module Pos =
 struct
  (** val succ : positive -> positive **)

  let rec succ = function
  | XI p -> XO (succ p)
  | XO p -> XI p
  | XH -> XO XH

  (** val add : positive -> positive -> positive **)

  let rec add x y =
    match x with
    | XI p ->
      (match y with
       | XI q -> XO (add_carry p q)
       | XO q -> XI (add p q)
       | XH -> XO (succ p))
    | XO p ->
      (match y with
       | XI q -> XI (add p q)
       | XO q -> XO (add p q)
       | XH -> XI p)
    | XH -> (match y with
             | XI q -> XO (succ q)
             | XO q -> XI q
             | XH -> XO XH)

  (** val add_carry : positive -> positive -> positive **)

  and add_carry x y =
    match x with
    | XI p ->
      (match y with
       | XI q -> XI (add_carry p q)
       | XO q -> XO (add_carry p q)
       | XH -> XI (succ p))
    | XO p ->
      (match y with
       | XI q -> XO (add_carry p q)
       | XO q -> XI (add p q)
       | XH -> XO (succ p))
    | XH ->
      (match y with
       | XI q -> XI (succ q)
       | XO q -> XO (succ q)
       | XH -> XI XH)

  (** val pred_double : positive -> positive **)

  let rec pred_double = function
  | XI p -> XI (XO p)
  | XO p -> XI (pred_double p)
  | XH -> XH

  (** val pred_N : positive -> n **)

  let pred_N = function
  | XI p -> Npos (XO p)
  | XO p -> Npos (pred_double p)
  | XH -> N0

  (** val eqb : positive -> positive -> bool **)

  let rec eqb p q =
    match p with
    | XI p0 -> (match q with
                | XI q0 -> eqb p0 q0
                | _ -> false)
    | XO p0 -> (match q with
                | XO q0 -> eqb p0 q0
                | _ -> false)
    | XH -> (match q with
             | XH -> true
             | _ -> false)

  (** val testbit : positive -> n -> bool **)

  let rec testbit p n0 =
    match p with
    | XI p0 -> (match n0 with
                | N0 -> true
                | Npos n1 -> testbit p0 (pred_N n1))
    | XO p0 -> (match n0 with
                | N0 -> false
                | Npos n1 -> testbit p0 (pred_N n1))
    | XH -> (match n0 with
             | N0 -> true
             | Npos _ -> false)

  (** val iter_op : ('a1 -> 'a1 -> 'a1) -> positive -> 'a1 -> 'a1 **)

  let rec iter_op op0 p a =
    match p with
    | XI p0 -> op0 a (iter_op op0 p0 (op0 a a))
    | XO p0 -> iter_op op0 p0 (op0 a a)
    | XH -> a

  (** val to_nat : positive -> nat **)

  let to_nat x =
    iter_op Coq__1.add x (S O)
 end

module N =
 struct
  (** val testbit : n -> n -> bool **)

  let testbit a n0 =
    match a with
    | N0 -> false
    | Npos p -> Pos.testbit p n0
 end

module Z =
 struct
  (** val double : z -> z **)

  let double = function
  | Z0 -> Z0
  | Zpos p -> Zpos (XO p)
  | Zneg p -> Zneg (XO p)

  (** val succ_double : z -> z **)

  let succ_double = function
  | Z0 -> Zpos XH
  | Zpos p -> Zpos (XI p)
  | Zneg p -> Zneg (Pos.pred_double p)

  (** val pred_double : z -> z **)

  let pred_double = function
  | Z0 -> Zneg XH
  | Zpos p -> Zpos (Pos.pred_double p)
  | Zneg p -> Zneg (XI p)

  (** val pos_sub : positive -> positive -> z **)

  let rec pos_sub x y =
    match x with
    | XI p ->
      (match y with
       | XI q -> double (pos_sub p q)
       | XO q -> succ_double (pos_sub p q)
       | XH -> Zpos (XO p))
    | XO p ->
      (match y with
       | XI q -> pred_double (pos_sub p q)
       | XO q -> double (pos_sub p q)
       | XH -> Zpos (Pos.pred_double p))
    | XH ->
      (match y with
       | XI q -> Zneg (XO q)
       | XO q -> Zneg (Pos.pred_double q)
       | XH -> Z0)

  (** val add : z -> z -> z **)

  let add x y =
    match x with
    | Z0 -> y
    | Zpos x' ->
      (match y with
       | Z0 -> x
       | Zpos y' -> Zpos (Pos.add x' y')
       | Zneg y' -> pos_sub x' y')
    | Zneg x' ->
      (match y with
       | Z0 -> x
       | Zpos y' -> pos_sub y' x'
       | Zneg y' -> Zneg (Pos.add x' y'))

  (** val opp : z -> z **)

  let opp = function
  | Z0 -> Z0
  | Zpos x0 -> Zneg x0
  | Zneg x0 -> Zpos x0

  (** val sub : z -> z -> z **)

  let sub m n0 =
    add m (opp n0)

  (** val eqb : z -> z -> bool **)

  let eqb x y =
    match x with
    | Z0 -> (match y with
             | Z0 -> true
             | _ -> false)
    | Zpos p -> (match y with
                 | Zpos q -> Pos.eqb p q
                 | _ -> false)
    | Zneg p -> (match y with
                 | Zneg q -> Pos.eqb p q
                 | _ -> false)

  (** val to_nat : z -> nat **)

  let to_nat = function
  | Zpos p -> Pos.to_nat p
  | _ -> O

  (** val odd : z -> bool **)

  let odd = function
  | Z0 -> false
  | Zpos p -> (match p with
               | XO _ -> false
               | _ -> true)
  | Zneg p -> (match p with
               | XO _ -> false
               | _ -> true)

  (** val testbit : z -> z -> bool **)

  let testbit a = function
  | Z0 -> odd a
  | Zpos p ->
    (match a with
     | Z0 -> false
     | Zpos a0 -> Pos.testbit a0 (Npos p)
     | Zneg a0 -> negb (N.testbit (Pos.pred_N a0) (Npos p)))
  | Zneg _ -> false
 end

(** val nth_error : 'a1 list -> nat -> 'a1 option **)

let rec nth_error l = function
| O -> (match l with
        | [] -> None
        | x :: _ -> Some x)
| S n1 -> (match l with
           | [] -> None
           | _ :: l0 -> nth_error l0 n1)

(** val map : ('a1 -> 'a2) -> 'a1 list -> 'a2 list **)

let rec map f = function
| [] -> []
| a :: t -> (f a) :: (map f t)

(** val ex_keep :
    (((((nat * n) * z) * z list) * z option) * positive) * bool **)

let ex_keep =
  ((((((O, N0), Z0), []), None), XH), true)

type val0 =
| VNone
| VInt of z

type exc =
| EStopIter of val0
| EGenExit
| ERuntime of z
| EType of z
| EValue of z
| EAttr
| EUser of z

type input =
| ISend of val0
| IThrow of exc

type sres =
| SYield of val0
| SErr of exc

type subiter = __subiter Lazy.t
and __subiter =
| SubIter of (sres * subiter) * (val0 -> sres * subiter) option
   * (exc -> sres * subiter) option * (exc option * subiter) option

(** val si_next : subiter -> sres * subiter **)

let si_next s =
  let SubIter (si_next0, _, _, _) = Lazy.force s in si_next0

(** val si_send : subiter -> (val0 -> sres * subiter) option **)

let si_send s =
  let SubIter (_, si_send0, _, _) = Lazy.force s in si_send0

(** val si_throw : subiter -> (exc -> sres * subiter) option **)

let si_throw s =
  let SubIter (_, _, si_throw0, _) = Lazy.force s in si_throw0

(** val si_close : subiter -> (exc option * subiter) option **)

let si_close s =
  let SubIter (_, _, _, si_close0) = Lazy.force s in si_close0

type 'l outcome =
| OYield of val0 * 'l
| ODelegate of val0 * subiter * 'l
| OReturn of val0
| ORaise of exc

type op =
| Next
| Send of val0
| Throw of exc
| Close
| Del
| ThrowNC of exc

type result =
| RYield of val0
| RRaise of exc
| RNone
| RUnraisable of exc
| RWarn

(** val is_none : val0 -> bool **)

let is_none = function
| VNone -> true
| VInt _ -> false

(** val is_stopiter : exc -> bool **)

let is_stopiter = function
| EStopIter _ -> true
| _ -> false

(** val is_genexit : exc -> bool **)

let is_genexit = function
| EGenExit -> true
| _ -> false

(** val eStopAsync : exc **)

let eStopAsync =
  EUser (Zneg (XO XH))

(** val is_stopasync : exc -> bool **)

let is_stopasync = function
| EUser id -> Z.eqb id (Zneg (XO XH))
| _ -> false

(** val pep479 : bool -> exc -> exc **)

let pep479 agen e = match e with
| EStopIter _ -> ERuntime Z0
| EUser id ->
  if (&&) (Z.eqb id (Zneg (XO XH))) agen then ERuntime (Zpos (XI XH)) else e
| _ -> e

(** val sub_send : subiter -> val0 -> sres * subiter **)

let sub_send it v =
  if is_none v
  then si_next it
  else (match si_send it with
        | Some f -> f v
        | None -> ((SErr EAttr), it))

type fixes = { fx_first_send : bool; fx_throw_si_fresh : bool;
               fx_close_ret : bool; fx_si_at_yf : bool; fx_ag_fresh_del : 
               bool }

(** val fx_none : fixes **)

let fx_none =
  { fx_first_send = false; fx_throw_si_fresh = false; fx_close_ret = false;
    fx_si_at_yf = false; fx_ag_fresh_del = false }

(** val fx_all : fixes **)

let fx_all =
  { fx_first_send = true; fx_throw_si_fresh = true; fx_close_ret = true;
    fx_si_at_yf = true; fx_ag_fresh_del = true }

type 'l rlabel =
| RFresh
| RAt of 'l
| RDone

type 'l cstate = { c_label : 'l rlabel; c_running : bool;
                   c_yf : subiter option }

type 'l pstate =
| PCreated
| PSuspended of 'l * subiter option
| PExecuting
| PCompleted

type sendarg =
| AVal of val0
| AExc of exc

type gres =
| GNext of val0
| GReturn of val0
| GError of exc

type 'l log = ('l * input) list

(** val c_set_label : 'a1 cstate -> 'a1 rlabel -> 'a1 cstate **)

let c_set_label s l =
  { c_label = l; c_running = s.c_running; c_yf = s.c_yf }

(** val c_set_running : 'a1 cstate -> bool -> 'a1 cstate **)

let c_set_running s b =
  { c_label = s.c_label; c_running = b; c_yf = s.c_yf }

(** val c_set_yf : 'a1 cstate -> subiter option -> 'a1 cstate **)

let c_set_yf s y =
  { c_label = s.c_label; c_running = s.c_running; c_yf = y }

(** val cy_exit_error : bool -> 'a1 cstate -> exc -> gres * 'a1 cstate **)

let cy_exit_error agen s e =
  ((GError (pep479 agen e)), { c_label = RDone; c_running = s.c_running;
    c_yf = None })

(** val cy_run_user :
    ('a1 -> input -> 'a1 outcome) -> bool -> 'a1 cstate -> 'a1 -> input ->
    (gres * 'a1 cstate) * 'a1 log **)

let cy_run_user step agen s k i =
  match step k i with
  | OYield (v, k') -> (((GNext v), (c_set_label s (RAt k'))), ((k, i) :: []))
  | ODelegate (v, it, k') ->
    (((GNext v), { c_label = (RAt k'); c_running = s.c_running; c_yf = (Some
      it) }), ((k, i) :: []))
  | OReturn v ->
    (((GReturn v), { c_label = RDone; c_running = s.c_running; c_yf =
      None }), ((k, i) :: []))
  | ORaise e -> ((cy_exit_error agen s e), ((k, i) :: []))

(** val cy_body :
    'a1 -> ('a1 -> input -> 'a1 outcome) -> bool -> 'a1 cstate -> sendarg ->
    (gres * 'a1 cstate) * 'a1 log **)

let cy_body start step agen s a =
  match s.c_label with
  | RFresh ->
    (match a with
     | AVal v ->
       (match v with
        | VNone -> cy_run_user step agen s start (ISend VNone)
        | VInt _ -> ((cy_exit_error agen s (EType Z0)), []))
     | AExc e -> ((cy_exit_error agen s e), []))
  | RAt k ->
    cy_run_user step agen s k
      (match a with
       | AVal v -> ISend v
       | AExc e -> IThrow e)
  | RDone ->
    (((GError (ERuntime (Zpos (XI (XI (XO (XO (XO (XI XH))))))))), s), [])

(** val cy_send_ex :
    'a1 -> ('a1 -> input -> 'a1 outcome) -> bool -> bool -> 'a1 cstate ->
    sendarg -> bool -> (gres * 'a1 cstate) * 'a1 log **)

let cy_send_ex start step coro agen s a closing =
  match s.c_label with
  | RDone ->
    if (&&) coro (negb closing)
    then (((GError (ERuntime (Zpos (XO XH)))), s), [])
    else (match a with
          | AVal _ ->
            (((GError (if agen then eStopAsync else EStopIter VNone)), s), [])
          | AExc e -> (((GError e), s), []))
  | _ -> cy_body start step agen s a

(** val cy_send_ex_guard :
    'a1 -> ('a1 -> input -> 'a1 outcome) -> bool -> bool -> fixes -> 'a1
    cstate -> sendarg -> bool -> (gres * 'a1 cstate) * 'a1 log **)

let cy_send_ex_guard start step coro agen fx s a closing =
  match s.c_label with
  | RFresh ->
    (match a with
     | AVal v ->
       (match v with
        | VNone -> cy_send_ex start step coro agen s a closing
        | VInt _ ->
          if fx.fx_first_send
          then (((GError (EType Z0)), s), [])
          else cy_send_ex start step coro agen s a closing)
     | AExc e ->
       if fx.fx_throw_si_fresh
       then (((GError e), { c_label = RDone; c_running = s.c_running; c_yf =
              None }), [])
       else cy_send_ex start step coro agen s a closing)
  | _ -> cy_send_ex start step coro agen s a closing

(** val arg_of_sub_error : exc -> sendarg **)

let arg_of_sub_error e = match e with
| EStopIter v -> AVal v
| _ -> AExc e

(** val arg_at_yf : fixes -> exc -> sendarg **)

let arg_at_yf fx e =
  if fx.fx_si_at_yf then arg_of_sub_error e else AExc e

(** val unrun :
    ((gres * 'a1 cstate) * 'a1 log) -> (gres * 'a1 cstate) * 'a1 log **)

let unrun = function
| (p, l) -> let (r, s) = p in ((r, (c_set_running s false)), l)

(** val cy_amsend :
    'a1 -> ('a1 -> input -> 'a1 outcome) -> bool -> bool -> fixes -> 'a1
    cstate -> val0 -> (gres * 'a1 cstate) * 'a1 log **)

let cy_amsend start step coro agen fx s v =
  if s.c_running
  then (((GError (EValue Z0)), s), [])
  else let s1 = c_set_running s true in
       (match s1.c_yf with
        | Some it ->
          let (s0, it') = sub_send it v in
          (match s0 with
           | SYield y ->
             (((GNext y), { c_label = s1.c_label; c_running = false; c_yf =
               (Some it') }), [])
           | SErr e ->
             unrun
               (cy_send_ex start step coro agen (c_set_yf s1 None)
                 (arg_of_sub_error e) false))
        | None ->
          unrun (cy_send_ex_guard start step coro agen fx s1 (AVal v) false))

(** val result_of_gres : bool -> gres -> result **)

let result_of_gres agen = function
| GNext v -> RYield v
| GReturn v -> RRaise (if agen then eStopAsync else EStopIter v)
| GError e -> RRaise e

(** val cy_close_iter : subiter -> exc option * subiter **)

let cy_close_iter it =
  match si_close it with
  | Some p -> p
  | None -> (None, it)

(** val cy_close :
    'a1 -> ('a1 -> input -> 'a1 outcome) -> bool -> bool -> fixes -> 'a1
    cstate -> (gres * 'a1 cstate) * 'a1 log **)

let cy_close start step coro agen fx s =
  if s.c_running
  then (((GError (EValue Z0)), s), [])
  else let s1 = c_set_running s true in
       (match s1.c_yf with
        | Some it ->
          let (r, _) = cy_close_iter it in
          let s2 = c_set_yf s1 None in
          let a =
            match r with
            | Some e -> arg_at_yf fx e
            | None -> AExc EGenExit
          in
          let (p, l) = cy_send_ex start step coro agen s2 a true in
          let (r0, s3) = p in
          let s4 = c_set_running s3 false in
          (match r0 with
           | GNext _ -> (((GError (ERuntime (Zpos XH))), s4), l)
           | GReturn v ->
             if (||) (is_none v) fx.fx_close_ret
             then (((GReturn VNone), s4), l)
             else (((GError (ERuntime (Zpos XH))), s4), l)
           | GError e ->
             if (||) (is_genexit e) (is_stopiter e)
             then (((GReturn VNone), s4), l)
             else (((GError e), s4), l))
        | None ->
          let err = None in
          let a =
            match err with
            | Some e -> arg_at_yf fx e
            | None -> AExc EGenExit
          in
          let (p, l) = cy_send_ex start step coro agen s1 a true in
          let (r, s3) = p in
          let s4 = c_set_running s3 false in
          (match r with
           | GNext _ -> (((GError (ERuntime (Zpos XH))), s4), l)
           | GReturn v ->
             if (||) (is_none v) fx.fx_close_ret
             then (((GReturn VNone), s4), l)
             else (((GError (ERuntime (Zpos XH))), s4), l)
           | GError e ->
             if (||) (is_genexit e) (is_stopiter e)
             then (((GReturn VNone), s4), l)
             else (((GError e), s4), l)))

(** val cy_throw :
    'a1 -> ('a1 -> input -> 'a1 outcome) -> bool -> bool -> fixes -> bool ->
    'a1 cstate -> exc -> (gres * 'a1 cstate) * 'a1 log **)

let cy_throw start step coro agen fx close_on_genexit s e =
  if s.c_running
  then (((GError (EValue Z0)), s), [])
  else let s1 = c_set_running s true in
       (match s1.c_yf with
        | Some it ->
          if (&&) (is_genexit e) close_on_genexit
          then let (err, _) = cy_close_iter it in
               let s2 = c_set_yf s1 None in
               (match err with
                | Some e' ->
                  unrun
                    (cy_send_ex start step coro agen s2 (arg_at_yf fx e')
                      false)
                | None ->
                  unrun (cy_send_ex start step coro agen s2 (AExc e) false))
          else (match si_throw it with
                | Some f ->
                  let (s0, it') = f e in
                  (match s0 with
                   | SYield y ->
                     (((GNext y), { c_label = s1.c_label; c_running = false;
                       c_yf = (Some it') }), [])
                   | SErr e' ->
                     unrun
                       (cy_send_ex start step coro agen (c_set_yf s1 None)
                         (arg_of_sub_error e') false))
                | None ->
                  unrun
                    (cy_send_ex start step coro agen (c_set_yf s1 None)
                      (arg_at_yf fx e) false))
        | None ->
          unrun (cy_send_ex_guard start step coro agen fx s1 (AExc e) false))

(** val cy_del :
    'a1 -> ('a1 -> input -> 'a1 outcome) -> bool -> bool -> fixes -> 'a1
    cstate -> (result * 'a1 cstate) * 'a1 log **)

let cy_del start step coro agen fx s =
  match s.c_label with
  | RFresh ->
    if (||) coro ((&&) agen (negb fx.fx_ag_fresh_del))
    then ((RWarn, s), [])
    else ((RNone, s), [])
  | RAt _ ->
    let (p, l) = cy_close start step coro agen fx s in
    let (r, s') = p in
    (match r with
     | GError e -> (((RUnraisable e), s'), l)
     | _ -> ((RNone, s'), l))
  | RDone -> ((RNone, s), [])

(** val cy_op :
    'a1 -> ('a1 -> input -> 'a1 outcome) -> bool -> bool -> fixes -> 'a1
    cstate -> op -> (result * 'a1 cstate) * 'a1 log **)

let cy_op start step coro agen fx s = function
| Next ->
  let (p, l) = cy_amsend start step coro agen fx s VNone in
  let (r, s') = p in (((result_of_gres agen r), s'), l)
| Send v ->
  let (p, l) = cy_amsend start step coro agen fx s v in
  let (r, s') = p in (((result_of_gres agen r), s'), l)
| Throw e ->
  let (p, l) = cy_throw start step coro agen fx true s e in
  let (r, s') = p in (((result_of_gres agen r), s'), l)
| Close ->
  let (p, l) = cy_close start step coro agen fx s in
  let (r, s') = p in
  (((match r with
     | GError e -> RRaise e
     | _ -> RNone), s'), l)
| Del -> cy_del start step coro agen fx s
| ThrowNC e ->
  let (p, l) = cy_throw start step coro agen fx false s e in
  let (r, s') = p in (((result_of_gres agen r), s'), l)

(** val py_send_ex :
    'a1 -> ('a1 -> input -> 'a1 outcome) -> bool -> bool -> 'a1 pstate ->
    sendarg -> bool -> (gres * 'a1 pstate) * 'a1 log **)

let py_send_ex start step coro agen s a closing =
  match s with
  | PCreated ->
    (match a with
     | AVal v ->
       (match v with
        | VNone ->
          (match step start (ISend VNone) with
           | OYield (v0, k') ->
             (((GNext v0), (PSuspended (k', None))), ((start, (ISend
               VNone)) :: []))
           | ODelegate (v0, it, k') ->
             (((GNext v0), (PSuspended (k', (Some it)))), ((start, (ISend
               VNone)) :: []))
           | OReturn v0 ->
             (((GReturn v0), PCompleted), ((start, (ISend VNone)) :: []))
           | ORaise e ->
             (((GError (pep479 agen e)), PCompleted), ((start, (ISend
               VNone)) :: [])))
        | VInt _ -> (((GError (EType Z0)), s), []))
     | AExc e -> (((GError e), PCompleted), []))
  | PSuspended (k, _) ->
    let i = match a with
            | AVal v -> ISend v
            | AExc e -> IThrow e in
    (match step k i with
     | OYield (v, k') ->
       (((GNext v), (PSuspended (k', None))), ((k, i) :: []))
     | ODelegate (v, it, k') ->
       (((GNext v), (PSuspended (k', (Some it)))), ((k, i) :: []))
     | OReturn v -> (((GReturn v), PCompleted), ((k, i) :: []))
     | ORaise e -> (((GError (pep479 agen e)), PCompleted), ((k, i) :: [])))
  | PExecuting -> (((GError (EValue Z0)), s), [])
  | PCompleted ->
    if (&&) coro (negb closing)
    then (((GError (ERuntime (Zpos (XO XH)))), s), [])
    else (match a with
          | AVal _ -> (((GReturn VNone), s), [])
          | AExc e -> (((GError e), s), []))

(** val py_arg_at_yf : exc -> sendarg **)

let py_arg_at_yf e = match e with
| EStopIter v -> AVal v
| _ -> AExc e

(** val py_send :
    'a1 -> ('a1 -> input -> 'a1 outcome) -> bool -> bool -> 'a1 pstate ->
    val0 -> (gres * 'a1 pstate) * 'a1 log **)

let py_send start step coro agen s v =
  match s with
  | PSuspended (k, yf) ->
    (match yf with
     | Some it ->
       let (s0, it') = sub_send it v in
       (match s0 with
        | SYield y -> (((GNext y), (PSuspended (k, (Some it')))), [])
        | SErr e ->
          py_send_ex start step coro agen (PSuspended (k, None))
            (py_arg_at_yf e) false)
     | None -> py_send_ex start step coro agen s (AVal v) false)
  | _ -> py_send_ex start step coro agen s (AVal v) false

(** val py_close_iter : subiter -> exc option * subiter **)

let py_close_iter it =
  match si_close it with
  | Some p -> p
  | None -> (None, it)

(** val py_throw :
    'a1 -> ('a1 -> input -> 'a1 outcome) -> bool -> bool -> bool -> 'a1
    pstate -> exc -> (gres * 'a1 pstate) * 'a1 log **)

let py_throw start step coro agen close_on_genexit s e =
  match s with
  | PSuspended (k, yf) ->
    (match yf with
     | Some it ->
       if (&&) (is_genexit e) close_on_genexit
       then let (err, _) = py_close_iter it in
            (match err with
             | Some e' ->
               py_send_ex start step coro agen (PSuspended (k, None))
                 (py_arg_at_yf e') false
             | None ->
               py_send_ex start step coro agen (PSuspended (k, None)) (AExc
                 e) false)
       else (match si_throw it with
             | Some f ->
               let (s0, it') = f e in
               (match s0 with
                | SYield y -> (((GNext y), (PSuspended (k, (Some it')))), [])
                | SErr e' ->
                  py_send_ex start step coro agen (PSuspended (k, None))
                    (py_arg_at_yf e') false)
             | None ->
               py_send_ex start step coro agen (PSuspended (k, None))
                 (py_arg_at_yf e) false)
     | None -> py_send_ex start step coro agen s (AExc e) false)
  | _ -> py_send_ex start step coro agen s (AExc e) false

(** val py_close :
    'a1 -> ('a1 -> input -> 'a1 outcome) -> bool -> bool -> 'a1 pstate ->
    (gres * 'a1 pstate) * 'a1 log **)

let py_close start step coro agen s = match s with
| PCreated -> (((GReturn VNone), PCompleted), [])
| PSuspended (_, _) ->
  (match s with
   | PCreated ->
     let err = None in
     let a = match err with
             | Some e -> py_arg_at_yf e
             | None -> AExc EGenExit
     in
     let (p, l) = py_send_ex start step coro agen s a true in
     let (r, s2) = p in
     (match r with
      | GNext _ -> (((GError (ERuntime (Zpos XH))), s2), l)
      | GReturn _ -> (((GReturn VNone), s2), l)
      | GError e ->
        if (||) (is_genexit e) (is_stopiter e)
        then (((GReturn VNone), s2), l)
        else (((GError e), s2), l))
   | PSuspended (k, yf) ->
     (match yf with
      | Some it ->
        let (r, _) = py_close_iter it in
        let s1 = PSuspended (k, None) in
        let a = match r with
                | Some e -> py_arg_at_yf e
                | None -> AExc EGenExit
        in
        let (p, l) = py_send_ex start step coro agen s1 a true in
        let (r0, s2) = p in
        (match r0 with
         | GNext _ -> (((GError (ERuntime (Zpos XH))), s2), l)
         | GReturn _ -> (((GReturn VNone), s2), l)
         | GError e ->
           if (||) (is_genexit e) (is_stopiter e)
           then (((GReturn VNone), s2), l)
           else (((GError e), s2), l))
      | None ->
        let err = None in
        let a =
          match err with
          | Some e -> py_arg_at_yf e
          | None -> AExc EGenExit
        in
        let (p, l) = py_send_ex start step coro agen s a true in
        let (r, s2) = p in
        (match r with
         | GNext _ -> (((GError (ERuntime (Zpos XH))), s2), l)
         | GReturn _ -> (((GReturn VNone), s2), l)
         | GError e ->
           if (||) (is_genexit e) (is_stopiter e)
           then (((GReturn VNone), s2), l)
           else (((GError e), s2), l)))
   | _ ->
     let err = None in
     let a = match err with
             | Some e -> py_arg_at_yf e
             | None -> AExc EGenExit
     in
     let (p, l) = py_send_ex start step coro agen s a true in
     let (r, s2) = p in
     (match r with
      | GNext _ -> (((GError (ERuntime (Zpos XH))), s2), l)
      | GReturn _ -> (((GReturn VNone), s2), l)
      | GError e ->
        if (||) (is_genexit e) (is_stopiter e)
        then (((GReturn VNone), s2), l)
        else (((GError e), s2), l)))
| PExecuting ->
  (match s with
   | PCreated ->
     let err = None in
     let a = match err with
             | Some e -> py_arg_at_yf e
             | None -> AExc EGenExit
     in
     let (p, l) = py_send_ex start step coro agen s a true in
     let (r, s2) = p in
     (match r with
      | GNext _ -> (((GError (ERuntime (Zpos XH))), s2), l)
      | GReturn _ -> (((GReturn VNone), s2), l)
      | GError e ->
        if (||) (is_genexit e) (is_stopiter e)
        then (((GReturn VNone), s2), l)
        else (((GError e), s2), l))
   | PSuspended (k, yf) ->
     (match yf with
      | Some it ->
        let (r, _) = py_close_iter it in
        let s1 = PSuspended (k, None) in
        let a = match r with
                | Some e -> py_arg_at_yf e
                | None -> AExc EGenExit
        in
        let (p, l) = py_send_ex start step coro agen s1 a true in
        let (r0, s2) = p in
        (match r0 with
         | GNext _ -> (((GError (ERuntime (Zpos XH))), s2), l)
         | GReturn _ -> (((GReturn VNone), s2), l)
         | GError e ->
           if (||) (is_genexit e) (is_stopiter e)
           then (((GReturn VNone), s2), l)
           else (((GError e), s2), l))
      | None ->
        let err = None in
        let a =
          match err with
          | Some e -> py_arg_at_yf e
          | None -> AExc EGenExit
        in
        let (p, l) = py_send_ex start step coro agen s a true in
        let (r, s2) = p in
        (match r with
         | GNext _ -> (((GError (ERuntime (Zpos XH))), s2), l)
         | GReturn _ -> (((GReturn VNone), s2), l)
         | GError e ->
           if (||) (is_genexit e) (is_stopiter e)
           then (((GReturn VNone), s2), l)
           else (((GError e), s2), l)))
   | _ ->
     let err = None in
     let a = match err with
             | Some e -> py_arg_at_yf e
             | None -> AExc EGenExit
     in
     let (p, l) = py_send_ex start step coro agen s a true in
     let (r, s2) = p in
     (match r with
      | GNext _ -> (((GError (ERuntime (Zpos XH))), s2), l)
      | GReturn _ -> (((GReturn VNone), s2), l)
      | GError e ->
        if (||) (is_genexit e) (is_stopiter e)
        then (((GReturn VNone), s2), l)
        else (((GError e), s2), l)))
| PCompleted -> (((GReturn VNone), s), [])

(** val py_del :
    'a1 -> ('a1 -> input -> 'a1 outcome) -> bool -> bool -> 'a1 pstate ->
    (result * 'a1 pstate) * 'a1 log **)

let py_del start step coro agen s = match s with
| PCreated ->
  if coro
  then ((RWarn, s), [])
  else let (p, l) = py_close start step coro agen s in
       let (_, s') = p in ((RNone, s'), l)
| PCompleted -> ((RNone, s), [])
| _ ->
  let (p, l) = py_close start step coro agen s in
  let (r, s') = p in
  (match r with
   | GError e -> (((RUnraisable e), s'), l)
   | _ -> ((RNone, s'), l))

(** val py_op :
    'a1 -> ('a1 -> input -> 'a1 outcome) -> bool -> bool -> 'a1 pstate -> op
    -> (result * 'a1 pstate) * 'a1 log **)

let py_op start step coro agen s = function
| Next ->
  let (p, l) = py_send start step coro agen s VNone in
  let (r, s') = p in (((result_of_gres agen r), s'), l)
| Send v ->
  let (p, l) = py_send start step coro agen s v in
  let (r, s') = p in (((result_of_gres agen r), s'), l)
| Throw e ->
  let (p, l) = py_throw start step coro agen true s e in
  let (r, s') = p in (((result_of_gres agen r), s'), l)
| Close ->
  let (p, l) = py_close start step coro agen s in
  let (r, s') = p in
  (((match r with
     | GError e -> RRaise e
     | _ -> RNone), s'), l)
| Del -> py_del start step coro agen s
| ThrowNC e ->
  let (p, l) = py_throw start step coro agen false s e in
  let (r, s') = p in (((result_of_gres agen r), s'), l)

(** val c_init : 'a1 cstate **)

let c_init =
  { c_label = RFresh; c_running = false; c_yf = None }

(** val p_init : 'a1 pstate **)

let p_init =
  PCreated

(** val nONE_CODE : z **)

let nONE_CODE =
  Zneg (XO (XO (XO (XO (XO (XO (XI (XO (XO (XI (XO (XO (XO (XO (XI (XO (XI
    (XI (XI XH)))))))))))))))))))

(** val rECV_CODE : z **)

let rECV_CODE =
  Zneg (XO (XO (XO (XO (XO (XO (XO (XI (XO (XO (XI (XO (XO (XO (XO (XI (XO
    (XI (XI (XI XH))))))))))))))))))))

(** val fUEL_ID : z **)

let fUEL_ID =
  Zpos (XI (XI (XI (XI (XI (XI (XO (XO (XO (XI (XO (XO (XO (XO (XI (XO (XI
    (XI (XI XH)))))))))))))))))))

type row = { r_label : z; r_cls : z; r_tag : z; r_a : z; r_b : z }

type subspec = { sp_kind : z; sp_k0 : z; sp_caps : z; sp_vals : z list }

type table = { t_rows : row list; t_subs : subspec list }

(** val exc_cls : exc -> z **)

let exc_cls = function
| EStopIter _ -> Zpos (XI XH)
| EGenExit -> Zpos (XO XH)
| ERuntime _ -> Zpos (XO (XO XH))
| EType _ -> Zpos (XI (XO XH))
| EValue _ -> Zpos (XO (XI XH))
| EAttr -> Zpos (XI (XI XH))
| EUser id -> Z.add (Zpos (XO (XI (XO XH)))) id

(** val in_cls : input -> z **)

let in_cls = function
| ISend v -> (match v with
              | VNone -> Z0
              | VInt _ -> Zpos XH)
| IThrow e -> exc_cls e

(** val val_of_code : z -> val0 **)

let val_of_code a =
  if Z.eqb a nONE_CODE then VNone else VInt a

(** val val_of_spec : z -> input -> val0 **)

let val_of_spec a i =
  if Z.eqb a rECV_CODE
  then (match i with
        | ISend v -> v
        | IThrow _ -> VNone)
  else val_of_code a

(** val exc_of_spec : z -> z -> input -> exc **)

let exc_of_spec a b i =
  if Z.eqb a (Zneg (XO XH))
  then (match i with
        | ISend _ -> EUser (Zpos (XI (XO (XO XH))))
        | IThrow e -> e)
  else if Z.eqb a (Zpos (XO XH))
       then EGenExit
       else if Z.eqb a (Zpos (XI XH))
            then EStopIter (val_of_code b)
            else EUser (Z.sub a (Zpos (XO (XI (XO XH)))))

(** val find_row : row list -> z -> z -> row option **)

let rec find_row rows k c =
  match rows with
  | [] -> None
  | r :: t ->
    if (&&) (Z.eqb r.r_label k) (Z.eqb r.r_cls c)
    then Some r
    else find_row t k c

(** val lookup : table -> z -> z -> row option **)

let lookup tbl k c =
  match find_row tbl.t_rows k c with
  | Some r -> Some r
  | None -> find_row tbl.t_rows k (Zneg XH)

(** val list_sub : val0 list -> subiter **)

let rec list_sub l =
  lazy (SubIter ((match l with
                  | [] -> ((SErr (EStopIter VNone)), (list_sub []))
                  | v :: t -> ((SYield v), (list_sub t))), None, None, None))

(** val fuel_sub : subiter **)

let rec fuel_sub =
  lazy (SubIter (((SErr (EUser fUEL_ID)), fuel_sub), None, None, None))

(** val sres_of_result : result -> sres **)

let sres_of_result = function
| RYield v -> SYield v
| RRaise e -> SErr e
| _ -> SErr (EUser fUEL_ID)

(** val close_of_result : result -> exc option **)

let close_of_result = function
| RRaise e -> Some e
| _ -> None

(** val cy_gen_sub :
    z -> (z -> input -> z outcome) -> bool -> fixes -> z cstate -> subiter **)

let rec cy_gen_sub start step coro fx s =
  lazy (SubIter ((let x = cy_op start step coro false fx s Next in
                  ((sres_of_result (fst (fst x))),
                  (cy_gen_sub start step coro fx (snd (fst x))))), (Some
    (fun v ->
    let x = cy_op start step coro false fx s (Send v) in
    ((sres_of_result (fst (fst x))),
    (cy_gen_sub start step coro fx (snd (fst x)))))), (Some (fun e ->
    let x = cy_op start step coro false fx s (Throw e) in
    ((sres_of_result (fst (fst x))),
    (cy_gen_sub start step coro fx (snd (fst x)))))), (Some
    (let x = cy_op start step coro false fx s Close in
     ((close_of_result (fst (fst x))),
     (cy_gen_sub start step coro fx (snd (fst x))))))))

(** val py_gen_sub :
    z -> (z -> input -> z outcome) -> bool -> z pstate -> subiter **)

let rec py_gen_sub start step coro s =
  lazy (SubIter ((let x = py_op start step coro false s Next in
                  ((sres_of_result (fst (fst x))),
                  (py_gen_sub start step coro (snd (fst x))))), (Some
    (fun v ->
    let x = py_op start step coro false s (Send v) in
    ((sres_of_result (fst (fst x))),
    (py_gen_sub start step coro (snd (fst x)))))), (Some (fun e ->
    let x = py_op start step coro false s (Throw e) in
    ((sres_of_result (fst (fst x))),
    (py_gen_sub start step coro (snd (fst x)))))), (Some
    (let x = py_op start step coro false s Close in
     ((close_of_result (fst (fst x))),
     (py_gen_sub start step coro (snd (fst x))))))))

(** val dEAD : z **)

let dEAD =
  Zneg XH

(** val scr_resp : table -> z -> input -> sres * z **)

let scr_resp tbl k i =
  match lookup tbl k (in_cls i) with
  | Some r ->
    if Z.eqb r.r_tag Z0
    then ((SYield (val_of_spec r.r_a i)), r.r_b)
    else if Z.eqb r.r_tag (Zpos (XO XH))
         then ((SErr (EStopIter (val_of_spec r.r_a i))), dEAD)
         else if Z.eqb r.r_tag (Zpos (XI XH))
              then ((SErr (exc_of_spec r.r_a r.r_b i)), k)
              else ((SErr (EStopIter VNone)), dEAD)
  | None ->
    (match i with
     | ISend _ -> ((SErr (EStopIter VNone)), dEAD)
     | IThrow e -> ((SErr e), k))

(** val scr_close : table -> z -> exc option * z **)

let scr_close tbl k =
  match lookup tbl k (Zpos (XO (XO (XI (XO XH))))) with
  | Some r ->
    if Z.eqb r.r_tag Z0
    then (None, r.r_b)
    else if Z.eqb r.r_tag (Zpos (XI XH))
         then ((Some (exc_of_spec r.r_a r.r_b (ISend VNone))), k)
         else (None, dEAD)
  | None -> (None, k)

(** val scr_sub : table -> z -> z -> subiter **)

let rec scr_sub tbl caps k =
  lazy (SubIter ((let x = scr_resp tbl k (ISend VNone) in
                  ((fst x), (scr_sub tbl caps (snd x)))),
    (if Z.testbit caps Z0
     then Some (fun v ->
            let x = scr_resp tbl k (ISend v) in
            ((fst x), (scr_sub tbl caps (snd x))))
     else None),
    (if Z.testbit caps (Zpos XH)
     then Some (fun e ->
            let x = scr_resp tbl k (IThrow e) in
            ((fst x), (scr_sub tbl caps (snd x))))
     else None),
    (if Z.testbit caps (Zpos (XO XH))
     then Some
            (let x = scr_close tbl k in ((fst x), (scr_sub tbl caps (snd x))))
     else None)))

(** val mk_sub :
    table -> bool -> fixes -> bool -> (z -> input -> z outcome) option -> z
    -> subiter **)

let mk_sub tbl coro fx impl_py inner id =
  match nth_error tbl.t_subs (Z.to_nat id) with
  | Some sp ->
    if Z.eqb sp.sp_kind Z0
    then list_sub (map val_of_code sp.sp_vals)
    else if Z.eqb sp.sp_kind (Zpos (XI XH))
         then scr_sub tbl sp.sp_caps sp.sp_k0
         else (match inner with
               | Some st ->
                 if (||) (Z.eqb sp.sp_kind (Zpos (XO XH))) impl_py
                 then py_gen_sub sp.sp_k0 st coro p_init
                 else cy_gen_sub sp.sp_k0 st coro fx c_init
               | None -> fuel_sub)
  | None -> fuel_sub

(** val tstep_fuel :
    table -> bool -> fixes -> bool -> (z -> input -> z outcome) option -> nat
    -> z -> input -> z outcome **)

let rec tstep_fuel tbl coro fx impl_py inner fuel k i =
  match lookup tbl k (in_cls i) with
  | Some r ->
    if Z.eqb r.r_tag Z0
    then OYield ((val_of_spec r.r_a i), r.r_b)
    else if Z.eqb r.r_tag (Zpos (XO XH))
         then OReturn (val_of_spec r.r_a i)
         else if Z.eqb r.r_tag (Zpos (XI XH))
              then ORaise (exc_of_spec r.r_a r.r_b i)
              else (match fuel with
                    | O -> ORaise (EUser fUEL_ID)
                    | S fuel' ->
                      let (s, it') =
                        si_next (mk_sub tbl coro fx impl_py inner r.r_a)
                      in
                      (match s with
                       | SYield y -> ODelegate (y, it', r.r_b)
                       | SErr e ->
                         (match e with
                          | EStopIter v ->
                            tstep_fuel tbl coro fx impl_py inner fuel' r.r_b
                              (ISend v)
                          | _ ->
                            tstep_fuel tbl coro fx impl_py inner fuel' r.r_b
                              (IThrow e))))
  | None -> (match i with
             | ISend _ -> OReturn VNone
             | IThrow e -> ORaise e)

(** val tstep :
    table -> bool -> fixes -> bool -> nat -> z -> input -> z outcome **)

let rec tstep tbl coro fx impl_py d =
  tstep_fuel tbl coro fx impl_py
    (match d with
     | O -> None
     | S d' -> Some (tstep tbl coro fx impl_py d')) (S (S (S (S (S (S (S (S
    (S (S (S (S (S (S (S (S (S (S (S (S (S (S (S (S (S (S (S (S (S (S (S (S
    (S (S (S (S (S (S (S (S (S (S (S (S (S (S (S (S (S (S (S (S (S (S (S (S
    (S (S (S (S (S (S (S (S
    O))))))))))))))))))))))))))))))))))))))))))))))))))))))))))))))))

type akind =
| KSend of val0
| KThrow of exc
| KClose

type astate =
| AInit
| AIter
| AClosed

type awt = { aw_kind : akind; aw_state : astate }

type astep =
| StSend of val0
| StThrow of exc
| StClose

type aop =
| ANew of nat * akind
| AStep of nat * astep
| ADrive of nat
| ADel

type ares =
| AR of result
| ANewOk
| ASkip
| AMore

type avar = { av_t313 : bool; av_pad : bool; av_closed_first : bool;
              av_nullexc : bool }

(** val av_cy : avar **)

let av_cy =
  { av_t313 = true; av_pad = true; av_closed_first = true; av_nullexc = true }

(** val av_py : avar **)

let av_py =
  { av_t313 = false; av_pad = false; av_closed_first = true; av_nullexc =
    false }

(** val m_REUSE_SEND : z **)

let m_REUSE_SEND =
  Zpos (XO (XI (XO XH)))

(** val m_REUSE_CLOSE : z **)

let m_REUSE_CLOSE =
  Zpos (XI (XI (XO XH)))

(** val m_RUN_ANEXT : z **)

let m_RUN_ANEXT =
  Zpos (XO (XO (XI XH)))

(** val m_RUN_ACLOSE : z **)

let m_RUN_ACLOSE =
  Zpos (XI (XO (XI XH)))

(** val m_RUN_ATHROW : z **)

let m_RUN_ATHROW =
  Zpos (XO (XI (XI XH)))

(** val m_NON_INIT : z **)

let m_NON_INIT =
  Zpos (XI (XI (XI XH)))

(** val m_RUN_ANEXT_PAD : z **)

let m_RUN_ANEXT_PAD =
  Zpos (XO (XO (XO (XO (XI (XI XH))))))

(** val m_IGNORED : z **)

let m_IGNORED =
  Zpos XH

(** val m_CRASH : z **)

let m_CRASH =
  Zpos (XO (XI (XO (XI (XI (XO (XO (XI (XO XH)))))))))

(** val is_crash : result -> bool **)

let is_crash = function
| RRaise e -> (match e with
               | ERuntime m -> Z.eqb m m_CRASH
               | _ -> false)
| _ -> false

(** val dRIVE_MAX : nat **)

let dRIVE_MAX =
  S (S (S (S (S (S (S (S O)))))))

(** val eV_FIRSTITER : z **)

let eV_FIRSTITER =
  Zpos XH

(** val eV_FINALIZER : z **)

let eV_FINALIZER =
  Zpos (XO XH)

type 'l glog = ('l * input) list

type 'g ag = { ag_gen : 'g; ag_closed : bool; ag_running_async : bool;
               ag_hooks_inited : bool; ag_finalizer : bool }

(** val set_gen : 'a1 ag -> 'a1 -> 'a1 ag **)

let set_gen a g =
  { ag_gen = g; ag_closed = a.ag_closed; ag_running_async =
    a.ag_running_async; ag_hooks_inited = a.ag_hooks_inited; ag_finalizer =
    a.ag_finalizer }

(** val set_closed : 'a1 ag -> bool -> 'a1 ag **)

let set_closed a b =
  { ag_gen = a.ag_gen; ag_closed = b; ag_running_async = a.ag_running_async;
    ag_hooks_inited = a.ag_hooks_inited; ag_finalizer = a.ag_finalizer }

(** val set_running : 'a1 ag -> bool -> 'a1 ag **)

let set_running a b =
  { ag_gen = a.ag_gen; ag_closed = a.ag_closed; ag_running_async = b;
    ag_hooks_inited = a.ag_hooks_inited; ag_finalizer = a.ag_finalizer }

(** val is_init : astate -> bool **)

let is_init = function
| AInit -> true
| _ -> false

(** val is_aclosed : astate -> bool **)

let is_aclosed = function
| AClosed -> true
| _ -> false

(** val is_raise : result -> bool **)

let is_raise = function
| RRaise _ -> true
| _ -> false

(** val closes : exc -> bool **)

let closes e =
  (||) (is_stopasync e) (is_genexit e)

(** val ag_unwrap :
    ('a1 -> bool) -> ((result * 'a1) * 'a2 glog) -> 'a1 ag -> (result * 'a1
    ag) * 'a2 glog **)

let ag_unwrap gwrapped x a =
  let (p, l) = x in
  let (r, g') = p in
  let a1 = set_gen a g' in
  (match r with
   | RYield v ->
     if gwrapped g'
     then (((RRaise (EStopIter v)), (set_running a1 false)), l)
     else (((RYield v), a1), l)
   | RRaise e ->
     (((RRaise e),
       (set_running (set_closed a1 ((||) a1.ag_closed (closes e))) false)), l)
   | _ -> ((r, a1), l))

(** val run_msg : avar -> akind -> z **)

let run_msg av = function
| KSend _ -> if av.av_pad then m_RUN_ANEXT_PAD else m_RUN_ANEXT
| KThrow _ -> m_RUN_ATHROW
| KClose -> m_RUN_ACLOSE

(** val asend_send :
    ('a1 -> op -> (result * 'a1) * ('a2 * input) list) -> ('a1 -> bool) ->
    avar -> 'a1 ag -> akind -> astate -> val0 -> val0 -> ((result * 'a1
    ag) * astate) * 'a2 glog **)

let asend_send gop gwrapped av a k st sendval arg =
  if is_aclosed st
  then ((((RRaise (ERuntime m_REUSE_SEND)), a), st), [])
  else if (&&) (is_init st) a.ag_running_async
       then ((((RRaise (ERuntime (run_msg av k))), a),
              (if av.av_t313 then AClosed else st)), [])
       else let arg' =
              if (&&) (is_init st) (is_none arg) then sendval else arg
            in
            let (p, l) =
              ag_unwrap gwrapped (gop a.ag_gen (Send arg'))
                (set_running a true)
            in
            let (r, a') = p in
            (((r, a'), (if is_raise r then AClosed else AIter)), l)

(** val asend_throw :
    ('a1 -> op -> (result * 'a1) * ('a2 * input) list) -> ('a1 -> bool) ->
    avar -> 'a1 ag -> akind -> astate -> exc -> ((result * 'a1
    ag) * astate) * 'a2 glog **)

let asend_throw gop gwrapped av a k st e =
  if is_aclosed st
  then ((((RRaise (ERuntime m_REUSE_SEND)), a), st), [])
  else if (&&) ((&&) av.av_t313 (is_init st)) a.ag_running_async
       then ((((RRaise (ERuntime (run_msg av k))), a), AClosed), [])
       else let a0 =
              if (&&) av.av_t313 (is_init st) then set_running a true else a
            in
            let st0 = if av.av_t313 then AIter else st in
            let (p, l) = ag_unwrap gwrapped (gop a0.ag_gen (Throw e)) a0 in
            let (r, a') = p in
            (((r, a'), (if is_raise r then AClosed else st0)), l)

(** val close_result : result -> result **)

let close_result r =
  if is_crash r
  then r
  else (match r with
        | RYield _ -> RRaise (ERuntime m_IGNORED)
        | RRaise e ->
          if (||) ((||) (is_stopiter e) (is_genexit e)) (is_stopasync e)
          then RNone
          else RRaise e
        | _ -> r)

(** val asend_close :
    ('a1 -> op -> (result * 'a1) * ('a2 * input) list) -> ('a1 -> bool) ->
    avar -> 'a1 ag -> akind -> astate -> ((result * 'a1 ag) * astate) * 'a2
    glog **)

let asend_close gop gwrapped av a k st =
  if av.av_t313
  then if is_aclosed st
       then (((RNone, a), st), [])
       else let (p, l) = asend_throw gop gwrapped av a k st EGenExit in
            let (p0, st') = p in
            let (r, a') = p0 in ((((close_result r), a'), st'), l)
  else (((RNone, a), AClosed), [])

(** val is_kclose : akind -> bool **)

let is_kclose = function
| KClose -> true
| _ -> false

(** val check_error : akind -> exc -> exc **)

let check_error k e =
  if (&&) (closes e) (is_kclose k) then EStopIter VNone else e

(** val athrow_send :
    ('a1 -> op -> (result * 'a1) * ('a2 * input) list) -> ('a1 -> bool) ->
    ('a1 -> bool) -> avar -> 'a1 ag -> akind -> astate -> val0 ->
    ((result * 'a1 ag) * astate) * 'a2 glog **)

let athrow_send gop gdone gwrapped av a k st arg =
  if is_aclosed st
  then ((((RRaise (ERuntime m_REUSE_CLOSE)), a), st), [])
  else if gdone a.ag_gen
       then ((((RRaise (EStopIter VNone)), a), AClosed), [])
       else if is_init st
            then if a.ag_running_async
                 then ((((RRaise (ERuntime (run_msg av k))), a), AClosed), [])
                 else if a.ag_closed
                      then ((((RRaise eStopAsync), a), AClosed), [])
                      else if negb (is_none arg)
                           then ((((RRaise (ERuntime m_NON_INIT)), a), st),
                                  [])
                           else let a1 = set_running a true in
                                (match k with
                                 | KThrow e ->
                                   let (p, l) =
                                     ag_unwrap gwrapped
                                       (gop a1.ag_gen (ThrowNC e)) a1
                                   in
                                   let (r, a') = p in
                                   (match r with
                                    | RRaise e' ->
                                      ((((RRaise (check_error k e')),
                                        (set_running a' false)), AClosed), l)
                                    | _ -> (((r, a'), AIter), l))
                                 | _ ->
                                   let a2 =
                                     if av.av_closed_first
                                     then set_closed a1 true
                                     else a1
                                   in
                                   let (p, l) =
                                     gop a2.ag_gen (ThrowNC EGenExit)
                                   in
                                   let (r, g') = p in
                                   let a3 = set_gen a2 g' in
                                   (match r with
                                    | RYield v ->
                                      if gwrapped g'
                                      then ((((RRaise (ERuntime m_IGNORED)),
                                             (set_running a3 false)),
                                             AClosed), l)
                                      else ((((RYield v),
                                             (set_closed a3 true)), AIter), l)
                                    | RRaise e' ->
                                      ((((RRaise (check_error k e')),
                                        (set_running (set_closed a3 true)
                                          false)), AClosed), l)
                                    | _ -> (((r, a3), AIter), l)))
            else let (p, l) = gop a.ag_gen (Send arg) in
                 let (r, g') = p in
                 if is_kclose k
                 then let a1 = set_gen a g' in
                      (match r with
                       | RYield v ->
                         if gwrapped g'
                         then ((((RRaise (ERuntime m_IGNORED)),
                                (set_running a1 false)), AClosed), l)
                         else ((((RYield v), a1), st), l)
                       | RRaise e' ->
                         ((((RRaise (check_error k e')),
                           (set_running a1 false)), AClosed), l)
                       | _ -> (((r, a1), st), l))
                 else let (p0, l') = ag_unwrap gwrapped ((r, g'), l) a in
                      ((p0, st), l')

(** val athrow_throw :
    ('a1 -> op -> (result * 'a1) * ('a2 * input) list) -> ('a1 -> bool) ->
    avar -> 'a1 ag -> akind -> astate -> exc -> ((result * 'a1
    ag) * astate) * 'a2 glog **)

let athrow_throw gop gwrapped av a k st e =
  if is_aclosed st
  then ((((RRaise (ERuntime m_REUSE_CLOSE)), a), st), [])
  else if (&&) ((&&) av.av_t313 (is_init st)) a.ag_running_async
       then ((((RRaise (ERuntime (run_msg av k))), a), AClosed), [])
       else let a0 =
              if (&&) av.av_t313 (is_init st) then set_running a true else a
            in
            let st0 = if (&&) av.av_t313 (is_init st) then AIter else st in
            let (p, l) = gop a0.ag_gen (Throw e) in
            let (r, g') = p in
            if is_kclose k
            then let a1 = set_gen a0 g' in
                 (match r with
                  | RYield v ->
                    if gwrapped g'
                    then ((((RRaise (ERuntime m_IGNORED)),
                           (set_running a1 false)), AClosed), l)
                    else if av.av_nullexc
                         then ((((RRaise (ERuntime m_CRASH)), a1), st0), l)
                         else ((((RYield v), a1), st0), l)
                  | RRaise e' ->
                    let e'' = if closes e' then EStopIter VNone else e' in
                    if av.av_t313
                    then ((((RRaise e''), (set_running a1 false)), AClosed),
                           l)
                    else ((((RRaise e''), a1), st0), l)
                  | _ -> (((r, a1), st0), l))
            else let (p0, l') = ag_unwrap gwrapped ((r, g'), l) a0 in
                 let (r', a') = p0 in
                 if (&&) (is_raise r') av.av_t313
                 then (((r', (set_running a' false)), AClosed), l')
                 else (((r', a'), st0), l')

(** val athrow_close :
    ('a1 -> op -> (result * 'a1) * ('a2 * input) list) -> ('a1 -> bool) ->
    avar -> 'a1 ag -> akind -> astate -> ((result * 'a1 ag) * astate) * 'a2
    glog **)

let athrow_close gop gwrapped av a k st =
  if av.av_t313
  then if is_aclosed st
       then (((RNone, a), st), [])
       else let (p, l) = athrow_throw gop gwrapped av a k st EGenExit in
            let (p0, st') = p in
            let (r, a') = p0 in ((((close_result r), a'), st'), l)
  else (((RNone, a), AClosed), [])

(** val aw_step :
    ('a1 -> op -> (result * 'a1) * ('a2 * input) list) -> ('a1 -> bool) ->
    ('a1 -> bool) -> avar -> 'a1 ag -> awt -> astep -> ((result * 'a1
    ag) * awt) * 'a2 glog **)

let aw_step gop gdone gwrapped av a w s =
  let k = w.aw_kind in
  let st = w.aw_state in
  let (p, l) =
    match k with
    | KSend sv ->
      (match s with
       | StSend v -> asend_send gop gwrapped av a k st sv v
       | StThrow e -> asend_throw gop gwrapped av a k st e
       | StClose -> asend_close gop gwrapped av a k st)
    | _ ->
      (match s with
       | StSend v -> athrow_send gop gdone gwrapped av a k st v
       | StThrow e -> athrow_throw gop gwrapped av a k st e
       | StClose -> athrow_close gop gwrapped av a k st)
  in
  let (p0, st') = p in ((p0, { aw_kind = k; aw_state = st' }), l)

type 'g world = { w_ag : 'g ag; w_slots : awt option list }

(** val set_nth : nat -> 'a1 -> 'a1 list -> 'a1 list **)

let rec set_nth n0 x l =
  match n0 with
  | O -> (match l with
          | [] -> []
          | _ :: t -> x :: t)
  | S n' -> (match l with
             | [] -> []
             | h :: t -> h :: (set_nth n' x t))

(** val get_slot : 'a1 world -> nat -> awt option **)

let get_slot w j =
  match nth_error w.w_slots j with
  | Some o -> o
  | None -> None

(** val ag_new : bool -> 'a1 ag -> 'a1 ag * z list **)

let ag_new hooks a =
  if a.ag_hooks_inited
  then (a, [])
  else ({ ag_gen = a.ag_gen; ag_closed = a.ag_closed; ag_running_async =
         a.ag_running_async; ag_hooks_inited = true; ag_finalizer = hooks },
         (if hooks then eV_FIRSTITER :: [] else []))

(** val ag_del :
    ('a1 -> op -> (result * 'a1) * ('a2 * input) list) -> ('a1 -> bool) ->
    'a1 ag -> ((result * 'a1 ag) * 'a2 glog) * z list **)

let ag_del gop gdone a =
  if gdone a.ag_gen
  then (((RNone, a), []), [])
  else if (&&) a.ag_finalizer (negb a.ag_closed)
       then (((RNone, a), []), (eV_FINALIZER :: []))
       else let (p, l) = gop a.ag_gen Del in
            let (r, g') = p in (((r, (set_gen a g')), l), [])

(** val drive :
    ('a1 -> op -> (result * 'a1) * ('a2 * input) list) -> ('a1 -> bool) ->
    ('a1 -> bool) -> avar -> nat -> 'a1 ag -> awt -> (((val0
    list * ares) * 'a1 ag) * awt) * 'a2 glog **)

let rec drive gop gdone gwrapped av fuel a w =
  match fuel with
  | O -> (((([], AMore), a), w), [])
  | S f ->
    let (p, l) = aw_step gop gdone gwrapped av a w (StSend VNone) in
    let (p0, w') = p in
    let (r, a') = p0 in
    (match r with
     | RYield v ->
       let (p1, l2) = drive gop gdone gwrapped av f a' w' in
       let (p2, w2) = p1 in
       let (p3, a2) = p2 in
       let (vs, r2) = p3 in (((((v :: vs), r2), a2), w2), (app l l2))
     | _ -> (((([], (AR r)), a'), w'), l))

type 'l obs = { o_res : ares; o_running : bool; o_log : 'l glog;
                o_susp : val0 list; o_ev : z list }

(** val world_op :
    ('a1 -> op -> (result * 'a1) * ('a2 * input) list) -> ('a1 -> bool) ->
    ('a1 -> bool) -> avar -> bool -> 'a1 world -> aop -> 'a2 obs * 'a1 world **)

let world_op gop gdone gwrapped av hooks w o =
  let a = w.w_ag in
  (match o with
   | ANew (j, k) ->
     let (a', ev) = ag_new hooks a in
     ({ o_res = ANewOk; o_running = a'.ag_running_async; o_log = []; o_susp =
     []; o_ev = ev }, { w_ag = a'; w_slots =
     (set_nth j (Some { aw_kind = k; aw_state = AInit }) w.w_slots) })
   | AStep (j, s) ->
     (match get_slot w j with
      | Some x ->
        let (p, l) = aw_step gop gdone gwrapped av a x s in
        let (p0, x') = p in
        let (r, a') = p0 in
        ({ o_res = (AR r); o_running = a'.ag_running_async; o_log = l;
        o_susp = []; o_ev = [] }, { w_ag = a'; w_slots =
        (set_nth j (Some x') w.w_slots) })
      | None ->
        ({ o_res = ASkip; o_running = a.ag_running_async; o_log = [];
          o_susp = []; o_ev = [] }, w))
   | ADrive j ->
     (match get_slot w j with
      | Some x ->
        let (p, l) = drive gop gdone gwrapped av dRIVE_MAX a x in
        let (p0, x') = p in
        let (p1, a') = p0 in
        let (vs, r) = p1 in
        ({ o_res = r; o_running = a'.ag_running_async; o_log = l; o_susp =
        vs; o_ev = [] }, { w_ag = a'; w_slots =
        (set_nth j (Some x') w.w_slots) })
      | None ->
        ({ o_res = ASkip; o_running = a.ag_running_async; o_log = [];
          o_susp = []; o_ev = [] }, w))
   | ADel ->
     let (p, ev) = ag_del gop gdone a in
     let (p0, l) = p in
     let (r, a') = p0 in
     ({ o_res = (AR r); o_running = a'.ag_running_async; o_log = l; o_susp =
     []; o_ev = ev }, { w_ag = a'; w_slots = [] }))

(** val run_world :
    ('a1 -> op -> (result * 'a1) * ('a2 * input) list) -> ('a1 -> bool) ->
    ('a1 -> bool) -> avar -> bool -> 'a1 world -> aop list -> 'a2 obs list **)

let rec run_world gop gdone gwrapped av hooks w = function
| [] -> []
| o :: h' ->
  (match o with
   | ADel -> (fst (world_op gop gdone gwrapped av hooks w ADel)) :: []
   | _ ->
     let (x, w') = world_op gop gdone gwrapped av hooks w o in
     if match x.o_res with
        | AR r -> is_crash r
        | _ -> false
     then x :: []
     else x :: (run_world gop gdone gwrapped av hooks w' h'))

(** val world_init : 'a1 -> 'a1 world **)

let world_init g =
  { w_ag = { ag_gen = g; ag_closed = false; ag_running_async = false;
    ag_hooks_inited = false; ag_finalizer = false }; w_slots =
    (None :: (None :: (None :: []))) }

(** val c_done : 'a1 cstate -> bool **)

let c_done s =
  match s.c_label with
  | RDone -> true
  | _ -> false

(** val c_wrapped : 'a1 cstate -> bool **)

let c_wrapped s =
  match s.c_yf with
  | Some _ -> false
  | None -> true

(** val p_done : 'a1 pstate -> bool **)

let p_done = function
| PCompleted -> true
| _ -> false

(** val p_wrapped : 'a1 pstate -> bool **)

let p_wrapped = function
| PSuspended (_, yf) -> (match yf with
                         | Some _ -> false
                         | None -> true)
| _ -> true

(** val run_cy_ag :
    'a1 -> ('a1 -> input -> 'a1 outcome) -> fixes -> avar -> bool -> 'a1
    cstate world -> aop list -> 'a1 obs list **)

let run_cy_ag start step fx av hooks =
  run_world (cy_op start step false true fx) c_done c_wrapped av hooks

(** val run_py_ag :
    'a1 -> ('a1 -> input -> 'a1 outcome) -> avar -> bool -> 'a1 pstate world
    -> aop list -> 'a1 obs list **)

let run_py_ag start step av hooks =
  run_world (py_op start step false true) p_done p_wrapped av hooks

(** val run_atable_cy :
    table -> fixes -> avar -> bool -> nat -> z -> aop list -> z obs list **)

let run_atable_cy tbl fx av hooks d k0 h =
  run_cy_ag k0 (tstep tbl true fx false d) fx av hooks (world_init c_init) h

(** val run_atable_py :
    table -> avar -> bool -> nat -> z -> aop list -> z obs list **)

let run_atable_py tbl av hooks d k0 h =
  run_py_ag k0 (tstep tbl true fx_all true d) av hooks (world_init p_init) h
