
val negb : bool -> bool

type nat =
| O
| S of nat

type comparison =
| Eq
| Lt
| Gt

val compOpp : comparison -> comparison

val add : nat -> nat -> nat

type positive =
| XI of positive
| XO of positive
| XH

type n =
| N0
| Npos of positive

type z =
| Z0
| Zpos of positive
| Zneg of positive

module Pos :
 sig
  val succ : positive -> positive

  val add : positive -> positive -> positive

  val add_carry : positive -> positive -> positive

  val pred_double : positive -> positive

  val pred_N : positive -> n

  val mul : positive -> positive -> positive

  val iter : ('a1 -> 'a1) -> 'a1 -> positive -> 'a1

  val div2 : positive -> positive

  val div2_up : positive -> positive

  val compare_cont : comparison -> positive -> positive -> comparison

  val compare : positive -> positive -> comparison

  val eqb : positive -> positive -> bool

  val coq_Nsucc_double : n -> n

  val coq_Ndouble : n -> n

  val coq_lor : positive -> positive -> positive

  val coq_land : positive -> positive -> n

  val ldiff : positive -> positive -> n

  val iter_op : ('a1 -> 'a1 -> 'a1) -> positive -> 'a1 -> 'a1

  val to_nat : positive -> nat
 end

module N :
 sig
  val succ_pos : n -> positive

  val coq_lor : n -> n -> n

  val coq_land : n -> n -> n

  val ldiff : n -> n -> n
 end

module Z :
 sig
  val double : z -> z

  val succ_double : z -> z

  val pred_double : z -> z

  val pos_sub : positive -> positive -> z

  val add : z -> z -> z

  val opp : z -> z

  val pred : z -> z

  val sub : z -> z -> z

  val mul : z -> z -> z

  val pow_pos : z -> positive -> z

  val pow : z -> z -> z

  val compare : z -> z -> comparison

  val leb : z -> z -> bool

  val ltb : z -> z -> bool

  val eqb : z -> z -> bool

  val to_nat : z -> nat

  val of_N : n -> z

  val pos_div_eucl : positive -> z -> z * z

  val div_eucl : z -> z -> z * z

  val modulo : z -> z -> z

  val odd : z -> bool

  val div2 : z -> z

  val shiftl : z -> z -> z

  val shiftr : z -> z -> z

  val coq_lor : z -> z -> z

  val coq_land : z -> z -> z

  val lnot : z -> z
 end

val ex_keep : (((((nat * n) * z) * z list) * z option) * positive) * bool

val min_int : z -> bool -> z

val max_int : z -> bool -> z

val in_rangeb : z -> bool -> z -> bool

val wrap : z -> bool -> z -> z

val pow_factor : z -> bool -> z -> z -> z

val pow_loop : nat -> z -> bool -> z -> z -> z -> z option

val int_pow : z -> bool -> z -> z -> z option

type pow2_path =
| P2One
| P2Long of z
| P2ULL of z
| P2Lshift of z
| P2Fallback

val pow2 : z -> pow2_path

val pow2_value : z -> z option

type pres =
| PVal of z
| PUB
| PFuel

val mulc : z -> bool -> z -> z -> z option

val pow_loop_ck : bool -> nat -> z -> bool -> z -> z -> z -> pres

val int_pow_ck : bool -> z -> bool -> z -> z -> pres

type atype =
| AInt
| AUInt
| AFloat

type bkind =
| BNegIntConst
| BNonNegIntConst
| BRuntimeSignedInt
| BRuntimeUnsignedInt
| BIntegralFloatConst
| BFloatConst
| BRuntimeFloat

type rtype =
| RInt
| RFloat
| RSoftComplex
| ROther
| RComplex
| RObj

val a_is_int : atype -> bool

val b_is_int : bkind -> bool

val doc_allows : bool -> atype -> bkind -> rtype -> bool

type cpow3 =
| CUnset
| CTrue
| CFalse

type opnd =
| OC of atype
| OComplex
| OObj
| OPosFloat
| OPosIntConst

type ekind =
| EC of bkind
| EComplexConst
| ERuntimeComplex
| EObj

type dest =
| DNone
| DCInt
| DCFloat
| DCComplex
| DPyObj
| DCastInt
| DCastFloat
| DArithInt
| DArithFloat

val eff_cpow : cpow3 -> bool

val o_is_c_real : opnd -> bool

val e_is_c_real : ekind -> bool

val o_is_c_int : opnd -> bool

val e_is_c_int : ekind -> bool

val base_type : opnd -> ekind -> rtype

val widen : rtype -> rtype

val pow_type : bool -> opnd -> ekind -> rtype

val type_inferred : opnd -> ekind -> bool

val is_direct_c_real : dest -> bool

val fallback_fires : cpow3 -> opnd -> ekind -> dest -> bool

val assignable : rtype -> dest -> bool

type outcome = { o_type : rtype; o_rejected : bool; o_warned : bool }

val pow_coerced : cpow3 -> opnd -> ekind -> dest -> outcome

val doc_coerced : cpow3 -> opnd -> ekind -> dest -> outcome

type delivery =
| VInt
| VFloat
| VPyReal
| VPyComplex
| VTypeError
| VNoValue

val deliver : rtype -> dest -> bool -> delivery
