
val negb : bool -> bool

type nat =
| O
| S of nat

val fst : ('a1 * 'a2) -> 'a1

val snd : ('a1 * 'a2) -> 'a2

val app : 'a1 list -> 'a1 list -> 'a1 list

type comparison =
| Eq
| Lt
| Gt

val compOpp : comparison -> comparison

type positive =
| XI of positive
| XO of positive
| XH

type n =
| N0
| Npos of positive

type z =
| Z0
| Zpos of positive
| Zneg of positive

module Pos :
 sig
  val compare_cont : comparison -> positive -> positive -> comparison

  val compare : positive -> positive -> comparison

  val eqb : positive -> positive -> bool
 end

val map : ('a1 -> 'a2) -> 'a1 list -> 'a2 list

val existsb : ('a1 -> bool) -> 'a1 list -> bool

val filter : ('a1 -> bool) -> 'a1 list -> 'a1 list

module Z :
 sig
  val compare : z -> z -> comparison

  val leb : z -> z -> bool

  val ltb : z -> z -> bool

  val geb : z -> z -> bool

  val gtb : z -> z -> bool

  val eqb : z -> z -> bool
 end

val ex_keep : (((((nat * n) * z) * z list) * z option) * positive) * bool

type name = n

type dkind =
| DNone
| DValue
| DFactory

type field = { f_name : name; f_default : dkind; f_init : bool;
               f_repr : bool; f_cmp : bool; f_hash : bool option;
               f_kw : bool option; f_initvar : bool }

type opts = { o_init : bool; o_repr : bool; o_eq : bool; o_order : bool;
              o_unsafe_hash : bool; o_frozen : bool; o_match_args : bool;
              o_kw_only : bool }

type class_hash =
| HMissing
| HNone
| HDef

type user = { u_init : bool; u_repr : bool; u_eq : bool; u_hash : class_hash;
              u_match_args : bool; u_post_init : bool }

type pkind =
| PPos
| PKw

type param = (name * pkind) * bool

type sigres =
| SigNone
| SigErr of name
| SigOk of param list

val has_default : field -> bool

val sig_cons : param option -> sigres -> sigres

val cy_init_loop : bool -> bool -> field list -> sigres

val cy_init_sig : opts -> user -> field list -> sigres

val names : field list -> name list

val cy_repr_fields : opts -> user -> field list -> name list option

val cy_cmp_names : field list -> name list

val cy_eq_fields : opts -> user -> field list -> name list option

val cy_order_fields : opts -> field list -> name list option

val hash_flag : field -> bool

val cy_hash_flag : bool -> field -> bool

val cy_hash_names : bool -> field list -> name list

type action =
| ANothing
| ASetNone
| AAdd
| ARaise

val cy_hash_action : bool -> bool -> bool -> bool -> action

val cy_explicit_hash : user -> bool

type hashres =
| HKeep
| HSetNone
| HAdd of name list
| HErr

val hash_of_action : action -> name list -> hashres

val cy_hash : bool -> opts -> user -> field list -> hashres

val cy_match_args : bool -> opts -> user -> field list -> name list option

type src =
| SParam
| SParamOrFactory
| SDefault
| SFactory
| SUnset
| SZero

val cy_src : field -> src

val real_fields : field list -> field list

val cy_body : field list -> (name * src) list

val post_init_args : user -> field list -> name list option

val is_some : 'a1 option -> bool

val is_sigerr : sigres -> bool

val is_herr : hashres -> bool

val cy_rejected : opts -> user -> field list -> bool

val eff_kw : opts -> field -> bool

val py_std : opts -> field list -> field list

val py_kwf : opts -> field list -> field list

val py_check : bool -> field list -> name option

val py_param : pkind -> field -> param

val py_init_sig : opts -> user -> field list -> sigres

val py_repr_fields : opts -> user -> field list -> name list option

val py_cmp_names : field list -> name list

val py_eq_fields : opts -> user -> field list -> name list option

val py_order_fields : opts -> field list -> name list option

val py_hash_names : field list -> name list

val py_hash_action : bool -> bool -> bool -> bool -> action

val py_explicit_hash : user -> bool

val py_hash : opts -> user -> field list -> hashres

val py_match_args : opts -> user -> field list -> name list option

val py_src : field -> src

val py_body : field list -> (name * src) list

val is_factory : field -> bool

val py_rejected : opts -> user -> field list -> bool

type decisions = { d_rejected : bool; d_sig : sigres;
                   d_repr : name list option; d_eq : name list option;
                   d_order : name list option; d_hash : hashres;
                   d_match : name list option; d_body : (name * src) list;
                   d_post : name list option }

val cy_decide : bool -> bool -> opts -> user -> field list -> decisions

val py_decide : opts -> user -> field list -> decisions

type cop =
| OLt
| OLe
| OGt
| OGe

val strict : cop -> cop

val has_eq : cop -> bool

val cy_order :
  ('a1 -> 'a1 -> bool) -> (cop -> 'a1 -> 'a1 -> bool option) -> cop ->
  ('a1 * 'a1) list -> bool option

val py_order :
  ('a1 -> 'a1 -> bool) -> ('a1 -> 'a1 -> bool) -> (cop -> 'a1 -> 'a1 -> bool
  option) -> cop -> ('a1 * 'a1) list -> bool option

val cy_equal : ('a1 -> 'a1 -> bool) -> ('a1 * 'a1) list -> bool

val py_equal :
  ('a1 -> 'a1 -> bool) -> ('a1 -> 'a1 -> bool) -> ('a1 * 'a1) list -> bool

val oz_ident : z option -> z option -> bool

val oz_rel : cop -> z option -> z option -> bool option

val nv_ident : (bool * z) -> (bool * z) -> bool

val nv_eqv : (bool * z) -> (bool * z) -> bool
