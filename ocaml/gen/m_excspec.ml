
(** val negb : bool -> bool **)

let negb = function
| true -> false
| false -> true

type nat =
| O
| S of nat

(** val option_map : ('a1 -> 'a2) -> 'a1 option -> 'a2 option **)

let option_map f = function
| Some a -> Some (f a)
| None -> None

(** val app : 'a1 list -> 'a1 list -> 'a1 list **)

let rec app l m =
  match l with
  | [] -> m
  | a :: l1 -> a :: (app l1 m)

type comparison =
| Eq
| Lt
| Gt

(** val compOpp : comparison -> comparison **)

let compOpp = function
| Eq -> Eq
| Lt -> Gt
| Gt -> Lt

type positive =
| XI of positive
| XO of positive
| XH

type n =
| N0
| Npos of positive

type z =
| Z0
| Zpos of positive
| Zneg of positive

(** val eqb : bool -> bool -> bool **)

let eqb b1 b2 =
  if b1 then b2 else if b2 then false else true

module Pos =
 struct
  (** val succ : positive -> positive **)

  let rec succ = function
  | XI p -> XO (succ p)
  | XO p -> XI p
  | XH -> XO XH

  (** val add : positive -> positive -> positive **)

  let rec add x y =
    match x with
    | XI p ->
      (match y with
       | XI q -> XO (add_carry p q)
       | XO q -> XI (add p q)
       | XH -> XO (succ p))
    | XO p ->
      (match y with
       | XI q -> XI (add p q)
       | XO q -> XO (add p q)
       | XH -> XI p)
    | XH -> (match y with
             | XI q -> XO (succ q)
             | XO q -> XI q
             | XH -> XO XH)

  (** val add_carry : positive -> positive -> positive **)

  and add_carry x y =
    match x with
    | XI p ->
      (match y with
       | XI q -> XI (add_carry p q)
       | XO q -> XO (add_carry p q)
       | XH -> XI (succ p))
    | XO p ->
      (match y with
       | XI q -> XO (add_carry p q)
       | XO q -> XI (add p q)
       | XH -> XO (succ p))
    | XH ->
      (match y with
       | XI q -> XI (succ q)
       | XO q -> XO (succ q)
       | XH -> XI XH)

  (** val pred_double : positive -> positive **)

  let rec pred_double = function
  | XI p -> XI (XO p)
  | XO p -> XI (pred_double p)
  | XH -> XH

  (** val mul : positive -> positive -> positive **)

  let rec mul x y =
    match x with
    | XI p -> add y (XO (mul p y))
    | XO p -> XO (mul p y)
    | XH -> y

  (** val iter : ('a1 -> 'a1) -> 'a1 -> positive -> 'a1 **)

  let rec iter f x = function
  | XI n' -> f (iter f (iter f x n') n')
  | XO n' -> iter f (iter f x n') n'
  | XH -> f x

  (** val compare_cont : comparison -> positive -> positive -> comparison **)

  let rec compare_cont r x y =
    match x with
    | XI p ->
      (match y with
       | XI q -> compare_cont r p q
       | XO q -> compare_cont Gt p q
       | XH -> Gt)
    | XO p ->
      (match y with
       | XI q -> compare_cont Lt p q
       | XO q -> compare_cont r p q
       | XH -> Gt)
    | XH -> (match y with
             | XH -> r
             | _ -> Lt)

  (** val compare : positive -> positive -> comparison **)

  let compare =
    compare_cont Eq

  (** val eqb : positive -> positive -> bool **)

  let rec eqb p q =
    match p with
    | XI p0 -> (match q with
                | XI q0 -> eqb p0 q0
                | _ -> false)
    | XO p0 -> (match q with
                | XO q0 -> eqb p0 q0
                | _ -> false)
    | XH -> (match q with
             | XH -> true
             | _ -> false)
 end

module Z =
 struct
  (** val double : z -> z **)

  let double = function
  | Z0 -> Z0
  | Zpos p -> Zpos (XO p)
  | Zneg p -> Zneg (XO p)

  (** val succ_double : z -> z **)

  let succ_double = function
  | Z0 -> Zpos XH
  | Zpos p -> Zpos (XI p)
  | Zneg p -> Zneg (Pos.pred_double p)

  (** val pred_double : z -> z **)

  let pred_double = function
  | Z0 -> Zneg XH
  | Zpos p -> Zpos (Pos.pred_double p)
  | Zneg p -> Zneg (XI p)

  (** val pos_sub : positive -> positive -> z **)

  let rec pos_sub x y =
    match x with
    | XI p ->
      (match y with
       | XI q -> double (pos_sub p q)
       | XO q -> succ_double (pos_sub p q)
       | XH -> Zpos (XO p))
    | XO p ->
      (match y with
       | XI q -> pred_double (pos_sub p q)
       | XO q -> double (pos_sub p q)
       | XH -> Zpos (Pos.pred_double p))
    | XH ->
      (match y with
       | XI q -> Zneg (XO q)
       | XO q -> Zneg (Pos.pred_double q)
       | XH -> Z0)

  (** val add : z -> z -> z **)

  let add x y =
    match x with
    | Z0 -> y
    | Zpos x' ->
      (match y with
       | Z0 -> x
       | Zpos y' -> Zpos (Pos.add x' y')
       | Zneg y' -> pos_sub x' y')
    | Zneg x' ->
      (match y with
       | Z0 -> x
       | Zpos y' -> pos_sub y' x'
       | Zneg y' -> Zneg (Pos.add x' y'))

  (** val opp : z -> z **)

  let opp = function
  | Z0 -> Z0
  | Zpos x0 -> Zneg x0
  | Zneg x0 -> Zpos x0

  (** val sub : z -> z -> z **)

  let sub m n0 =
    add m (opp n0)

  (** val mul : z -> z -> z **)

  let mul x y =
    match x with
    | Z0 -> Z0
    | Zpos x' ->
      (match y with
       | Z0 -> Z0
       | Zpos y' -> Zpos (Pos.mul x' y')
       | Zneg y' -> Zneg (Pos.mul x' y'))
    | Zneg x' ->
      (match y with
       | Z0 -> Z0
       | Zpos y' -> Zneg (Pos.mul x' y')
       | Zneg y' -> Zpos (Pos.mul x' y'))

  (** val pow_pos : z -> positive -> z **)

  let pow_pos z0 =
    Pos.iter (mul z0) (Zpos XH)

  (** val pow : z -> z -> z **)

  let pow x = function
  | Z0 -> Zpos XH
  | Zpos p -> pow_pos x p
  | Zneg _ -> Z0

  (** val compare : z -> z -> comparison **)

  let compare x y =
    match x with
    | Z0 -> (match y with
             | Z0 -> Eq
             | Zpos _ -> Lt
             | Zneg _ -> Gt)
    | Zpos x' -> (match y with
                  | Zpos y' -> Pos.compare x' y'
                  | _ -> Gt)
    | Zneg x' ->
      (match y with
       | Zneg y' -> compOpp (Pos.compare x' y')
       | _ -> Lt)

  (** val leb : z -> z -> bool **)

  let leb x y =
    match compare x y with
    | Gt -> false
    | _ -> true

  (** val ltb : z -> z -> bool **)

  let ltb x y =
    match compare x y with
    | Lt -> true
    | _ -> false

  (** val eqb : z -> z -> bool **)

  let eqb x y =
    match x with
    | Z0 -> (match y with
             | Z0 -> true
             | _ -> false)
    | Zpos p -> (match y with
                 | Zpos q -> Pos.eqb p q
                 | _ -> false)
    | Zneg p -> (match y with
                 | Zneg q -> Pos.eqb p q
                 | _ -> false)

  (** val pos_div_eucl : positive -> z -> z * z **)

  let rec pos_div_eucl a b =
    match a with
    | XI a' ->
      let (q, r) = pos_div_eucl a' b in
      let r' = add (mul (Zpos (XO XH)) r) (Zpos XH) in
      if ltb r' b
      then ((mul (Zpos (XO XH)) q), r')
      else ((add (mul (Zpos (XO XH)) q) (Zpos XH)), (sub r' b))
    | XO a' ->
      let (q, r) = pos_div_eucl a' b in
      let r' = mul (Zpos (XO XH)) r in
      if ltb r' b
      then ((mul (Zpos (XO XH)) q), r')
      else ((add (mul (Zpos (XO XH)) q) (Zpos XH)), (sub r' b))
    | XH -> if leb (Zpos (XO XH)) b then (Z0, (Zpos XH)) else ((Zpos XH), Z0)

  (** val div_eucl : z -> z -> z * z **)

  let div_eucl a b =
    match a with
    | Z0 -> (Z0, Z0)
    | Zpos a' ->
      (match b with
       | Z0 -> (Z0, a)
       | Zpos _ -> pos_div_eucl a' b
       | Zneg b' ->
         let (q, r) = pos_div_eucl a' (Zpos b') in
         (match r with
          | Z0 -> ((opp q), Z0)
          | _ -> ((opp (add q (Zpos XH))), (add b r))))
    | Zneg a' ->
      (match b with
       | Z0 -> (Z0, a)
       | Zpos _ ->
         let (q, r) = pos_div_eucl a' b in
         (match r with
          | Z0 -> ((opp q), Z0)
          | _ -> ((opp (add q (Zpos XH))), (sub b r)))
       | Zneg b' -> let (q, r) = pos_div_eucl a' (Zpos b') in (q, (opp r)))

  (** val modulo : z -> z -> z **)

  let modulo a b =
    let (_, r) = div_eucl a b in r
 end

(** val ex_keep :
    (((((nat * n) * z) * z list) * z option) * positive) * bool **)

let ex_keep =
  ((((((O, N0), Z0), []), None), XH), true)

(** val min_int : z -> bool -> z **)

let min_int w = function
| true -> Z.opp (Z.pow (Zpos (XO XH)) (Z.sub w (Zpos XH)))
| false -> Z0

(** val max_int : z -> bool -> z **)

let max_int w = function
| true -> Z.sub (Z.pow (Zpos (XO XH)) (Z.sub w (Zpos XH))) (Zpos XH)
| false -> Z.sub (Z.pow (Zpos (XO XH)) w) (Zpos XH)

(** val in_rangeb : z -> bool -> z -> bool **)

let in_rangeb w s v =
  (&&) (Z.leb (min_int w s) v) (Z.leb v (max_int w s))

(** val wrap : z -> bool -> z -> z **)

let wrap w s v =
  if s
  then Z.sub
         (Z.modulo (Z.add v (Z.pow (Zpos (XO XH)) (Z.sub w (Zpos XH))))
           (Z.pow (Zpos (XO XH)) w))
         (Z.pow (Zpos (XO XH)) (Z.sub w (Zpos XH)))
  else Z.modulo v (Z.pow (Zpos (XO XH)) w)

type rkind =
| KInt of z * bool
| KEnum
| KFloat
| KPtr
| KVoid
| KStruct
| KObject

type dbl =
| DNaN
| DNegZero
| DNum of z

type cval =
| VInt of z
| VDbl of dbl
| VPtr of z
| VUnit
| VStruct of z * z
| VObj of z
| VNull
| VUndef

type exc = z

(** val deq : dbl -> dbl -> bool **)

let deq a b =
  match a with
  | DNaN -> false
  | DNegZero ->
    (match b with
     | DNaN -> false
     | DNegZero -> true
     | DNum q -> Z.eqb q Z0)
  | DNum p ->
    (match b with
     | DNaN -> false
     | DNegZero -> Z.eqb p Z0
     | DNum q -> Z.eqb p q)

(** val is_obj : rkind -> bool **)

let is_obj = function
| KObject -> true
| _ -> false

(** val is_void : rkind -> bool **)

let is_void = function
| KVoid -> true
| _ -> false

(** val val_okb : rkind -> cval -> bool **)

let val_okb k v =
  match k with
  | KInt (w, s) -> (match v with
                    | VInt z0 -> in_rangeb w s z0
                    | _ -> false)
  | KEnum ->
    (match v with
     | VInt z0 -> in_rangeb (Zpos (XO (XO (XO (XO (XO XH)))))) true z0
     | _ -> false)
  | KFloat -> (match v with
               | VDbl _ -> true
               | _ -> false)
  | KPtr -> (match v with
             | VPtr p -> Z.leb Z0 p
             | _ -> false)
  | KVoid -> (match v with
              | VUnit -> true
              | _ -> false)
  | KStruct -> (match v with
                | VStruct (_, _) -> true
                | _ -> false)
  | KObject -> (match v with
                | VObj _ -> true
                | _ -> false)

type handler =
| HDefault
| HStar
| HPy of exc

type chk =
| ChkNo
| ChkYes
| ChkPlus of handler

type sent =
| Sent of cval * bool

(** val sent_val : sent -> cval **)

let sent_val = function
| Sent (v, _) -> v

type fspec = { ev : sent option; ec : chk }

type clause =
| CNone
| CNoexcept
| CExcept of sent
| CExceptQ of sent
| CStar
| CPlusC of handler

type dflags = { legacy : bool; extern : bool; in_pxd : bool;
                cclass_or_ptr : bool }

(** val parse_clause : bool -> clause -> (sent option * chk) * bool **)

let parse_clause is_extern = function
| CNone -> ((None, (if is_extern then ChkNo else ChkYes)), false)
| CNoexcept -> ((None, ChkNo), true)
| CExcept v -> (((Some v), ChkNo), true)
| CExceptQ v -> (((Some v), ChkYes), true)
| CStar -> ((None, ChkYes), true)
| CPlusC h -> ((None, (ChkPlus h)), true)

(** val chk_true : chk -> bool **)

let chk_true = function
| ChkNo -> false
| _ -> true

(** val chk_plus : chk -> bool **)

let chk_plus = function
| ChkPlus _ -> true
| _ -> false

(** val type_exc_value : rkind -> cval option **)

let type_exc_value = function
| KInt (w, s) -> Some (VInt (wrap w s (Zneg XH)))
| KFloat -> Some (VDbl (DNum (Zneg XH)))
| KPtr -> Some (VPtr Z0)
| _ -> None

(** val coerce_sent : rkind -> sent -> sent option **)

let coerce_sent k s =
  match k with
  | KInt (w, sg) ->
    let Sent (v, o) = s in
    (match v with
     | VInt z0 -> Some (Sent ((VInt (wrap w sg z0)), o))
     | _ -> None)
  | KEnum ->
    let Sent (v, o) = s in
    (match v with
     | VInt z0 -> Some (Sent ((VInt z0), o))
     | _ -> None)
  | KFloat ->
    let Sent (v, o) = s in
    (match v with
     | VInt z0 -> Some (Sent ((VDbl (DNum z0)), o))
     | VDbl d -> Some (Sent ((VDbl d), o))
     | _ -> None)
  | KPtr ->
    let Sent (v, o) = s in
    (match v with
     | VPtr p -> Some (Sent ((VPtr p), o))
     | _ -> None)
  | _ -> None

(** val normalise : dflags -> rkind -> clause -> fspec option **)

let normalise f k c =
  let (p, has_clause) = parse_clause f.extern c in
  let (val0, ck) = p in
  let ck1 =
    if (&&)
         ((&&) ((&&) ((&&) f.legacy (negb (is_obj k))) (negb has_clause))
           (chk_true ck)) (negb f.extern)
    then ChkNo
    else ck
  in
  if chk_plus ck1
  then Some { ev = None; ec = ck1 }
  else let ck2 = if (&&) (is_obj k) (chk_true ck1) then ChkNo else ck1 in
       if is_obj k
       then (match val0 with
             | Some _ -> None
             | None -> Some { ev = None; ec = ChkNo })
       else let val1 =
              match val0 with
              | Some _ -> val0
              | None ->
                (match ck2 with
                 | ChkYes ->
                   (match type_exc_value k with
                    | Some tv ->
                      if (&&) ((&&) (negb f.extern) (negb f.in_pxd))
                           (negb f.cclass_or_ptr)
                      then Some (Sent (tv, false))
                      else None
                    | None -> None)
                 | _ -> val0)
            in
            (match val1 with
             | Some s ->
               (match coerce_sent k s with
                | Some s' -> Some { ev = (Some s'); ec = ck2 }
                | None -> None)
             | None -> Some { ev = None; ec = ck2 })

type state = { pending : exc option; unraisable : exc list; gil : bool;
               viol : nat }

(** val need_gil : state -> state **)

let need_gil st =
  if st.gil
  then st
  else { pending = st.pending; unraisable = st.unraisable; gil = st.gil;
         viol = (S st.viol) }

(** val set_gil : bool -> state -> state **)

let set_gil b st =
  { pending = st.pending; unraisable = st.unraisable; gil = b; viol =
    st.viol }

(** val set_pending : exc option -> state -> state **)

let set_pending p st =
  let st0 = need_gil st in
  { pending = p; unraisable = st0.unraisable; gil = st0.gil; viol = st0.viol }

(** val ensure : state -> bool * state **)

let ensure st =
  (st.gil, (set_gil true st))

(** val restore : bool -> state -> state **)

let restore =
  set_gil

(** val err_occurred : state -> bool * state **)

let err_occurred st =
  ((match st.pending with
    | Some _ -> true
    | None -> false), (need_gil st))

(** val err_occurred_with_gil : state -> bool * state **)

let err_occurred_with_gil st =
  let (tok, st1) = ensure st in
  let (b, st2) = err_occurred st1 in (b, (restore tok st2))

(** val write_unraisable : state -> state **)

let write_unraisable st =
  let st0 = need_gil st in
  (match st0.pending with
   | Some e ->
     { pending = None; unraisable = (app st0.unraisable (e :: [])); gil =
       st0.gil; viol = st0.viol }
   | None -> st0)

(** val add_traceback : state -> state **)

let add_traceback =
  need_gil

type cpp =
| XBadAlloc
| XBadCast
| XBadTypeid
| XDomain
| XInvalidArg
| XIosFailure
| XOutOfRange
| XOverflow
| XRange
| XUnderflow
| XStdOther
| XNonStd

type body =
| Return of cval
| Raise of exc
| Throw of cpp
| SetAndReturn of exc * cval

type flavour =
| FPlain
| FNogil
| FWithGil

type cres =
| CRet of cval
| CThrown of cpp

(** val default_value : rkind -> cval option **)

let default_value = function
| KInt (_, _) -> Some (VInt Z0)
| KEnum -> Some (VInt Z0)
| KFloat -> Some (VDbl (DNum Z0))
| KPtr -> Some (VPtr Z0)
| KObject -> Some VNull
| _ -> None

(** val error_value : fspec -> rkind -> cval option **)

let error_value sp k =
  if is_obj k then Some VNull else option_map sent_val sp.ev

(** val error_retval : fspec -> rkind -> cval **)

let error_retval sp k =
  match error_value sp k with
  | Some v -> v
  | None ->
    (match default_value k with
     | Some d -> d
     | None -> if is_void k then VUnit else VUndef)

(** val raise_in : flavour -> exc -> state -> state **)

let raise_in fl e st =
  match fl with
  | FNogil ->
    let (tok, st1) = ensure st in restore tok (set_pending (Some e) st1)
  | _ -> set_pending (Some e) st

(** val callee :
    fspec -> rkind -> flavour -> body -> state -> cres * state **)

let callee sp k fl b st =
  let (tok0, st0) = match fl with
                    | FWithGil -> ensure st
                    | _ -> (st.gil, st) in
  let (res, st') =
    match b with
    | Return r -> ((CRet r), st0)
    | Raise e ->
      let st1 = raise_in fl e st0 in
      let (tokE, st2) =
        match fl with
        | FNogil -> ensure st1
        | _ -> (st1.gil, st1)
      in
      let st3 =
        match error_value sp k with
        | Some _ -> add_traceback st2
        | None ->
          if chk_true sp.ec then add_traceback st2 else write_unraisable st2
      in
      ((CRet (error_retval sp k)), (restore tokE st3))
    | Throw x -> ((CThrown x), st0)
    | SetAndReturn (e, r) ->
      let (tok, s1) = ensure st0 in
      ((CRet r), (restore tok (set_pending (Some e) s1)))
  in
  (res, (match fl with
         | FWithGil -> restore tok0 st'
         | _ -> st'))

(** val c_test : rkind -> sent -> cval -> bool **)

let c_test k s r =
  let Sent (v, opaque) = s in
  (match k with
   | KInt (w, sg) ->
     (match v with
      | VInt a ->
        (match r with
         | VInt b -> Z.eqb (wrap w sg b) (wrap w sg a)
         | _ -> false)
      | _ -> false)
   | KEnum ->
     (match v with
      | VInt a -> (match r with
                   | VInt b -> Z.eqb b a
                   | _ -> false)
      | _ -> false)
   | KFloat ->
     (match v with
      | VDbl a ->
        (match r with
         | VDbl b ->
           if (||) opaque (negb (deq a a))
           then if deq a a then deq b a else negb (deq b b)
           else deq b a
         | _ -> false)
      | _ -> false)
   | KPtr ->
     (match v with
      | VPtr a -> (match r with
                   | VPtr b -> Z.eqb b a
                   | _ -> false)
      | _ -> false)
   | _ -> false)

(** val e_MemoryError : exc **)

let e_MemoryError =
  Zpos (XI (XO (XI (XO (XO (XI XH))))))

(** val e_TypeError : exc **)

let e_TypeError =
  Zpos (XO (XI (XI (XO (XO (XI XH))))))

(** val e_ValueError : exc **)

let e_ValueError =
  Zpos (XI (XI (XI (XO (XO (XI XH))))))

(** val e_IOError : exc **)

let e_IOError =
  Zpos (XO (XO (XO (XI (XO (XI XH))))))

(** val e_IndexError : exc **)

let e_IndexError =
  Zpos (XI (XO (XO (XI (XO (XI XH))))))

(** val e_OverflowError : exc **)

let e_OverflowError =
  Zpos (XO (XI (XO (XI (XO (XI XH))))))

(** val e_ArithmeticError : exc **)

let e_ArithmeticError =
  Zpos (XI (XI (XO (XI (XO (XI XH))))))

(** val e_RuntimeError : exc **)

let e_RuntimeError =
  Zpos (XO (XO (XI (XI (XO (XI XH))))))

(** val cpp_map : cpp -> exc **)

let cpp_map = function
| XBadAlloc -> e_MemoryError
| XBadCast -> e_TypeError
| XBadTypeid -> e_TypeError
| XDomain -> e_ValueError
| XInvalidArg -> e_ValueError
| XIosFailure -> e_IOError
| XOutOfRange -> e_IndexError
| XOverflow -> e_OverflowError
| XRange -> e_ArithmeticError
| XUnderflow -> e_ArithmeticError
| _ -> e_RuntimeError

type observed = { o_err : bool; o_val : cval; o_st : state }

(** val occurred_in : bool -> state -> bool * state **)

let occurred_in caller_nogil st =
  if caller_nogil then err_occurred_with_gil st else err_occurred st

(** val call_site : fspec -> rkind -> bool -> cres -> state -> observed **)

let call_site sp k caller_nogil res st =
  match sp.ec with
  | ChkPlus h ->
    (match res with
     | CRet r ->
       if (&&) (is_obj k) (match r with
                           | VNull -> true
                           | _ -> false)
       then { o_err = true; o_val = r; o_st = st }
       else (match h with
             | HStar ->
               let (b, st') = occurred_in caller_nogil st in
               { o_err = b; o_val = r; o_st = st' }
             | _ -> { o_err = false; o_val = r; o_st = st })
     | CThrown x ->
       let (tok, st1) = if caller_nogil then ensure st else (st.gil, st) in
       let st2 =
         match h with
         | HPy t -> set_pending (Some t) st1
         | _ ->
           let (b, st') = err_occurred st1 in
           if b then st' else set_pending (Some (cpp_map x)) st'
       in
       { o_err = true; o_val = VUndef; o_st = (restore tok st2) })
  | x ->
    (match res with
     | CRet r ->
       if is_obj k
       then { o_err = (match r with
                       | VNull -> true
                       | _ -> false); o_val = r; o_st = st }
       else let value_hit =
              match sp.ev with
              | Some s -> c_test k s r
              | None -> true
            in
            let has_cond =
              match sp.ev with
              | Some _ -> true
              | None -> chk_true x
            in
            if negb has_cond
            then { o_err = false; o_val = r; o_st = st }
            else if negb value_hit
                 then { o_err = false; o_val = r; o_st = st }
                 else if chk_true x
                      then let (b, st') = occurred_in caller_nogil st in
                           { o_err = b; o_val = r; o_st = st' }
                      else { o_err = true; o_val = r; o_st = st }
     | CThrown _ -> { o_err = false; o_val = VUndef; o_st = st })

(** val observe_via :
    fspec -> fspec -> rkind -> flavour -> bool -> body -> state -> observed **)

let observe_via psp fsp k fl caller_nogil b st =
  let (res, st') = callee fsp k fl b st in
  call_site psp k caller_nogil res st'

(** val observe :
    fspec -> rkind -> flavour -> bool -> body -> state -> observed **)

let observe sp =
  observe_via sp sp

(** val propagates : fspec -> rkind -> bool **)

let propagates sp k =
  (||) (is_obj k) (match sp.ev with
                   | Some _ -> true
                   | None -> chk_true sp.ec)

(** val noexcept_value : rkind -> cval **)

let noexcept_value k =
  match default_value k with
  | Some d -> d
  | None -> if is_void k then VUnit else VUndef

(** val documented : fspec -> rkind -> body -> state -> observed **)

let documented sp k b st =
  match b with
  | Return r -> { o_err = false; o_val = r; o_st = st }
  | Raise e ->
    if propagates sp k
    then { o_err = true; o_val = (error_retval sp k); o_st = { pending =
           (Some e); unraisable = st.unraisable; gil = st.gil; viol =
           st.viol } }
    else { o_err = false; o_val = (noexcept_value k); o_st = { pending =
           None; unraisable = (app st.unraisable (e :: [])); gil = st.gil;
           viol = st.viol } }
  | Throw x ->
    { o_err = true; o_val = VUndef; o_st = { pending = (Some
      (match sp.ec with
       | ChkPlus h -> (match h with
                       | HPy t -> t
                       | _ -> cpp_map x)
       | _ -> cpp_map x)); unraisable = st.unraisable; gil = st.gil; viol =
      st.viol } }
  | SetAndReturn (e, r) ->
    { o_err = true; o_val = r; o_st = { pending = (Some e); unraisable =
      st.unraisable; gil = st.gil; viol = st.viol } }

(** val sent_okb : rkind -> sent -> bool **)

let sent_okb k = function
| Sent (v, _) ->
  (match k with
   | KInt (w, sg) -> (match v with
                      | VInt z0 -> in_rangeb w sg z0
                      | _ -> false)
   | KEnum -> (match v with
               | VInt _ -> true
               | _ -> false)
   | KFloat -> (match v with
                | VDbl _ -> true
                | _ -> false)
   | KPtr -> (match v with
              | VPtr _ -> true
              | _ -> false)
   | _ -> false)

(** val kind_okb : rkind -> bool **)

let kind_okb = function
| KInt (w, _) -> Z.leb (Zpos XH) w
| _ -> true

(** val wf_specb : fspec -> rkind -> bool **)

let wf_specb sp k =
  (&&) (kind_okb k)
    (match sp.ev with
     | Some s ->
       (&&) ((&&) (sent_okb k s) (negb (is_obj k))) (negb (chk_plus sp.ec))
     | None ->
       if is_obj k
       then (||) (negb (chk_true sp.ec)) (chk_plus sp.ec)
       else true)

(** val sent_eqb : sent -> sent -> bool **)

let sent_eqb a b =
  match sent_val a with
  | VInt x -> (match sent_val b with
               | VInt y -> Z.eqb x y
               | _ -> false)
  | VDbl d ->
    (match d with
     | DNaN ->
       (match sent_val b with
        | VDbl d0 -> (match d0 with
                      | DNaN -> true
                      | _ -> false)
        | _ -> false)
     | DNegZero ->
       (match sent_val b with
        | VDbl d0 -> (match d0 with
                      | DNegZero -> true
                      | _ -> false)
        | _ -> false)
     | DNum x ->
       (match sent_val b with
        | VDbl d0 -> (match d0 with
                      | DNum y -> Z.eqb x y
                      | _ -> false)
        | _ -> false))
  | VPtr x -> (match sent_val b with
               | VPtr y -> Z.eqb x y
               | _ -> false)
  | _ -> false

(** val oev_eqb : sent option -> sent option -> bool **)

let oev_eqb a b =
  match a with
  | Some x -> (match b with
               | Some y -> sent_eqb x y
               | None -> false)
  | None -> (match b with
             | Some _ -> false
             | None -> true)

(** val chk_eqb : chk -> chk -> bool **)

let chk_eqb a b =
  match a with
  | ChkNo -> (match b with
              | ChkNo -> true
              | _ -> false)
  | ChkYes -> (match b with
               | ChkYes -> true
               | _ -> false)
  | ChkPlus _ -> (match b with
                  | ChkPlus _ -> true
                  | _ -> false)

(** val exc_compatible : fspec -> fspec -> bool **)

let exc_compatible self other =
  if (&&) (chk_plus self.ec) (negb (chk_plus other.ec))
  then false
  else if (||) (negb (chk_true other.ec))
            (match other.ev with
             | Some _ -> true
             | None -> false)
       then if (&&) (chk_true other.ec)
                 (negb
                   ((||) (chk_true self.ec)
                     (match self.ev with
                      | Some _ -> true
                      | None -> false)))
            then true
            else if negb (oev_eqb self.ev other.ev)
                 then false
                 else if (&&) (chk_true self.ec)
                           (negb (chk_eqb self.ec other.ec))
                      then false
                      else true
       else true

type ity = { iw : z; isg : bool }

(** val t_INT : ity **)

let t_INT =
  { iw = (Zpos (XO (XO (XO (XO (XO XH)))))); isg = true }

(** val t_UINT : ity **)

let t_UINT =
  { iw = (Zpos (XO (XO (XO (XO (XO XH)))))); isg = false }

(** val t_LONG : ity **)

let t_LONG =
  { iw = (Zpos (XO (XO (XO (XO (XO (XO XH))))))); isg = true }

(** val t_ULONG : ity **)

let t_ULONG =
  { iw = (Zpos (XO (XO (XO (XO (XO (XO XH))))))); isg = false }

(** val ity_okb : ity -> bool **)

let ity_okb t =
  Z.leb (Zpos XH) t.iw

(** val in_ty : ity -> z -> bool **)

let in_ty t v =
  in_rangeb t.iw t.isg v

(** val conv : ity -> z -> z **)

let conv t v =
  wrap t.iw t.isg v

(** val promote : ity -> ity **)

let promote t =
  if Z.ltb t.iw (Zpos (XO (XO (XO (XO (XO XH)))))) then t_INT else t

(** val uac : ity -> ity -> ity **)

let uac a b =
  if eqb a.isg b.isg
  then if Z.ltb a.iw b.iw then b else a
  else let u = if a.isg then b else a in
       let s = if a.isg then a else b in if Z.leb s.iw u.iw then u else s

type lsuf =
| SufNone
| SufL
| SufU
| SufUL

type cexpr =
| CDec of z * lsuf
| CHex of z * lsuf
| CInt of z
| CNeg of cexpr
| CAdd of cexpr * cexpr
| CSub of cexpr * cexpr
| CMul of cexpr * cexpr
| CCast of ity * cexpr

(** val lit_types : bool -> lsuf -> ity list **)

let lit_types hex = function
| SufNone ->
  if hex
  then t_INT :: (t_UINT :: (t_LONG :: (t_ULONG :: [])))
  else t_INT :: (t_LONG :: (t_ULONG :: []))
| SufL -> t_LONG :: (t_ULONG :: [])
| SufU -> t_UINT :: (t_ULONG :: [])
| SufUL -> t_ULONG :: []

(** val first_fit : ity list -> z -> (ity * z) option **)

let rec first_fit l n0 =
  match l with
  | [] -> None
  | t :: r -> if in_ty t n0 then Some (t, n0) else first_fit r n0

(** val arith : ity -> z -> (ity * z) option **)

let arith ct r =
  if ct.isg
  then if in_ty ct r then Some (ct, r) else None
  else Some (ct, (conv ct r))

(** val binop :
    (z -> z -> z) -> (ity * z) option -> (ity * z) option -> (ity * z) option **)

let binop f x y =
  match x with
  | Some p ->
    let (ta, va) = p in
    (match y with
     | Some p0 ->
       let (tb, vb) = p0 in
       let ct = uac (promote ta) (promote tb) in
       arith ct (f (conv ct va) (conv ct vb))
     | None -> None)
  | None -> None

(** val ceval : cexpr -> (ity * z) option **)

let rec ceval = function
| CDec (n0, s) ->
  if Z.leb Z0 n0 then first_fit (lit_types false s) n0 else None
| CHex (n0, s) ->
  if Z.leb Z0 n0 then first_fit (lit_types true s) n0 else None
| CInt v -> if in_ty t_INT v then Some (t_INT, v) else None
| CNeg a ->
  (match ceval a with
   | Some p ->
     let (t, v) = p in let ct = promote t in arith ct (Z.opp (conv ct v))
   | None -> None)
| CAdd (a, b) -> binop Z.add (ceval a) (ceval b)
| CSub (a, b) -> binop Z.sub (ceval a) (ceval b)
| CMul (a, b) -> binop Z.mul (ceval a) (ceval b)
| CCast (t, a) ->
  (match ceval a with
   | Some p ->
     let (_, v) = p in if ity_okb t then Some (t, (conv t v)) else None
   | None -> None)

(** val eq_test : ity -> z -> cexpr -> bool option **)

let eq_test rt r e =
  match ceval e with
  | Some p ->
    let (te, v) = p in
    let ct = uac (promote rt) (promote te) in
    Some (Z.eqb (conv ct r) (conv ct v))
  | None -> None

(** val emitted : ity option -> cexpr -> cexpr **)

let emitted tc e =
  match tc with
  | Some t -> CCast (t, e)
  | None -> e

(** val stored : ity -> cexpr -> z option **)

let stored rt e =
  match ceval e with
  | Some p -> let (_, v) = p in Some (conv rt v)
  | None -> None

(** val fires : ity option -> ity -> cexpr -> z -> bool **)

let fires tc rt e r =
  match eq_test rt r (emitted tc e) with
  | Some b -> b
  | None -> false

(** val kind_of : ity -> rkind **)

let kind_of rt =
  KInt (rt.iw, rt.isg)

(** val fn_spec : ity -> cexpr -> chk -> fspec option **)

let fn_spec rt e ck =
  match stored rt e with
  | Some s -> Some { ev = (Some (Sent ((VInt s), false))); ec = ck }
  | None -> None

(** val site_spec : ity option -> ity -> cexpr -> chk -> fspec option **)

let site_spec tc rt e ck =
  match ceval (emitted tc e) with
  | Some p ->
    let (_, s') = p in
    let r0 = conv rt s' in
    if fires tc rt e r0
    then Some { ev = (Some (Sent ((VInt r0), false))); ec = ck }
    else Some { ev = None; ec = ChkNo }
  | None -> None

(** val observe_value :
    ity option -> ity -> cexpr -> chk -> flavour -> bool -> body -> state ->
    observed option **)

let observe_value tc rt e ck fl cn b st =
  match site_spec tc rt e ck with
  | Some psp ->
    (match fn_spec rt e ck with
     | Some fsp -> Some (observe_via psp fsp (kind_of rt) fl cn b st)
     | None -> None)
  | None -> None

type fty =
| F32
| F64

(** val fconv : ('a1 -> 'a1) -> fty -> 'a1 -> 'a1 **)

let fconv to_f32 t x =
  match t with
  | F32 -> to_f32 x
  | F64 -> x

(** val float_test :
    ('a1 -> 'a1 -> bool) -> ('a1 -> 'a1) -> bool -> fty option -> 'a1 -> 'a1
    -> bool **)

let float_test feq to_f32 macro tc c r =
  let ec0 = match tc with
            | Some t -> fconv to_f32 t c
            | None -> c in
  if macro
  then if feq ec0 ec0 then feq r ec0 else negb (feq r r)
  else feq r ec0

(** val float_stored : ('a1 -> 'a1) -> fty -> 'a1 -> 'a1 **)

let float_stored =
  fconv
