
(** val negb : bool -> bool **)

let negb = function
| true -> false
| false -> true

type nat =
| O
| S of nat

(** val length : 'a1 list -> nat **)

let rec length = function
| [] -> O
| _ :: l' -> S (length l')

(** val app : 'a1 list -> 'a1 list -> 'a1 list **)

let rec app l m =
  match l with
  | [] -> m
  | a :: l1 -> a :: (app l1 m)

module Nat =
 struct
  (** val eqb : nat -> nat -> bool **)

  let rec eqb n0 m =
    match n0 with
    | O -> (match m with
            | O -> true
            | S _ -> false)
    | S n' -> (match m with
               | O -> false
               | S m' -> eqb n' m')
 end

(** val rev : 'a1 list -> 'a1 list **)

let rec rev = function
| [] -> []
| x :: l' -> app (rev l') (x :: [])

(** val forallb : ('a1 -> bool) -> 'a1 list -> bool **)

let rec forallb f = function
| [] -> true
| a :: l0 -> (&&) (f a) (forallb f l0)

type positive =
| XI of positive
| XO of positive
| XH

type n =
| N0
| Npos of positive

type z =
| Z0
| Zpos of positive
| Zneg of positive

(** val ex_keep :
    (((((nat * n) * z) * z list) * z option) * positive) * bool **)

let ex_keep =
  ((((((O, N0), Z0), []), None), XH), true)

type akind =
| APos
| AStar
| AKw
| ADStar

type atail =
| TEnd
| TComma
| TFor

type pitem =
| PGroup of nat list
| PUnpack of nat

type kitem =
| KPair of nat
| KUnpack of nat

type pstate = { positional : pitem list; keywords : kitem list;
                starstar_seen : bool; last_unpack : bool }

(** val pstate0 : pstate **)

let pstate0 =
  { positional = []; keywords = []; starstar_seen = false; last_unpack =
    false }

(** val nonempty : 'a1 list -> bool **)

let nonempty = function
| [] -> false
| _ :: _ -> true

(** val step : bool -> pstate -> nat -> akind -> pstate option **)

let step star_guard_kw st i = function
| APos ->
  if nonempty st.keywords
  then None
  else Some { positional =
         (match st.positional with
          | [] -> (PGroup (i :: [])) :: []
          | p :: r ->
            (match p with
             | PGroup g ->
               if st.last_unpack
               then (PGroup (i :: [])) :: ((PGroup g) :: r)
               else (PGroup (app g (i :: []))) :: r
             | PUnpack i0 -> (PGroup (i :: [])) :: ((PUnpack i0) :: r)));
         keywords = st.keywords; starstar_seen = st.starstar_seen;
         last_unpack = false }
| AStar ->
  if if star_guard_kw then nonempty st.keywords else st.starstar_seen
  then None
  else Some { positional = ((PUnpack i) :: st.positional); keywords =
         st.keywords; starstar_seen = st.starstar_seen; last_unpack = true }
| AKw ->
  Some { positional = st.positional; keywords = ((KPair i) :: st.keywords);
    starstar_seen = st.starstar_seen; last_unpack = st.last_unpack }
| ADStar ->
  Some { positional = st.positional; keywords = ((KUnpack i) :: st.keywords);
    starstar_seen = true; last_unpack = st.last_unpack }

(** val run : bool -> pstate -> nat -> akind list -> pstate option **)

let rec run g st i = function
| [] -> Some st
| k :: r ->
  (match step g st i k with
   | Some st' -> run g st' (S i) r
   | None -> None)

(** val single_plain : pitem list -> bool **)

let single_plain = function
| [] -> false
| p :: l ->
  (match p with
   | PGroup items ->
     (match items with
      | [] -> false
      | _ :: l0 ->
        (match l0 with
         | [] -> (match l with
                  | [] -> true
                  | _ :: _ -> false)
         | _ :: _ -> false))
   | PUnpack _ -> false)

(** val finish : bool -> nat -> atail -> pstate -> bool **)

let finish allow_genexp n0 t st =
  match t with
  | TEnd -> true
  | TComma -> negb (Nat.eqb n0 O)
  | TFor ->
    (&&)
      ((&&) ((&&) allow_genexp (negb (nonempty st.keywords)))
        (negb st.last_unpack)) (single_plain st.positional)

(** val parse_args :
    bool -> bool -> akind list -> atail -> (pitem list * kitem list) option **)

let parse_args g allow_genexp l t =
  match run g pstate0 O l with
  | Some st ->
    if finish allow_genexp (length l) t st
    then Some
           ((match rev st.positional with
             | [] -> (PGroup []) :: []
             | p :: l0 -> p :: l0), (rev st.keywords))
    else None
  | None -> None

(** val accepts : bool -> bool -> akind list -> atail -> bool **)

let accepts g allow_genexp l t =
  match parse_args g allow_genexp l t with
  | Some _ -> true
  | None -> false

(** val in_ps : akind -> bool **)

let in_ps = function
| APos -> true
| AStar -> true
| _ -> false

(** val in_ks : akind -> bool **)

let in_ks = function
| APos -> false
| ADStar -> false
| _ -> true

(** val in_kd : akind -> bool **)

let in_kd = function
| APos -> false
| AStar -> false
| _ -> true

(** val drop_while : (akind -> bool) -> akind list -> akind list **)

let rec drop_while p l = match l with
| [] -> []
| a :: r -> if p a then drop_while p r else l

(** val py_args_b : akind list -> bool **)

let py_args_b l =
  forallb in_kd (drop_while in_ks (drop_while in_ps l))

(** val py_valid_b : bool -> akind list -> atail -> bool **)

let py_valid_b is_call l = function
| TEnd -> py_args_b l
| TComma -> (&&) (py_args_b l) (negb (Nat.eqb (length l) O))
| TFor ->
  (&&) is_call
    (match l with
     | [] -> false
     | a :: l0 ->
       (match a with
        | APos -> (match l0 with
                   | [] -> true
                   | _ :: _ -> false)
        | _ -> false))
