
type nat =
| O
| S of nat

(** val fst : ('a1 * 'a2) -> 'a1 **)

let fst = function
| (x, _) -> x

(** val snd : ('a1 * 'a2) -> 'a2 **)

let snd = function
| (_, y) -> y

type comparison =
| Eq
| Lt
| Gt

(** val compOpp : comparison -> comparison **)

let compOpp = function
| Eq -> Eq
| Lt -> Gt
| Gt -> Lt

module Coq__1 = struct
 (** val add : nat -> nat -> nat **)
 let rec add n0 m =
   match n0 with
   | O -> m
   | S p -> S (add p m)
end
include Coq__1

type positive =
| XI of positive
| XO of positive
| XH

type n =
| N0
| Npos of positive

type z =
| Z0
| Zpos of positive
| Zneg of positive

module Pos =
 struct
  type mask =
  | IsNul
  | IsPos of positive
  | IsNeg
 end

module Coq_Pos =
 struct
  (** val succ : positive -> positive **)

  let rec succ = function
  | XI p -> XO (succ p)
  | XO p -> XI p
  | XH -> XO XH

  (** val add : positive -> positive -> positive **)

  let rec add x y =
    match x with
    | XI p ->
      (match y with
       | XI q -> XO (add_carry p q)
       | XO q -> XI (add p q)
       | XH -> XO (succ p))
    | XO p ->
      (match y with
       | XI q -> XI (add p q)
       | XO q -> XO (add p q)
       | XH -> XI p)
    | XH -> (match y with
             | XI q -> XO (succ q)
             | XO q -> XI q
             | XH -> XO XH)

  (** val add_carry : positive -> positive -> positive **)

  and add_carry x y =
    match x with
    | XI p ->
      (match y with
       | XI q -> XI (add_carry p q)
       | XO q -> XO (add_carry p q)
       | XH -> XI (succ p))
    | XO p ->
      (match y with
       | XI q -> XO (add_carry p q)
       | XO q -> XI (add p q)
       | XH -> XO (succ p))
    | XH ->
      (match y with
       | XI q -> XI (succ q)
       | XO q -> XO (succ q)
       | XH -> XI XH)

  (** val pred_double : positive -> positive **)

  let rec pred_double = function
  | XI p -> XI (XO p)
  | XO p -> XI (pred_double p)
  | XH -> XH

  type mask = Pos.mask =
  | IsNul
  | IsPos of positive
  | IsNeg

  (** val succ_double_mask : mask -> mask **)

  let succ_double_mask = function
  | IsNul -> IsPos XH
  | IsPos p -> IsPos (XI p)
  | IsNeg -> IsNeg

  (** val double_mask : mask -> mask **)

  let double_mask = function
  | IsPos p -> IsPos (XO p)
  | x0 -> x0

  (** val double_pred_mask : positive -> mask **)

  let double_pred_mask = function
  | XI p -> IsPos (XO (XO p))
  | XO p -> IsPos (XO (pred_double p))
  | XH -> IsNul

  (** val sub_mask : positive -> positive -> mask **)

  let rec sub_mask x y =
    match x with
    | XI p ->
      (match y with
       | XI q -> double_mask (sub_mask p q)
       | XO q -> succ_double_mask (sub_mask p q)
       | XH -> IsPos (XO p))
    | XO p ->
      (match y with
       | XI q -> succ_double_mask (sub_mask_carry p q)
       | XO q -> double_mask (sub_mask p q)
       | XH -> IsPos (pred_double p))
    | XH -> (match y with
             | XH -> IsNul
             | _ -> IsNeg)

  (** val sub_mask_carry : positive -> positive -> mask **)

  and sub_mask_carry x y =
    match x with
    | XI p ->
      (match y with
       | XI q -> succ_double_mask (sub_mask_carry p q)
       | XO q -> double_mask (sub_mask p q)
       | XH -> IsPos (pred_double p))
    | XO p ->
      (match y with
       | XI q -> double_mask (sub_mask_carry p q)
       | XO q -> succ_double_mask (sub_mask_carry p q)
       | XH -> double_pred_mask p)
    | XH -> IsNeg

  (** val mul : positive -> positive -> positive **)

  let rec mul x y =
    match x with
    | XI p -> add y (XO (mul p y))
    | XO p -> XO (mul p y)
    | XH -> y

  (** val compare_cont : comparison -> positive -> positive -> comparison **)

  let rec compare_cont r x y =
    match x with
    | XI p ->
      (match y with
       | XI q -> compare_cont r p q
       | XO q -> compare_cont Gt p q
       | XH -> Gt)
    | XO p ->
      (match y with
       | XI q -> compare_cont Lt p q
       | XO q -> compare_cont r p q
       | XH -> Gt)
    | XH -> (match y with
             | XH -> r
             | _ -> Lt)

  (** val compare : positive -> positive -> comparison **)

  let compare =
    compare_cont Eq

  (** val eqb : positive -> positive -> bool **)

  let rec eqb p q =
    match p with
    | XI p0 -> (match q with
                | XI q0 -> eqb p0 q0
                | _ -> false)
    | XO p0 -> (match q with
                | XO q0 -> eqb p0 q0
                | _ -> false)
    | XH -> (match q with
             | XH -> true
             | _ -> false)

  (** val iter_op : ('a1 -> 'a1 -> 'a1) -> positive -> 'a1 -> 'a1 **)

  let rec iter_op op p a =
    match p with
    | XI p0 -> op a (iter_op op p0 (op a a))
    | XO p0 -> iter_op op p0 (op a a)
    | XH -> a

  (** val to_nat : positive -> nat **)

  let to_nat x =
    iter_op Coq__1.add x (S O)

  (** val of_succ_nat : nat -> positive **)

  let rec of_succ_nat = function
  | O -> XH
  | S x -> succ (of_succ_nat x)
 end

module N =
 struct
  (** val succ_double : n -> n **)

  let succ_double = function
  | N0 -> Npos XH
  | Npos p -> Npos (XI p)

  (** val double : n -> n **)

  let double = function
  | N0 -> N0
  | Npos p -> Npos (XO p)

  (** val sub : n -> n -> n **)

  let sub n0 m =
    match n0 with
    | N0 -> N0
    | Npos n' ->
      (match m with
       | N0 -> n0
       | Npos m' ->
         (match Coq_Pos.sub_mask n' m' with
          | Coq_Pos.IsPos p -> Npos p
          | _ -> N0))

  (** val compare : n -> n -> comparison **)

  let compare n0 m =
    match n0 with
    | N0 -> (match m with
             | N0 -> Eq
             | Npos _ -> Lt)
    | Npos n' -> (match m with
                  | N0 -> Gt
                  | Npos m' -> Coq_Pos.compare n' m')

  (** val leb : n -> n -> bool **)

  let leb x y =
    match compare x y with
    | Gt -> false
    | _ -> true

  (** val pos_div_eucl : positive -> n -> n * n **)

  let rec pos_div_eucl a b =
    match a with
    | XI a' ->
      let (q, r) = pos_div_eucl a' b in
      let r' = succ_double r in
      if leb b r' then ((succ_double q), (sub r' b)) else ((double q), r')
    | XO a' ->
      let (q, r) = pos_div_eucl a' b in
      let r' = double r in
      if leb b r' then ((succ_double q), (sub r' b)) else ((double q), r')
    | XH ->
      (match b with
       | N0 -> (N0, (Npos XH))
       | Npos p -> (match p with
                    | XH -> ((Npos XH), N0)
                    | _ -> (N0, (Npos XH))))
 end

module Z =
 struct
  (** val double : z -> z **)

  let double = function
  | Z0 -> Z0
  | Zpos p -> Zpos (XO p)
  | Zneg p -> Zneg (XO p)

  (** val succ_double : z -> z **)

  let succ_double = function
  | Z0 -> Zpos XH
  | Zpos p -> Zpos (XI p)
  | Zneg p -> Zneg (Coq_Pos.pred_double p)

  (** val pred_double : z -> z **)

  let pred_double = function
  | Z0 -> Zneg XH
  | Zpos p -> Zpos (Coq_Pos.pred_double p)
  | Zneg p -> Zneg (XI p)

  (** val pos_sub : positive -> positive -> z **)

  let rec pos_sub x y =
    match x with
    | XI p ->
      (match y with
       | XI q -> double (pos_sub p q)
       | XO q -> succ_double (pos_sub p q)
       | XH -> Zpos (XO p))
    | XO p ->
      (match y with
       | XI q -> pred_double (pos_sub p q)
       | XO q -> double (pos_sub p q)
       | XH -> Zpos (Coq_Pos.pred_double p))
    | XH ->
      (match y with
       | XI q -> Zneg (XO q)
       | XO q -> Zneg (Coq_Pos.pred_double q)
       | XH -> Z0)

  (** val add : z -> z -> z **)

  let add x y =
    match x with
    | Z0 -> y
    | Zpos x' ->
      (match y with
       | Z0 -> x
       | Zpos y' -> Zpos (Coq_Pos.add x' y')
       | Zneg y' -> pos_sub x' y')
    | Zneg x' ->
      (match y with
       | Z0 -> x
       | Zpos y' -> pos_sub y' x'
       | Zneg y' -> Zneg (Coq_Pos.add x' y'))

  (** val opp : z -> z **)

  let opp = function
  | Z0 -> Z0
  | Zpos x0 -> Zneg x0
  | Zneg x0 -> Zpos x0

  (** val sub : z -> z -> z **)

  let sub m n0 =
    add m (opp n0)

  (** val mul : z -> z -> z **)

  let mul x y =
    match x with
    | Z0 -> Z0
    | Zpos x' ->
      (match y with
       | Z0 -> Z0
       | Zpos y' -> Zpos (Coq_Pos.mul x' y')
       | Zneg y' -> Zneg (Coq_Pos.mul x' y'))
    | Zneg x' ->
      (match y with
       | Z0 -> Z0
       | Zpos y' -> Zneg (Coq_Pos.mul x' y')
       | Zneg y' -> Zpos (Coq_Pos.mul x' y'))

  (** val compare : z -> z -> comparison **)

  let compare x y =
    match x with
    | Z0 -> (match y with
             | Z0 -> Eq
             | Zpos _ -> Lt
             | Zneg _ -> Gt)
    | Zpos x' -> (match y with
                  | Zpos y' -> Coq_Pos.compare x' y'
                  | _ -> Gt)
    | Zneg x' ->
      (match y with
       | Zneg y' -> compOpp (Coq_Pos.compare x' y')
       | _ -> Lt)

  (** val leb : z -> z -> bool **)

  let leb x y =
    match compare x y with
    | Gt -> false
    | _ -> true

  (** val ltb : z -> z -> bool **)

  let ltb x y =
    match compare x y with
    | Lt -> true
    | _ -> false

  (** val eqb : z -> z -> bool **)

  let eqb x y =
    match x with
    | Z0 -> (match y with
             | Z0 -> true
             | _ -> false)
    | Zpos p -> (match y with
                 | Zpos q -> Coq_Pos.eqb p q
                 | _ -> false)
    | Zneg p -> (match y with
                 | Zneg q -> Coq_Pos.eqb p q
                 | _ -> false)

  (** val to_nat : z -> nat **)

  let to_nat = function
  | Zpos p -> Coq_Pos.to_nat p
  | _ -> O

  (** val of_nat : nat -> z **)

  let of_nat = function
  | O -> Z0
  | S n1 -> Zpos (Coq_Pos.of_succ_nat n1)

  (** val of_N : n -> z **)

  let of_N = function
  | N0 -> Z0
  | Npos p -> Zpos p

  (** val pos_div_eucl : positive -> z -> z * z **)

  let rec pos_div_eucl a b =
    match a with
    | XI a' ->
      let (q, r) = pos_div_eucl a' b in
      let r' = add (mul (Zpos (XO XH)) r) (Zpos XH) in
      if ltb r' b
      then ((mul (Zpos (XO XH)) q), r')
      else ((add (mul (Zpos (XO XH)) q) (Zpos XH)), (sub r' b))
    | XO a' ->
      let (q, r) = pos_div_eucl a' b in
      let r' = mul (Zpos (XO XH)) r in
      if ltb r' b
      then ((mul (Zpos (XO XH)) q), r')
      else ((add (mul (Zpos (XO XH)) q) (Zpos XH)), (sub r' b))
    | XH -> if leb (Zpos (XO XH)) b then (Z0, (Zpos XH)) else ((Zpos XH), Z0)

  (** val div_eucl : z -> z -> z * z **)

  let div_eucl a b =
    match a with
    | Z0 -> (Z0, Z0)
    | Zpos a' ->
      (match b with
       | Z0 -> (Z0, a)
       | Zpos _ -> pos_div_eucl a' b
       | Zneg b' ->
         let (q, r) = pos_div_eucl a' (Zpos b') in
         (match r with
          | Z0 -> ((opp q), Z0)
          | _ -> ((opp (add q (Zpos XH))), (add b r))))
    | Zneg a' ->
      (match b with
       | Z0 -> (Z0, a)
       | Zpos _ ->
         let (q, r) = pos_div_eucl a' b in
         (match r with
          | Z0 -> ((opp q), Z0)
          | _ -> ((opp (add q (Zpos XH))), (sub b r)))
       | Zneg b' -> let (q, r) = pos_div_eucl a' (Zpos b') in (q, (opp r)))

  (** val div : z -> z -> z **)

  let div a b =
    let (q, _) = div_eucl a b in q

  (** val quotrem : z -> z -> z * z **)

  let quotrem a b =
    match a with
    | Z0 -> (Z0, Z0)
    | Zpos a0 ->
      (match b with
       | Z0 -> (Z0, a)
       | Zpos b0 ->
         let (q, r) = N.pos_div_eucl a0 (Npos b0) in ((of_N q), (of_N r))
       | Zneg b0 ->
         let (q, r) = N.pos_div_eucl a0 (Npos b0) in
         ((opp (of_N q)), (of_N r)))
    | Zneg a0 ->
      (match b with
       | Z0 -> (Z0, a)
       | Zpos b0 ->
         let (q, r) = N.pos_div_eucl a0 (Npos b0) in
         ((opp (of_N q)), (opp (of_N r)))
       | Zneg b0 ->
         let (q, r) = N.pos_div_eucl a0 (Npos b0) in
         ((of_N q), (opp (of_N r))))

  (** val quot : z -> z -> z **)

  let quot a b =
    fst (quotrem a b)
 end

(** val map : ('a1 -> 'a2) -> 'a1 list -> 'a2 list **)

let rec map f = function
| [] -> []
| a :: t -> (f a) :: (map f t)

(** val fold_left : ('a1 -> 'a2 -> 'a1) -> 'a2 list -> 'a1 -> 'a1 **)

let rec fold_left f l a0 =
  match l with
  | [] -> a0
  | b :: t -> fold_left f t (f a0 b)

(** val seq : nat -> nat -> nat list **)

let rec seq start = function
| O -> []
| S len0 -> start :: (seq (S start) len0)

(** val ex_keep :
    (((((nat * n) * z) * z list) * z option) * positive) * bool **)

let ex_keep =
  ((((((O, N0), Z0), []), None), XH), true)

(** val b2z : bool -> z **)

let b2z = function
| true -> Zpos XH
| false -> Z0

(** val nsteps : z -> z -> z -> z option **)

let nsteps start stop step0 =
  if Z.eqb step0 Z0
  then None
  else Some
         (Z.quot
           (Z.sub (Z.add (Z.sub stop start) step0)
             (Z.sub (b2z (Z.ltb Z0 step0)) (b2z (Z.ltb step0 Z0)))) step0)

(** val target_at : z -> z -> z -> z **)

let target_at start step0 i =
  Z.add start (Z.mul step0 i)

(** val loop_indices : z -> z list **)

let loop_indices n0 =
  map Z.of_nat (seq O (Z.to_nat n0))

(** val prange_values : z -> z -> z -> z list option **)

let prange_values start stop step0 =
  match nsteps start stop step0 with
  | Some n0 -> Some (map (target_at start step0) (loop_indices n0))
  | None -> None

(** val py_range_len : z -> z -> z -> z **)

let py_range_len start stop step0 =
  if Z.ltb Z0 step0
  then if Z.ltb start stop
       then Z.add (Z.div (Z.sub (Z.sub stop start) (Zpos XH)) step0) (Zpos XH)
       else Z0
  else if Z.ltb stop start
       then Z.add (Z.div (Z.sub (Z.sub start stop) (Zpos XH)) (Z.opp step0))
              (Zpos XH)
       else Z0

(** val py_range : z -> z -> z -> z list **)

let py_range start stop step0 =
  map (fun i -> Z.add start (Z.mul step0 (Z.of_nat i)))
    (seq O (Z.to_nat (py_range_len start stop step0)))

type hstate = { saved : z option; pending : (nat * z) list; why : z }

(** val h0 : hstate **)

let h0 =
  { saved = None; pending = []; why = Z0 }

(** val fetch : hstate -> (nat * z) -> hstate **)

let fetch s ev =
  match s.saved with
  | Some _ ->
    { saved = s.saved; pending = (ev :: s.pending); why = (Zpos (XO (XO
      XH))) }
  | None ->
    { saved = (Some (snd ev)); pending = s.pending; why = (Zpos (XO (XO
      XH))) }

type event =
| Err of nat * z
| Exit of nat * z

(** val step : hstate -> event -> hstate **)

let step s = function
| Err (t, e) -> fetch s (t, e)
| Exit (_, k) -> { saved = s.saved; pending = s.pending; why = k }

(** val run : event list -> hstate **)

let run evs =
  fold_left step evs h0

(** val finish : hstate -> (z * z option) * z list **)

let finish s =
  (((match s.saved with
     | Some _ -> Zpos (XO (XO XH))
     | None -> s.why), s.saved), (map snd s.pending))
