
(** val negb : bool -> bool **)

let negb = function
| true -> false
| false -> true

type nat =
| O
| S of nat

(** val fst : ('a1 * 'a2) -> 'a1 **)

let fst = function
| (x, _) -> x

(** val snd : ('a1 * 'a2) -> 'a2 **)

let snd = function
| (_, y) -> y

(** val app : 'a1 list -> 'a1 list -> 'a1 list **)

let rec app l m =
  match l with
  | [] -> m
  | a :: l1 -> a :: (app l1 m)

type comparison =
| Eq
| Lt
| Gt

type positive =
| XI of positive
| XO of positive
| XH

type n =
| N0
| Npos of positive

type z =
| Z0
| Zpos of positive
| Zneg of positive

(** val eqb : bool -> bool -> bool **)

let eqb b1 b2 =
  if b1 then b2 else if b2 then false else true

module Nat =
 struct
  (** val eqb : nat -> nat -> bool **)

  let rec eqb n0 m =
    match n0 with
    | O -> (match m with
            | O -> true
            | S _ -> false)
    | S n' -> (match m with
               | O -> false
               | S m' -> eqb n' m')

  (** val leb : nat -> nat -> bool **)

  let rec leb n0 m =
    match n0 with
    | O -> true
    | S n' -> (match m with
               | O -> false
               | S m' -> leb n' m')

  (** val ltb : nat -> nat -> bool **)

  let ltb n0 m =
    leb (S n0) m
 end

module Pos =
 struct
  type mask =
  | IsNul
  | IsPos of positive
  | IsNeg
 end

module Coq_Pos =
 struct
  (** val succ : positive -> positive **)

  let rec succ = function
  | XI p -> XO (succ p)
  | XO p -> XI p
  | XH -> XO XH

  (** val add : positive -> positive -> positive **)

  let rec add x y =
    match x with
    | XI p ->
      (match y with
       | XI q -> XO (add_carry p q)
       | XO q -> XI (add p q)
       | XH -> XO (succ p))
    | XO p ->
      (match y with
       | XI q -> XI (add p q)
       | XO q -> XO (add p q)
       | XH -> XI p)
    | XH -> (match y with
             | XI q -> XO (succ q)
             | XO q -> XI q
             | XH -> XO XH)

  (** val add_carry : positive -> positive -> positive **)

  and add_carry x y =
    match x with
    | XI p ->
      (match y with
       | XI q -> XI (add_carry p q)
       | XO q -> XO (add_carry p q)
       | XH -> XI (succ p))
    | XO p ->
      (match y with
       | XI q -> XO (add_carry p q)
       | XO q -> XI (add p q)
       | XH -> XO (succ p))
    | XH ->
      (match y with
       | XI q -> XI (succ q)
       | XO q -> XO (succ q)
       | XH -> XI XH)

  (** val pred_double : positive -> positive **)

  let rec pred_double = function
  | XI p -> XI (XO p)
  | XO p -> XI (pred_double p)
  | XH -> XH

  type mask = Pos.mask =
  | IsNul
  | IsPos of positive
  | IsNeg

  (** val succ_double_mask : mask -> mask **)

  let succ_double_mask = function
  | IsNul -> IsPos XH
  | IsPos p -> IsPos (XI p)
  | IsNeg -> IsNeg

  (** val double_mask : mask -> mask **)

  let double_mask = function
  | IsPos p -> IsPos (XO p)
  | x0 -> x0

  (** val double_pred_mask : positive -> mask **)

  let double_pred_mask = function
  | XI p -> IsPos (XO (XO p))
  | XO p -> IsPos (XO (pred_double p))
  | XH -> IsNul

  (** val sub_mask : positive -> positive -> mask **)

  let rec sub_mask x y =
    match x with
    | XI p ->
      (match y with
       | XI q -> double_mask (sub_mask p q)
       | XO q -> succ_double_mask (sub_mask p q)
       | XH -> IsPos (XO p))
    | XO p ->
      (match y with
       | XI q -> succ_double_mask (sub_mask_carry p q)
       | XO q -> double_mask (sub_mask p q)
       | XH -> IsPos (pred_double p))
    | XH -> (match y with
             | XH -> IsNul
             | _ -> IsNeg)

  (** val sub_mask_carry : positive -> positive -> mask **)

  and sub_mask_carry x y =
    match x with
    | XI p ->
      (match y with
       | XI q -> succ_double_mask (sub_mask_carry p q)
       | XO q -> double_mask (sub_mask p q)
       | XH -> IsPos (pred_double p))
    | XO p ->
      (match y with
       | XI q -> double_mask (sub_mask_carry p q)
       | XO q -> succ_double_mask (sub_mask_carry p q)
       | XH -> double_pred_mask p)
    | XH -> IsNeg

  (** val compare_cont : comparison -> positive -> positive -> comparison **)

  let rec compare_cont r x y =
    match x with
    | XI p ->
      (match y with
       | XI q -> compare_cont r p q
       | XO q -> compare_cont Gt p q
       | XH -> Gt)
    | XO p ->
      (match y with
       | XI q -> compare_cont Lt p q
       | XO q -> compare_cont r p q
       | XH -> Gt)
    | XH -> (match y with
             | XH -> r
             | _ -> Lt)

  (** val compare : positive -> positive -> comparison **)

  let compare =
    compare_cont Eq

  (** val eqb : positive -> positive -> bool **)

  let rec eqb p q =
    match p with
    | XI p0 -> (match q with
                | XI q0 -> eqb p0 q0
                | _ -> false)
    | XO p0 -> (match q with
                | XO q0 -> eqb p0 q0
                | _ -> false)
    | XH -> (match q with
             | XH -> true
             | _ -> false)
 end

module N =
 struct
  (** val succ_double : n -> n **)

  let succ_double = function
  | N0 -> Npos XH
  | Npos p -> Npos (XI p)

  (** val double : n -> n **)

  let double = function
  | N0 -> N0
  | Npos p -> Npos (XO p)

  (** val add : n -> n -> n **)

  let add n0 m =
    match n0 with
    | N0 -> m
    | Npos p -> (match m with
                 | N0 -> n0
                 | Npos q -> Npos (Coq_Pos.add p q))

  (** val sub : n -> n -> n **)

  let sub n0 m =
    match n0 with
    | N0 -> N0
    | Npos n' ->
      (match m with
       | N0 -> n0
       | Npos m' ->
         (match Coq_Pos.sub_mask n' m' with
          | Coq_Pos.IsPos p -> Npos p
          | _ -> N0))

  (** val compare : n -> n -> comparison **)

  let compare n0 m =
    match n0 with
    | N0 -> (match m with
             | N0 -> Eq
             | Npos _ -> Lt)
    | Npos n' -> (match m with
                  | N0 -> Gt
                  | Npos m' -> Coq_Pos.compare n' m')

  (** val eqb : n -> n -> bool **)

  let eqb n0 m =
    match n0 with
    | N0 -> (match m with
             | N0 -> true
             | Npos _ -> false)
    | Npos p -> (match m with
                 | N0 -> false
                 | Npos q -> Coq_Pos.eqb p q)

  (** val leb : n -> n -> bool **)

  let leb x y =
    match compare x y with
    | Gt -> false
    | _ -> true

  (** val ltb : n -> n -> bool **)

  let ltb x y =
    match compare x y with
    | Lt -> true
    | _ -> false

  (** val pos_div_eucl : positive -> n -> n * n **)

  let rec pos_div_eucl a b =
    match a with
    | XI a' ->
      let (q, r) = pos_div_eucl a' b in
      let r' = succ_double r in
      if leb b r' then ((succ_double q), (sub r' b)) else ((double q), r')
    | XO a' ->
      let (q, r) = pos_div_eucl a' b in
      let r' = double r in
      if leb b r' then ((succ_double q), (sub r' b)) else ((double q), r')
    | XH ->
      (match b with
       | N0 -> (N0, (Npos XH))
       | Npos p -> (match p with
                    | XH -> ((Npos XH), N0)
                    | _ -> (N0, (Npos XH))))

  (** val div_eucl : n -> n -> n * n **)

  let div_eucl a b =
    match a with
    | N0 -> (N0, N0)
    | Npos na -> (match b with
                  | N0 -> (N0, a)
                  | Npos _ -> pos_div_eucl na b)

  (** val div : n -> n -> n **)

  let div a b =
    fst (div_eucl a b)

  (** val modulo : n -> n -> n **)

  let modulo a b =
    snd (div_eucl a b)
 end

(** val flat_map : ('a1 -> 'a2 list) -> 'a1 list -> 'a2 list **)

let rec flat_map f = function
| [] -> []
| x :: t -> app (f x) (flat_map f t)

(** val existsb : ('a1 -> bool) -> 'a1 list -> bool **)

let rec existsb f = function
| [] -> false
| a :: l0 -> (||) (f a) (existsb f l0)

(** val ex_keep :
    (((((nat * n) * z) * z list) * z option) * positive) * bool **)

let ex_keep =
  ((((((O, N0), Z0), []), None), XH), true)

(** val gen_binop_prec : (n list * nat) list **)

let gen_binop_prec =
  (((Npos (XI (XO (XO (XO (XO XH)))))) :: ((Npos (XI (XO (XI (XI (XI
    XH)))))) :: [])), (S (S (S (S O))))) :: ((((Npos (XI (XO (XI (XO (XO
    XH)))))) :: []), (S (S (S (S (S (S (S (S (S (S O))))))))))) :: ((((Npos
    (XO (XI (XI (XO (XO XH)))))) :: []), (S (S (S (S (S (S (S
    O)))))))) :: ((((Npos (XO (XI (XO (XI (XO XH)))))) :: []), (S (S (S (S (S
    (S (S (S (S (S O))))))))))) :: ((((Npos (XO (XI (XO (XI (XO
    XH)))))) :: ((Npos (XO (XI (XO (XI (XO XH)))))) :: [])), (S (S (S (S (S
    (S (S (S (S (S (S (S O))))))))))))) :: ((((Npos (XI (XI (XO (XI (XO
    XH)))))) :: []), (S (S (S (S (S (S (S (S (S O)))))))))) :: ((((Npos (XI
    (XO (XI (XI (XO XH)))))) :: []), (S (S (S (S (S (S (S (S (S
    O)))))))))) :: ((((Npos (XI (XI (XI (XI (XO XH)))))) :: []), (S (S (S (S
    (S (S (S (S (S (S O))))))))))) :: ((((Npos (XI (XI (XI (XI (XO
    XH)))))) :: ((Npos (XI (XI (XI (XI (XO XH)))))) :: [])), (S (S (S (S (S
    (S (S (S (S (S O))))))))))) :: ((((Npos (XO (XO (XI (XI (XI
    XH)))))) :: []), (S (S (S (S O))))) :: ((((Npos (XO (XO (XI (XI (XI
    XH)))))) :: ((Npos (XO (XO (XI (XI (XI XH)))))) :: [])), (S (S (S (S (S
    (S (S (S O))))))))) :: ((((Npos (XO (XO (XI (XI (XI XH)))))) :: ((Npos
    (XI (XO (XI (XI (XI XH)))))) :: [])), (S (S (S (S O))))) :: ((((Npos (XI
    (XO (XI (XI (XI XH)))))) :: ((Npos (XI (XO (XI (XI (XI XH)))))) :: [])),
    (S (S (S (S O))))) :: ((((Npos (XO (XI (XI (XI (XI XH)))))) :: []), (S (S
    (S (S O))))) :: ((((Npos (XO (XI (XI (XI (XI XH)))))) :: ((Npos (XI (XO
    (XI (XI (XI XH)))))) :: [])), (S (S (S (S O))))) :: ((((Npos (XO (XI (XI
    (XI (XI XH)))))) :: ((Npos (XO (XI (XI (XI (XI XH)))))) :: [])), (S (S (S
    (S (S (S (S (S O))))))))) :: ((((Npos (XO (XO (XO (XO (XO (XO
    XH))))))) :: []), (S (S (S (S (S (S (S (S (S (S O))))))))))) :: ((((Npos
    (XO (XI (XI (XI (XI (XO XH))))))) :: []), (S (S (S (S (S (S
    O))))))) :: ((((Npos (XI (XO (XO (XO (XO (XI XH))))))) :: ((Npos (XO (XI
    (XI (XI (XO (XI XH))))))) :: ((Npos (XO (XO (XI (XO (XO (XI
    XH))))))) :: []))), (S (S O))) :: ((((Npos (XI (XO (XO (XI (XO (XI
    XH))))))) :: ((Npos (XO (XI (XI (XI (XO (XI XH))))))) :: [])), (S (S (S
    (S O))))) :: ((((Npos (XI (XO (XO (XI (XO (XI XH))))))) :: ((Npos (XI (XI
    (XO (XO (XI (XI XH))))))) :: [])), (S (S (S (S O))))) :: ((((Npos (XI (XO
    (XO (XI (XO (XI XH))))))) :: ((Npos (XI (XI (XO (XO (XI (XI
    XH))))))) :: ((Npos (XI (XI (XI (XI (XI (XO XH))))))) :: ((Npos (XO (XI
    (XI (XI (XO (XI XH))))))) :: ((Npos (XI (XI (XI (XI (XO (XI
    XH))))))) :: ((Npos (XO (XO (XI (XO (XI (XI XH))))))) :: [])))))), (S (S
    (S (S O))))) :: ((((Npos (XO (XI (XI (XI (XO (XI XH))))))) :: ((Npos (XI
    (XI (XI (XI (XO (XI XH))))))) :: ((Npos (XO (XO (XI (XO (XI (XI
    XH))))))) :: ((Npos (XI (XI (XI (XI (XI (XO XH))))))) :: ((Npos (XI (XO
    (XO (XI (XO (XI XH))))))) :: ((Npos (XO (XI (XI (XI (XO (XI
    XH))))))) :: [])))))), (S (S (S (S O))))) :: ((((Npos (XI (XI (XI (XI (XO
    (XI XH))))))) :: ((Npos (XO (XI (XO (XO (XI (XI XH))))))) :: [])), (S
    O)) :: ((((Npos (XO (XO (XI (XI (XI (XI XH))))))) :: []), (S (S (S (S (S
    O)))))) :: []))))))))))))))))))))))))

(** val gen_unop_prec : (n list * nat) list **)

let gen_unop_prec =
  (((Npos (XI (XO (XO (XO (XO XH)))))) :: []), (S (S (S O)))) :: ((((Npos (XI
    (XI (XO (XI (XO XH)))))) :: []), (S (S (S (S (S (S (S (S (S (S (S
    O)))))))))))) :: ((((Npos (XI (XO (XI (XI (XO XH)))))) :: []), (S (S (S
    (S (S (S (S (S (S (S (S O)))))))))))) :: ((((Npos (XO (XI (XI (XI (XO (XI
    XH))))))) :: ((Npos (XI (XI (XI (XI (XO (XI XH))))))) :: ((Npos (XO (XO
    (XI (XO (XI (XI XH))))))) :: []))), (S (S (S O)))) :: ((((Npos (XO (XI
    (XI (XI (XI (XI XH))))))) :: []), (S (S (S (S (S (S (S (S (S (S (S
    O)))))))))))) :: []))))

(** val gen_test_prec : nat **)

let gen_test_prec =
  O

(** val gen_atom_prec : nat **)

let gen_atom_prec =
  S (S (S (S (S (S (S (S (S (S (S (S (S O))))))))))))

type text = n list

(** val text_eqb : text -> text -> bool **)

let rec text_eqb a b =
  match a with
  | [] -> (match b with
           | [] -> true
           | _ :: _ -> false)
  | x :: a' ->
    (match b with
     | [] -> false
     | y :: b' -> (&&) (N.eqb x y) (text_eqb a' b'))

type unop =
| UNeg
| UPos
| UInv

type binop =
| BAdd
| BSub
| BMul
| BMatMul
| BDiv
| BFloorDiv
| BMod
| BLShift
| BRShift
| BAnd
| BOr
| BXor
| BPow

type cmpop =
| CLt
| CLe
| CGt
| CGe
| CEq
| CNe
| CIn
| CNotIn
| CIs
| CIsNot

type boolop =
| LAnd
| LOr

type numkind =
| KInt
| KFloat
| KImag

type expr =
| EName of text
| ENum of numkind * bool * text
| EStr of text
| EBytes of text
| ETrue
| EFalse
| ENone
| EEllipsis
| EUn of unop * expr
| ENot of expr
| EBin of binop * expr * expr
| ECmp of expr * cmpop * expr * cmps
| EBool of boolop * expr * expr
| ECond of expr * expr * expr
| ETuple of exprs
| EList of exprs
| ESet of exprs
| EDict of items
| EAttr of expr * text
| ESub of expr * expr
| ECall of expr * exprs
| ELambda of text list * expr
and exprs =
| ENil
| ECons of expr * exprs
and items =
| INil
| ICons of expr * expr * items
and cmps =
| CNil
| CCons of cmpop * expr * cmps

type layout =
| Tight
| Spaced
| After
| Before

type optok =
| OAdd
| OSub
| OMul
| OMatMul
| ODiv
| OFloorDiv
| OMod
| OLShift
| ORShift
| OBitAnd
| OBitOr
| OBitXor
| OPow
| OInv
| OLt
| OLe
| OGt
| OGe
| OEq
| ONe

type kw =
| KNot
| KAnd
| KOr
| KIn
| KIs
| KIf
| KElse
| KLambda

type tok =
| TName of text
| TNum of numkind * text
| TStr of text
| TBytes of text
| TTrue
| TFalse
| TNone
| TEllipsis
| TOp of optok * layout
| TKw of kw * layout
| TLpar
| TRpar
| TLbrk
| TRbrk
| TLbrace
| TRbrace
| TComma of layout
| TColon
| TDot

(** val name_un : unop -> text **)

let name_un = function
| UNeg -> (Npos (XI (XO (XI (XI (XO XH)))))) :: []
| UPos -> (Npos (XI (XI (XO (XI (XO XH)))))) :: []
| UInv -> (Npos (XO (XI (XI (XI (XI (XI XH))))))) :: []

(** val name_bin : binop -> text **)

let name_bin = function
| BAdd -> (Npos (XI (XI (XO (XI (XO XH)))))) :: []
| BSub -> (Npos (XI (XO (XI (XI (XO XH)))))) :: []
| BMul -> (Npos (XO (XI (XO (XI (XO XH)))))) :: []
| BMatMul -> (Npos (XO (XO (XO (XO (XO (XO XH))))))) :: []
| BDiv -> (Npos (XI (XI (XI (XI (XO XH)))))) :: []
| BFloorDiv ->
  (Npos (XI (XI (XI (XI (XO XH)))))) :: ((Npos (XI (XI (XI (XI (XO
    XH)))))) :: [])
| BMod -> (Npos (XI (XO (XI (XO (XO XH)))))) :: []
| BLShift ->
  (Npos (XO (XO (XI (XI (XI XH)))))) :: ((Npos (XO (XO (XI (XI (XI
    XH)))))) :: [])
| BRShift ->
  (Npos (XO (XI (XI (XI (XI XH)))))) :: ((Npos (XO (XI (XI (XI (XI
    XH)))))) :: [])
| BAnd -> (Npos (XO (XI (XI (XO (XO XH)))))) :: []
| BOr -> (Npos (XO (XO (XI (XI (XI (XI XH))))))) :: []
| BXor -> (Npos (XO (XI (XI (XI (XI (XO XH))))))) :: []
| BPow ->
  (Npos (XO (XI (XO (XI (XO XH)))))) :: ((Npos (XO (XI (XO (XI (XO
    XH)))))) :: [])

(** val name_cmp : cmpop -> text **)

let name_cmp = function
| CLt -> (Npos (XO (XO (XI (XI (XI XH)))))) :: []
| CLe ->
  (Npos (XO (XO (XI (XI (XI XH)))))) :: ((Npos (XI (XO (XI (XI (XI
    XH)))))) :: [])
| CGt -> (Npos (XO (XI (XI (XI (XI XH)))))) :: []
| CGe ->
  (Npos (XO (XI (XI (XI (XI XH)))))) :: ((Npos (XI (XO (XI (XI (XI
    XH)))))) :: [])
| CEq ->
  (Npos (XI (XO (XI (XI (XI XH)))))) :: ((Npos (XI (XO (XI (XI (XI
    XH)))))) :: [])
| CNe ->
  (Npos (XI (XO (XO (XO (XO XH)))))) :: ((Npos (XI (XO (XI (XI (XI
    XH)))))) :: [])
| CIn ->
  (Npos (XI (XO (XO (XI (XO (XI XH))))))) :: ((Npos (XO (XI (XI (XI (XO (XI
    XH))))))) :: [])
| CNotIn ->
  (Npos (XO (XI (XI (XI (XO (XI XH))))))) :: ((Npos (XI (XI (XI (XI (XO (XI
    XH))))))) :: ((Npos (XO (XO (XI (XO (XI (XI XH))))))) :: ((Npos (XI (XI
    (XI (XI (XI (XO XH))))))) :: ((Npos (XI (XO (XO (XI (XO (XI
    XH))))))) :: ((Npos (XO (XI (XI (XI (XO (XI XH))))))) :: [])))))
| CIs ->
  (Npos (XI (XO (XO (XI (XO (XI XH))))))) :: ((Npos (XI (XI (XO (XO (XI (XI
    XH))))))) :: [])
| CIsNot ->
  (Npos (XI (XO (XO (XI (XO (XI XH))))))) :: ((Npos (XI (XI (XO (XO (XI (XI
    XH))))))) :: ((Npos (XI (XI (XI (XI (XI (XO XH))))))) :: ((Npos (XO (XI
    (XI (XI (XO (XI XH))))))) :: ((Npos (XI (XI (XI (XI (XO (XI
    XH))))))) :: ((Npos (XO (XO (XI (XO (XI (XI XH))))))) :: [])))))

(** val name_bool : boolop -> text **)

let name_bool = function
| LAnd ->
  (Npos (XI (XO (XO (XO (XO (XI XH))))))) :: ((Npos (XO (XI (XI (XI (XO (XI
    XH))))))) :: ((Npos (XO (XO (XI (XO (XO (XI XH))))))) :: []))
| LOr ->
  (Npos (XI (XI (XI (XI (XO (XI XH))))))) :: ((Npos (XO (XI (XO (XO (XI (XI
    XH))))))) :: [])

(** val lookup : text -> (text * nat) list -> nat -> nat **)

let rec lookup k tbl d =
  match tbl with
  | [] -> d
  | p :: tl -> let (k', v) = p in if text_eqb k k' then v else lookup k tl d

(** val prec_bin : binop -> nat **)

let prec_bin o =
  lookup (name_bin o) gen_binop_prec O

(** val prec_cmp : cmpop -> nat **)

let prec_cmp o =
  lookup (name_cmp o) gen_binop_prec O

(** val prec_bool : boolop -> nat **)

let prec_bool o =
  lookup (name_bool o) gen_binop_prec O

(** val prec_un : unop -> nat **)

let prec_un o =
  lookup (name_un o) gen_unop_prec O

(** val prec_not : nat **)

let prec_not =
  lookup ((Npos (XO (XI (XI (XI (XO (XI XH))))))) :: ((Npos (XI (XI (XI (XI
    (XO (XI XH))))))) :: ((Npos (XO (XO (XI (XO (XI (XI XH))))))) :: [])))
    gen_unop_prec O

(** val test_prec : nat **)

let test_prec =
  gen_test_prec

(** val atom_prec : nat **)

let atom_prec =
  gen_atom_prec

(** val tok_un : unop -> optok **)

let tok_un = function
| UNeg -> OSub
| UPos -> OAdd
| UInv -> OInv

(** val tok_bin : binop -> optok **)

let tok_bin = function
| BAdd -> OAdd
| BSub -> OSub
| BMul -> OMul
| BMatMul -> OMatMul
| BDiv -> ODiv
| BFloorDiv -> OFloorDiv
| BMod -> OMod
| BLShift -> OLShift
| BRShift -> ORShift
| BAnd -> OBitAnd
| BOr -> OBitOr
| BXor -> OBitXor
| BPow -> OPow

(** val cmp_toks : cmpop -> tok list **)

let cmp_toks = function
| CLt -> (TOp (OLt, Spaced)) :: []
| CLe -> (TOp (OLe, Spaced)) :: []
| CGt -> (TOp (OGt, Spaced)) :: []
| CGe -> (TOp (OGe, Spaced)) :: []
| CEq -> (TOp (OEq, Spaced)) :: []
| CNe -> (TOp (ONe, Spaced)) :: []
| CIn -> (TKw (KIn, Spaced)) :: []
| CNotIn -> (TKw (KNot, Before)) :: ((TKw (KIn, Spaced)) :: [])
| CIs -> (TKw (KIs, Spaced)) :: []
| CIsNot -> (TKw (KIs, Before)) :: ((TKw (KNot, Spaced)) :: [])

(** val kw_bool : boolop -> kw **)

let kw_bool = function
| LAnd -> KAnd
| LOr -> KOr

(** val wrap : bool -> tok list -> tok list **)

let wrap b ts =
  if b then TLpar :: (app ts (TRpar :: [])) else ts

(** val name_toks : text list -> tok list **)

let rec name_toks = function
| [] -> []
| p :: tl ->
  (match tl with
   | [] -> (TName p) :: []
   | _ :: _ -> (TName p) :: ((TComma After) :: (name_toks tl)))

(** val lambda_head : text list -> tok list **)

let lambda_head ps =
  (TKw (KLambda,
    (match ps with
     | [] -> Tight
     | _ :: _ -> After))) :: (app (name_toks ps) (TColon :: []))

(** val is_single : exprs -> bool **)

let is_single = function
| ENil -> false
| ECons (_, l0) -> (match l0 with
                    | ENil -> true
                    | ECons (_, _) -> false)

(** val tuple_comma : exprs -> tok list **)

let tuple_comma l =
  if is_single l then (TComma Tight) :: [] else []

(** val pr_old : nat -> expr -> tok list **)

let rec pr_old top = function
| EName s -> (TName s) :: []
| ENum (k, neg, s) ->
  if neg
  then (TOp (OSub, Tight)) :: ((TNum (k, s)) :: [])
  else (TNum (k, s)) :: []
| EStr s -> (TStr s) :: []
| EBytes s -> (TBytes s) :: []
| ETrue -> TTrue :: []
| EFalse -> TFalse :: []
| ENone -> TNone :: []
| EUn (o, a) ->
  let p = prec_un o in
  wrap (Nat.ltb p top) ((TOp ((tok_un o), Tight)) :: (pr_old p a))
| ENot a ->
  wrap (Nat.ltb prec_not top) ((TKw (KNot, After)) :: (pr_old prec_not a))
| EBin (o, a, b) ->
  let p = prec_bin o in
  let plain =
    wrap (Nat.ltb p top)
      (app (pr_old p a)
        (app ((TOp ((tok_bin o), Spaced)) :: []) (pr_old p b)))
  in
  (match o with
   | BMul ->
     (match a with
      | ETuple l ->
        TLpar :: (app (seqt_old top l (pr_old top b)) (TRpar :: []))
      | EList l ->
        TLbrk :: (app (seqt_old top l (pr_old top b)) (TRbrk :: []))
      | _ -> plain)
   | _ -> plain)
| ECmp (a, o, b, _) ->
  let p = prec_cmp o in
  wrap (Nat.ltb p top) (app (pr_old p a) (app (cmp_toks o) (pr_old p b)))
| EBool (o, a, b) ->
  let p = prec_bool o in
  wrap (Nat.ltb p top)
    (app (pr_old p a) (app ((TKw ((kw_bool o), Spaced)) :: []) (pr_old p b)))
| ECond (tv, c, fv) ->
  app (pr_old top tv)
    (app ((TKw (KIf, Spaced)) :: [])
      (app (pr_old top c) (app ((TKw (KElse, Spaced)) :: []) (pr_old top fv))))
| ETuple l -> TLpar :: (app (seq_old top l) (TRpar :: []))
| EList l -> TLbrk :: (app (seq_old top l) (TRbrk :: []))
| ESet l ->
  (match l with
   | ENil ->
     (TName ((Npos (XI (XI (XO (XO (XI (XI XH))))))) :: ((Npos (XI (XO (XI
       (XO (XO (XI XH))))))) :: ((Npos (XO (XO (XI (XO (XI (XI
       XH))))))) :: [])))) :: (TLpar :: (TRpar :: []))
   | ECons (_, _) -> TLbrace :: (app (seq_old top l) (TRbrace :: [])))
| EDict l -> TLbrace :: (app (items_old top l) (TRbrace :: []))
| EAttr (a, n0) -> app (pr_old top a) (TDot :: ((TName n0) :: []))
| ESub (a, i) ->
  app (pr_old top a)
    (app (TLbrk :: [])
      (app
        (match i with
         | EBin (o, a0, b) ->
           (match o with
            | BMul ->
              (match a0 with
               | ETuple l -> seqt_old top l (pr_old top b)
               | _ -> pr_old top i)
            | _ -> pr_old top i)
         | ETuple l ->
           (match l with
            | ENil -> TLpar :: (TRpar :: [])
            | ECons (_, _) -> seq_old top l)
         | _ -> pr_old top i) (TRbrk :: [])))
| ECall (fn, args) ->
  app (pr_old top fn) (TLpar :: (app (seq_old top args) (TRpar :: [])))
| _ -> TEllipsis :: []

(** val seq_old : nat -> exprs -> tok list **)

and seq_old top = function
| ENil -> []
| ECons (e, l') ->
  (match l' with
   | ENil -> pr_old top e
   | ECons (_, _) ->
     app (pr_old top e) (app ((TComma After) :: []) (seq_old top l')))

(** val seqt_old : nat -> exprs -> tok list -> tok list **)

and seqt_old top l last =
  match l with
  | ENil -> last
  | ECons (e, l') ->
    app (pr_old top e) (app ((TComma After) :: []) (seqt_old top l' last))

(** val items_old : nat -> items -> tok list **)

and items_old top = function
| INil -> []
| ICons (k, v, l') ->
  app (pr_old top k)
    (app (TColon :: [])
      (app (pr_old top v)
        (match l' with
         | INil -> []
         | ICons (_, _, _) -> app ((TComma After) :: []) (items_old top l'))))

(** val pr_new : nat -> expr -> tok list **)

let rec pr_new top = function
| EName s -> (TName s) :: []
| ENum (k, neg, s) ->
  if neg
  then wrap (Nat.ltb (prec_un UNeg) top) ((TOp (OSub, Tight)) :: ((TNum (k,
         s)) :: []))
  else (TNum (k, s)) :: []
| EStr s -> (TStr s) :: []
| EBytes s -> (TBytes s) :: []
| ETrue -> TTrue :: []
| EFalse -> TFalse :: []
| ENone -> TNone :: []
| EEllipsis -> TEllipsis :: []
| EUn (o, a) ->
  let p = prec_un o in
  wrap (Nat.ltb p top) ((TOp ((tok_un o), Tight)) :: (pr_new p a))
| ENot a ->
  wrap (Nat.ltb prec_not top) ((TKw (KNot, After)) :: (pr_new prec_not a))
| EBin (o, a, b) ->
  let p = prec_bin o in
  wrap (Nat.ltb p top)
    (match o with
     | BPow ->
       app (pr_new (S p) a)
         (app ((TOp (OPow, Spaced)) :: []) (pr_new (prec_un UNeg) b))
     | _ ->
       app (pr_new p a)
         (app ((TOp ((tok_bin o), Spaced)) :: []) (pr_new (S p) b)))
| ECmp (a, o, b, r) ->
  let p = prec_cmp o in
  wrap (Nat.ltb p top)
    (app (pr_new (S p) a)
      (app (cmp_toks o) (app (pr_new (S p) b) (cmps_new (S p) r))))
| EBool (o, a, b) ->
  let p = prec_bool o in
  wrap (Nat.ltb p top)
    (app (pr_new (S p) a)
      (app ((TKw ((kw_bool o), Spaced)) :: []) (pr_new p b)))
| ECond (tv, c, fv) ->
  wrap (Nat.ltb test_prec top)
    (app (pr_new (prec_bool LOr) tv)
      (app ((TKw (KIf, Spaced)) :: [])
        (app (pr_new (prec_bool LOr) c)
          (app ((TKw (KElse, Spaced)) :: []) (pr_new test_prec fv)))))
| ETuple l -> TLpar :: (app (seq_new l) (app (tuple_comma l) (TRpar :: [])))
| EList l -> TLbrk :: (app (seq_new l) (TRbrk :: []))
| ESet l ->
  (match l with
   | ENil ->
     (TName ((Npos (XI (XI (XO (XO (XI (XI XH))))))) :: ((Npos (XI (XO (XI
       (XO (XO (XI XH))))))) :: ((Npos (XO (XO (XI (XO (XI (XI
       XH))))))) :: [])))) :: (TLpar :: (TRpar :: []))
   | ECons (_, _) -> TLbrace :: (app (seq_new l) (TRbrace :: [])))
| EDict l -> TLbrace :: (app (items_new l) (TRbrace :: []))
| EAttr (a, n0) ->
  app
    (match a with
     | ENum (k, _, _) ->
       (match k with
        | KInt -> TLpar :: (app (pr_new test_prec a) (TRpar :: []))
        | _ -> pr_new atom_prec a)
     | _ -> pr_new atom_prec a) (TDot :: ((TName n0) :: []))
| ESub (a, i) ->
  app (pr_new atom_prec a)
    (app (TLbrk :: [])
      (app
        (match i with
         | ETuple l ->
           (match l with
            | ENil -> TLpar :: (TRpar :: [])
            | ECons (_, _) -> app (seq_new l) (tuple_comma l))
         | _ -> pr_new test_prec i) (TRbrk :: [])))
| ECall (fn, args) ->
  app (pr_new atom_prec fn) (TLpar :: (app (seq_new args) (TRpar :: [])))
| ELambda (ps, b) ->
  wrap (Nat.ltb test_prec top) (app (lambda_head ps) (pr_new test_prec b))

(** val seq_new : exprs -> tok list **)

and seq_new = function
| ENil -> []
| ECons (e, l') ->
  (match l' with
   | ENil -> pr_new test_prec e
   | ECons (_, _) ->
     app (pr_new test_prec e) (app ((TComma After) :: []) (seq_new l')))

(** val items_new : items -> tok list **)

and items_new = function
| INil -> []
| ICons (k, v, l') ->
  app (pr_new test_prec k)
    (app (TColon :: [])
      (app (pr_new test_prec v)
        (match l' with
         | INil -> []
         | ICons (_, _, _) -> app ((TComma After) :: []) (items_new l'))))

(** val cmps_new : nat -> cmps -> tok list **)

and cmps_new p = function
| CNil -> []
| CCons (o, e, l') -> app (cmp_toks o) (app (pr_new p e) (cmps_new p l'))

(** val print : bool -> expr -> tok list **)

let print fixed e =
  if fixed then pr_new O e else pr_old O e

(** val hexdig : n -> n **)

let hexdig n0 =
  if N.ltb n0 (Npos (XO (XI (XO XH))))
  then N.add (Npos (XO (XO (XO (XO (XI XH)))))) n0
  else N.add (Npos (XI (XI (XI (XO (XI (XO XH))))))) n0

(** val hex2 : n -> text **)

let hex2 c =
  (hexdig (N.div c (Npos (XO (XO (XO (XO XH))))))) :: ((hexdig
                                                         (N.modulo c (Npos
                                                           (XO (XO (XO (XO
                                                           XH))))))) :: [])

(** val has : n -> text -> bool **)

let has c s =
  existsb (N.eqb c) s

(** val quote_of : text -> n **)

let quote_of s =
  if (&&) (has (Npos (XI (XI (XI (XO (XO XH)))))) s)
       (negb (has (Npos (XO (XI (XO (XO (XO XH)))))) s))
  then Npos (XO (XI (XO (XO (XO XH)))))
  else Npos (XI (XI (XI (XO (XO XH)))))

(** val str_escape : n -> n -> text **)

let str_escape q c =
  if (||) (N.eqb c q) (N.eqb c (Npos (XO (XO (XI (XI (XI (XO XH))))))))
  then (Npos (XO (XO (XI (XI (XI (XO XH))))))) :: (c :: [])
  else if N.eqb c (Npos (XI (XO (XO XH))))
       then (Npos (XO (XO (XI (XI (XI (XO XH))))))) :: ((Npos (XO (XO (XI (XO
              (XI (XI XH))))))) :: [])
       else if N.eqb c (Npos (XO (XI (XO XH))))
            then (Npos (XO (XO (XI (XI (XI (XO XH))))))) :: ((Npos (XO (XI
                   (XI (XI (XO (XI XH))))))) :: [])
            else if N.eqb c (Npos (XI (XO (XI XH))))
                 then (Npos (XO (XO (XI (XI (XI (XO XH))))))) :: ((Npos (XO
                        (XI (XO (XO (XI (XI XH))))))) :: [])
                 else if (||) (N.ltb c (Npos (XO (XO (XO (XO (XO XH)))))))
                           (N.eqb c (Npos (XI (XI (XI (XI (XI (XI XH))))))))
                      then (Npos (XO (XO (XI (XI (XI (XO XH))))))) :: ((Npos
                             (XO (XO (XO (XI (XI (XI XH))))))) :: (hex2 c))
                      else if N.ltb c (Npos (XI (XI (XI (XI (XI (XI XH)))))))
                           then c :: []
                           else if (||)
                                     (N.ltb c (Npos (XI (XO (XO (XO (XO (XI
                                       (XO XH)))))))))
                                     (N.eqb c (Npos (XI (XO (XI (XI (XO (XI
                                       (XO XH)))))))))
                                then (Npos (XO (XO (XI (XI (XI (XO
                                       XH))))))) :: ((Npos (XO (XO (XO (XI
                                       (XI (XI XH))))))) :: (hex2 c))
                                else c :: []

(** val bytes_escape : n -> n -> text **)

let bytes_escape q c =
  if (||) (N.eqb c q) (N.eqb c (Npos (XO (XO (XI (XI (XI (XO XH))))))))
  then (Npos (XO (XO (XI (XI (XI (XO XH))))))) :: (c :: [])
  else if N.eqb c (Npos (XI (XO (XO XH))))
       then (Npos (XO (XO (XI (XI (XI (XO XH))))))) :: ((Npos (XO (XO (XI (XO
              (XI (XI XH))))))) :: [])
       else if N.eqb c (Npos (XO (XI (XO XH))))
            then (Npos (XO (XO (XI (XI (XI (XO XH))))))) :: ((Npos (XO (XI
                   (XI (XI (XO (XI XH))))))) :: [])
            else if N.eqb c (Npos (XI (XO (XI XH))))
                 then (Npos (XO (XO (XI (XI (XI (XO XH))))))) :: ((Npos (XO
                        (XI (XO (XO (XI (XI XH))))))) :: [])
                 else if (||) (N.ltb c (Npos (XO (XO (XO (XO (XO XH)))))))
                           (N.leb (Npos (XI (XI (XI (XI (XI (XI XH))))))) c)
                      then (Npos (XO (XO (XI (XI (XI (XO XH))))))) :: ((Npos
                             (XO (XO (XO (XI (XI (XI XH))))))) :: (hex2 c))
                      else c :: []

(** val repr_str : text -> text **)

let repr_str s =
  let q = quote_of s in q :: (app (flat_map (str_escape q) s) (q :: []))

(** val repr_bytes : text -> text **)

let repr_bytes s =
  let q = quote_of s in
  (Npos (XO (XI (XO (XO (XO (XI
  XH))))))) :: (q :: (app (flat_map (bytes_escape q) s) (q :: [])))

(** val op_text : optok -> text **)

let op_text = function
| OAdd -> (Npos (XI (XI (XO (XI (XO XH)))))) :: []
| OSub -> (Npos (XI (XO (XI (XI (XO XH)))))) :: []
| OMul -> (Npos (XO (XI (XO (XI (XO XH)))))) :: []
| OMatMul -> (Npos (XO (XO (XO (XO (XO (XO XH))))))) :: []
| ODiv -> (Npos (XI (XI (XI (XI (XO XH)))))) :: []
| OFloorDiv ->
  (Npos (XI (XI (XI (XI (XO XH)))))) :: ((Npos (XI (XI (XI (XI (XO
    XH)))))) :: [])
| OMod -> (Npos (XI (XO (XI (XO (XO XH)))))) :: []
| OLShift ->
  (Npos (XO (XO (XI (XI (XI XH)))))) :: ((Npos (XO (XO (XI (XI (XI
    XH)))))) :: [])
| ORShift ->
  (Npos (XO (XI (XI (XI (XI XH)))))) :: ((Npos (XO (XI (XI (XI (XI
    XH)))))) :: [])
| OBitAnd -> (Npos (XO (XI (XI (XO (XO XH)))))) :: []
| OBitOr -> (Npos (XO (XO (XI (XI (XI (XI XH))))))) :: []
| OBitXor -> (Npos (XO (XI (XI (XI (XI (XO XH))))))) :: []
| OPow ->
  (Npos (XO (XI (XO (XI (XO XH)))))) :: ((Npos (XO (XI (XO (XI (XO
    XH)))))) :: [])
| OInv -> (Npos (XO (XI (XI (XI (XI (XI XH))))))) :: []
| OLt -> (Npos (XO (XO (XI (XI (XI XH)))))) :: []
| OLe ->
  (Npos (XO (XO (XI (XI (XI XH)))))) :: ((Npos (XI (XO (XI (XI (XI
    XH)))))) :: [])
| OGt -> (Npos (XO (XI (XI (XI (XI XH)))))) :: []
| OGe ->
  (Npos (XO (XI (XI (XI (XI XH)))))) :: ((Npos (XI (XO (XI (XI (XI
    XH)))))) :: [])
| OEq ->
  (Npos (XI (XO (XI (XI (XI XH)))))) :: ((Npos (XI (XO (XI (XI (XI
    XH)))))) :: [])
| ONe ->
  (Npos (XI (XO (XO (XO (XO XH)))))) :: ((Npos (XI (XO (XI (XI (XI
    XH)))))) :: [])

(** val kw_text : kw -> text **)

let kw_text = function
| KNot ->
  (Npos (XO (XI (XI (XI (XO (XI XH))))))) :: ((Npos (XI (XI (XI (XI (XO (XI
    XH))))))) :: ((Npos (XO (XO (XI (XO (XI (XI XH))))))) :: []))
| KAnd ->
  (Npos (XI (XO (XO (XO (XO (XI XH))))))) :: ((Npos (XO (XI (XI (XI (XO (XI
    XH))))))) :: ((Npos (XO (XO (XI (XO (XO (XI XH))))))) :: []))
| KOr ->
  (Npos (XI (XI (XI (XI (XO (XI XH))))))) :: ((Npos (XO (XI (XO (XO (XI (XI
    XH))))))) :: [])
| KIn ->
  (Npos (XI (XO (XO (XI (XO (XI XH))))))) :: ((Npos (XO (XI (XI (XI (XO (XI
    XH))))))) :: [])
| KIs ->
  (Npos (XI (XO (XO (XI (XO (XI XH))))))) :: ((Npos (XI (XI (XO (XO (XI (XI
    XH))))))) :: [])
| KIf ->
  (Npos (XI (XO (XO (XI (XO (XI XH))))))) :: ((Npos (XO (XI (XI (XO (XO (XI
    XH))))))) :: [])
| KElse ->
  (Npos (XI (XO (XI (XO (XO (XI XH))))))) :: ((Npos (XO (XO (XI (XI (XO (XI
    XH))))))) :: ((Npos (XI (XI (XO (XO (XI (XI XH))))))) :: ((Npos (XI (XO
    (XI (XO (XO (XI XH))))))) :: [])))
| KLambda ->
  (Npos (XO (XO (XI (XI (XO (XI XH))))))) :: ((Npos (XI (XO (XO (XO (XO (XI
    XH))))))) :: ((Npos (XI (XO (XI (XI (XO (XI XH))))))) :: ((Npos (XO (XI
    (XO (XO (XO (XI XH))))))) :: ((Npos (XO (XO (XI (XO (XO (XI
    XH))))))) :: ((Npos (XI (XO (XO (XO (XO (XI XH))))))) :: [])))))

(** val lay : layout -> text -> text **)

let lay l s =
  match l with
  | Tight -> s
  | Spaced ->
    (Npos (XO (XO (XO (XO (XO
      XH)))))) :: (app s ((Npos (XO (XO (XO (XO (XO XH)))))) :: []))
  | After -> app s ((Npos (XO (XO (XO (XO (XO XH)))))) :: [])
  | Before -> (Npos (XO (XO (XO (XO (XO XH)))))) :: s

(** val tok_text : tok -> text **)

let tok_text = function
| TName s -> s
| TNum (_, s) -> s
| TStr s -> repr_str s
| TBytes s -> repr_bytes s
| TTrue ->
  (Npos (XO (XO (XI (XO (XI (XO XH))))))) :: ((Npos (XO (XI (XO (XO (XI (XI
    XH))))))) :: ((Npos (XI (XO (XI (XO (XI (XI XH))))))) :: ((Npos (XI (XO
    (XI (XO (XO (XI XH))))))) :: [])))
| TFalse ->
  (Npos (XO (XI (XI (XO (XO (XO XH))))))) :: ((Npos (XI (XO (XO (XO (XO (XI
    XH))))))) :: ((Npos (XO (XO (XI (XI (XO (XI XH))))))) :: ((Npos (XI (XI
    (XO (XO (XI (XI XH))))))) :: ((Npos (XI (XO (XI (XO (XO (XI
    XH))))))) :: []))))
| TNone ->
  (Npos (XO (XI (XI (XI (XO (XO XH))))))) :: ((Npos (XI (XI (XI (XI (XO (XI
    XH))))))) :: ((Npos (XO (XI (XI (XI (XO (XI XH))))))) :: ((Npos (XI (XO
    (XI (XO (XO (XI XH))))))) :: [])))
| TEllipsis ->
  (Npos (XO (XI (XI (XI (XO XH)))))) :: ((Npos (XO (XI (XI (XI (XO
    XH)))))) :: ((Npos (XO (XI (XI (XI (XO XH)))))) :: []))
| TOp (o, l) -> lay l (op_text o)
| TKw (k, l) -> lay l (kw_text k)
| TLpar -> (Npos (XO (XO (XO (XI (XO XH)))))) :: []
| TRpar -> (Npos (XI (XO (XO (XI (XO XH)))))) :: []
| TLbrk -> (Npos (XI (XI (XO (XI (XI (XO XH))))))) :: []
| TRbrk -> (Npos (XI (XO (XI (XI (XI (XO XH))))))) :: []
| TLbrace -> (Npos (XI (XI (XO (XI (XI (XI XH))))))) :: []
| TRbrace -> (Npos (XI (XO (XI (XI (XI (XI XH))))))) :: []
| TComma l -> lay l ((Npos (XO (XO (XI (XI (XO XH)))))) :: [])
| TColon ->
  (Npos (XO (XI (XO (XI (XI XH)))))) :: ((Npos (XO (XO (XO (XO (XO
    XH)))))) :: [])
| TDot -> (Npos (XO (XI (XI (XI (XO XH)))))) :: []

(** val render : tok list -> text **)

let render ts =
  flat_map tok_text ts

type 'a res =
| Ok of 'a * tok list
| Err
| OutOfFuel

(** val bind : 'a1 res -> ('a1 -> tok list -> 'a2 res) -> 'a2 res **)

let bind r k =
  match r with
  | Ok (a, rest) -> k a rest
  | Err -> Err
  | OutOfFuel -> OutOfFuel

(** val binop_of_tok : optok -> (binop * nat) option **)

let binop_of_tok = function
| OAdd -> Some (BAdd, (S (S (S (S (S (S (S (S (S O))))))))))
| OSub -> Some (BSub, (S (S (S (S (S (S (S (S (S O))))))))))
| OMul -> Some (BMul, (S (S (S (S (S (S (S (S (S (S O)))))))))))
| OMatMul -> Some (BMatMul, (S (S (S (S (S (S (S (S (S (S O)))))))))))
| ODiv -> Some (BDiv, (S (S (S (S (S (S (S (S (S (S O)))))))))))
| OFloorDiv -> Some (BFloorDiv, (S (S (S (S (S (S (S (S (S (S O)))))))))))
| OMod -> Some (BMod, (S (S (S (S (S (S (S (S (S (S O)))))))))))
| OLShift -> Some (BLShift, (S (S (S (S (S (S (S (S O)))))))))
| ORShift -> Some (BRShift, (S (S (S (S (S (S (S (S O)))))))))
| OBitAnd -> Some (BAnd, (S (S (S (S (S (S (S O))))))))
| OBitOr -> Some (BOr, (S (S (S (S (S O))))))
| OBitXor -> Some (BXor, (S (S (S (S (S (S O)))))))
| _ -> None

(** val unop_of_tok : optok -> unop option **)

let unop_of_tok = function
| OAdd -> Some UPos
| OSub -> Some UNeg
| OInv -> Some UInv
| _ -> None

(** val cmpop_of : tok list -> (cmpop * tok list) option **)

let cmpop_of = function
| [] -> None
| t :: r ->
  (match t with
   | TOp (o, _) ->
     (match o with
      | OLt -> Some (CLt, r)
      | OLe -> Some (CLe, r)
      | OGt -> Some (CGt, r)
      | OGe -> Some (CGe, r)
      | OEq -> Some (CEq, r)
      | ONe -> Some (CNe, r)
      | _ -> None)
   | TKw (k, _) ->
     (match k with
      | KNot ->
        (match r with
         | [] -> None
         | t0 :: r0 ->
           (match t0 with
            | TKw (k0, _) ->
              (match k0 with
               | KIn -> Some (CNotIn, r0)
               | _ -> None)
            | _ -> None))
      | KIn -> Some (CIn, r)
      | KIs ->
        (match r with
         | [] -> Some (CIs, r)
         | t0 :: r0 ->
           (match t0 with
            | TKw (k0, _) ->
              (match k0 with
               | KNot -> Some (CIsNot, r0)
               | _ -> Some (CIs, r))
            | _ -> Some (CIs, r)))
      | _ -> None)
   | _ -> None)

(** val mk_un : unop -> expr -> expr **)

let mk_un u a =
  match u with
  | UNeg ->
    (match a with
     | ENum (k, neg, s) ->
       (match k with
        | KImag -> EUn (u, a)
        | _ -> if neg then EUn (u, a) else ENum (k, true, s))
     | _ -> EUn (u, a))
  | _ -> EUn (u, a)

(** val pnames : tok list -> text list * tok list **)

let rec pnames ts = match ts with
| [] -> ([], ts)
| t :: ts' ->
  (match t with
   | TName n0 ->
     (match ts' with
      | [] -> ((n0 :: []), ts')
      | t0 :: ts'0 ->
        (match t0 with
         | TComma _ -> let (l, r) = pnames ts'0 in ((n0 :: l), r)
         | _ -> ((n0 :: []), ts')))
   | _ -> ([], ts))

(** val closer : tok list -> bool **)

let closer = function
| [] -> true
| t :: _ ->
  (match t with
   | TRpar -> true
   | TRbrk -> true
   | TRbrace -> true
   | _ -> false)

(** val parse : nat -> nat -> tok list -> expr res **)

let rec parse f l ts =
  match f with
  | O -> OutOfFuel
  | S f' ->
    (match l with
     | O ->
       (match ts with
        | [] ->
          bind (parse f' (S O) ts) (fun c r ->
            match r with
            | [] -> Ok (c, r)
            | t :: r1 ->
              (match t with
               | TKw (k, _) ->
                 (match k with
                  | KIf ->
                    bind (parse f' (S O) r1) (fun cnd r2 ->
                      match r2 with
                      | [] -> Err
                      | t0 :: r3 ->
                        (match t0 with
                         | TKw (k0, _) ->
                           (match k0 with
                            | KElse ->
                              bind (parse f' O r3) (fun fv r4 -> Ok ((ECond
                                (c, cnd, fv)), r4))
                            | _ -> Err)
                         | _ -> Err))
                  | _ -> Ok (c, r))
               | _ -> Ok (c, r)))
        | t :: ts1 ->
          (match t with
           | TKw (k, _) ->
             (match k with
              | KLambda ->
                let (ps, ts2) = pnames ts1 in
                (match ts2 with
                 | [] -> Err
                 | t0 :: ts3 ->
                   (match t0 with
                    | TColon ->
                      bind (parse f' O ts3) (fun b r -> Ok ((ELambda (ps,
                        b)), r))
                    | _ -> Err))
              | _ ->
                bind (parse f' (S O) ts) (fun c r ->
                  match r with
                  | [] -> Ok (c, r)
                  | t0 :: r1 ->
                    (match t0 with
                     | TKw (k0, _) ->
                       (match k0 with
                        | KIf ->
                          bind (parse f' (S O) r1) (fun cnd r2 ->
                            match r2 with
                            | [] -> Err
                            | t1 :: r3 ->
                              (match t1 with
                               | TKw (k1, _) ->
                                 (match k1 with
                                  | KElse ->
                                    bind (parse f' O r3) (fun fv r4 -> Ok
                                      ((ECond (c, cnd, fv)), r4))
                                  | _ -> Err)
                               | _ -> Err))
                        | _ -> Ok (c, r))
                     | _ -> Ok (c, r))))
           | _ ->
             bind (parse f' (S O) ts) (fun c r ->
               match r with
               | [] -> Ok (c, r)
               | t0 :: r1 ->
                 (match t0 with
                  | TKw (k, _) ->
                    (match k with
                     | KIf ->
                       bind (parse f' (S O) r1) (fun cnd r2 ->
                         match r2 with
                         | [] -> Err
                         | t1 :: r3 ->
                           (match t1 with
                            | TKw (k0, _) ->
                              (match k0 with
                               | KElse ->
                                 bind (parse f' O r3) (fun fv r4 -> Ok
                                   ((ECond (c, cnd, fv)), r4))
                               | _ -> Err)
                            | _ -> Err))
                     | _ -> Ok (c, r))
                  | _ -> Ok (c, r)))))
     | S n0 ->
       (match n0 with
        | O ->
          bind (parse f' (S (S O)) ts) (fun a r ->
            match r with
            | [] -> Ok (a, r)
            | t :: r1 ->
              (match t with
               | TKw (k, _) ->
                 (match k with
                  | KOr ->
                    bind (parse f' (S O) r1) (fun b r2 -> Ok ((EBool (LOr, a,
                      b)), r2))
                  | _ -> Ok (a, r))
               | _ -> Ok (a, r)))
        | S n1 ->
          (match n1 with
           | O ->
             bind (parse f' (S (S (S O))) ts) (fun a r ->
               match r with
               | [] -> Ok (a, r)
               | t :: r1 ->
                 (match t with
                  | TKw (k, _) ->
                    (match k with
                     | KAnd ->
                       bind (parse f' (S (S O)) r1) (fun b r2 -> Ok ((EBool
                         (LAnd, a, b)), r2))
                     | _ -> Ok (a, r))
                  | _ -> Ok (a, r)))
           | S n2 ->
             (match n2 with
              | O ->
                (match ts with
                 | [] -> parse f' (S (S (S (S O)))) ts
                 | t :: ts1 ->
                   (match t with
                    | TKw (k, _) ->
                      (match k with
                       | KNot ->
                         bind (parse f' (S (S (S O))) ts1) (fun a r -> Ok
                           ((ENot a), r))
                       | _ -> parse f' (S (S (S (S O)))) ts)
                    | _ -> parse f' (S (S (S (S O)))) ts))
              | S n3 ->
                (match n3 with
                 | O ->
                   bind (parse f' (S (S (S (S (S O))))) ts) (fun a r ->
                     match cmpop_of r with
                     | Some p ->
                       let (o, r1) = p in
                       bind (parse f' (S (S (S (S (S O))))) r1) (fun b r2 ->
                         bind (pcmps f' r2) (fun cs r3 -> Ok ((ECmp (a, o, b,
                           cs)), r3)))
                     | None -> Ok (a, r))
                 | S n4 ->
                   (match n4 with
                    | O ->
                      if Nat.leb l (S (S (S (S (S (S (S (S (S (S O))))))))))
                      then bind (parse f' (S l) ts) (fun a r -> loop f' l a r)
                      else Err
                    | S n5 ->
                      (match n5 with
                       | O ->
                         if Nat.leb l (S (S (S (S (S (S (S (S (S (S
                              O))))))))))
                         then bind (parse f' (S l) ts) (fun a r ->
                                loop f' l a r)
                         else Err
                       | S n6 ->
                         (match n6 with
                          | O ->
                            if Nat.leb l (S (S (S (S (S (S (S (S (S (S
                                 O))))))))))
                            then bind (parse f' (S l) ts) (fun a r ->
                                   loop f' l a r)
                            else Err
                          | S n7 ->
                            (match n7 with
                             | O ->
                               if Nat.leb l (S (S (S (S (S (S (S (S (S (S
                                    O))))))))))
                               then bind (parse f' (S l) ts) (fun a r ->
                                      loop f' l a r)
                               else Err
                             | S n8 ->
                               (match n8 with
                                | O ->
                                  if Nat.leb l (S (S (S (S (S (S (S (S (S (S
                                       O))))))))))
                                  then bind (parse f' (S l) ts) (fun a r ->
                                         loop f' l a r)
                                  else Err
                                | S n9 ->
                                  (match n9 with
                                   | O ->
                                     if Nat.leb l (S (S (S (S (S (S (S (S (S
                                          (S O))))))))))
                                     then bind (parse f' (S l) ts)
                                            (fun a r -> loop f' l a r)
                                     else Err
                                   | S n10 ->
                                     (match n10 with
                                      | O ->
                                        (match ts with
                                         | [] ->
                                           parse f' (S (S (S (S (S (S (S (S
                                             (S (S (S (S O)))))))))))) ts
                                         | t :: ts1 ->
                                           (match t with
                                            | TOp (o, _) ->
                                              (match unop_of_tok o with
                                               | Some u ->
                                                 bind
                                                   (parse f' (S (S (S (S (S
                                                     (S (S (S (S (S (S
                                                     O))))))))))) ts1)
                                                   (fun a r -> Ok
                                                   ((mk_un u a), r))
                                               | None ->
                                                 parse f' (S (S (S (S (S (S
                                                   (S (S (S (S (S (S
                                                   O)))))))))))) ts)
                                            | _ ->
                                              parse f' (S (S (S (S (S (S (S
                                                (S (S (S (S (S O))))))))))))
                                                ts))
                                      | S n11 ->
                                        (match n11 with
                                         | O ->
                                           bind
                                             (parse f' (S (S (S (S (S (S (S
                                               (S (S (S (S (S (S
                                               O))))))))))))) ts) (fun a r ->
                                             match r with
                                             | [] -> Ok (a, r)
                                             | t :: r1 ->
                                               (match t with
                                                | TOp (o, _) ->
                                                  (match o with
                                                   | OPow ->
                                                     bind
                                                       (parse f' (S (S (S (S
                                                         (S (S (S (S (S (S (S
                                                         O))))))))))) r1)
                                                       (fun b r2 -> Ok ((EBin
                                                       (BPow, a, b)), r2))
                                                   | _ -> Ok (a, r))
                                                | _ -> Ok (a, r)))
                                         | S n12 ->
                                           (match n12 with
                                            | O ->
                                              bind (atom f' ts) (fun a r ->
                                                postfix f' a r)
                                            | S _ ->
                                              if Nat.leb l (S (S (S (S (S (S
                                                   (S (S (S (S O))))))))))
                                              then bind (parse f' (S l) ts)
                                                     (fun a r ->
                                                     loop f' l a r)
                                              else Err))))))))))))))

(** val loop : nat -> nat -> expr -> tok list -> expr res **)

and loop f l acc ts =
  match f with
  | O -> OutOfFuel
  | S f' ->
    (match ts with
     | [] -> Ok (acc, ts)
     | t :: ts1 ->
       (match t with
        | TOp (o, _) ->
          (match binop_of_tok o with
           | Some p ->
             let (b, lv) = p in
             if Nat.eqb lv l
             then bind (parse f' (S l) ts1) (fun x r ->
                    loop f' l (EBin (b, acc, x)) r)
             else Ok (acc, ts)
           | None -> Ok (acc, ts))
        | _ -> Ok (acc, ts)))

(** val pcmps : nat -> tok list -> cmps res **)

and pcmps f ts =
  match f with
  | O -> OutOfFuel
  | S f' ->
    (match cmpop_of ts with
     | Some p ->
       let (o, r1) = p in
       bind (parse f' (S (S (S (S (S O))))) r1) (fun b r2 ->
         bind (pcmps f' r2) (fun cs r3 -> Ok ((CCons (o, b, cs)), r3)))
     | None -> Ok (CNil, ts))

(** val pseq : nat -> tok list -> exprs res **)

and pseq f ts =
  match f with
  | O -> OutOfFuel
  | S f' ->
    if closer ts
    then Ok (ENil, ts)
    else bind (parse f' O ts) (fun e r ->
           match r with
           | [] -> Ok ((ECons (e, ENil)), r)
           | t :: r1 ->
             (match t with
              | TComma _ ->
                bind (pseq f' r1) (fun l r2 -> Ok ((ECons (e, l)), r2))
              | _ -> Ok ((ECons (e, ENil)), r)))

(** val pitems : nat -> tok list -> items res **)

and pitems f ts =
  match f with
  | O -> OutOfFuel
  | S f' ->
    if closer ts
    then Ok (INil, ts)
    else bind (parse f' O ts) (fun k r ->
           match r with
           | [] -> Err
           | t :: r1 ->
             (match t with
              | TColon ->
                bind (parse f' O r1) (fun v r2 ->
                  match r2 with
                  | [] -> Ok ((ICons (k, v, INil)), r2)
                  | t0 :: r3 ->
                    (match t0 with
                     | TComma _ ->
                       bind (pitems f' r3) (fun l r4 -> Ok ((ICons (k, v,
                         l)), r4))
                     | _ -> Ok ((ICons (k, v, INil)), r2)))
              | _ -> Err))

(** val atom : nat -> tok list -> expr res **)

and atom f ts =
  match f with
  | O -> OutOfFuel
  | S f' ->
    (match ts with
     | [] -> Err
     | t :: r1 ->
       (match t with
        | TName s -> Ok ((EName s), r1)
        | TNum (k, s) -> Ok ((ENum (k, false, s)), r1)
        | TStr s -> Ok ((EStr s), r1)
        | TBytes s -> Ok ((EBytes s), r1)
        | TTrue -> Ok (ETrue, r1)
        | TFalse -> Ok (EFalse, r1)
        | TNone -> Ok (ENone, r1)
        | TEllipsis -> Ok (EEllipsis, r1)
        | TLpar ->
          if closer r1
          then (match r1 with
                | [] -> Err
                | t0 :: r2 ->
                  (match t0 with
                   | TRpar -> Ok ((ETuple ENil), r2)
                   | _ -> Err))
          else bind (parse f' O r1) (fun e r2 ->
                 match r2 with
                 | [] -> Err
                 | t0 :: r3 ->
                   (match t0 with
                    | TRpar -> Ok (e, r3)
                    | TComma _ ->
                      bind (pseq f' r3) (fun l r4 ->
                        match r4 with
                        | [] -> Err
                        | t1 :: r5 ->
                          (match t1 with
                           | TRpar -> Ok ((ETuple (ECons (e, l))), r5)
                           | _ -> Err))
                    | _ -> Err))
        | TLbrk ->
          bind (pseq f' r1) (fun l r2 ->
            match r2 with
            | [] -> Err
            | t0 :: r3 ->
              (match t0 with
               | TRbrk -> Ok ((EList l), r3)
               | _ -> Err))
        | TLbrace ->
          if closer r1
          then (match r1 with
                | [] -> Err
                | t0 :: r2 ->
                  (match t0 with
                   | TRbrace -> Ok ((EDict INil), r2)
                   | _ -> Err))
          else bind (parse f' O r1) (fun k r2 ->
                 match r2 with
                 | [] -> Err
                 | t0 :: r3 ->
                   (match t0 with
                    | TRbrace -> Ok ((ESet (ECons (k, ENil))), r3)
                    | TComma _ ->
                      bind (pseq f' r3) (fun l r4 ->
                        match r4 with
                        | [] -> Err
                        | t1 :: r5 ->
                          (match t1 with
                           | TRbrace -> Ok ((ESet (ECons (k, l))), r5)
                           | _ -> Err))
                    | TColon ->
                      bind (parse f' O r3) (fun v r4 ->
                        match r4 with
                        | [] -> Err
                        | t1 :: r5 ->
                          (match t1 with
                           | TRbrace -> Ok ((EDict (ICons (k, v, INil))), r5)
                           | TComma _ ->
                             bind (pitems f' r5) (fun l r6 ->
                               match r6 with
                               | [] -> Err
                               | t2 :: r7 ->
                                 (match t2 with
                                  | TRbrace ->
                                    Ok ((EDict (ICons (k, v, l))), r7)
                                  | _ -> Err))
                           | _ -> Err))
                    | _ -> Err))
        | _ -> Err))

(** val postfix : nat -> expr -> tok list -> expr res **)

and postfix f acc ts =
  match f with
  | O -> OutOfFuel
  | S f' ->
    (match ts with
     | [] -> Ok (acc, ts)
     | t :: r1 ->
       (match t with
        | TLpar ->
          bind (pseq f' r1) (fun l r2 ->
            match r2 with
            | [] -> Err
            | t0 :: r3 ->
              (match t0 with
               | TRpar -> postfix f' (ECall (acc, l)) r3
               | _ -> Err))
        | TLbrk ->
          bind (parse f' O r1) (fun i r2 ->
            match r2 with
            | [] -> Err
            | t0 :: r3 ->
              (match t0 with
               | TRbrk -> postfix f' (ESub (acc, i)) r3
               | TComma _ ->
                 bind (pseq f' r3) (fun l r4 ->
                   match r4 with
                   | [] -> Err
                   | t1 :: r5 ->
                     (match t1 with
                      | TRbrk ->
                        postfix f' (ESub (acc, (ETuple (ECons (i, l))))) r5
                      | _ -> Err))
               | _ -> Err))
        | TDot ->
          (match r1 with
           | [] -> Ok (acc, ts)
           | t0 :: r ->
             (match t0 with
              | TName n0 -> postfix f' (EAttr (acc, n0)) r
              | _ -> Ok (acc, ts)))
        | _ -> Ok (acc, ts)))

type reparsed =
| RExpr of expr
| RError
| RTrailing
| ROutOfFuel

(** val reparse : nat -> tok list -> reparsed **)

let reparse fuel ts =
  match parse fuel O ts with
  | Ok (e, rest) -> (match rest with
                     | [] -> RExpr e
                     | _ :: _ -> RTrailing)
  | Err -> RError
  | OutOfFuel -> ROutOfFuel

(** val unop_eqb : unop -> unop -> bool **)

let unop_eqb a b =
  match a with
  | UNeg -> (match b with
             | UNeg -> true
             | _ -> false)
  | UPos -> (match b with
             | UPos -> true
             | _ -> false)
  | UInv -> (match b with
             | UInv -> true
             | _ -> false)

(** val binop_eqb : binop -> binop -> bool **)

let binop_eqb a b =
  match a with
  | BAdd -> (match b with
             | BAdd -> true
             | _ -> false)
  | BSub -> (match b with
             | BSub -> true
             | _ -> false)
  | BMul -> (match b with
             | BMul -> true
             | _ -> false)
  | BMatMul -> (match b with
                | BMatMul -> true
                | _ -> false)
  | BDiv -> (match b with
             | BDiv -> true
             | _ -> false)
  | BFloorDiv -> (match b with
                  | BFloorDiv -> true
                  | _ -> false)
  | BMod -> (match b with
             | BMod -> true
             | _ -> false)
  | BLShift -> (match b with
                | BLShift -> true
                | _ -> false)
  | BRShift -> (match b with
                | BRShift -> true
                | _ -> false)
  | BAnd -> (match b with
             | BAnd -> true
             | _ -> false)
  | BOr -> (match b with
            | BOr -> true
            | _ -> false)
  | BXor -> (match b with
             | BXor -> true
             | _ -> false)
  | BPow -> (match b with
             | BPow -> true
             | _ -> false)

(** val cmpop_eqb : cmpop -> cmpop -> bool **)

let cmpop_eqb a b =
  match a with
  | CLt -> (match b with
            | CLt -> true
            | _ -> false)
  | CLe -> (match b with
            | CLe -> true
            | _ -> false)
  | CGt -> (match b with
            | CGt -> true
            | _ -> false)
  | CGe -> (match b with
            | CGe -> true
            | _ -> false)
  | CEq -> (match b with
            | CEq -> true
            | _ -> false)
  | CNe -> (match b with
            | CNe -> true
            | _ -> false)
  | CIn -> (match b with
            | CIn -> true
            | _ -> false)
  | CNotIn -> (match b with
               | CNotIn -> true
               | _ -> false)
  | CIs -> (match b with
            | CIs -> true
            | _ -> false)
  | CIsNot -> (match b with
               | CIsNot -> true
               | _ -> false)

(** val boolop_eqb : boolop -> boolop -> bool **)

let boolop_eqb a b =
  match a with
  | LAnd -> (match b with
             | LAnd -> true
             | LOr -> false)
  | LOr -> (match b with
            | LAnd -> false
            | LOr -> true)

(** val numkind_eqb : numkind -> numkind -> bool **)

let numkind_eqb a b =
  match a with
  | KInt -> (match b with
             | KInt -> true
             | _ -> false)
  | KFloat -> (match b with
               | KFloat -> true
               | _ -> false)
  | KImag -> (match b with
              | KImag -> true
              | _ -> false)

(** val names_eqb : text list -> text list -> bool **)

let rec names_eqb a b =
  match a with
  | [] -> (match b with
           | [] -> true
           | _ :: _ -> false)
  | x :: a' ->
    (match b with
     | [] -> false
     | y :: b' -> (&&) (text_eqb x y) (names_eqb a' b'))

(** val expr_eqb : expr -> expr -> bool **)

let rec expr_eqb x y =
  match x with
  | EName a -> (match y with
                | EName b -> text_eqb a b
                | _ -> false)
  | ENum (k, n0, a) ->
    (match y with
     | ENum (k', n', b) ->
       (&&) ((&&) (numkind_eqb k k') (eqb n0 n')) (text_eqb a b)
     | _ -> false)
  | EStr a -> (match y with
               | EStr b -> text_eqb a b
               | _ -> false)
  | EBytes a -> (match y with
                 | EBytes b -> text_eqb a b
                 | _ -> false)
  | ETrue -> (match y with
              | ETrue -> true
              | _ -> false)
  | EFalse -> (match y with
               | EFalse -> true
               | _ -> false)
  | ENone -> (match y with
              | ENone -> true
              | _ -> false)
  | EEllipsis -> (match y with
                  | EEllipsis -> true
                  | _ -> false)
  | EUn (o, a) ->
    (match y with
     | EUn (o', b) -> (&&) (unop_eqb o o') (expr_eqb a b)
     | _ -> false)
  | ENot a -> (match y with
               | ENot b -> expr_eqb a b
               | _ -> false)
  | EBin (o, a, b) ->
    (match y with
     | EBin (o', a', b') ->
       (&&) ((&&) (binop_eqb o o') (expr_eqb a a')) (expr_eqb b b')
     | _ -> false)
  | ECmp (a, o, b, r) ->
    (match y with
     | ECmp (a', o', b', r') ->
       (&&) ((&&) ((&&) (cmpop_eqb o o') (expr_eqb a a')) (expr_eqb b b'))
         (cmps_eqb r r')
     | _ -> false)
  | EBool (o, a, b) ->
    (match y with
     | EBool (o', a', b') ->
       (&&) ((&&) (boolop_eqb o o') (expr_eqb a a')) (expr_eqb b b')
     | _ -> false)
  | ECond (a, b, c) ->
    (match y with
     | ECond (a', b', c') ->
       (&&) ((&&) (expr_eqb a a') (expr_eqb b b')) (expr_eqb c c')
     | _ -> false)
  | ETuple l -> (match y with
                 | ETuple l' -> exprs_eqb l l'
                 | _ -> false)
  | EList l -> (match y with
                | EList l' -> exprs_eqb l l'
                | _ -> false)
  | ESet l -> (match y with
               | ESet l' -> exprs_eqb l l'
               | _ -> false)
  | EDict l -> (match y with
                | EDict l' -> items_eqb l l'
                | _ -> false)
  | EAttr (a, n0) ->
    (match y with
     | EAttr (a', n') -> (&&) (expr_eqb a a') (text_eqb n0 n')
     | _ -> false)
  | ESub (a, i) ->
    (match y with
     | ESub (a', i') -> (&&) (expr_eqb a a') (expr_eqb i i')
     | _ -> false)
  | ECall (a, l) ->
    (match y with
     | ECall (a', l') -> (&&) (expr_eqb a a') (exprs_eqb l l')
     | _ -> false)
  | ELambda (p, b) ->
    (match y with
     | ELambda (p', b') -> (&&) (names_eqb p p') (expr_eqb b b')
     | _ -> false)

(** val exprs_eqb : exprs -> exprs -> bool **)

and exprs_eqb x y =
  match x with
  | ENil -> (match y with
             | ENil -> true
             | ECons (_, _) -> false)
  | ECons (a, l) ->
    (match y with
     | ENil -> false
     | ECons (a', l') -> (&&) (expr_eqb a a') (exprs_eqb l l'))

(** val items_eqb : items -> items -> bool **)

and items_eqb x y =
  match x with
  | INil -> (match y with
             | INil -> true
             | ICons (_, _, _) -> false)
  | ICons (k, v, l) ->
    (match y with
     | INil -> false
     | ICons (k', v', l') ->
       (&&) ((&&) (expr_eqb k k') (expr_eqb v v')) (items_eqb l l'))

(** val cmps_eqb : cmps -> cmps -> bool **)

and cmps_eqb x y =
  match x with
  | CNil -> (match y with
             | CNil -> true
             | CCons (_, _, _) -> false)
  | CCons (o, a, l) ->
    (match y with
     | CNil -> false
     | CCons (o', a', l') ->
       (&&) ((&&) (cmpop_eqb o o') (expr_eqb a a')) (cmps_eqb l l'))

(** val not_plain_num : expr -> bool **)

let not_plain_num = function
| ENum (k, neg, _) -> (match k with
                       | KImag -> true
                       | _ -> neg)
| _ -> true

(** val wf : expr -> bool **)

let rec wf = function
| ENum (k, neg, _) ->
  (match k with
   | KImag -> if neg then false else true
   | _ -> true)
| EUn (o, a) -> (&&) (wf a) (match o with
                             | UNeg -> not_plain_num a
                             | _ -> true)
| ENot a -> wf a
| EBin (_, a, b) -> (&&) (wf a) (wf b)
| ECmp (a, _, b, r) -> (&&) ((&&) (wf a) (wf b)) (wf_cmps r)
| EBool (_, a, b) -> (&&) (wf a) (wf b)
| ECond (a, b, c) -> (&&) ((&&) (wf a) (wf b)) (wf c)
| ETuple l -> wf_seq l
| EList l -> wf_seq l
| ESet l ->
  (&&) (wf_seq l) (match l with
                   | ENil -> false
                   | ECons (_, _) -> true)
| EDict l -> wf_items l
| EAttr (a, _) -> wf a
| ESub (a, i) -> (&&) (wf a) (wf i)
| ECall (a, l) -> (&&) (wf a) (wf_seq l)
| ELambda (_, b) -> wf b
| _ -> true

(** val wf_seq : exprs -> bool **)

and wf_seq = function
| ENil -> true
| ECons (e, l') -> (&&) (wf e) (wf_seq l')

(** val wf_items : items -> bool **)

and wf_items = function
| INil -> true
| ICons (k, v, l') -> (&&) ((&&) (wf k) (wf v)) (wf_items l')

(** val wf_cmps : cmps -> bool **)

and wf_cmps = function
| CNil -> true
| CCons (_, e, l') -> (&&) (wf e) (wf_cmps l')

type skind =
| KFunc
| KLam
| KClass

type scope =
| Scope of skind * text * bool * scopes
and scopes =
| SNil
| SCons of scope * scopes

type qname = text list

(** val locals_t : text **)

let locals_t =
  (Npos (XO (XO (XI (XI (XI XH)))))) :: ((Npos (XO (XO (XI (XI (XO (XI
    XH))))))) :: ((Npos (XI (XI (XI (XI (XO (XI XH))))))) :: ((Npos (XI (XI
    (XO (XO (XO (XI XH))))))) :: ((Npos (XI (XO (XO (XO (XO (XI
    XH))))))) :: ((Npos (XO (XO (XI (XI (XO (XI XH))))))) :: ((Npos (XI (XI
    (XO (XO (XI (XI XH))))))) :: ((Npos (XO (XI (XI (XI (XI
    XH)))))) :: [])))))))

(** val lambda_t : text **)

let lambda_t =
  (Npos (XO (XO (XI (XI (XI XH)))))) :: ((Npos (XO (XO (XI (XI (XO (XI
    XH))))))) :: ((Npos (XI (XO (XO (XO (XO (XI XH))))))) :: ((Npos (XI (XO
    (XI (XI (XO (XI XH))))))) :: ((Npos (XO (XI (XO (XO (XO (XI
    XH))))))) :: ((Npos (XO (XO (XI (XO (XO (XI XH))))))) :: ((Npos (XI (XO
    (XO (XO (XO (XI XH))))))) :: ((Npos (XO (XI (XI (XI (XI
    XH)))))) :: [])))))))

(** val sname : skind -> text -> text **)

let sname k name =
  match k with
  | KLam -> lambda_t
  | _ -> name

(** val rule_qualname :
    (skind * qname) option -> skind -> text -> bool -> qname **)

let rule_qualname parent k name glob =
  match parent with
  | Some p ->
    let (pk, pq) = p in
    (match pk with
     | KClass -> app pq ((sname k name) :: [])
     | _ ->
       if glob
       then (sname k name) :: []
       else app pq (locals_t :: ((sname k name) :: [])))
  | None -> (sname k name) :: []

(** val rule_walk : (skind * qname) option -> scope -> qname list **)

let rec rule_walk parent = function
| Scope (k, name, glob, ch) ->
  let q = rule_qualname parent k name glob in
  q :: (rule_walks (Some (k, q)) ch)

(** val rule_walks : (skind * qname) option -> scopes -> qname list **)

and rule_walks parent = function
| SNil -> []
| SCons (s, l') -> app (rule_walk parent s) (rule_walks parent l')

(** val cy_node_qualname :
    bool -> qname -> bool -> skind -> text -> bool -> qname **)

let cy_node_qualname fixed st infunc k name glob =
  match k with
  | KFunc ->
    if (&&) ((&&) fixed infunc) glob then name :: [] else app st (name :: [])
  | KLam -> app st (lambda_t :: [])
  | KClass -> if (&&) infunc glob then name :: [] else app st (name :: [])

(** val cy_child_state :
    bool -> qname -> bool -> skind -> text -> bool -> qname **)

let cy_child_state fixed st infunc k name glob =
  match k with
  | KFunc ->
    app
      (if (&&) ((&&) fixed infunc) glob
       then name :: []
       else app st (name :: [])) (locals_t :: [])
  | KLam -> app st (lambda_t :: (locals_t :: []))
  | KClass -> if (&&) infunc glob then name :: [] else app st (name :: [])

(** val cy_walk : bool -> qname -> bool -> scope -> qname list **)

let rec cy_walk fixed st infunc = function
| Scope (k, name, glob, ch) ->
  (cy_node_qualname fixed st infunc k name glob) :: (cy_walks fixed
                                                      (cy_child_state fixed
                                                        st infunc k name glob)
                                                      (match k with
                                                       | KClass -> false
                                                       | _ -> true) ch)

(** val cy_walks : bool -> qname -> bool -> scopes -> qname list **)

and cy_walks fixed st infunc = function
| SNil -> []
| SCons (s, l') ->
  app (cy_walk fixed st infunc s) (cy_walks fixed st infunc l')

(** val cy_module : bool -> scopes -> qname list **)

let cy_module fixed l =
  cy_walks fixed [] false l

(** val rule_module : scopes -> qname list **)

let rule_module l =
  rule_walks None l
