
type nat =
| O
| S of nat

(** val option_map : ('a1 -> 'a2) -> 'a1 option -> 'a2 option **)

let option_map f = function
| Some a -> Some (f a)
| None -> None

(** val fst : ('a1 * 'a2) -> 'a1 **)

let fst = function
| (x, _) -> x

(** val snd : ('a1 * 'a2) -> 'a2 **)

let snd = function
| (_, y) -> y

(** val length : 'a1 list -> nat **)

let rec length = function
| [] -> O
| _ :: l' -> S (length l')

(** val app : 'a1 list -> 'a1 list -> 'a1 list **)

let rec app l m =
  match l with
  | [] -> m
  | a :: l1 -> a :: (app l1 m)

type comparison =
| Eq
| Lt
| Gt

(** val add : nat -> nat -> nat **)

let rec add n0 m =
  match n0 with
  | O -> m
  | S p -> S (add p m)

(** val sub : nat -> nat -> nat **)

let rec sub n0 m =
  match n0 with
  | O -> n0
  | S k -> (match m with
            | O -> n0
            | S l -> sub k l)

type positive =
| XI of positive
| XO of positive
| XH

type n =
| N0
| Npos of positive

type z =
| Z0
| Zpos of positive
| Zneg of positive

module Nat =
 struct
  (** val sub : nat -> nat -> nat **)

  let rec sub n0 m =
    match n0 with
    | O -> n0
    | S k -> (match m with
              | O -> n0
              | S l -> sub k l)

  (** val leb : nat -> nat -> bool **)

  let rec leb n0 m =
    match n0 with
    | O -> true
    | S n' -> (match m with
               | O -> false
               | S m' -> leb n' m')

  (** val ltb : nat -> nat -> bool **)

  let ltb n0 m =
    leb (S n0) m

  (** val divmod : nat -> nat -> nat -> nat -> nat * nat **)

  let rec divmod x y q u =
    match x with
    | O -> (q, u)
    | S x' ->
      (match u with
       | O -> divmod x' y (S q) y
       | S u' -> divmod x' y q u')

  (** val modulo : nat -> nat -> nat **)

  let modulo x = function
  | O -> x
  | S y' -> sub y' (snd (divmod x y' O y'))
 end

module Pos =
 struct
  type mask =
  | IsNul
  | IsPos of positive
  | IsNeg
 end

module Coq_Pos =
 struct
  (** val succ : positive -> positive **)

  let rec succ = function
  | XI p -> XO (succ p)
  | XO p -> XI p
  | XH -> XO XH

  (** val add : positive -> positive -> positive **)

  let rec add x y =
    match x with
    | XI p ->
      (match y with
       | XI q -> XO (add_carry p q)
       | XO q -> XI (add p q)
       | XH -> XO (succ p))
    | XO p ->
      (match y with
       | XI q -> XI (add p q)
       | XO q -> XO (add p q)
       | XH -> XI p)
    | XH -> (match y with
             | XI q -> XO (succ q)
             | XO q -> XI q
             | XH -> XO XH)

  (** val add_carry : positive -> positive -> positive **)

  and add_carry x y =
    match x with
    | XI p ->
      (match y with
       | XI q -> XI (add_carry p q)
       | XO q -> XO (add_carry p q)
       | XH -> XI (succ p))
    | XO p ->
      (match y with
       | XI q -> XO (add_carry p q)
       | XO q -> XI (add p q)
       | XH -> XO (succ p))
    | XH ->
      (match y with
       | XI q -> XI (succ q)
       | XO q -> XO (succ q)
       | XH -> XI XH)

  (** val pred_double : positive -> positive **)

  let rec pred_double = function
  | XI p -> XI (XO p)
  | XO p -> XI (pred_double p)
  | XH -> XH

  type mask = Pos.mask =
  | IsNul
  | IsPos of positive
  | IsNeg

  (** val succ_double_mask : mask -> mask **)

  let succ_double_mask = function
  | IsNul -> IsPos XH
  | IsPos p -> IsPos (XI p)
  | IsNeg -> IsNeg

  (** val double_mask : mask -> mask **)

  let double_mask = function
  | IsPos p -> IsPos (XO p)
  | x0 -> x0

  (** val double_pred_mask : positive -> mask **)

  let double_pred_mask = function
  | XI p -> IsPos (XO (XO p))
  | XO p -> IsPos (XO (pred_double p))
  | XH -> IsNul

  (** val sub_mask : positive -> positive -> mask **)

  let rec sub_mask x y =
    match x with
    | XI p ->
      (match y with
       | XI q -> double_mask (sub_mask p q)
       | XO q -> succ_double_mask (sub_mask p q)
       | XH -> IsPos (XO p))
    | XO p ->
      (match y with
       | XI q -> succ_double_mask (sub_mask_carry p q)
       | XO q -> double_mask (sub_mask p q)
       | XH -> IsPos (pred_double p))
    | XH -> (match y with
             | XH -> IsNul
             | _ -> IsNeg)

  (** val sub_mask_carry : positive -> positive -> mask **)

  and sub_mask_carry x y =
    match x with
    | XI p ->
      (match y with
       | XI q -> succ_double_mask (sub_mask_carry p q)
       | XO q -> double_mask (sub_mask p q)
       | XH -> IsPos (pred_double p))
    | XO p ->
      (match y with
       | XI q -> double_mask (sub_mask_carry p q)
       | XO q -> succ_double_mask (sub_mask_carry p q)
       | XH -> double_pred_mask p)
    | XH -> IsNeg

  (** val mul : positive -> positive -> positive **)

  let rec mul x y =
    match x with
    | XI p -> add y (XO (mul p y))
    | XO p -> XO (mul p y)
    | XH -> y

  (** val compare_cont : comparison -> positive -> positive -> comparison **)

  let rec compare_cont r x y =
    match x with
    | XI p ->
      (match y with
       | XI q -> compare_cont r p q
       | XO q -> compare_cont Gt p q
       | XH -> Gt)
    | XO p ->
      (match y with
       | XI q -> compare_cont Lt p q
       | XO q -> compare_cont r p q
       | XH -> Gt)
    | XH -> (match y with
             | XH -> r
             | _ -> Lt)

  (** val compare : positive -> positive -> comparison **)

  let compare =
    compare_cont Eq

  (** val eqb : positive -> positive -> bool **)

  let rec eqb p q =
    match p with
    | XI p0 -> (match q with
                | XI q0 -> eqb p0 q0
                | _ -> false)
    | XO p0 -> (match q with
                | XO q0 -> eqb p0 q0
                | _ -> false)
    | XH -> (match q with
             | XH -> true
             | _ -> false)
 end

module N =
 struct
  (** val succ_double : n -> n **)

  let succ_double = function
  | N0 -> Npos XH
  | Npos p -> Npos (XI p)

  (** val double : n -> n **)

  let double = function
  | N0 -> N0
  | Npos p -> Npos (XO p)

  (** val add : n -> n -> n **)

  let add n0 m =
    match n0 with
    | N0 -> m
    | Npos p -> (match m with
                 | N0 -> n0
                 | Npos q -> Npos (Coq_Pos.add p q))

  (** val sub : n -> n -> n **)

  let sub n0 m =
    match n0 with
    | N0 -> N0
    | Npos n' ->
      (match m with
       | N0 -> n0
       | Npos m' ->
         (match Coq_Pos.sub_mask n' m' with
          | Coq_Pos.IsPos p -> Npos p
          | _ -> N0))

  (** val mul : n -> n -> n **)

  let mul n0 m =
    match n0 with
    | N0 -> N0
    | Npos p -> (match m with
                 | N0 -> N0
                 | Npos q -> Npos (Coq_Pos.mul p q))

  (** val compare : n -> n -> comparison **)

  let compare n0 m =
    match n0 with
    | N0 -> (match m with
             | N0 -> Eq
             | Npos _ -> Lt)
    | Npos n' -> (match m with
                  | N0 -> Gt
                  | Npos m' -> Coq_Pos.compare n' m')

  (** val eqb : n -> n -> bool **)

  let eqb n0 m =
    match n0 with
    | N0 -> (match m with
             | N0 -> true
             | Npos _ -> false)
    | Npos p -> (match m with
                 | N0 -> false
                 | Npos q -> Coq_Pos.eqb p q)

  (** val leb : n -> n -> bool **)

  let leb x y =
    match compare x y with
    | Gt -> false
    | _ -> true

  (** val ltb : n -> n -> bool **)

  let ltb x y =
    match compare x y with
    | Lt -> true
    | _ -> false

  (** val pos_div_eucl : positive -> n -> n * n **)

  let rec pos_div_eucl a b =
    match a with
    | XI a' ->
      let (q, r) = pos_div_eucl a' b in
      let r' = succ_double r in
      if leb b r' then ((succ_double q), (sub r' b)) else ((double q), r')
    | XO a' ->
      let (q, r) = pos_div_eucl a' b in
      let r' = double r in
      if leb b r' then ((succ_double q), (sub r' b)) else ((double q), r')
    | XH ->
      (match b with
       | N0 -> (N0, (Npos XH))
       | Npos p -> (match p with
                    | XH -> ((Npos XH), N0)
                    | _ -> (N0, (Npos XH))))

  (** val div_eucl : n -> n -> n * n **)

  let div_eucl a b =
    match a with
    | N0 -> (N0, N0)
    | Npos na -> (match b with
                  | N0 -> (N0, a)
                  | Npos _ -> pos_div_eucl na b)

  (** val div : n -> n -> n **)

  let div a b =
    fst (div_eucl a b)

  (** val modulo : n -> n -> n **)

  let modulo a b =
    snd (div_eucl a b)
 end

(** val nth : nat -> 'a1 list -> 'a1 -> 'a1 **)

let rec nth n0 l default =
  match n0 with
  | O -> (match l with
          | [] -> default
          | x :: _ -> x)
  | S m -> (match l with
            | [] -> default
            | _ :: t -> nth m t default)

(** val flat_map : ('a1 -> 'a2 list) -> 'a1 list -> 'a2 list **)

let rec flat_map f = function
| [] -> []
| x :: t -> app (f x) (flat_map f t)

(** val forallb : ('a1 -> bool) -> 'a1 list -> bool **)

let rec forallb f = function
| [] -> true
| a :: l0 -> (&&) (f a) (forallb f l0)

(** val firstn : nat -> 'a1 list -> 'a1 list **)

let rec firstn n0 l =
  match n0 with
  | O -> []
  | S n1 -> (match l with
             | [] -> []
             | a :: l0 -> a :: (firstn n1 l0))

(** val skipn : nat -> 'a1 list -> 'a1 list **)

let rec skipn n0 l =
  match n0 with
  | O -> l
  | S n1 -> (match l with
             | [] -> []
             | _ :: l0 -> skipn n1 l0)

(** val ex_keep :
    (((((nat * n) * z) * z list) * z option) * positive) * bool **)

let ex_keep =
  ((((((O, N0), Z0), []), None), XH), true)

(** val oct3 : n -> n list **)

let oct3 b =
  (Npos (XO (XO (XI (XI (XI (XO
    XH))))))) :: ((N.add (Npos (XO (XO (XO (XO (XI XH))))))
                    (N.div b (Npos (XO (XO (XO (XO (XO (XO XH))))))))) :: (
    (N.add (Npos (XO (XO (XO (XO (XI XH))))))
      (N.modulo (N.div b (Npos (XO (XO (XO XH))))) (Npos (XO (XO (XO XH)))))) :: (
    (N.add (Npos (XO (XO (XO (XO (XI XH))))))
      (N.modulo b (Npos (XO (XO (XO XH)))))) :: [])))

(** val esc_special : n -> n list **)

let esc_special b =
  if N.eqb b (Npos (XO (XO (XI (XI (XI (XO XH)))))))
  then (Npos (XO (XO (XI (XI (XI (XO XH))))))) :: ((Npos (XO (XO (XI (XI (XI
         (XO XH))))))) :: [])
  else if N.eqb b (Npos (XO (XI (XO (XO (XO XH))))))
       then (Npos (XO (XO (XI (XI (XI (XO XH))))))) :: ((Npos (XO (XI (XO (XO
              (XO XH)))))) :: [])
       else if N.eqb b (Npos (XI (XI (XI (XO (XO XH))))))
            then oct3 (Npos (XI (XI (XI (XO (XO XH))))))
            else if N.eqb b (Npos (XO (XI (XO XH))))
                 then (Npos (XO (XO (XI (XI (XI (XO XH))))))) :: ((Npos (XO
                        (XI (XI (XI (XO (XI XH))))))) :: [])
                 else if N.eqb b (Npos (XI (XO (XI XH))))
                      then (Npos (XO (XO (XI (XI (XI (XO XH))))))) :: ((Npos
                             (XO (XI (XO (XO (XI (XI XH))))))) :: [])
                      else if N.eqb b (Npos (XI (XO (XO XH))))
                           then (Npos (XO (XO (XI (XI (XI (XO
                                  XH))))))) :: ((Npos (XO (XO (XI (XO (XI (XI
                                  XH))))))) :: [])
                           else if N.ltb b (Npos (XO (XO (XO (XO (XO XH))))))
                                then oct3 b
                                else b :: []

(** val replace_specials : n list -> n list **)

let rec replace_specials = function
| [] -> []
| b :: r ->
  (match r with
   | [] -> esc_special b
   | b2 :: r2 ->
     if (&&) (N.eqb b (Npos (XI (XI (XI (XI (XI XH)))))))
          (N.eqb b2 (Npos (XI (XI (XI (XI (XI XH)))))))
     then app (oct3 (Npos (XI (XI (XI (XI (XI XH)))))))
            (app (oct3 (Npos (XI (XI (XI (XI (XI XH)))))))
              (replace_specials r2))
     else app (esc_special b) (replace_specials r))

(** val esc_high : n -> n list **)

let esc_high b =
  if N.leb (Npos (XI (XI (XI (XI (XI (XI XH))))))) b then oct3 b else b :: []

(** val is_ascii : n list -> bool **)

let is_ascii s =
  forallb (fun b -> N.ltb b (Npos (XO (XO (XO (XO (XO (XO (XO XH))))))))) s

(** val escape_byte_string : n list -> n list **)

let escape_byte_string bs =
  let s = replace_specials bs in if is_ascii s then s else flat_map esc_high s

type sres =
| Chunks of n list list
| OutOfFuel
| Unmodelled

(** val find_bs : n list -> nat option **)

let rec find_bs = function
| [] -> None
| c :: r ->
  if N.eqb c (Npos (XO (XO (XI (XI (XI (XO XH)))))))
  then Some O
  else option_map (fun x -> S x) (find_bs r)

(** val retreat : n list -> nat -> nat -> nat **)

let rec retreat t fallback e' =
  if N.eqb (nth e' t N0) (Npos (XO (XO (XI (XI (XI (XO XH)))))))
  then (match e' with
        | O -> fallback
        | S e'' -> retreat t fallback e'')
  else S e'

(** val chunk_end : n list -> nat -> nat **)

let chunk_end t limit =
  if Nat.ltb (sub limit (S (S (S (S O))))) (length t)
  then (match find_bs
                (firstn (S (S (S (S O))))
                  (skipn (sub limit (S (S (S (S O))))) t)) with
        | Some i ->
          retreat t
            (sub (sub limit (Nat.modulo limit (S (S O)))) (S (S (S (S O)))))
            (add (sub limit (S (S (S (S (S O)))))) i)
        | None -> limit)
  else limit

(** val split_loop : nat -> n list -> nat -> sres **)

let rec split_loop fuel t limit =
  match fuel with
  | O -> OutOfFuel
  | S f ->
    (match t with
     | [] -> Chunks []
     | _ :: _ ->
       let e = chunk_end t limit in
       (match split_loop f (skipn e t) limit with
        | Chunks cs -> Chunks ((firstn e t) :: cs)
        | x -> x))

(** val split_chunks : n list -> nat -> sres **)

let split_chunks s limit =
  if Nat.ltb limit (S (S (S (S (S O)))))
  then Unmodelled
  else if Nat.ltb (length s) limit
       then Chunks (s :: [])
       else split_loop (S (length s)) s limit

(** val join_chunks : n list list -> n list **)

let rec join_chunks = function
| [] -> []
| c :: r ->
  (match r with
   | [] -> c
   | _ :: _ ->
     app c
       (app ((Npos (XO (XI (XO (XO (XO XH)))))) :: ((Npos (XO (XI (XO (XO (XO
         XH)))))) :: [])) (join_chunks r)))

(** val split_string_literal : n list -> nat -> n list option **)

let split_string_literal s limit =
  match split_chunks s limit with
  | Chunks cs -> Some (join_chunks cs)
  | _ -> None

(** val as_c_string_literal : n list -> nat -> n list option **)

let as_c_string_literal bs limit =
  match split_string_literal (escape_byte_string bs) limit with
  | Some v ->
    Some
      (app ((Npos (XO (XI (XO (XO (XO XH)))))) :: [])
        (app v ((Npos (XO (XI (XO (XO (XO XH)))))) :: [])))
  | None -> None

(** val hexdigit : n -> n **)

let hexdigit d =
  if N.ltb d (Npos (XO (XI (XO XH))))
  then N.add (Npos (XO (XO (XO (XO (XI XH)))))) d
  else N.add (Npos (XI (XI (XI (XO (XI XH)))))) d

(** val escape_char : n -> n list **)

let escape_char b =
  if N.eqb b (Npos (XO (XI (XO XH))))
  then (Npos (XO (XO (XI (XI (XI (XO XH))))))) :: ((Npos (XO (XI (XI (XI (XO
         (XI XH))))))) :: [])
  else if N.eqb b (Npos (XI (XO (XI XH))))
       then (Npos (XO (XO (XI (XI (XI (XO XH))))))) :: ((Npos (XO (XI (XO (XO
              (XI (XI XH))))))) :: [])
       else if N.eqb b (Npos (XI (XO (XO XH))))
            then (Npos (XO (XO (XI (XI (XI (XO XH))))))) :: ((Npos (XO (XO
                   (XI (XO (XI (XI XH))))))) :: [])
            else if N.eqb b (Npos (XO (XO (XI (XI (XI (XO XH)))))))
                 then (Npos (XO (XO (XI (XI (XI (XO XH))))))) :: ((Npos (XO
                        (XO (XI (XI (XI (XO XH))))))) :: [])
                 else if N.eqb b (Npos (XI (XI (XI (XO (XO XH))))))
                      then (Npos (XO (XO (XI (XI (XI (XO XH))))))) :: ((Npos
                             (XI (XI (XI (XO (XO XH)))))) :: [])
                      else if (||)
                                (N.ltb b (Npos (XO (XO (XO (XO (XO XH)))))))
                                (N.leb (Npos (XI (XI (XI (XI (XI (XI
                                  XH))))))) b)
                           then (Npos (XO (XO (XI (XI (XI (XO
                                  XH))))))) :: ((Npos (XO (XO (XO (XI (XI (XI
                                  XH))))))) :: ((hexdigit
                                                  (N.div b (Npos (XO (XO (XO
                                                    (XO XH))))))) :: (
                                  (hexdigit
                                    (N.modulo b (Npos (XO (XO (XO (XO XH))))))) :: [])))
                           else b :: []

(** val is_oct : n -> bool **)

let is_oct c =
  (&&) (N.leb (Npos (XO (XO (XO (XO (XI XH)))))) c)
    (N.leb c (Npos (XI (XI (XI (XO (XI XH)))))))

(** val split_characters : n list -> n list list **)

let rec split_characters = function
| [] -> []
| x :: t1 ->
  if N.eqb x (Npos (XO (XO (XI (XI (XI (XO XH)))))))
  then (match t1 with
        | [] -> (x :: []) :: []
        | a :: t2 ->
          (match t2 with
           | [] -> (x :: (a :: [])) :: (split_characters t2)
           | b :: l ->
             (match l with
              | [] -> (x :: (a :: [])) :: (split_characters t2)
              | c :: r ->
                if (&&) ((&&) (is_oct a) (is_oct b)) (is_oct c)
                then (x :: (a :: (b :: (c :: [])))) :: (split_characters r)
                else (x :: (a :: [])) :: (split_characters t2))))
  else (x :: []) :: (split_characters t1)

(** val char_array_items : n list list -> n list **)

let rec char_array_items = function
| [] -> []
| c :: r ->
  (match r with
   | [] ->
     app ((Npos (XI (XI (XI (XO (XO XH)))))) :: [])
       (app c ((Npos (XI (XI (XI (XO (XO XH)))))) :: []))
   | _ :: _ ->
     app ((Npos (XI (XI (XI (XO (XO XH)))))) :: [])
       (app c
         (app ((Npos (XI (XI (XI (XO (XO XH)))))) :: [])
           (app ((Npos (XO (XO (XI (XI (XO XH)))))) :: [])
             (char_array_items r)))))

(** val char_array_form : n list -> n list **)

let char_array_form bs =
  char_array_items (split_characters (escape_byte_string bs))

(** val trigraph_char : n -> n option **)

let trigraph_char c =
  if N.eqb c (Npos (XI (XO (XI (XI (XI XH))))))
  then Some (Npos (XI (XI (XO (XO (XO XH))))))
  else if N.eqb c (Npos (XO (XO (XO (XI (XO XH))))))
       then Some (Npos (XI (XI (XO (XI (XI (XO XH)))))))
       else if N.eqb c (Npos (XI (XI (XI (XI (XO XH))))))
            then Some (Npos (XO (XO (XI (XI (XI (XO XH)))))))
            else if N.eqb c (Npos (XI (XO (XO (XI (XO XH))))))
                 then Some (Npos (XI (XO (XI (XI (XI (XO XH)))))))
                 else if N.eqb c (Npos (XI (XI (XI (XO (XO XH))))))
                      then Some (Npos (XO (XI (XI (XI (XI (XO XH)))))))
                      else if N.eqb c (Npos (XO (XO (XI (XI (XI XH))))))
                           then Some (Npos (XI (XI (XO (XI (XI (XI XH)))))))
                           else if N.eqb c (Npos (XI (XO (XO (XO (XO XH))))))
                                then Some (Npos (XO (XO (XI (XI (XI (XI
                                       XH)))))))
                                else if N.eqb c (Npos (XO (XI (XI (XI (XI
                                          XH))))))
                                     then Some (Npos (XI (XO (XI (XI (XI (XI
                                            XH)))))))
                                     else if N.eqb c (Npos (XI (XO (XI (XI
                                               (XO XH))))))
                                          then Some (Npos (XO (XI (XI (XI (XI
                                                 (XI XH)))))))
                                          else None

(** val phase1 : n list -> n list **)

let rec phase1 = function
| [] -> []
| a :: r ->
  (match r with
   | [] -> a :: (phase1 r)
   | b :: l ->
     (match l with
      | [] -> a :: (phase1 r)
      | c :: r3 ->
        if (&&) (N.eqb a (Npos (XI (XI (XI (XI (XI XH)))))))
             (N.eqb b (Npos (XI (XI (XI (XI (XI XH)))))))
        then (match trigraph_char c with
              | Some x -> x :: (phase1 r3)
              | None -> a :: (phase1 r))
        else a :: (phase1 r)))

(** val phase2 : n list -> n list **)

let rec phase2 = function
| [] -> []
| a :: r ->
  (match r with
   | [] -> a :: []
   | b :: r2 ->
     if (&&) (N.eqb a (Npos (XO (XO (XI (XI (XI (XO XH))))))))
          (N.eqb b (Npos (XO (XI (XO XH)))))
     then phase2 r2
     else a :: (phase2 r))

(** val contains_trigraph : n list -> bool **)

let rec contains_trigraph = function
| [] -> false
| a :: r ->
  (match r with
   | [] -> false
   | b :: l ->
     (match l with
      | [] -> false
      | c :: _ ->
        (||)
          ((&&)
            ((&&) (N.eqb a (Npos (XI (XI (XI (XI (XI XH)))))))
              (N.eqb b (Npos (XI (XI (XI (XI (XI XH))))))))
            (match trigraph_char c with
             | Some _ -> true
             | None -> false)) (contains_trigraph r)))

(** val has_qq : n list -> bool **)

let rec has_qq = function
| [] -> false
| a :: r ->
  (||)
    (match r with
     | [] -> false
     | b :: _ ->
       (&&) (N.eqb a (Npos (XI (XI (XI (XI (XI XH)))))))
         (N.eqb b (Npos (XI (XI (XI (XI (XI XH)))))))) (has_qq r)

type rmode =
| MStr
| MChar
| MArr

type rstate =
| RStart
| ROut
| RSep
| RIn
| REsc
| ROct of n * nat
| RHex of n * nat

(** val delim : rmode -> n **)

let delim = function
| MStr -> Npos (XO (XI (XO (XO (XO XH)))))
| _ -> Npos (XI (XI (XI (XO (XO XH)))))

(** val is_ws : n -> bool **)

let is_ws c =
  (||)
    ((||) (N.eqb c (Npos (XO (XO (XO (XO (XO XH)))))))
      (N.eqb c (Npos (XI (XO (XO XH)))))) (N.eqb c (Npos (XO (XI (XO XH)))))

(** val hexval : n -> n option **)

let hexval c =
  if (&&) (N.leb (Npos (XO (XO (XO (XO (XI XH)))))) c)
       (N.leb c (Npos (XI (XO (XO (XI (XI XH)))))))
  then Some (N.sub c (Npos (XO (XO (XO (XO (XI XH)))))))
  else if (&&) (N.leb (Npos (XI (XO (XO (XO (XO (XO XH))))))) c)
            (N.leb c (Npos (XO (XI (XI (XO (XO (XO XH))))))))
       then Some (N.sub c (Npos (XI (XI (XI (XO (XI XH)))))))
       else if (&&) (N.leb (Npos (XI (XO (XO (XO (XO (XI XH))))))) c)
                 (N.leb c (Npos (XO (XI (XI (XO (XO (XI XH))))))))
            then Some (N.sub c (Npos (XI (XI (XI (XO (XI (XO XH))))))))
            else None

(** val emit_byte : n -> n list option **)

let emit_byte v =
  if N.ltb v (Npos (XO (XO (XO (XO (XO (XO (XO (XO XH)))))))))
  then Some (v :: [])
  else None

(** val in_step : rmode -> n -> (rstate * n list) option **)

let in_step m c =
  if N.eqb c (delim m)
  then Some (ROut, [])
  else if N.eqb c (Npos (XO (XO (XI (XI (XI (XO XH)))))))
       then Some (REsc, [])
       else if N.eqb c (Npos (XO (XI (XO XH))))
            then None
            else Some (RIn, (c :: []))

(** val esc_step : n -> (rstate * n list) option **)

let esc_step c =
  if (||)
       ((||)
         ((||) (N.eqb c (Npos (XI (XI (XI (XO (XO XH)))))))
           (N.eqb c (Npos (XO (XI (XO (XO (XO XH))))))))
         (N.eqb c (Npos (XI (XI (XI (XI (XI XH))))))))
       (N.eqb c (Npos (XO (XO (XI (XI (XI (XO XH))))))))
  then Some (RIn, (c :: []))
  else if N.eqb c (Npos (XI (XO (XO (XO (XO (XI XH)))))))
       then Some (RIn, ((Npos (XI (XI XH))) :: []))
       else if N.eqb c (Npos (XO (XI (XO (XO (XO (XI XH)))))))
            then Some (RIn, ((Npos (XO (XO (XO XH)))) :: []))
            else if N.eqb c (Npos (XO (XI (XI (XO (XO (XI XH)))))))
                 then Some (RIn, ((Npos (XO (XO (XI XH)))) :: []))
                 else if N.eqb c (Npos (XO (XI (XI (XI (XO (XI XH)))))))
                      then Some (RIn, ((Npos (XO (XI (XO XH)))) :: []))
                      else if N.eqb c (Npos (XO (XI (XO (XO (XI (XI XH)))))))
                           then Some (RIn, ((Npos (XI (XO (XI XH)))) :: []))
                           else if N.eqb c (Npos (XO (XO (XI (XO (XI (XI
                                     XH)))))))
                                then Some (RIn, ((Npos (XI (XO (XO
                                       XH)))) :: []))
                                else if N.eqb c (Npos (XO (XI (XI (XO (XI (XI
                                          XH)))))))
                                     then Some (RIn, ((Npos (XI (XI (XO
                                            XH)))) :: []))
                                     else if is_oct c
                                          then Some ((ROct
                                                 ((N.sub c (Npos (XO (XO (XO
                                                    (XO (XI XH))))))), (S
                                                 O))), [])
                                          else if N.eqb c (Npos (XO (XO (XO
                                                    (XI (XI (XI XH)))))))
                                               then Some ((RHex (N0, O)), [])
                                               else None

(** val flush_then : rmode -> n -> n -> (rstate * n list) option **)

let flush_then m v c =
  match emit_byte v with
  | Some o ->
    (match in_step m c with
     | Some p -> let (s, o2) = p in Some (s, (app o o2))
     | None -> None)
  | None -> None

(** val step : rmode -> rstate -> n -> (rstate * n list) option **)

let step m s c =
  match s with
  | RStart -> if N.eqb c (delim m) then Some (RIn, []) else None
  | ROut ->
    (match m with
     | MStr ->
       if N.eqb c (Npos (XO (XI (XO (XO (XO XH))))))
       then Some (RIn, [])
       else if is_ws c then Some (ROut, []) else None
     | MChar -> None
     | MArr ->
       if N.eqb c (Npos (XO (XO (XI (XI (XO XH))))))
       then Some (RSep, [])
       else None)
  | RSep ->
    if N.eqb c (Npos (XI (XI (XI (XO (XO XH))))))
    then Some (RIn, [])
    else None
  | RIn -> in_step m c
  | REsc -> esc_step c
  | ROct (v, k) ->
    if is_oct c
    then (match k with
          | O ->
            (match emit_byte
                     (N.add (N.mul (Npos (XO (XO (XO XH)))) v)
                       (N.sub c (Npos (XO (XO (XO (XO (XI XH)))))))) with
             | Some o -> Some (RIn, o)
             | None -> None)
          | S n0 ->
            (match n0 with
             | O ->
               Some ((ROct
                 ((N.add (N.mul (Npos (XO (XO (XO XH)))) v)
                    (N.sub c (Npos (XO (XO (XO (XO (XI XH)))))))), (S (S
                 O)))), [])
             | S _ ->
               (match emit_byte
                        (N.add (N.mul (Npos (XO (XO (XO XH)))) v)
                          (N.sub c (Npos (XO (XO (XO (XO (XI XH)))))))) with
                | Some o -> Some (RIn, o)
                | None -> None)))
    else flush_then m v c
  | RHex (v, k) ->
    (match hexval c with
     | Some d ->
       Some ((RHex ((N.add (N.mul (Npos (XO (XO (XO (XO XH))))) v) d), (S
         k))), [])
     | None -> (match k with
                | O -> None
                | S _ -> flush_then m v c))

(** val rd : rmode -> rstate -> n list -> n list option **)

let rec rd m s = function
| [] -> (match s with
         | ROut -> Some []
         | _ -> None)
| c :: r ->
  (match step m s c with
   | Some p ->
     let (s', o) = p in
     (match rd m s' r with
      | Some x -> Some (app o x)
      | None -> None)
   | None -> None)

(** val c_read : n list -> n list option **)

let c_read t =
  rd MStr RStart (phase2 (phase1 t))

(** val c_read_char : n list -> n option **)

let c_read_char t =
  match rd MChar RStart (phase2 (phase1 t)) with
  | Some l ->
    (match l with
     | [] -> None
     | b :: l0 -> (match l0 with
                   | [] -> Some b
                   | _ :: _ -> None))
  | None -> None

(** val c_read_chars : n list -> n list option **)

let c_read_chars t =
  rd MArr RStart (phase2 (phase1 t))
