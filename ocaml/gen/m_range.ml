
(** val negb : bool -> bool **)

let negb = function
| true -> false
| false -> true

type nat =
| O
| S of nat

(** val option_map : ('a1 -> 'a2) -> 'a1 option -> 'a2 option **)

let option_map f = function
| Some a -> Some (f a)
| None -> None

(** val fst : ('a1 * 'a2) -> 'a1 **)

let fst = function
| (x, _) -> x

(** val snd : ('a1 * 'a2) -> 'a2 **)

let snd = function
| (_, y) -> y

(** val length : 'a1 list -> nat **)

let rec length = function
| [] -> O
| _ :: l' -> S (length l')

(** val app : 'a1 list -> 'a1 list -> 'a1 list **)

let rec app l m =
  match l with
  | [] -> m
  | a :: l1 -> a :: (app l1 m)

type comparison =
| Eq
| Lt
| Gt

(** val compOpp : comparison -> comparison **)

let compOpp = function
| Eq -> Eq
| Lt -> Gt
| Gt -> Lt

module Coq__1 = struct
 (** val add : nat -> nat -> nat **)
 let rec add n0 m =
   match n0 with
   | O -> m
   | S p -> S (add p m)
end
include Coq__1

type positive =
| XI of positive
| XO of positive
| XH

type n =
| N0
| Npos of positive

type z =
| Z0
| Zpos of positive
| Zneg of positive

module Pos =
 struct
  type mask =
  | IsNul
  | IsPos of positive
  | IsNeg
 end

module Coq_Pos =
 struct
  (** val succ : positive -> positive **)

  let rec succ = function
  | XI p -> XO (succ p)
  | XO p -> XI p
  | XH -> XO XH

  (** val add : positive -> positive -> positive **)

  let rec add x y =
    match x with
    | XI p ->
      (match y with
       | XI q -> XO (add_carry p q)
       | XO q -> XI (add p q)
       | XH -> XO (succ p))
    | XO p ->
      (match y with
       | XI q -> XI (add p q)
       | XO q -> XO (add p q)
       | XH -> XI p)
    | XH -> (match y with
             | XI q -> XO (succ q)
             | XO q -> XI q
             | XH -> XO XH)

  (** val add_carry : positive -> positive -> positive **)

  and add_carry x y =
    match x with
    | XI p ->
      (match y with
       | XI q -> XI (add_carry p q)
       | XO q -> XO (add_carry p q)
       | XH -> XI (succ p))
    | XO p ->
      (match y with
       | XI q -> XO (add_carry p q)
       | XO q -> XI (add p q)
       | XH -> XO (succ p))
    | XH ->
      (match y with
       | XI q -> XI (succ q)
       | XO q -> XO (succ q)
       | XH -> XI XH)

  (** val pred_double : positive -> positive **)

  let rec pred_double = function
  | XI p -> XI (XO p)
  | XO p -> XI (pred_double p)
  | XH -> XH

  type mask = Pos.mask =
  | IsNul
  | IsPos of positive
  | IsNeg

  (** val succ_double_mask : mask -> mask **)

  let succ_double_mask = function
  | IsNul -> IsPos XH
  | IsPos p -> IsPos (XI p)
  | IsNeg -> IsNeg

  (** val double_mask : mask -> mask **)

  let double_mask = function
  | IsPos p -> IsPos (XO p)
  | x0 -> x0

  (** val double_pred_mask : positive -> mask **)

  let double_pred_mask = function
  | XI p -> IsPos (XO (XO p))
  | XO p -> IsPos (XO (pred_double p))
  | XH -> IsNul

  (** val sub_mask : positive -> positive -> mask **)

  let rec sub_mask x y =
    match x with
    | XI p ->
      (match y with
       | XI q -> double_mask (sub_mask p q)
       | XO q -> succ_double_mask (sub_mask p q)
       | XH -> IsPos (XO p))
    | XO p ->
      (match y with
       | XI q -> succ_double_mask (sub_mask_carry p q)
       | XO q -> double_mask (sub_mask p q)
       | XH -> IsPos (pred_double p))
    | XH -> (match y with
             | XH -> IsNul
             | _ -> IsNeg)

  (** val sub_mask_carry : positive -> positive -> mask **)

  and sub_mask_carry x y =
    match x with
    | XI p ->
      (match y with
       | XI q -> succ_double_mask (sub_mask_carry p q)
       | XO q -> double_mask (sub_mask p q)
       | XH -> IsPos (pred_double p))
    | XO p ->
      (match y with
       | XI q -> double_mask (sub_mask_carry p q)
       | XO q -> succ_double_mask (sub_mask_carry p q)
       | XH -> double_pred_mask p)
    | XH -> IsNeg

  (** val mul : positive -> positive -> positive **)

  let rec mul x y =
    match x with
    | XI p -> add y (XO (mul p y))
    | XO p -> XO (mul p y)
    | XH -> y

  (** val iter : ('a1 -> 'a1) -> 'a1 -> positive -> 'a1 **)

  let rec iter f x = function
  | XI n' -> f (iter f (iter f x n') n')
  | XO n' -> iter f (iter f x n') n'
  | XH -> f x

  (** val compare_cont : comparison -> positive -> positive -> comparison **)

  let rec compare_cont r x y =
    match x with
    | XI p ->
      (match y with
       | XI q -> compare_cont r p q
       | XO q -> compare_cont Gt p q
       | XH -> Gt)
    | XO p ->
      (match y with
       | XI q -> compare_cont Lt p q
       | XO q -> compare_cont r p q
       | XH -> Gt)
    | XH -> (match y with
             | XH -> r
             | _ -> Lt)

  (** val compare : positive -> positive -> comparison **)

  let compare =
    compare_cont Eq

  (** val eqb : positive -> positive -> bool **)

  let rec eqb p q =
    match p with
    | XI p0 -> (match q with
                | XI q0 -> eqb p0 q0
                | _ -> false)
    | XO p0 -> (match q with
                | XO q0 -> eqb p0 q0
                | _ -> false)
    | XH -> (match q with
             | XH -> true
             | _ -> false)

  (** val iter_op : ('a1 -> 'a1 -> 'a1) -> positive -> 'a1 -> 'a1 **)

  let rec iter_op op p a =
    match p with
    | XI p0 -> op a (iter_op op p0 (op a a))
    | XO p0 -> iter_op op p0 (op a a)
    | XH -> a

  (** val to_nat : positive -> nat **)

  let to_nat x =
    iter_op Coq__1.add x (S O)

  (** val of_succ_nat : nat -> positive **)

  let rec of_succ_nat = function
  | O -> XH
  | S x -> succ (of_succ_nat x)
 end

module N =
 struct
  (** val succ_double : n -> n **)

  let succ_double = function
  | N0 -> Npos XH
  | Npos p -> Npos (XI p)

  (** val double : n -> n **)

  let double = function
  | N0 -> N0
  | Npos p -> Npos (XO p)

  (** val sub : n -> n -> n **)

  let sub n0 m =
    match n0 with
    | N0 -> N0
    | Npos n' ->
      (match m with
       | N0 -> n0
       | Npos m' ->
         (match Coq_Pos.sub_mask n' m' with
          | Coq_Pos.IsPos p -> Npos p
          | _ -> N0))

  (** val compare : n -> n -> comparison **)

  let compare n0 m =
    match n0 with
    | N0 -> (match m with
             | N0 -> Eq
             | Npos _ -> Lt)
    | Npos n' -> (match m with
                  | N0 -> Gt
                  | Npos m' -> Coq_Pos.compare n' m')

  (** val leb : n -> n -> bool **)

  let leb x y =
    match compare x y with
    | Gt -> false
    | _ -> true

  (** val pos_div_eucl : positive -> n -> n * n **)

  let rec pos_div_eucl a b =
    match a with
    | XI a' ->
      let (q, r) = pos_div_eucl a' b in
      let r' = succ_double r in
      if leb b r' then ((succ_double q), (sub r' b)) else ((double q), r')
    | XO a' ->
      let (q, r) = pos_div_eucl a' b in
      let r' = double r in
      if leb b r' then ((succ_double q), (sub r' b)) else ((double q), r')
    | XH ->
      (match b with
       | N0 -> (N0, (Npos XH))
       | Npos p -> (match p with
                    | XH -> ((Npos XH), N0)
                    | _ -> (N0, (Npos XH))))
 end

module Z =
 struct
  (** val double : z -> z **)

  let double = function
  | Z0 -> Z0
  | Zpos p -> Zpos (XO p)
  | Zneg p -> Zneg (XO p)

  (** val succ_double : z -> z **)

  let succ_double = function
  | Z0 -> Zpos XH
  | Zpos p -> Zpos (XI p)
  | Zneg p -> Zneg (Coq_Pos.pred_double p)

  (** val pred_double : z -> z **)

  let pred_double = function
  | Z0 -> Zneg XH
  | Zpos p -> Zpos (Coq_Pos.pred_double p)
  | Zneg p -> Zneg (XI p)

  (** val pos_sub : positive -> positive -> z **)

  let rec pos_sub x y =
    match x with
    | XI p ->
      (match y with
       | XI q -> double (pos_sub p q)
       | XO q -> succ_double (pos_sub p q)
       | XH -> Zpos (XO p))
    | XO p ->
      (match y with
       | XI q -> pred_double (pos_sub p q)
       | XO q -> double (pos_sub p q)
       | XH -> Zpos (Coq_Pos.pred_double p))
    | XH ->
      (match y with
       | XI q -> Zneg (XO q)
       | XO q -> Zneg (Coq_Pos.pred_double q)
       | XH -> Z0)

  (** val add : z -> z -> z **)

  let add x y =
    match x with
    | Z0 -> y
    | Zpos x' ->
      (match y with
       | Z0 -> x
       | Zpos y' -> Zpos (Coq_Pos.add x' y')
       | Zneg y' -> pos_sub x' y')
    | Zneg x' ->
      (match y with
       | Z0 -> x
       | Zpos y' -> pos_sub y' x'
       | Zneg y' -> Zneg (Coq_Pos.add x' y'))

  (** val opp : z -> z **)

  let opp = function
  | Z0 -> Z0
  | Zpos x0 -> Zneg x0
  | Zneg x0 -> Zpos x0

  (** val sub : z -> z -> z **)

  let sub m n0 =
    add m (opp n0)

  (** val mul : z -> z -> z **)

  let mul x y =
    match x with
    | Z0 -> Z0
    | Zpos x' ->
      (match y with
       | Z0 -> Z0
       | Zpos y' -> Zpos (Coq_Pos.mul x' y')
       | Zneg y' -> Zneg (Coq_Pos.mul x' y'))
    | Zneg x' ->
      (match y with
       | Z0 -> Z0
       | Zpos y' -> Zneg (Coq_Pos.mul x' y')
       | Zneg y' -> Zpos (Coq_Pos.mul x' y'))

  (** val pow_pos : z -> positive -> z **)

  let pow_pos z0 =
    Coq_Pos.iter (mul z0) (Zpos XH)

  (** val pow : z -> z -> z **)

  let pow x = function
  | Z0 -> Zpos XH
  | Zpos p -> pow_pos x p
  | Zneg _ -> Z0

  (** val compare : z -> z -> comparison **)

  let compare x y =
    match x with
    | Z0 -> (match y with
             | Z0 -> Eq
             | Zpos _ -> Lt
             | Zneg _ -> Gt)
    | Zpos x' -> (match y with
                  | Zpos y' -> Coq_Pos.compare x' y'
                  | _ -> Gt)
    | Zneg x' ->
      (match y with
       | Zneg y' -> compOpp (Coq_Pos.compare x' y')
       | _ -> Lt)

  (** val leb : z -> z -> bool **)

  let leb x y =
    match compare x y with
    | Gt -> false
    | _ -> true

  (** val ltb : z -> z -> bool **)

  let ltb x y =
    match compare x y with
    | Lt -> true
    | _ -> false

  (** val eqb : z -> z -> bool **)

  let eqb x y =
    match x with
    | Z0 -> (match y with
             | Z0 -> true
             | _ -> false)
    | Zpos p -> (match y with
                 | Zpos q -> Coq_Pos.eqb p q
                 | _ -> false)
    | Zneg p -> (match y with
                 | Zneg q -> Coq_Pos.eqb p q
                 | _ -> false)

  (** val max : z -> z -> z **)

  let max n0 m =
    match compare n0 m with
    | Lt -> m
    | _ -> n0

  (** val abs : z -> z **)

  let abs = function
  | Zneg p -> Zpos p
  | x -> x

  (** val to_nat : z -> nat **)

  let to_nat = function
  | Zpos p -> Coq_Pos.to_nat p
  | _ -> O

  (** val of_nat : nat -> z **)

  let of_nat = function
  | O -> Z0
  | S n1 -> Zpos (Coq_Pos.of_succ_nat n1)

  (** val of_N : n -> z **)

  let of_N = function
  | N0 -> Z0
  | Npos p -> Zpos p

  (** val pos_div_eucl : positive -> z -> z * z **)

  let rec pos_div_eucl a b =
    match a with
    | XI a' ->
      let (q, r) = pos_div_eucl a' b in
      let r' = add (mul (Zpos (XO XH)) r) (Zpos XH) in
      if ltb r' b
      then ((mul (Zpos (XO XH)) q), r')
      else ((add (mul (Zpos (XO XH)) q) (Zpos XH)), (sub r' b))
    | XO a' ->
      let (q, r) = pos_div_eucl a' b in
      let r' = mul (Zpos (XO XH)) r in
      if ltb r' b
      then ((mul (Zpos (XO XH)) q), r')
      else ((add (mul (Zpos (XO XH)) q) (Zpos XH)), (sub r' b))
    | XH -> if leb (Zpos (XO XH)) b then (Z0, (Zpos XH)) else ((Zpos XH), Z0)

  (** val div_eucl : z -> z -> z * z **)

  let div_eucl a b =
    match a with
    | Z0 -> (Z0, Z0)
    | Zpos a' ->
      (match b with
       | Z0 -> (Z0, a)
       | Zpos _ -> pos_div_eucl a' b
       | Zneg b' ->
         let (q, r) = pos_div_eucl a' (Zpos b') in
         (match r with
          | Z0 -> ((opp q), Z0)
          | _ -> ((opp (add q (Zpos XH))), (add b r))))
    | Zneg a' ->
      (match b with
       | Z0 -> (Z0, a)
       | Zpos _ ->
         let (q, r) = pos_div_eucl a' b in
         (match r with
          | Z0 -> ((opp q), Z0)
          | _ -> ((opp (add q (Zpos XH))), (sub b r)))
       | Zneg b' -> let (q, r) = pos_div_eucl a' (Zpos b') in (q, (opp r)))

  (** val div : z -> z -> z **)

  let div a b =
    let (q, _) = div_eucl a b in q

  (** val modulo : z -> z -> z **)

  let modulo a b =
    let (_, r) = div_eucl a b in r

  (** val quotrem : z -> z -> z * z **)

  let quotrem a b =
    match a with
    | Z0 -> (Z0, Z0)
    | Zpos a0 ->
      (match b with
       | Z0 -> (Z0, a)
       | Zpos b0 ->
         let (q, r) = N.pos_div_eucl a0 (Npos b0) in ((of_N q), (of_N r))
       | Zneg b0 ->
         let (q, r) = N.pos_div_eucl a0 (Npos b0) in
         ((opp (of_N q)), (of_N r)))
    | Zneg a0 ->
      (match b with
       | Z0 -> (Z0, a)
       | Zpos b0 ->
         let (q, r) = N.pos_div_eucl a0 (Npos b0) in
         ((opp (of_N q)), (opp (of_N r)))
       | Zneg b0 ->
         let (q, r) = N.pos_div_eucl a0 (Npos b0) in
         ((of_N q), (opp (of_N r))))

  (** val quot : z -> z -> z **)

  let quot a b =
    fst (quotrem a b)
 end

(** val rev : 'a1 list -> 'a1 list **)

let rec rev = function
| [] -> []
| x :: l' -> app (rev l') (x :: [])

(** val map : ('a1 -> 'a2) -> 'a1 list -> 'a2 list **)

let rec map f = function
| [] -> []
| a :: t -> (f a) :: (map f t)

(** val combine : 'a1 list -> 'a2 list -> ('a1 * 'a2) list **)

let rec combine l l' =
  match l with
  | [] -> []
  | x :: tl ->
    (match l' with
     | [] -> []
     | y :: tl' -> (x, y) :: (combine tl tl'))

(** val seq : nat -> nat -> nat list **)

let rec seq start = function
| O -> []
| S len0 -> start :: (seq (S start) len0)

(** val ex_keep :
    (((((nat * n) * z) * z list) * z option) * positive) * bool **)

let ex_keep =
  ((((((O, N0), Z0), []), None), XH), true)

(** val min_int : z -> bool -> z **)

let min_int w = function
| true -> Z.opp (Z.pow (Zpos (XO XH)) (Z.sub w (Zpos XH)))
| false -> Z0

(** val max_int : z -> bool -> z **)

let max_int w = function
| true -> Z.sub (Z.pow (Zpos (XO XH)) (Z.sub w (Zpos XH))) (Zpos XH)
| false -> Z.sub (Z.pow (Zpos (XO XH)) w) (Zpos XH)

(** val in_rangeb : z -> bool -> z -> bool **)

let in_rangeb w s v =
  (&&) (Z.leb (min_int w s) v) (Z.leb v (max_int w s))

(** val wrap : z -> bool -> z -> z **)

let wrap w s v =
  if s
  then Z.sub
         (Z.modulo (Z.add v (Z.pow (Zpos (XO XH)) (Z.sub w (Zpos XH))))
           (Z.pow (Zpos (XO XH)) w))
         (Z.pow (Zpos (XO XH)) (Z.sub w (Zpos XH)))
  else Z.modulo v (Z.pow (Zpos (XO XH)) w)

(** val py_range_len : z -> z -> z -> z **)

let py_range_len start stop step =
  if Z.ltb Z0 step
  then if Z.ltb start stop
       then Z.add (Z.div (Z.sub (Z.sub stop start) (Zpos XH)) step) (Zpos XH)
       else Z0
  else if Z.ltb stop start
       then Z.add (Z.div (Z.sub (Z.sub start stop) (Zpos XH)) (Z.opp step))
              (Zpos XH)
       else Z0

(** val py_range : z -> z -> z -> z list **)

let py_range start stop step =
  map (fun i -> Z.add start (Z.mul step (Z.of_nat i)))
    (seq O (Z.to_nat (py_range_len start stop step)))

type ctl =
| Next
| Break

(** val py_for : (z -> 'a1 -> ctl * 'a1) -> z list -> 'a1 -> 'a1 * bool **)

let rec py_for body vals st =
  match vals with
  | [] -> (st, true)
  | v :: r ->
    let (c, st') = body v st in
    (match c with
     | Next -> py_for body r st'
     | Break -> (st', false))

type 's outcome =
| Done of 's * bool
| OutOfFuel
| UB

(** val c_loop :
    (z -> 'a1 -> ctl * 'a1) -> (z -> bool) -> (z -> z option) -> (z -> z
    option) -> nat -> z -> 'a1 -> 'a1 outcome **)

let rec c_loop body test pre next fuel u st =
  match fuel with
  | O -> OutOfFuel
  | S f ->
    if test u
    then (match pre u with
          | Some t ->
            let (c, st') = body t st in
            (match c with
             | Next ->
               (match next t with
                | Some u' -> c_loop body test pre next f u' st'
                | None -> UB)
             | Break -> Done (st', false))
          | None -> UB)
    else Done (st, true)

(** val py_reversed_range : z -> z -> z -> z list **)

let py_reversed_range a b s =
  rev (py_range a b s)

(** val prom_w : z -> z **)

let prom_w w =
  Z.max w (Zpos (XO (XO (XO (XO (XO XH))))))

(** val prom_s : z -> bool -> bool **)

let prom_s w sg =
  if Z.ltb w (Zpos (XO (XO (XO (XO (XO XH)))))) then true else sg

(** val carith : z -> bool -> z -> z option **)

let carith w sg v =
  if prom_s w sg
  then if in_rangeb (prom_w w) true v then Some v else None
  else Some (wrap (prom_w w) false v)

(** val cop : z -> bool -> z -> z option **)

let cop w sg v =
  option_map (wrap w sg) (carith w sg v)

type rel =
| Le
| Lt0
| Ge
| Gt0

(** val find_relations : bool -> bool -> rel * rel **)

let find_relations neg_step = function
| true -> if neg_step then (Lt0, Le) else (Gt0, Ge)
| false -> if neg_step then (Ge, Gt0) else (Le, Lt0)

(** val rel_offset : rel -> z **)

let rel_offset = function
| Lt0 -> Zpos XH
| Gt0 -> Zneg XH
| _ -> Z0

(** val rel_incr : rel -> bool **)

let rel_incr = function
| Le -> true
| Lt0 -> true
| _ -> false

(** val rel_test : rel -> z -> z -> bool **)

let rel_test r x y =
  match r with
  | Le -> Z.leb x y
  | Lt0 -> Z.ltb x y
  | Ge -> Z.leb y x
  | Gt0 -> Z.ltb y x

(** val rel_is_gt : rel -> bool **)

let rel_is_gt = function
| Le -> false
| Lt0 -> false
| _ -> true

(** val for_from :
    (z -> 'a1 -> ctl * 'a1) -> z -> bool -> rel -> rel -> z -> z -> z -> nat
    -> 'a1 -> 'a1 outcome **)

let for_from body w sg r1 r2 b1 b2 a fuel st =
  if (&&) (negb sg) (rel_is_gt r2)
  then (match cop w sg (Z.add (Z.add b1 (rel_offset r1)) a) with
        | Some u0 ->
          (match carith w sg (Z.add b2 a) with
           | Some lim ->
             c_loop body (fun u -> rel_test r2 u lim) (fun u ->
               cop w sg (Z.sub u a)) (fun x -> Some x) fuel u0 st
           | None -> UB)
        | None -> UB)
  else (match cop w sg (Z.add b1 (rel_offset r1)) with
        | Some t0 ->
          c_loop body (fun t -> rel_test r2 t b2) (fun x -> Some x) (fun t ->
            cop w sg (if rel_incr r1 then Z.add t a else Z.sub t a)) fuel t0
            st
        | None -> UB)

(** val range_loop :
    (z -> 'a1 -> ctl * 'a1) -> z -> bool -> z -> z -> z -> nat -> 'a1 -> 'a1
    outcome **)

let range_loop body w sg a b s =
  let (r1, r2) = find_relations (Z.ltb s Z0) false in
  for_from body w sg r1 r2 a b (Z.abs s)

(** val rev_bound1_const : z -> z -> z -> z **)

let rev_bound1_const a b s =
  let a0 = Z.abs s in
  if Z.eqb a0 (Zpos XH)
  then b
  else if Z.ltb s Z0
       then Z.sub
              (Z.sub a (Z.mul a0 (Z.div (Z.sub (Z.sub a b) (Zpos XH)) a0)))
              (Zpos XH)
       else Z.add
              (Z.add a (Z.mul a0 (Z.div (Z.sub (Z.sub b a) (Zpos XH)) a0)))
              (Zpos XH)

(** val bind : 'a1 option -> ('a1 -> 'a2 option) -> 'a2 option **)

let bind x f =
  match x with
  | Some v -> f v
  | None -> None

(** val rev_bound1_rt : bool -> z -> bool -> z -> z -> z -> z option **)

let rev_bound1_rt floor cw csg a b s =
  let a0 = Z.abs s in
  let ar = carith cw csg in
  let dv = fun x -> if (||) floor (negb csg) then Z.div x a0 else Z.quot x a0
  in
  if Z.eqb a0 (Zpos XH)
  then Some b
  else if Z.ltb s Z0
       then bind (ar (Z.sub a b)) (fun d ->
              bind (ar (Z.sub d (Zpos XH))) (fun d1 ->
                bind (ar (Z.mul a0 (dv d1))) (fun m ->
                  bind (ar (Z.sub a m)) (fun x -> ar (Z.sub x (Zpos XH))))))
       else bind (ar (Z.sub b a)) (fun d ->
              bind (ar (Z.sub d (Zpos XH))) (fun d1 ->
                bind (ar (Z.mul a0 (dv d1))) (fun m ->
                  bind (ar (Z.add a m)) (fun x -> ar (Z.add x (Zpos XH))))))

(** val reversed_loop_from :
    (z -> 'a1 -> ctl * 'a1) -> z -> bool -> z option -> z -> z -> nat -> 'a1
    -> 'a1 outcome **)

let reversed_loop_from body w sg bound1 a s fuel st =
  let (r1, r2) = find_relations (Z.ltb s Z0) true in
  (match bound1 with
   | Some b1 -> for_from body w sg r1 r2 b1 a (Z.abs s) fuel st
   | None -> UB)

(** val reversed_loop_const :
    (z -> 'a1 -> ctl * 'a1) -> z -> bool -> z -> z -> z -> nat -> 'a1 -> 'a1
    outcome **)

let reversed_loop_const body w sg a b s =
  reversed_loop_from body w sg (Some (rev_bound1_const a b s)) a s

(** val reversed_loop_rt :
    (z -> 'a1 -> ctl * 'a1) -> bool -> z -> bool -> z -> bool -> z -> z -> z
    -> nat -> 'a1 -> 'a1 outcome **)

let reversed_loop_rt body floor w sg cw csg a b s =
  reversed_loop_from body w sg (rev_bound1_rt floor cw csg a b s) a s

(** val unsigned_desc : bool -> bool -> bool -> bool **)

let unsigned_desc sg neg_step reversed =
  (&&) (negb sg) (rel_is_gt (snd (find_relations neg_step reversed)))

(** val fwd_safe : z -> bool -> z -> z -> z -> bool **)

let fwd_safe w sg a b s =
  if unsigned_desc sg (Z.ltb s Z0) false
  then (&&) (in_rangeb w sg (Z.add a (Z.abs s)))
         (in_rangeb (prom_w w) (prom_s w sg) (Z.add b (Z.abs s)))
  else in_rangeb w sg (Z.add a (Z.mul s (py_range_len a b s)))

(** val rev_safe : z -> bool -> z -> z -> z -> bool **)

let rev_safe w sg b1 a s =
  (&&) (in_rangeb w sg b1)
    (if unsigned_desc sg (Z.ltb s Z0) true
     then (&&)
            (in_rangeb w sg
              (Z.add
                (Z.add b1
                  (rel_offset (fst (find_relations (Z.ltb s Z0) true))))
                (Z.abs s)))
            (in_rangeb (prom_w w) (prom_s w sg) (Z.add a (Z.abs s)))
     else (&&)
            (in_rangeb w sg
              (Z.add b1 (rel_offset (fst (find_relations (Z.ltb s Z0) true)))))
            (in_rangeb w sg (Z.sub a s)))

(** val enum_body :
    z -> bool -> bool -> ((z * z) -> 'a1 -> ctl * 'a1) -> z -> (z * 'a1) ->
    ctl * (z * 'a1) **)

let enum_body w sg typed body v = function
| (c, st) ->
  let (k, st') = body (c, v) st in
  (k, ((if typed then wrap w sg (Z.add c (Zpos XH)) else Z.add c (Zpos XH)),
  st'))

(** val py_for_pairs :
    ((z * z) -> 'a1 -> ctl * 'a1) -> (z * z) list -> 'a1 -> 'a1 * bool **)

let rec py_for_pairs body ps st =
  match ps with
  | [] -> (st, true)
  | p :: r ->
    let (c, st') = body p st in
    (match c with
     | Next -> py_for_pairs body r st'
     | Break -> (st', false))

(** val py_enumerate : z list -> z -> (z * z) list **)

let py_enumerate vals start =
  combine (map (fun i -> Z.add start (Z.of_nat i)) (seq O (length vals))) vals

type lstate = z list * z option

(** val log_body : z -> z -> lstate -> ctl * lstate **)

let log_body brk_at v st =
  let log' = app (fst st) (v :: []) in
  ((if Z.leb brk_at (Z.of_nat (length log')) then Break else Next), (log',
  (Some v)))

(** val l0 : lstate **)

let l0 =
  ([], None)

(** val plog_body : z -> (z * z) -> (z * z) list -> ctl * (z * z) list **)

let plog_body brk_at p st =
  let l = app st (p :: []) in
  ((if Z.leb brk_at (Z.of_nat (length l)) then Break else Next), l)
