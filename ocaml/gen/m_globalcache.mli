
type nat =
| O
| S of nat

val fst : ('a1 * 'a2) -> 'a1

val snd : ('a1 * 'a2) -> 'a2



type positive =
| XI of positive
| XO of positive
| XH

type n =
| N0
| Npos of positive

type z =
| Z0
| Zpos of positive
| Zneg of positive

module Pos :
 sig
  val succ : positive -> positive

  val add : positive -> positive -> positive

  val add_carry : positive -> positive -> positive

  val pred_double : positive -> positive

  val eqb : positive -> positive -> bool
 end

module Z :
 sig
  val double : z -> z

  val succ_double : z -> z

  val pred_double : z -> z

  val pos_sub : positive -> positive -> z

  val add : z -> z -> z

  val eqb : z -> z -> bool
 end

val ex_keep : (((((nat * n) * z) * z list) * z option) * positive) * bool

type name = z

type value = z

val dget : (z * 'a1) list -> z -> 'a1 option

val dset : (z * 'a1) list -> z -> 'a1 -> (z * 'a1) list

val ddel : (z * 'a1) list -> z -> (z * 'a1) list

type world = { moddict : (name * value) list; builtins : (name * value) list;
               mod_version : z; next_version : z;
               sites : (z * (z * value option)) list }

val w0 : world

type op =
| SetMod of name * value
| DelMod of name
| SetBuiltin of name * value
| DelBuiltin of name
| Lookup of z

type result =
| Found of value
| NameError

val site_get : world -> z -> z * value option

val builtin_lookup : world -> name -> result

val bump : world -> (name * value) list -> world

val bump_b : world -> (name * value) list -> world

val with_sites : world -> (z * (z * value option)) list -> world

val cache_hit : world -> z -> bool

val lookup_cached_result : world -> z -> name -> result

val lookup_cached_world : world -> z -> name -> world

val lookup_uncached : world -> name -> result

val step : bool -> (z -> name) -> world -> op -> world * result option

val run : bool -> (z -> name) -> world -> op list -> result list

val nm_of : (z * name) list -> z -> name
