
(** val negb : bool -> bool **)

let negb = function
| true -> false
| false -> true

type nat =
| O
| S of nat

(** val fst : ('a1 * 'a2) -> 'a1 **)

let fst = function
| (x, _) -> x

(** val length : 'a1 list -> nat **)

let rec length = function
| [] -> O
| _ :: l' -> S (length l')

(** val app : 'a1 list -> 'a1 list -> 'a1 list **)

let rec app l m =
  match l with
  | [] -> m
  | a :: l1 -> a :: (app l1 m)

type comparison =
| Eq
| Lt
| Gt

(** val compOpp : comparison -> comparison **)

let compOpp = function
| Eq -> Eq
| Lt -> Gt
| Gt -> Lt

module Coq__1 = struct
 (** val add : nat -> nat -> nat **)
 let rec add n0 m =
   match n0 with
   | O -> m
   | S p -> S (add p m)
end
include Coq__1

(** val sub : nat -> nat -> nat **)

let rec sub n0 m =
  match n0 with
  | O -> n0
  | S k -> (match m with
            | O -> n0
            | S l -> sub k l)

type positive =
| XI of positive
| XO of positive
| XH

type n =
| N0
| Npos of positive

type z =
| Z0
| Zpos of positive
| Zneg of positive

(** val eqb : bool -> bool -> bool **)

let eqb b1 b2 =
  if b1 then b2 else if b2 then false else true

module Nat =
 struct
  (** val eqb : nat -> nat -> bool **)

  let rec eqb n0 m =
    match n0 with
    | O -> (match m with
            | O -> true
            | S _ -> false)
    | S n' -> (match m with
               | O -> false
               | S m' -> eqb n' m')

  (** val leb : nat -> nat -> bool **)

  let rec leb n0 m =
    match n0 with
    | O -> true
    | S n' -> (match m with
               | O -> false
               | S m' -> leb n' m')

  (** val ltb : nat -> nat -> bool **)

  let ltb n0 m =
    leb (S n0) m
 end

module Pos =
 struct
  (** val succ : positive -> positive **)

  let rec succ = function
  | XI p -> XO (succ p)
  | XO p -> XI p
  | XH -> XO XH

  (** val add : positive -> positive -> positive **)

  let rec add x y =
    match x with
    | XI p ->
      (match y with
       | XI q -> XO (add_carry p q)
       | XO q -> XI (add p q)
       | XH -> XO (succ p))
    | XO p ->
      (match y with
       | XI q -> XI (add p q)
       | XO q -> XO (add p q)
       | XH -> XI p)
    | XH -> (match y with
             | XI q -> XO (succ q)
             | XO q -> XI q
             | XH -> XO XH)

  (** val add_carry : positive -> positive -> positive **)

  and add_carry x y =
    match x with
    | XI p ->
      (match y with
       | XI q -> XI (add_carry p q)
       | XO q -> XO (add_carry p q)
       | XH -> XI (succ p))
    | XO p ->
      (match y with
       | XI q -> XO (add_carry p q)
       | XO q -> XI (add p q)
       | XH -> XO (succ p))
    | XH ->
      (match y with
       | XI q -> XI (succ q)
       | XO q -> XO (succ q)
       | XH -> XI XH)

  (** val pred_double : positive -> positive **)

  let rec pred_double = function
  | XI p -> XI (XO p)
  | XO p -> XI (pred_double p)
  | XH -> XH

  (** val compare_cont : comparison -> positive -> positive -> comparison **)

  let rec compare_cont r x y =
    match x with
    | XI p ->
      (match y with
       | XI q -> compare_cont r p q
       | XO q -> compare_cont Gt p q
       | XH -> Gt)
    | XO p ->
      (match y with
       | XI q -> compare_cont Lt p q
       | XO q -> compare_cont r p q
       | XH -> Gt)
    | XH -> (match y with
             | XH -> r
             | _ -> Lt)

  (** val compare : positive -> positive -> comparison **)

  let compare =
    compare_cont Eq

  (** val eqb : positive -> positive -> bool **)

  let rec eqb p q =
    match p with
    | XI p0 -> (match q with
                | XI q0 -> eqb p0 q0
                | _ -> false)
    | XO p0 -> (match q with
                | XO q0 -> eqb p0 q0
                | _ -> false)
    | XH -> (match q with
             | XH -> true
             | _ -> false)

  (** val iter_op : ('a1 -> 'a1 -> 'a1) -> positive -> 'a1 -> 'a1 **)

  let rec iter_op op p a =
    match p with
    | XI p0 -> op a (iter_op op p0 (op a a))
    | XO p0 -> iter_op op p0 (op a a)
    | XH -> a

  (** val to_nat : positive -> nat **)

  let to_nat x =
    iter_op Coq__1.add x (S O)

  (** val of_succ_nat : nat -> positive **)

  let rec of_succ_nat = function
  | O -> XH
  | S x -> succ (of_succ_nat x)
 end

module N =
 struct
  (** val eqb : n -> n -> bool **)

  let eqb n0 m =
    match n0 with
    | N0 -> (match m with
             | N0 -> true
             | Npos _ -> false)
    | Npos p -> (match m with
                 | N0 -> false
                 | Npos q -> Pos.eqb p q)
 end

module Z =
 struct
  (** val double : z -> z **)

  let double = function
  | Z0 -> Z0
  | Zpos p -> Zpos (XO p)
  | Zneg p -> Zneg (XO p)

  (** val succ_double : z -> z **)

  let succ_double = function
  | Z0 -> Zpos XH
  | Zpos p -> Zpos (XI p)
  | Zneg p -> Zneg (Pos.pred_double p)

  (** val pred_double : z -> z **)

  let pred_double = function
  | Z0 -> Zneg XH
  | Zpos p -> Zpos (Pos.pred_double p)
  | Zneg p -> Zneg (XI p)

  (** val pos_sub : positive -> positive -> z **)

  let rec pos_sub x y =
    match x with
    | XI p ->
      (match y with
       | XI q -> double (pos_sub p q)
       | XO q -> succ_double (pos_sub p q)
       | XH -> Zpos (XO p))
    | XO p ->
      (match y with
       | XI q -> pred_double (pos_sub p q)
       | XO q -> double (pos_sub p q)
       | XH -> Zpos (Pos.pred_double p))
    | XH ->
      (match y with
       | XI q -> Zneg (XO q)
       | XO q -> Zneg (Pos.pred_double q)
       | XH -> Z0)

  (** val add : z -> z -> z **)

  let add x y =
    match x with
    | Z0 -> y
    | Zpos x' ->
      (match y with
       | Z0 -> x
       | Zpos y' -> Zpos (Pos.add x' y')
       | Zneg y' -> pos_sub x' y')
    | Zneg x' ->
      (match y with
       | Z0 -> x
       | Zpos y' -> pos_sub y' x'
       | Zneg y' -> Zneg (Pos.add x' y'))

  (** val opp : z -> z **)

  let opp = function
  | Z0 -> Z0
  | Zpos x0 -> Zneg x0
  | Zneg x0 -> Zpos x0

  (** val sub : z -> z -> z **)

  let sub m n0 =
    add m (opp n0)

  (** val compare : z -> z -> comparison **)

  let compare x y =
    match x with
    | Z0 -> (match y with
             | Z0 -> Eq
             | Zpos _ -> Lt
             | Zneg _ -> Gt)
    | Zpos x' -> (match y with
                  | Zpos y' -> Pos.compare x' y'
                  | _ -> Gt)
    | Zneg x' ->
      (match y with
       | Zneg y' -> compOpp (Pos.compare x' y')
       | _ -> Lt)

  (** val leb : z -> z -> bool **)

  let leb x y =
    match compare x y with
    | Gt -> false
    | _ -> true

  (** val ltb : z -> z -> bool **)

  let ltb x y =
    match compare x y with
    | Lt -> true
    | _ -> false

  (** val eqb : z -> z -> bool **)

  let eqb x y =
    match x with
    | Z0 -> (match y with
             | Z0 -> true
             | _ -> false)
    | Zpos p -> (match y with
                 | Zpos q -> Pos.eqb p q
                 | _ -> false)
    | Zneg p -> (match y with
                 | Zneg q -> Pos.eqb p q
                 | _ -> false)

  (** val to_nat : z -> nat **)

  let to_nat = function
  | Zpos p -> Pos.to_nat p
  | _ -> O

  (** val of_nat : nat -> z **)

  let of_nat = function
  | O -> Z0
  | S n1 -> Zpos (Pos.of_succ_nat n1)
 end

(** val nth_error : 'a1 list -> nat -> 'a1 option **)

let rec nth_error l = function
| O -> (match l with
        | [] -> None
        | x :: _ -> Some x)
| S n1 -> (match l with
           | [] -> None
           | _ :: l0 -> nth_error l0 n1)

(** val rev : 'a1 list -> 'a1 list **)

let rec rev = function
| [] -> []
| x :: l' -> app (rev l') (x :: [])

(** val map : ('a1 -> 'a2) -> 'a1 list -> 'a2 list **)

let rec map f = function
| [] -> []
| a :: t -> (f a) :: (map f t)

(** val fold_left : ('a1 -> 'a2 -> 'a1) -> 'a2 list -> 'a1 -> 'a1 **)

let rec fold_left f l a0 =
  match l with
  | [] -> a0
  | b :: t -> fold_left f t (f a0 b)

(** val existsb : ('a1 -> bool) -> 'a1 list -> bool **)

let rec existsb f = function
| [] -> false
| a :: l0 -> (||) (f a) (existsb f l0)

(** val forallb : ('a1 -> bool) -> 'a1 list -> bool **)

let rec forallb f = function
| [] -> true
| a :: l0 -> (&&) (f a) (forallb f l0)

(** val filter : ('a1 -> bool) -> 'a1 list -> 'a1 list **)

let rec filter f = function
| [] -> []
| x :: l0 -> if f x then x :: (filter f l0) else filter f l0

(** val firstn : nat -> 'a1 list -> 'a1 list **)

let rec firstn n0 l =
  match n0 with
  | O -> []
  | S n1 -> (match l with
             | [] -> []
             | a :: l0 -> a :: (firstn n1 l0))

(** val skipn : nat -> 'a1 list -> 'a1 list **)

let rec skipn n0 l =
  match n0 with
  | O -> l
  | S n1 -> (match l with
             | [] -> []
             | _ :: l0 -> skipn n1 l0)

(** val ex_keep :
    (((((nat * n) * z) * z list) * z option) * positive) * bool **)

let ex_keep =
  ((((((O, N0), Z0), []), None), XH), true)

type lit =
| LInt of z
| LBool of bool
| LNone
| LStr of n

type value =
| VInt of z
| VBool of bool
| VNone
| VStr of n
| VBytes of n
| VTuple of value list
| VList of value list
| VSeq of value list
| VDict of bool * (lit * value) list
| VInst of n * (n * value) list

type cls =
| CInt
| CBool
| CStr
| CBytes
| CTuple
| CList
| CDict
| CUser of n

type ctab = (n * n list) list

type exn =
| ETypeError
| EValueError
| EUnbound
| EInternal

type 'a res =
| Ok of 'a
| NoMatch
| Err of exn

type binds = (n * value) list

(** val bind : 'a1 res -> ('a1 -> 'a2 res) -> 'a2 res **)

let bind r f =
  match r with
  | Ok a -> f a
  | NoMatch -> NoMatch
  | Err e -> Err e

(** val both : binds res -> binds res -> binds res **)

let both r1 r2 =
  bind r1 (fun a -> bind r2 (fun b -> Ok (app a b)))

type star_t =
| StarNone
| StarWild
| StarCap of n

type key =
| KLit of lit
| KVal of lit
| KAttr of n

type pat =
| PLit of lit
| PVal of lit
| PCap of n
| PWild
| PSeq of pats * star_t * pats
| PMap of kpats * n option
| PClass of cls * pats * kpats
| POr of pats
| PAs of pat * n
and pats =
| PNil
| PCons of pat * pats
and kpats =
| KNil
| KCons of key * pat * kpats

(** val plen : pats -> nat **)

let rec plen = function
| PNil -> O
| PCons (_, r) -> S (plen r)

(** val klen : kpats -> nat **)

let rec klen = function
| KNil -> O
| KCons (_, _, r) -> S (klen r)

(** val kkeys : kpats -> key list **)

let rec kkeys = function
| KNil -> []
| KCons (k, _, r) -> k :: (kkeys r)

type ckey =
| CNum of z
| CStrK of n
| CNoneK
| CAttrK of n

(** val b2z : bool -> z **)

let b2z = function
| true -> Zpos XH
| false -> Z0

(** val canon : lit -> ckey **)

let canon = function
| LInt z0 -> CNum z0
| LBool b -> CNum (b2z b)
| LNone -> CNoneK
| LStr s -> CStrK s

(** val ckey_eqb : ckey -> ckey -> bool **)

let ckey_eqb a b =
  match a with
  | CNum x -> (match b with
               | CNum y -> Z.eqb x y
               | _ -> false)
  | CStrK x -> (match b with
                | CStrK y -> N.eqb x y
                | _ -> false)
  | CNoneK -> (match b with
               | CNoneK -> true
               | _ -> false)
  | CAttrK x -> (match b with
                 | CAttrK y -> N.eqb x y
                 | _ -> false)

(** val vcanon : value -> ckey option **)

let vcanon = function
| VInt z0 -> Some (CNum z0)
| VBool b -> Some (CNum (b2z b))
| VNone -> Some CNoneK
| VStr s -> Some (CStrK s)
| _ -> None

(** val eq_lit : lit -> value -> bool **)

let eq_lit l v =
  match vcanon v with
  | Some c -> ckey_eqb c (canon l)
  | None -> false

(** val lit_match : lit -> value -> bool **)

let lit_match l v =
  match l with
  | LBool b -> (match v with
                | VBool b' -> eqb b b'
                | _ -> false)
  | LNone -> (match v with
              | VNone -> true
              | _ -> false)
  | _ -> eq_lit l v

(** val key_canon : key -> ckey **)

let key_canon = function
| KLit l -> canon l
| KVal l -> canon l
| KAttr a -> CAttrK a

(** val memc : ckey -> ckey list -> bool **)

let memc c l =
  existsb (ckey_eqb c) l

(** val nodupc : ckey list -> bool **)

let rec nodupc = function
| [] -> true
| a :: r -> (&&) (negb (memc a r)) (nodupc r)

(** val seq_items : value -> value list option **)

let seq_items = function
| VTuple l -> Some l
| VList l -> Some l
| VSeq l -> Some l
| _ -> None

(** val map_items : value -> (lit * value) list option **)

let map_items = function
| VDict (_, kvs) -> Some kvs
| _ -> None

(** val dict_get : ckey -> (lit * value) list -> value option **)

let rec dict_get c = function
| [] -> None
| p :: r ->
  let (k, x) = p in if ckey_eqb (canon k) c then Some x else dict_get c r

(** val attr_get : n -> (n * value) list -> value option **)

let rec attr_get a = function
| [] -> None
| p :: r -> let (b, x) = p in if N.eqb a b then Some x else attr_get a r

(** val getattr : value -> n -> value option **)

let getattr v a =
  match v with
  | VInst (_, attrs) -> attr_get a attrs
  | _ -> None

(** val klookup : value -> key -> value option **)

let klookup v k = match k with
| KAttr a -> getattr v a
| _ ->
  (match map_items v with
   | Some kvs -> dict_get (key_canon k) kvs
   | None -> None)

(** val isinst : value -> cls -> bool **)

let isinst v = function
| CInt -> (match v with
           | VInt _ -> true
           | VBool _ -> true
           | _ -> false)
| CBool -> (match v with
            | VBool _ -> true
            | _ -> false)
| CStr -> (match v with
           | VStr _ -> true
           | _ -> false)
| CBytes -> (match v with
             | VBytes _ -> true
             | _ -> false)
| CTuple -> (match v with
             | VTuple _ -> true
             | _ -> false)
| CList -> (match v with
            | VList _ -> true
            | _ -> false)
| CDict ->
  (match v with
   | VDict (custom, _) -> if custom then false else true
   | _ -> false)
| CUser a -> (match v with
              | VInst (b, _) -> N.eqb a b
              | _ -> false)

(** val match_self : cls -> bool **)

let match_self = function
| CUser _ -> false
| _ -> true

(** val ctab_get : ctab -> n -> n list option **)

let rec ctab_get ct c =
  match ct with
  | [] -> None
  | p :: r -> let (d, ma) = p in if N.eqb c d then Some ma else ctab_get r c

(** val match_args : ctab -> cls -> n list **)

let match_args ct = function
| CUser n0 -> (match ctab_get ct n0 with
               | Some ma -> ma
               | None -> [])
| _ -> []

(** val allowed : ctab -> cls -> nat **)

let allowed ct c =
  if match_self c then S O else length (match_args ct c)

(** val star_binds : star_t -> value list -> binds **)

let star_binds st mid =
  match st with
  | StarCap x -> (x, (VList mid)) :: []
  | _ -> []

(** val rest_binds : n option -> (lit * value) list -> binds **)

let rest_binds rest d =
  match rest with
  | Some x -> (x, (VDict (false, d))) :: []
  | None -> []

(** val attr_vals : value -> n list -> value list option **)

let rec attr_vals v = function
| [] -> Some []
| a :: r ->
  (match getattr v a with
   | Some x ->
     (match attr_vals v r with
      | Some xs -> Some (x :: xs)
      | None -> None)
   | None -> None)

(** val ref_lookups :
    (key -> bool) -> ckey list -> key list -> exn -> unit res **)

let rec ref_lookups present seen ks dup =
  match ks with
  | [] -> Ok ()
  | k :: r ->
    if memc (key_canon k) seen
    then Err dup
    else if present k
         then ref_lookups present ((key_canon k) :: seen) r dup
         else NoMatch

(** val ref_rest : kpats -> (lit * value) list -> (lit * value) list **)

let ref_rest items kvs =
  filter (fun kv ->
    negb (memc (canon (fst kv)) (map key_canon (kkeys items)))) kvs

(** val pm_ref : ctab -> pat -> value -> binds res **)

let pm_ref ct =
  let rec pm_ref0 p v =
    match p with
    | PLit l -> if lit_match l v then Ok [] else NoMatch
    | PVal l -> if eq_lit l v then Ok [] else NoMatch
    | PCap x -> Ok ((x, v) :: [])
    | PWild -> Ok []
    | PSeq (pre, st, post) ->
      (match seq_items v with
       | Some l ->
         let n0 = plen pre in
         let m = plen post in
         let l0 = length l in
         (match st with
          | StarNone ->
            if Nat.eqb l0 (add n0 m)
            then both (ref_list pre (firstn n0 l))
                   (ref_list post (skipn (sub l0 m) l))
            else NoMatch
          | _ ->
            if Nat.leb (add n0 m) l0
            then both (ref_list pre (firstn n0 l))
                   (both (Ok
                     (star_binds st (firstn (sub (sub l0 n0) m) (skipn n0 l))))
                     (ref_list post (skipn (sub l0 m) l)))
            else NoMatch)
       | None -> NoMatch)
    | PMap (items, rest) ->
      (match map_items v with
       | Some kvs ->
         if Nat.ltb (length kvs) (klen items)
         then NoMatch
         else bind
                (ref_lookups (fun k ->
                  match klookup v k with
                  | Some _ -> true
                  | None -> false) [] (kkeys items) EValueError) (fun _ ->
                both (ref_kp items v) (Ok
                  (rest_binds rest (ref_rest items kvs))))
       | None -> NoMatch)
    | PClass (c, pos, kw) ->
      if negb (isinst v c)
      then NoMatch
      else if Nat.ltb (allowed ct c) (plen pos)
           then Err ETypeError
           else let pnames =
                  if match_self c
                  then []
                  else firstn (plen pos) (match_args ct c)
                in
                bind
                  (ref_lookups (fun k ->
                    match klookup v k with
                    | Some _ -> true
                    | None -> false) []
                    (app (map (fun x -> KAttr x) pnames) (kkeys kw))
                    ETypeError) (fun _ ->
                  match if match_self c
                        then Some
                               (match plen pos with
                                | O -> []
                                | S _ -> v :: [])
                        else attr_vals v pnames with
                  | Some vals -> both (ref_list pos vals) (ref_kp kw v)
                  | None -> Err EInternal)
    | POr alts -> ref_alts alts v
    | PAs (q, x) -> both (pm_ref0 q v) (Ok ((x, v) :: []))
  and ref_list ps vs =
    match ps with
    | PNil -> (match vs with
               | [] -> Ok []
               | _ :: _ -> NoMatch)
    | PCons (p, r) ->
      (match vs with
       | [] -> NoMatch
       | x :: xs -> both (pm_ref0 p x) (ref_list r xs))
  and ref_kp ks v =
    match ks with
    | KNil -> Ok []
    | KCons (k, p, r) ->
      (match klookup v k with
       | Some x -> both (pm_ref0 p x) (ref_kp r v)
       | None -> NoMatch)
  and ref_alts ps v =
    match ps with
    | PNil -> NoMatch
    | PCons (p, r) ->
      (match pm_ref0 p v with
       | NoMatch -> ref_alts r v
       | x -> x)
  in pm_ref0

(** val is_wild : pat -> bool **)

let is_wild = function
| PWild -> true
| _ -> false

(** val is_litkey : key -> bool **)

let is_litkey = function
| KVal _ -> false
| _ -> true

(** val index_z : value list -> z -> value option **)

let index_z l i =
  if Z.ltb i Z0 then None else nth_error l (Z.to_nat i)

(** val slice_z : value list -> z -> z -> value list option **)

let slice_z l start stop =
  if (||) ((||) (Z.ltb start Z0) (Z.ltb stop start))
       (Z.ltb (Z.of_nat (length l)) stop)
  then None
  else Some (firstn (Z.to_nat (Z.sub stop start)) (skipn (Z.to_nat start) l))

(** val cy_map_dup : key list -> bool **)

let cy_map_dup ks =
  let vals = map key_canon (filter (fun k -> negb (is_litkey k)) ks) in
  let lits = map key_canon (filter is_litkey ks) in
  (||) (negb (nodupc vals)) (existsb (fun c -> memc c vals) lits)

(** val cy_cls_dup : n list -> key list -> bool **)

let cy_cls_dup pnames kwnames =
  let ps = map (fun x -> CAttrK x) pnames in
  (||) (negb (nodupc ps)) (existsb (fun k -> memc (key_canon k) ps) kwnames)

(** val del_key : ckey -> (lit * value) list -> (lit * value) list **)

let del_key c kvs =
  filter (fun kv -> negb (ckey_eqb (canon (fst kv)) c)) kvs

(** val cy_rest : key list -> (lit * value) list -> (lit * value) list **)

let cy_rest ks kvs =
  fold_left (fun d k -> del_key (key_canon k) d) ks kvs

(** val sorted_keys : key list -> key list **)

let sorted_keys ks =
  app (filter is_litkey ks) (filter (fun k -> negb (is_litkey k)) ks)

(** val lit_value : lit -> value **)

let lit_value = function
| LInt z0 -> VInt z0
| LBool b -> VBool b
| LNone -> VNone
| LStr s -> VStr s

(** val as_src : pat -> lit option **)

let rec as_src = function
| PLit l -> Some l
| PVal l -> Some l
| PAs (q', _) -> as_src q'
| _ -> None

(** val as_value : bool -> pat -> value -> value **)

let as_value fxas q v =
  if fxas then v else (match as_src q with
                       | Some l -> lit_value l
                       | None -> v)

(** val cy : bool -> ctab -> pat -> value -> binds res **)

let cy fxas ct =
  let rec cy0 p v =
    match p with
    | PLit l -> if lit_match l v then Ok [] else NoMatch
    | PVal l -> if eq_lit l v then Ok [] else NoMatch
    | PCap x -> Ok ((x, v) :: [])
    | PWild -> Ok []
    | PSeq (pre, st, post) ->
      (match seq_items v with
       | Some l ->
         let n0 = Z.of_nat (plen pre) in
         let m = Z.of_nat (plen post) in
         let l0 = Z.of_nat (length l) in
         (match st with
          | StarNone ->
            if Z.eqb l0 (Z.add n0 m)
            then both (cy_items pre l Z0) (cy_items post l n0)
            else NoMatch
          | _ ->
            if Z.leb (Z.add n0 m) l0
            then both (cy_items pre l Z0)
                   (both
                     (match st with
                      | StarCap x ->
                        (match slice_z l n0
                                 (if Z.eqb m Z0
                                  then l0
                                  else Z.add l0 (Z.opp m)) with
                         | Some mid -> Ok ((x, (VList mid)) :: [])
                         | None -> Err EInternal)
                      | _ -> Ok []) (cy_items post l (Z.add l0 (Z.opp m))))
            else NoMatch)
       | None -> NoMatch)
    | PMap (items, rest) ->
      if cy_map_dup (kkeys items)
      then Err EValueError
      else (match map_items v with
            | Some kvs ->
              if Nat.ltb (length kvs) (klen items)
              then NoMatch
              else if negb
                        (forallb (fun k ->
                          match klookup v k with
                          | Some _ -> true
                          | None -> false) (sorted_keys (kkeys items)))
                   then NoMatch
                   else both
                          (bind (cy_kp true items v) (fun bl ->
                            bind (cy_kp false items v) (fun bv ->
                              cy_kp_binds items bl bv))) (Ok
                          (rest_binds rest (cy_rest (kkeys items) kvs)))
            | None -> NoMatch)
    | PClass (c, pos, kw) ->
      if negb (isinst v c)
      then NoMatch
      else let np = plen pos in
           let pnames =
             if match_self c then [] else firstn np (match_args ct c)
           in
           bind
             (match np with
              | O -> Ok ()
              | S _ ->
                if Nat.ltb (allowed ct c) np
                then Err ETypeError
                else if match_self c
                     then Ok ()
                     else if cy_cls_dup pnames (kkeys kw)
                          then Err ETypeError
                          else if forallb (fun a ->
                                    match getattr v a with
                                    | Some _ -> true
                                    | None -> false) pnames
                               then Ok ()
                               else NoMatch) (fun _ ->
             if negb
                  (forallb (fun k ->
                    match klookup v k with
                    | Some _ -> true
                    | None -> false) (kkeys kw))
             then NoMatch
             else (match if match_self c
                         then Some (match np with
                                    | O -> []
                                    | S _ -> v :: [])
                         else attr_vals v pnames with
                   | Some vals ->
                     bind (cy_kall kw v) (fun bk ->
                       bind (cy_list pos vals) (fun bp -> Ok (app bp bk)))
                   | None -> Err EInternal))
    | POr alts -> cy_alts alts v
    | PAs (q, x) -> both (cy0 q v) (Ok ((x, (as_value fxas q v)) :: []))
  and cy_items ps l i =
    match ps with
    | PNil -> Ok []
    | PCons (p, r) ->
      if is_wild p
      then cy_items r l (Z.add i (Zpos XH))
      else (match index_z l i with
            | Some x -> both (cy0 p x) (cy_items r l (Z.add i (Zpos XH)))
            | None -> Err EInternal)
  and cy_list ps vs =
    match ps with
    | PNil -> (match vs with
               | [] -> Ok []
               | _ :: _ -> NoMatch)
    | PCons (p, r) ->
      (match vs with
       | [] -> NoMatch
       | x :: xs -> both (cy0 p x) (cy_list r xs))
  and cy_kp lits ks v =
    match ks with
    | KNil -> Ok []
    | KCons (k, p, r) ->
      if eqb (is_litkey k) lits
      then (match klookup v k with
            | Some x ->
              bind (cy0 p x) (fun b ->
                bind (cy_kp lits r v) (fun bs -> Ok (b :: bs)))
            | None -> NoMatch)
      else cy_kp lits r v
  and cy_kall ks v =
    match ks with
    | KNil -> Ok []
    | KCons (k, p, r) ->
      (match klookup v k with
       | Some x -> both (cy0 p x) (cy_kall r v)
       | None -> NoMatch)
  and cy_alts ps v =
    match ps with
    | PNil -> NoMatch
    | PCons (p, r) -> (match cy0 p v with
                       | NoMatch -> cy_alts r v
                       | x -> x)
  and cy_kp_binds ks bl bv =
    match ks with
    | KNil ->
      (match bl with
       | [] -> (match bv with
                | [] -> Ok []
                | _ :: _ -> Err EInternal)
       | _ :: _ -> Err EInternal)
    | KCons (k, _, r) ->
      if is_litkey k
      then (match bl with
            | [] -> Err EInternal
            | b :: bl' ->
              bind (cy_kp_binds r bl' bv) (fun bs -> Ok (app b bs)))
      else (match bv with
            | [] -> Err EInternal
            | b :: bv' ->
              bind (cy_kp_binds r bl bv') (fun bs -> Ok (app b bs)))
  in cy0

(** val simple_notarget : pat -> bool **)

let rec simple_notarget = function
| PLit _ -> true
| PVal _ -> true
| PWild -> true
| _ -> false

(** val all_simple_notarget : pats -> bool **)

let rec all_simple_notarget = function
| PNil -> true
| PCons (p, r) -> (&&) (simple_notarget p) (all_simple_notarget r)

(** val is_simple : pat -> bool **)

let rec is_simple = function
| PSeq (_, _, _) -> false
| PMap (_, _) -> false
| PClass (_, _, _) -> false
| POr alts -> all_simple_notarget alts
| PAs (q, _) -> is_simple q
| _ -> true

(** val simple_cmp : pat -> value -> bool **)

let simple_cmp p v =
  match p with
  | PLit l -> lit_match l v
  | PVal l -> eq_lit l v
  | _ -> true

(** val simple_or : pats -> value -> bool **)

let rec simple_or ps v =
  match ps with
  | PNil -> false
  | PCons (p, r) -> (||) (simple_cmp p v) (simple_or r v)

(** val cy_simple : bool -> pat -> value -> binds res **)

let rec cy_simple fxas p v =
  match p with
  | PCap x -> Ok ((x, v) :: [])
  | POr alts -> if simple_or alts v then Ok [] else NoMatch
  | PAs (q, x) ->
    both (cy_simple fxas q v) (Ok ((x, (as_value fxas q v)) :: []))
  | _ -> if simple_cmp p v then Ok [] else NoMatch

type guard =
| GNone
| GConst of bool
| GVarEq of n * lit

(** val env_get : n -> binds -> value option **)

let rec env_get x = function
| [] -> None
| p :: r -> let (y, w) = p in if N.eqb x y then Some w else env_get x r

(** val eval_guard : guard -> binds -> bool res **)

let eval_guard g env =
  match g with
  | GNone -> Ok true
  | GConst b -> Ok b
  | GVarEq (x, l) ->
    (match env_get x env with
     | Some w -> Ok (eq_lit l w)
     | None -> Err EUnbound)

(** val has_guard : guard -> bool **)

let has_guard = function
| GNone -> false
| _ -> true

type outcome = { o_sel : nat option; o_env : binds; o_guards : nat list }

type sres =
| SDone of outcome
| SRaise of exn * nat list

(** val run_cases :
    (nat -> pat -> guard -> value -> binds res) -> (pat * guard) list ->
    value -> nat -> binds -> nat list -> sres **)

let rec run_cases matcher cases v i env gs =
  match cases with
  | [] -> SDone { o_sel = None; o_env = env; o_guards = (rev gs) }
  | p0 :: r ->
    let (p, g) = p0 in
    (match matcher i p g v with
     | Ok b ->
       let env' = app (rev b) env in
       let gs' = if has_guard g then i :: gs else gs in
       (match eval_guard g env' with
        | Ok a ->
          if a
          then SDone { o_sel = (Some i); o_env = env'; o_guards = (rev gs') }
          else run_cases matcher r v (S i) env' gs'
        | NoMatch -> SRaise (EInternal, (rev gs'))
        | Err e -> SRaise (e, (rev gs')))
     | NoMatch -> run_cases matcher r v (S i) env gs
     | Err e -> SRaise (e, (rev gs)))

(** val match_ref : ctab -> (pat * guard) list -> value -> sres **)

let match_ref ct cases v =
  run_cases (fun _ p _ w -> pm_ref ct p w) cases v O [] []

(** val match_cy : bool -> ctab -> (pat * guard) list -> value -> sres **)

let match_cy fxas ct cases v =
  run_cases (fun _ p g w ->
    if (&&) (is_simple p) (negb (has_guard g))
    then cy_simple fxas p w
    else cy fxas ct p w) cases v O [] []

(** val has_valkey : key list -> bool **)

let has_valkey ks =
  existsb (fun k -> negb (is_litkey k)) ks

(** val safe : ctab -> bool -> pat -> bool **)

let safe ct =
  let rec safe0 strict = function
  | PSeq (pre, _, post) -> (&&) (safe_list strict pre) (safe_list strict post)
  | PMap (items, _) ->
    (&&) (nodupc (map key_canon (kkeys items)))
      (safe_kp ((||) strict (has_valkey (kkeys items))) items)
  | PClass (c, pos, kw) ->
    let pnames =
      if match_self c then [] else firstn (plen pos) (match_args ct c)
    in
    (&&)
      ((&&)
        (nodupc
          (map key_canon (app (map (fun x -> KAttr x) pnames) (kkeys kw))))
        ((||) (negb strict) (Nat.leb (plen pos) (allowed ct c))))
      (let s =
         (||) strict
           ((&&) (negb (Nat.eqb (plen pos) O)) (negb (Nat.eqb (klen kw) O)))
       in
       (&&) (safe_list s pos) (safe_kp s kw))
  | POr alts -> safe_list strict alts
  | PAs (q, _) -> safe0 strict q
  | _ -> true
  and safe_list strict = function
  | PNil -> true
  | PCons (p, r) -> (&&) (safe0 strict p) (safe_list strict r)
  and safe_kp strict = function
  | KNil -> true
  | KCons (_, p, r) -> (&&) (safe0 strict p) (safe_kp strict r)
  in safe0

(** val as_harmless : pat -> bool **)

let rec as_harmless = function
| PLit l -> (match l with
             | LInt _ -> false
             | _ -> true)
| PVal l -> (match l with
             | LInt _ -> false
             | LBool _ -> false
             | _ -> true)
| PAs (q', _) -> as_harmless q'
| _ -> true

(** val as_ok : pat -> bool **)

let rec as_ok = function
| PSeq (pre, _, post) -> (&&) (as_ok_list pre) (as_ok_list post)
| PMap (items, _) -> as_ok_kp items
| PClass (_, pos, kw) -> (&&) (as_ok_list pos) (as_ok_kp kw)
| POr alts -> as_ok_list alts
| PAs (q, _) -> (&&) (as_harmless q) (as_ok q)
| _ -> true

(** val as_ok_list : pats -> bool **)

and as_ok_list = function
| PNil -> true
| PCons (p, r) -> (&&) (as_ok p) (as_ok_list r)

(** val as_ok_kp : kpats -> bool **)

and as_ok_kp = function
| KNil -> true
| KCons (_, p, r) -> (&&) (as_ok p) (as_ok_kp r)

(** val as_ok_cases : (pat * guard) list -> bool **)

let as_ok_cases cases =
  forallb (fun pg -> as_ok (fst pg)) cases

(** val safe_cases : ctab -> (pat * guard) list -> bool **)

let safe_cases ct cases =
  forallb (fun pg -> safe ct false (fst pg)) cases
