
(** val negb : bool -> bool **)

let negb = function
| true -> false
| false -> true

type nat =
| O
| S of nat

(** val option_map : ('a1 -> 'a2) -> 'a1 option -> 'a2 option **)

let option_map f = function
| Some a -> Some (f a)
| None -> None

(** val fst : ('a1 * 'a2) -> 'a1 **)

let fst = function
| (x, _) -> x

(** val snd : ('a1 * 'a2) -> 'a2 **)

let snd = function
| (_, y) -> y

(** val length : 'a1 list -> nat **)

let rec length = function
| [] -> O
| _ :: l' -> S (length l')

(** val app : 'a1 list -> 'a1 list -> 'a1 list **)

let rec app l m =
  match l with
  | [] -> m
  | a :: l1 -> a :: (app l1 m)

type comparison =
| Eq
| Lt
| Gt

(** val compOpp : comparison -> comparison **)

let compOpp = function
| Eq -> Eq
| Lt -> Gt
| Gt -> Lt

module Coq__1 = struct
 (** val add : nat -> nat -> nat **)
 let rec add n0 m =
   match n0 with
   | O -> m
   | S p -> S (add p m)
end
include Coq__1

type positive =
| XI of positive
| XO of positive
| XH

type n =
| N0
| Npos of positive

type z =
| Z0
| Zpos of positive
| Zneg of positive

module Pos =
 struct
  type mask =
  | IsNul
  | IsPos of positive
  | IsNeg
 end

module Coq_Pos =
 struct
  (** val succ : positive -> positive **)

  let rec succ = function
  | XI p -> XO (succ p)
  | XO p -> XI p
  | XH -> XO XH

  (** val add : positive -> positive -> positive **)

  let rec add x y =
    match x with
    | XI p ->
      (match y with
       | XI q -> XO (add_carry p q)
       | XO q -> XI (add p q)
       | XH -> XO (succ p))
    | XO p ->
      (match y with
       | XI q -> XI (add p q)
       | XO q -> XO (add p q)
       | XH -> XI p)
    | XH -> (match y with
             | XI q -> XO (succ q)
             | XO q -> XI q
             | XH -> XO XH)

  (** val add_carry : positive -> positive -> positive **)

  and add_carry x y =
    match x with
    | XI p ->
      (match y with
       | XI q -> XI (add_carry p q)
       | XO q -> XO (add_carry p q)
       | XH -> XI (succ p))
    | XO p ->
      (match y with
       | XI q -> XO (add_carry p q)
       | XO q -> XI (add p q)
       | XH -> XO (succ p))
    | XH ->
      (match y with
       | XI q -> XI (succ q)
       | XO q -> XO (succ q)
       | XH -> XI XH)

  (** val pred_double : positive -> positive **)

  let rec pred_double = function
  | XI p -> XI (XO p)
  | XO p -> XI (pred_double p)
  | XH -> XH

  (** val pred_N : positive -> n **)

  let pred_N = function
  | XI p -> Npos (XO p)
  | XO p -> Npos (pred_double p)
  | XH -> N0

  type mask = Pos.mask =
  | IsNul
  | IsPos of positive
  | IsNeg

  (** val succ_double_mask : mask -> mask **)

  let succ_double_mask = function
  | IsNul -> IsPos XH
  | IsPos p -> IsPos (XI p)
  | IsNeg -> IsNeg

  (** val double_mask : mask -> mask **)

  let double_mask = function
  | IsPos p -> IsPos (XO p)
  | x0 -> x0

  (** val double_pred_mask : positive -> mask **)

  let double_pred_mask = function
  | XI p -> IsPos (XO (XO p))
  | XO p -> IsPos (XO (pred_double p))
  | XH -> IsNul

  (** val sub_mask : positive -> positive -> mask **)

  let rec sub_mask x y =
    match x with
    | XI p ->
      (match y with
       | XI q -> double_mask (sub_mask p q)
       | XO q -> succ_double_mask (sub_mask p q)
       | XH -> IsPos (XO p))
    | XO p ->
      (match y with
       | XI q -> succ_double_mask (sub_mask_carry p q)
       | XO q -> double_mask (sub_mask p q)
       | XH -> IsPos (pred_double p))
    | XH -> (match y with
             | XH -> IsNul
             | _ -> IsNeg)

  (** val sub_mask_carry : positive -> positive -> mask **)

  and sub_mask_carry x y =
    match x with
    | XI p ->
      (match y with
       | XI q -> succ_double_mask (sub_mask_carry p q)
       | XO q -> double_mask (sub_mask p q)
       | XH -> IsPos (pred_double p))
    | XO p ->
      (match y with
       | XI q -> double_mask (sub_mask_carry p q)
       | XO q -> succ_double_mask (sub_mask_carry p q)
       | XH -> double_pred_mask p)
    | XH -> IsNeg

  (** val mul : positive -> positive -> positive **)

  let rec mul x y =
    match x with
    | XI p -> add y (XO (mul p y))
    | XO p -> XO (mul p y)
    | XH -> y

  (** val iter : ('a1 -> 'a1) -> 'a1 -> positive -> 'a1 **)

  let rec iter f x = function
  | XI n' -> f (iter f (iter f x n') n')
  | XO n' -> iter f (iter f x n') n'
  | XH -> f x

  (** val div2 : positive -> positive **)

  let div2 = function
  | XI p0 -> p0
  | XO p0 -> p0
  | XH -> XH

  (** val div2_up : positive -> positive **)

  let div2_up = function
  | XI p0 -> succ p0
  | XO p0 -> p0
  | XH -> XH

  (** val size : positive -> positive **)

  let rec size = function
  | XI p0 -> succ (size p0)
  | XO p0 -> succ (size p0)
  | XH -> XH

  (** val compare_cont : comparison -> positive -> positive -> comparison **)

  let rec compare_cont r x y =
    match x with
    | XI p ->
      (match y with
       | XI q -> compare_cont r p q
       | XO q -> compare_cont Gt p q
       | XH -> Gt)
    | XO p ->
      (match y with
       | XI q -> compare_cont Lt p q
       | XO q -> compare_cont r p q
       | XH -> Gt)
    | XH -> (match y with
             | XH -> r
             | _ -> Lt)

  (** val compare : positive -> positive -> comparison **)

  let compare =
    compare_cont Eq

  (** val eqb : positive -> positive -> bool **)

  let rec eqb p q =
    match p with
    | XI p0 -> (match q with
                | XI q0 -> eqb p0 q0
                | _ -> false)
    | XO p0 -> (match q with
                | XO q0 -> eqb p0 q0
                | _ -> false)
    | XH -> (match q with
             | XH -> true
             | _ -> false)

  (** val coq_Nsucc_double : n -> n **)

  let coq_Nsucc_double = function
  | N0 -> Npos XH
  | Npos p -> Npos (XI p)

  (** val coq_Ndouble : n -> n **)

  let coq_Ndouble = function
  | N0 -> N0
  | Npos p -> Npos (XO p)

  (** val coq_lor : positive -> positive -> positive **)

  let rec coq_lor p q =
    match p with
    | XI p0 ->
      (match q with
       | XI q0 -> XI (coq_lor p0 q0)
       | XO q0 -> XI (coq_lor p0 q0)
       | XH -> p)
    | XO p0 ->
      (match q with
       | XI q0 -> XI (coq_lor p0 q0)
       | XO q0 -> XO (coq_lor p0 q0)
       | XH -> XI p0)
    | XH -> (match q with
             | XO q0 -> XI q0
             | _ -> q)

  (** val coq_land : positive -> positive -> n **)

  let rec coq_land p q =
    match p with
    | XI p0 ->
      (match q with
       | XI q0 -> coq_Nsucc_double (coq_land p0 q0)
       | XO q0 -> coq_Ndouble (coq_land p0 q0)
       | XH -> Npos XH)
    | XO p0 ->
      (match q with
       | XI q0 -> coq_Ndouble (coq_land p0 q0)
       | XO q0 -> coq_Ndouble (coq_land p0 q0)
       | XH -> N0)
    | XH -> (match q with
             | XO _ -> N0
             | _ -> Npos XH)

  (** val ldiff : positive -> positive -> n **)

  let rec ldiff p q =
    match p with
    | XI p0 ->
      (match q with
       | XI q0 -> coq_Ndouble (ldiff p0 q0)
       | XO q0 -> coq_Nsucc_double (ldiff p0 q0)
       | XH -> Npos (XO p0))
    | XO p0 ->
      (match q with
       | XI q0 -> coq_Ndouble (ldiff p0 q0)
       | XO q0 -> coq_Ndouble (ldiff p0 q0)
       | XH -> Npos p)
    | XH -> (match q with
             | XO _ -> Npos XH
             | _ -> N0)

  (** val iter_op : ('a1 -> 'a1 -> 'a1) -> positive -> 'a1 -> 'a1 **)

  let rec iter_op op p a =
    match p with
    | XI p0 -> op a (iter_op op p0 (op a a))
    | XO p0 -> iter_op op p0 (op a a)
    | XH -> a

  (** val to_nat : positive -> nat **)

  let to_nat x =
    iter_op Coq__1.add x (S O)

  (** val of_succ_nat : nat -> positive **)

  let rec of_succ_nat = function
  | O -> XH
  | S x -> succ (of_succ_nat x)
 end

module N =
 struct
  (** val succ_double : n -> n **)

  let succ_double = function
  | N0 -> Npos XH
  | Npos p -> Npos (XI p)

  (** val double : n -> n **)

  let double = function
  | N0 -> N0
  | Npos p -> Npos (XO p)

  (** val succ_pos : n -> positive **)

  let succ_pos = function
  | N0 -> XH
  | Npos p -> Coq_Pos.succ p

  (** val sub : n -> n -> n **)

  let sub n0 m =
    match n0 with
    | N0 -> N0
    | Npos n' ->
      (match m with
       | N0 -> n0
       | Npos m' ->
         (match Coq_Pos.sub_mask n' m' with
          | Coq_Pos.IsPos p -> Npos p
          | _ -> N0))

  (** val compare : n -> n -> comparison **)

  let compare n0 m =
    match n0 with
    | N0 -> (match m with
             | N0 -> Eq
             | Npos _ -> Lt)
    | Npos n' -> (match m with
                  | N0 -> Gt
                  | Npos m' -> Coq_Pos.compare n' m')

  (** val leb : n -> n -> bool **)

  let leb x y =
    match compare x y with
    | Gt -> false
    | _ -> true

  (** val pos_div_eucl : positive -> n -> n * n **)

  let rec pos_div_eucl a b =
    match a with
    | XI a' ->
      let (q, r) = pos_div_eucl a' b in
      let r' = succ_double r in
      if leb b r' then ((succ_double q), (sub r' b)) else ((double q), r')
    | XO a' ->
      let (q, r) = pos_div_eucl a' b in
      let r' = double r in
      if leb b r' then ((succ_double q), (sub r' b)) else ((double q), r')
    | XH ->
      (match b with
       | N0 -> (N0, (Npos XH))
       | Npos p -> (match p with
                    | XH -> ((Npos XH), N0)
                    | _ -> (N0, (Npos XH))))

  (** val coq_lor : n -> n -> n **)

  let coq_lor n0 m =
    match n0 with
    | N0 -> m
    | Npos p -> (match m with
                 | N0 -> n0
                 | Npos q -> Npos (Coq_Pos.coq_lor p q))

  (** val coq_land : n -> n -> n **)

  let coq_land n0 m =
    match n0 with
    | N0 -> N0
    | Npos p -> (match m with
                 | N0 -> N0
                 | Npos q -> Coq_Pos.coq_land p q)

  (** val ldiff : n -> n -> n **)

  let ldiff n0 m =
    match n0 with
    | N0 -> N0
    | Npos p -> (match m with
                 | N0 -> n0
                 | Npos q -> Coq_Pos.ldiff p q)
 end

module Z =
 struct
  (** val double : z -> z **)

  let double = function
  | Z0 -> Z0
  | Zpos p -> Zpos (XO p)
  | Zneg p -> Zneg (XO p)

  (** val succ_double : z -> z **)

  let succ_double = function
  | Z0 -> Zpos XH
  | Zpos p -> Zpos (XI p)
  | Zneg p -> Zneg (Coq_Pos.pred_double p)

  (** val pred_double : z -> z **)

  let pred_double = function
  | Z0 -> Zneg XH
  | Zpos p -> Zpos (Coq_Pos.pred_double p)
  | Zneg p -> Zneg (XI p)

  (** val pos_sub : positive -> positive -> z **)

  let rec pos_sub x y =
    match x with
    | XI p ->
      (match y with
       | XI q -> double (pos_sub p q)
       | XO q -> succ_double (pos_sub p q)
       | XH -> Zpos (XO p))
    | XO p ->
      (match y with
       | XI q -> pred_double (pos_sub p q)
       | XO q -> double (pos_sub p q)
       | XH -> Zpos (Coq_Pos.pred_double p))
    | XH ->
      (match y with
       | XI q -> Zneg (XO q)
       | XO q -> Zneg (Coq_Pos.pred_double q)
       | XH -> Z0)

  (** val add : z -> z -> z **)

  let add x y =
    match x with
    | Z0 -> y
    | Zpos x' ->
      (match y with
       | Z0 -> x
       | Zpos y' -> Zpos (Coq_Pos.add x' y')
       | Zneg y' -> pos_sub x' y')
    | Zneg x' ->
      (match y with
       | Z0 -> x
       | Zpos y' -> pos_sub y' x'
       | Zneg y' -> Zneg (Coq_Pos.add x' y'))

  (** val opp : z -> z **)

  let opp = function
  | Z0 -> Z0
  | Zpos x0 -> Zneg x0
  | Zneg x0 -> Zpos x0

  (** val pred : z -> z **)

  let pred x =
    add x (Zneg XH)

  (** val sub : z -> z -> z **)

  let sub m n0 =
    add m (opp n0)

  (** val mul : z -> z -> z **)

  let mul x y =
    match x with
    | Z0 -> Z0
    | Zpos x' ->
      (match y with
       | Z0 -> Z0
       | Zpos y' -> Zpos (Coq_Pos.mul x' y')
       | Zneg y' -> Zneg (Coq_Pos.mul x' y'))
    | Zneg x' ->
      (match y with
       | Z0 -> Z0
       | Zpos y' -> Zneg (Coq_Pos.mul x' y')
       | Zneg y' -> Zpos (Coq_Pos.mul x' y'))

  (** val pow_pos : z -> positive -> z **)

  let pow_pos z0 =
    Coq_Pos.iter (mul z0) (Zpos XH)

  (** val pow : z -> z -> z **)

  let pow x = function
  | Z0 -> Zpos XH
  | Zpos p -> pow_pos x p
  | Zneg _ -> Z0

  (** val compare : z -> z -> comparison **)

  let compare x y =
    match x with
    | Z0 -> (match y with
             | Z0 -> Eq
             | Zpos _ -> Lt
             | Zneg _ -> Gt)
    | Zpos x' -> (match y with
                  | Zpos y' -> Coq_Pos.compare x' y'
                  | _ -> Gt)
    | Zneg x' ->
      (match y with
       | Zneg y' -> compOpp (Coq_Pos.compare x' y')
       | _ -> Lt)

  (** val leb : z -> z -> bool **)

  let leb x y =
    match compare x y with
    | Gt -> false
    | _ -> true

  (** val ltb : z -> z -> bool **)

  let ltb x y =
    match compare x y with
    | Lt -> true
    | _ -> false

  (** val eqb : z -> z -> bool **)

  let eqb x y =
    match x with
    | Z0 -> (match y with
             | Z0 -> true
             | _ -> false)
    | Zpos p -> (match y with
                 | Zpos q -> Coq_Pos.eqb p q
                 | _ -> false)
    | Zneg p -> (match y with
                 | Zneg q -> Coq_Pos.eqb p q
                 | _ -> false)

  (** val max : z -> z -> z **)

  let max n0 m =
    match compare n0 m with
    | Lt -> m
    | _ -> n0

  (** val abs : z -> z **)

  let abs = function
  | Zneg p -> Zpos p
  | x -> x

  (** val to_nat : z -> nat **)

  let to_nat = function
  | Zpos p -> Coq_Pos.to_nat p
  | _ -> O

  (** val of_nat : nat -> z **)

  let of_nat = function
  | O -> Z0
  | S n1 -> Zpos (Coq_Pos.of_succ_nat n1)

  (** val of_N : n -> z **)

  let of_N = function
  | N0 -> Z0
  | Npos p -> Zpos p

  (** val pos_div_eucl : positive -> z -> z * z **)

  let rec pos_div_eucl a b =
    match a with
    | XI a' ->
      let (q, r) = pos_div_eucl a' b in
      let r' = add (mul (Zpos (XO XH)) r) (Zpos XH) in
      if ltb r' b
      then ((mul (Zpos (XO XH)) q), r')
      else ((add (mul (Zpos (XO XH)) q) (Zpos XH)), (sub r' b))
    | XO a' ->
      let (q, r) = pos_div_eucl a' b in
      let r' = mul (Zpos (XO XH)) r in
      if ltb r' b
      then ((mul (Zpos (XO XH)) q), r')
      else ((add (mul (Zpos (XO XH)) q) (Zpos XH)), (sub r' b))
    | XH -> if leb (Zpos (XO XH)) b then (Z0, (Zpos XH)) else ((Zpos XH), Z0)

  (** val div_eucl : z -> z -> z * z **)

  let div_eucl a b =
    match a with
    | Z0 -> (Z0, Z0)
    | Zpos a' ->
      (match b with
       | Z0 -> (Z0, a)
       | Zpos _ -> pos_div_eucl a' b
       | Zneg b' ->
         let (q, r) = pos_div_eucl a' (Zpos b') in
         (match r with
          | Z0 -> ((opp q), Z0)
          | _ -> ((opp (add q (Zpos XH))), (add b r))))
    | Zneg a' ->
      (match b with
       | Z0 -> (Z0, a)
       | Zpos _ ->
         let (q, r) = pos_div_eucl a' b in
         (match r with
          | Z0 -> ((opp q), Z0)
          | _ -> ((opp (add q (Zpos XH))), (sub b r)))
       | Zneg b' -> let (q, r) = pos_div_eucl a' (Zpos b') in (q, (opp r)))

  (** val div : z -> z -> z **)

  let div a b =
    let (q, _) = div_eucl a b in q

  (** val modulo : z -> z -> z **)

  let modulo a b =
    let (_, r) = div_eucl a b in r

  (** val quotrem : z -> z -> z * z **)

  let quotrem a b =
    match a with
    | Z0 -> (Z0, Z0)
    | Zpos a0 ->
      (match b with
       | Z0 -> (Z0, a)
       | Zpos b0 ->
         let (q, r) = N.pos_div_eucl a0 (Npos b0) in ((of_N q), (of_N r))
       | Zneg b0 ->
         let (q, r) = N.pos_div_eucl a0 (Npos b0) in
         ((opp (of_N q)), (of_N r)))
    | Zneg a0 ->
      (match b with
       | Z0 -> (Z0, a)
       | Zpos b0 ->
         let (q, r) = N.pos_div_eucl a0 (Npos b0) in
         ((opp (of_N q)), (opp (of_N r)))
       | Zneg b0 ->
         let (q, r) = N.pos_div_eucl a0 (Npos b0) in
         ((of_N q), (opp (of_N r))))

  (** val quot : z -> z -> z **)

  let quot a b =
    fst (quotrem a b)

  (** val rem : z -> z -> z **)

  let rem a b =
    snd (quotrem a b)

  (** val div2 : z -> z **)

  let div2 = function
  | Z0 -> Z0
  | Zpos p -> (match p with
               | XH -> Z0
               | _ -> Zpos (Coq_Pos.div2 p))
  | Zneg p -> Zneg (Coq_Pos.div2_up p)

  (** val log2 : z -> z **)

  let log2 = function
  | Zpos p0 ->
    (match p0 with
     | XI p -> Zpos (Coq_Pos.size p)
     | XO p -> Zpos (Coq_Pos.size p)
     | XH -> Z0)
  | _ -> Z0

  (** val shiftl : z -> z -> z **)

  let shiftl a = function
  | Z0 -> a
  | Zpos p -> Coq_Pos.iter (mul (Zpos (XO XH))) a p
  | Zneg p -> Coq_Pos.iter div2 a p

  (** val shiftr : z -> z -> z **)

  let shiftr a n0 =
    shiftl a (opp n0)

  (** val coq_lor : z -> z -> z **)

  let coq_lor a b =
    match a with
    | Z0 -> b
    | Zpos a0 ->
      (match b with
       | Z0 -> a
       | Zpos b0 -> Zpos (Coq_Pos.coq_lor a0 b0)
       | Zneg b0 -> Zneg (N.succ_pos (N.ldiff (Coq_Pos.pred_N b0) (Npos a0))))
    | Zneg a0 ->
      (match b with
       | Z0 -> a
       | Zpos b0 -> Zneg (N.succ_pos (N.ldiff (Coq_Pos.pred_N a0) (Npos b0)))
       | Zneg b0 ->
         Zneg
           (N.succ_pos (N.coq_land (Coq_Pos.pred_N a0) (Coq_Pos.pred_N b0))))

  (** val coq_land : z -> z -> z **)

  let coq_land a b =
    match a with
    | Z0 -> Z0
    | Zpos a0 ->
      (match b with
       | Z0 -> Z0
       | Zpos b0 -> of_N (Coq_Pos.coq_land a0 b0)
       | Zneg b0 -> of_N (N.ldiff (Npos a0) (Coq_Pos.pred_N b0)))
    | Zneg a0 ->
      (match b with
       | Z0 -> Z0
       | Zpos b0 -> of_N (N.ldiff (Npos b0) (Coq_Pos.pred_N a0))
       | Zneg b0 ->
         Zneg (N.succ_pos (N.coq_lor (Coq_Pos.pred_N a0) (Coq_Pos.pred_N b0))))

  (** val lnot : z -> z **)

  let lnot a =
    pred (opp a)
 end

(** val nth_error : 'a1 list -> nat -> 'a1 option **)

let rec nth_error l = function
| O -> (match l with
        | [] -> None
        | x :: _ -> Some x)
| S n1 -> (match l with
           | [] -> None
           | _ :: l0 -> nth_error l0 n1)

(** val map : ('a1 -> 'a2) -> 'a1 list -> 'a2 list **)

let rec map f = function
| [] -> []
| a :: t -> (f a) :: (map f t)

(** val flat_map : ('a1 -> 'a2 list) -> 'a1 list -> 'a2 list **)

let rec flat_map f = function
| [] -> []
| x :: t -> app (f x) (flat_map f t)

(** val fold_left : ('a1 -> 'a2 -> 'a1) -> 'a2 list -> 'a1 -> 'a1 **)

let rec fold_left f l a0 =
  match l with
  | [] -> a0
  | b :: t -> fold_left f t (f a0 b)

(** val firstn : nat -> 'a1 list -> 'a1 list **)

let rec firstn n0 l =
  match n0 with
  | O -> []
  | S n1 -> (match l with
             | [] -> []
             | a :: l0 -> a :: (firstn n1 l0))

(** val seq : nat -> nat -> nat list **)

let rec seq start = function
| O -> []
| S len0 -> start :: (seq (S start) len0)

(** val repeat : 'a1 -> nat -> 'a1 list **)

let rec repeat x = function
| O -> []
| S k -> x :: (repeat x k)

(** val ex_keep :
    (((((nat * n) * z) * z list) * z option) * positive) * bool **)

let ex_keep =
  ((((((O, N0), Z0), []), None), XH), true)

(** val wrap : z -> bool -> z -> z **)

let wrap w s v =
  if s
  then Z.sub
         (Z.modulo (Z.add v (Z.pow (Zpos (XO XH)) (Z.sub w (Zpos XH))))
           (Z.pow (Zpos (XO XH)) w))
         (Z.pow (Zpos (XO XH)) (Z.sub w (Zpos XH)))
  else Z.modulo v (Z.pow (Zpos (XO XH)) w)

(** val b2z : bool -> z **)

let b2z = function
| true -> Zpos XH
| false -> Z0

(** val zseq : nat -> z list **)

let zseq n0 =
  map Z.of_nat (seq O n0)

(** val pairs_table : z -> z list **)

let pairs_table b =
  flat_map (fun i ->
    (Z.add (Zpos (XO (XO (XO (XO (XI XH)))))) (Z.div i b)) :: ((Z.add (Zpos
                                                                 (XO (XO (XO
                                                                 (XO (XI
                                                                 XH))))))
                                                                 (Z.modulo i
                                                                   b)) :: []))
    (zseq (Z.to_nat (Z.mul b b)))

(** val dIGIT_PAIRS_10 : z list **)

let dIGIT_PAIRS_10 =
  pairs_table (Zpos (XO (XI (XO XH))))

(** val dIGIT_PAIRS_8 : z list **)

let dIGIT_PAIRS_8 =
  pairs_table (Zpos (XO (XO (XO XH))))

(** val dIGITS_HEX : z list **)

let dIGITS_HEX =
  (Zpos (XO (XO (XO (XO (XI XH)))))) :: ((Zpos (XI (XO (XO (XO (XI
    XH)))))) :: ((Zpos (XO (XI (XO (XO (XI XH)))))) :: ((Zpos (XI (XI (XO (XO
    (XI XH)))))) :: ((Zpos (XO (XO (XI (XO (XI XH)))))) :: ((Zpos (XI (XO (XI
    (XO (XI XH)))))) :: ((Zpos (XO (XI (XI (XO (XI XH)))))) :: ((Zpos (XI (XI
    (XI (XO (XI XH)))))) :: ((Zpos (XO (XO (XO (XI (XI XH)))))) :: ((Zpos (XI
    (XO (XO (XI (XI XH)))))) :: ((Zpos (XI (XO (XO (XO (XO (XI
    XH))))))) :: ((Zpos (XO (XI (XO (XO (XO (XI XH))))))) :: ((Zpos (XI (XI
    (XO (XO (XO (XI XH))))))) :: ((Zpos (XO (XO (XI (XO (XO (XI
    XH))))))) :: ((Zpos (XI (XO (XI (XO (XO (XI XH))))))) :: ((Zpos (XO (XI
    (XI (XO (XO (XI XH))))))) :: ((Zpos (XO (XO (XO (XO (XI
    XH)))))) :: ((Zpos (XI (XO (XO (XO (XI XH)))))) :: ((Zpos (XO (XI (XO (XO
    (XI XH)))))) :: ((Zpos (XI (XI (XO (XO (XI XH)))))) :: ((Zpos (XO (XO (XI
    (XO (XI XH)))))) :: ((Zpos (XI (XO (XI (XO (XI XH)))))) :: ((Zpos (XO (XI
    (XI (XO (XI XH)))))) :: ((Zpos (XI (XI (XI (XO (XI XH)))))) :: ((Zpos (XO
    (XO (XO (XI (XI XH)))))) :: ((Zpos (XI (XO (XO (XI (XI XH)))))) :: ((Zpos
    (XI (XO (XO (XO (XO (XO XH))))))) :: ((Zpos (XO (XI (XO (XO (XO (XO
    XH))))))) :: ((Zpos (XI (XI (XO (XO (XO (XO XH))))))) :: ((Zpos (XO (XO
    (XI (XO (XO (XO XH))))))) :: ((Zpos (XI (XO (XI (XO (XO (XO
    XH))))))) :: ((Zpos (XO (XI (XI (XO (XO (XO
    XH))))))) :: [])))))))))))))))))))))))))))))))

(** val tbl_get : z list -> z -> z option **)

let tbl_get t i =
  if Z.ltb i Z0 then None else nth_error t (Z.to_nat i)

type err =
| ErrBufferOverflow
| ErrTableIndex
| ErrOutOfFuel
| ErrAssert
| ErrReadOutside
| ErrWriteOutside

type result =
| Text of z list
| Err of err

(** val sizeof : z -> z **)

let sizeof w =
  Z.div (Z.add w (Zpos (XI (XI XH)))) (Zpos (XO (XO (XO XH))))

(** val buf_size : z -> z **)

let buf_size w =
  Z.add (Z.mul (sizeof w) (Zpos (XI XH))) (Zpos (XO XH))

(** val loop_fuel : z -> nat **)

let loop_fuel w =
  S (Z.to_nat w)

type sres =
| SOk of z * z * z list * bool
| SErr of err

(** val pair_step : z -> bool -> z -> z list -> z -> z -> z list -> sres **)

let pair_step w s b table remaining dpos buf =
  let digit_pos =
    Z.abs
      (wrap (Zpos (XO (XO (XO (XO (XO XH)))))) true
        (Z.rem remaining (Z.mul b b)))
  in
  let remaining' = wrap w s (Z.quot remaining (Z.mul b b)) in
  let dpos' = Z.sub dpos (Zpos (XO XH)) in
  if Z.ltb dpos' Z0
  then SErr ErrBufferOverflow
  else (match tbl_get table (Z.mul digit_pos (Zpos (XO XH))) with
        | Some c1 ->
          (match tbl_get table
                   (Z.add (Z.mul digit_pos (Zpos (XO XH))) (Zpos XH)) with
           | Some c2 ->
             SOk (remaining', dpos', (c1 :: (c2 :: buf)), (Z.ltb digit_pos b))
           | None -> SErr ErrTableIndex)
        | None -> SErr ErrTableIndex)

(** val hex_step : z -> bool -> z -> z -> z -> z list -> bool -> sres **)

let hex_step w s hexoff remaining dpos buf loo =
  let d =
    Z.abs
      (wrap (Zpos (XO (XO (XO (XO (XO XH)))))) true
        (Z.rem remaining (Zpos (XO (XO (XO (XO XH)))))))
  in
  let dpos' = Z.sub dpos (Zpos XH) in
  if Z.ltb dpos' Z0
  then SErr ErrBufferOverflow
  else (match tbl_get dIGITS_HEX (Z.add hexoff d) with
        | Some c ->
          SOk ((wrap w s (Z.quot remaining (Zpos (XO (XO (XO (XO XH))))))),
            dpos', (c :: buf), loo)
        | None -> SErr ErrTableIndex)

type lres =
| LDone of z * z list * bool
| LErr of err

(** val digits_loop :
    nat -> z -> bool -> z -> z -> z -> z -> z list -> bool -> lres **)

let rec digits_loop fuel w s fc hexoff remaining dpos buf loo =
  match fuel with
  | O -> LErr ErrOutOfFuel
  | S fuel' ->
    let st =
      if Z.eqb fc (Zpos (XI (XI (XI (XI (XO (XI XH)))))))
      then pair_step w s (Zpos (XO (XO (XO XH)))) dIGIT_PAIRS_8 remaining
             dpos buf
      else if Z.eqb fc (Zpos (XO (XO (XI (XO (XO (XI XH)))))))
           then pair_step w s (Zpos (XO (XI (XO XH)))) dIGIT_PAIRS_10
                  remaining dpos buf
           else if Z.eqb fc (Zpos (XO (XO (XO (XI (XI (XI XH)))))))
                then hex_step w s hexoff remaining dpos buf loo
                else SErr ErrAssert
    in
    (match st with
     | SOk (remaining', dpos', buf', loo') ->
       if Z.eqb remaining' Z0
       then LDone (dpos', buf', loo')
       else digits_loop fuel' w s fc hexoff remaining' dpos' buf' loo'
     | SErr e -> LErr e)

(** val build_from_ascii : z -> z list -> z -> bool -> z -> result **)

let build_from_ascii ulength chars clength prepend_sign padding_char =
  let uoffset = Z.sub ulength clength in
  if (||) (Z.ltb clength Z0) (Z.ltb (Z.of_nat (length chars)) clength)
  then Err ErrReadOutside
  else if Z.ltb uoffset Z0
       then Err ErrWriteOutside
       else let prefix =
              if Z.ltb Z0 uoffset
              then if prepend_sign
                   then (Zpos (XI (XO (XI (XI (XO
                          XH)))))) :: (repeat padding_char
                                        (Z.to_nat (Z.sub uoffset (Zpos XH))))
                   else repeat padding_char (Z.to_nat uoffset)
              else []
            in
            Text (app prefix (firstn (Z.to_nat clength) chars))

(** val cint_to_unicode : z -> bool -> z -> z -> z -> z -> result **)

let cint_to_unicode w s value width padding_char format_char =
  let size0 = buf_size w in
  let hexoff =
    if Z.eqb format_char (Zpos (XO (XO (XO (XI (XI (XO XH)))))))
    then Zpos (XO (XO (XO (XO XH))))
    else Z0
  in
  let fc =
    if Z.eqb format_char (Zpos (XO (XO (XO (XI (XI (XO XH)))))))
    then Zpos (XO (XO (XO (XI (XI (XI XH))))))
    else format_char
  in
  (match digits_loop (loop_fuel w) w s fc hexoff value size0 [] false with
   | LDone (dpos, buf, loo) ->
     let after =
       if loo
       then (match buf with
             | [] -> None
             | c :: rest ->
               if Z.eqb c (Zpos (XO (XO (XO (XO (XI XH))))))
               then Some rest
               else None)
       else Some buf
     in
     (match after with
      | Some buf1 ->
        let dpos1 = Z.add dpos (b2z loo) in
        let length0 = Z.sub size0 dpos1 in
        if (&&) s (Z.leb value (Zneg XH))
        then if (||) (Z.eqb padding_char (Zpos (XO (XO (XO (XO (XO XH)))))))
                  (Z.leb width (Z.add length0 (Zpos XH)))
             then if Z.ltb (Z.sub dpos1 (Zpos XH)) Z0
                  then Err ErrBufferOverflow
                  else let buf2 = (Zpos (XI (XO (XI (XI (XO XH)))))) :: buf1
                       in
                       let length1 = Z.add length0 (Zpos XH) in
                       let ulength = Z.max (Z.add length0 (Zpos XH)) width in
                       if Z.eqb ulength (Zpos XH)
                       then (match buf2 with
                             | [] -> Err ErrReadOutside
                             | c :: _ -> Text (c :: []))
                       else build_from_ascii ulength buf2 length1 false
                              padding_char
             else let ulength = Z.max (Z.add length0 (Zpos XH)) width in
                  if Z.eqb ulength (Zpos XH)
                  then (match buf1 with
                        | [] -> Err ErrReadOutside
                        | c :: _ -> Text (c :: []))
                  else build_from_ascii ulength buf1 length0 true padding_char
        else let ulength = Z.max length0 width in
             if Z.eqb ulength (Zpos XH)
             then (match buf1 with
                   | [] -> Err ErrReadOutside
                   | c :: _ -> Text (c :: []))
             else build_from_ascii ulength buf1 length0 false padding_char
      | None -> Err ErrAssert)
   | LErr e -> Err e)

(** val digit_char : bool -> z -> z **)

let digit_char upper d =
  if Z.ltb d (Zpos (XO (XI (XO XH))))
  then Z.add (Zpos (XO (XO (XO (XO (XI XH)))))) d
  else Z.add
         (if upper
          then Zpos (XI (XI (XI (XO (XI XH)))))
          else Zpos (XI (XI (XI (XO (XI (XO XH))))))) d

(** val digs : nat -> z -> bool -> z -> z list **)

let rec digs fuel b upper n0 =
  match fuel with
  | O -> []
  | S f ->
    app (if Z.eqb (Z.div n0 b) Z0 then [] else digs f b upper (Z.div n0 b))
      ((digit_char upper (Z.modulo n0 b)) :: [])

(** val py_digits : z -> bool -> z -> z list **)

let py_digits b upper n0 =
  digs (S (Z.to_nat (Z.log2 n0))) b upper n0

(** val fmt_base : z -> z **)

let fmt_base fc =
  if Z.eqb fc (Zpos (XO (XO (XI (XO (XO (XI XH)))))))
  then Zpos (XO (XI (XO XH)))
  else if Z.eqb fc (Zpos (XI (XI (XI (XI (XO (XI XH)))))))
       then Zpos (XO (XO (XO XH)))
       else Zpos (XO (XO (XO (XO XH))))

(** val fmt_upper : z -> bool **)

let fmt_upper fc =
  Z.eqb fc (Zpos (XO (XO (XO (XI (XI (XO XH)))))))

(** val py_format_int : z -> z -> z -> z -> z list **)

let py_format_int v width fill fc =
  let ds = py_digits (fmt_base fc) (fmt_upper fc) (Z.abs v) in
  let sign =
    if Z.ltb v Z0 then (Zpos (XI (XO (XI (XI (XO XH)))))) :: [] else []
  in
  let npad = Z.to_nat (Z.sub width (Z.of_nat (add (length sign) (length ds))))
  in
  if Z.eqb fill (Zpos (XO (XO (XO (XO (XO XH))))))
  then app (repeat fill npad) (app sign ds)
  else app sign (app (repeat fill npad) ds)

(** val digit_val : z -> z **)

let digit_val c =
  if Z.ltb c (Zpos (XO (XI (XO (XI (XI XH))))))
  then Z.sub c (Zpos (XO (XO (XO (XO (XI XH))))))
  else if Z.ltb c (Zpos (XI (XI (XO (XI (XI (XO XH)))))))
       then Z.sub c (Zpos (XI (XI (XI (XO (XI XH))))))
       else Z.sub c (Zpos (XI (XI (XI (XO (XI (XO XH)))))))

(** val parse_base : z -> z list -> z **)

let parse_base b l =
  fold_left (fun acc c -> Z.add (Z.mul acc b) (digit_val c)) l Z0

type cres =
| CText of z list
| COverflowError
| CValueError
| CUnicodeDecodeError
| CAbort
| CBufferOverflow

(** val uchar_accepts : bool -> z -> bool -> z -> bool **)

let uchar_accepts fixed w s value =
  let c1 = (||) ((||) (negb s) (Z.eqb value Z0)) (Z.ltb Z0 value) in
  let high =
    negb
      (Z.eqb
        (Z.coq_land value
          (Z.lnot (Zpos (XI (XI (XI (XI (XI (XI (XI (XI (XI (XI (XI (XI (XI
            (XI (XI (XI (XI (XI (XI (XI XH))))))))))))))))))))))) Z0)
  in
  let chk =
    Z.leb (wrap (Zpos (XO (XO (XO (XO (XO XH)))))) true value) (Zpos (XI (XI
      (XI (XI (XI (XI (XI (XI (XI (XI (XI (XI (XI (XI (XI (XI (XO (XO (XO (XO
      XH)))))))))))))))))))))
  in
  let c2 =
    if fixed
    then (||) (Z.leb (sizeof w) (Zpos (XO XH))) ((&&) (negb high) chk)
    else (||) ((||) (Z.leb (sizeof w) (Zpos (XO XH))) high) chk
  in
  (&&) c1 c2

(** val from_ordinal : z -> cres **)

let from_ordinal iv =
  if (&&) (Z.leb Z0 iv)
       (Z.leb iv (Zpos (XI (XI (XI (XI (XI (XI (XI (XI (XI (XI (XI (XI (XI
         (XI (XI (XI (XO (XO (XO (XO XH))))))))))))))))))))))
  then CText (iv :: [])
  else CValueError

(** val from_ordinal_padded : z -> z -> z -> cres **)

let from_ordinal_padded iv ulength pad =
  let plen = Z.sub ulength (Zpos XH) in
  let pads = repeat pad (Z.to_nat plen) in
  if (&&) (Z.leb plen (Zpos (XO (XI (XO (XI (XI (XI (XI XH)))))))))
       ((||)
         (Z.ltb iv (Zpos (XO (XO (XO (XO (XO (XO (XO (XO (XO (XO (XO (XI (XI
           (XO (XI XH)))))))))))))))))
         (Z.ltb (Zpos (XI (XI (XI (XI (XI (XI (XI (XI (XI (XI (XI (XI (XI (XO
           (XI XH)))))))))))))))) iv))
  then if Z.leb iv (Zpos (XI (XI (XI (XI (XI (XI (XI XH))))))))
       then CText
              (app pads
                ((Z.modulo iv (Zpos (XO (XO (XO (XO (XO (XO (XO (XO
                   XH)))))))))) :: []))
       else if Z.ltb iv (Zpos (XO (XO (XO (XO (XO (XO (XO (XO (XO (XO (XO (XO
                 (XO (XO (XO (XO XH)))))))))))))))))
            then CText (app pads (iv :: []))
            else let cp =
                   Z.modulo iv (Zpos (XO (XO (XO (XO (XO (XO (XO (XO (XO (XO
                     (XO (XO (XO (XO (XO (XO (XO (XO (XO (XO (XO
                     XH))))))))))))))))))))))
                 in
                 if (&&)
                      (Z.leb (Zpos (XO (XO (XO (XO (XO (XO (XO (XO (XO (XO
                        (XO (XO (XO (XO (XO (XO XH))))))))))))))))) cp)
                      (Z.leb cp (Zpos (XI (XI (XI (XI (XI (XI (XI (XI (XI (XI
                        (XI (XI (XI (XI (XI (XI (XO (XO (XO (XO
                        XH))))))))))))))))))))))
                 then CText (app pads (cp :: []))
                 else CUnicodeDecodeError
  else if Z.leb iv (Zpos (XI (XI (XI (XI (XI (XI XH)))))))
       then let c =
              Z.modulo iv (Zpos (XO (XO (XO (XO (XO (XO (XO (XO XH)))))))))
            in
            if Z.ltb (Zpos (XI (XI (XI (XI (XI (XI XH))))))) c
            then CAbort
            else CText (app pads (c :: []))
       else (match from_ordinal iv with
             | CText l -> CText (app pads l)
             | x -> x)

(** val uchar_to_unicode : bool -> z -> bool -> z -> z -> z -> cres **)

let uchar_to_unicode fixed w s value width pad =
  if negb (uchar_accepts fixed w s value)
  then COverflowError
  else let iv = wrap (Zpos (XO (XO (XO (XO (XO XH)))))) true value in
       if Z.leb width (Zpos XH)
       then from_ordinal iv
       else from_ordinal_padded iv width pad

(** val py_format_char : z -> z -> z -> cres **)

let py_format_char v width pad =
  if (&&) (Z.leb Z0 v)
       (Z.ltb v (Zpos (XO (XO (XO (XO (XO (XO (XO (XO (XO (XO (XO (XO (XO (XO
         (XO (XO (XI (XO (XO (XO XH))))))))))))))))))))))
  then CText (app (repeat pad (Z.to_nat (Z.sub width (Zpos XH)))) (v :: []))
  else COverflowError

(** val cchar : z -> z **)

let cchar x =
  Z.modulo x (Zpos (XO (XO (XO (XO (XO (XO (XO (XO XH)))))))))

(** val enc2 : z -> z list **)

let enc2 v =
  let b1 =
    cchar
      (Z.coq_lor (Zpos (XO (XO (XO (XO (XO (XO (XO XH))))))))
        (Z.coq_land v (Zpos (XI (XI (XI (XI (XI XH))))))))
  in
  let v1 = Z.shiftr v (Zpos (XO (XI XH))) in
  let b0 =
    cchar
      (Z.coq_lor (Zpos (XO (XO (XO (XO (XO (XO (XI XH))))))))
        (Z.coq_land v1 (Zpos (XI (XI (XI (XI XH)))))))
  in
  b0 :: (b1 :: [])

(** val enc3 : z -> z list **)

let enc3 v =
  let b2 =
    cchar
      (Z.coq_lor (Zpos (XO (XO (XO (XO (XO (XO (XO XH))))))))
        (Z.coq_land v (Zpos (XI (XI (XI (XI (XI XH))))))))
  in
  let v1 = Z.shiftr v (Zpos (XO (XI XH))) in
  let b1 =
    cchar
      (Z.coq_lor (Zpos (XO (XO (XO (XO (XO (XO (XO XH))))))))
        (Z.coq_land v1 (Zpos (XI (XI (XI (XI (XI XH))))))))
  in
  let v2 = Z.shiftr v1 (Zpos (XO (XI XH))) in
  let b0 =
    cchar
      (Z.coq_lor (Zpos (XO (XO (XO (XO (XO (XI (XI XH))))))))
        (Z.coq_land v2 (Zpos (XI (XI (XI XH))))))
  in
  b0 :: (b1 :: (b2 :: []))

(** val enc4 : z -> z list **)

let enc4 v =
  let b3 =
    cchar
      (Z.coq_lor (Zpos (XO (XO (XO (XO (XO (XO (XO XH))))))))
        (Z.coq_land v (Zpos (XI (XI (XI (XI (XI XH))))))))
  in
  let v1 = Z.shiftr v (Zpos (XO (XI XH))) in
  let b2 =
    cchar
      (Z.coq_lor (Zpos (XO (XO (XO (XO (XO (XO (XO XH))))))))
        (Z.coq_land v1 (Zpos (XI (XI (XI (XI (XI XH))))))))
  in
  let v2 = Z.shiftr v1 (Zpos (XO (XI XH))) in
  let b1 =
    cchar
      (Z.coq_lor (Zpos (XO (XO (XO (XO (XO (XO (XO XH))))))))
        (Z.coq_land v2 (Zpos (XI (XI (XI (XI (XI XH))))))))
  in
  let v3 = Z.shiftr v2 (Zpos (XO (XI XH))) in
  let b0 =
    cchar
      (Z.coq_lor (Zpos (XO (XO (XO (XO (XI (XI (XI XH))))))))
        (Z.coq_land v3 (Zpos (XI (XI XH)))))
  in
  b0 :: (b1 :: (b2 :: (b3 :: [])))

(** val eNC2_LIMIT : z **)

let eNC2_LIMIT =
  Zpos (XO (XO (XO (XO (XO (XO (XO (XO (XO (XO (XO XH)))))))))))

(** val eNC3_LIMIT : z **)

let eNC3_LIMIT =
  Zpos (XO (XO (XO (XO (XO (XO (XO (XO (XO (XO (XO (XO (XO (XO (XO (XO
    XH))))))))))))))))

(** val lATIN1_MAX : z **)

let lATIN1_MAX =
  Zpos (XI (XI (XI (XI (XI (XI (XI XH)))))))

(** val pAD_LIMIT : z **)

let pAD_LIMIT =
  Zpos (XO (XI (XO (XI (XI (XI (XI XH)))))))

(** val cHARS_SIZE : z **)

let cHARS_SIZE =
  Zpos (XO (XO (XO (XO (XO (XO (XO (XO XH))))))))

(** val sURR_LO : z **)

let sURR_LO =
  Zpos (XO (XO (XO (XO (XO (XO (XO (XO (XO (XO (XO (XI (XI (XO (XI
    XH)))))))))))))))

(** val sURR_HI : z **)

let sURR_HI =
  Zpos (XI (XI (XI (XI (XI (XI (XI (XI (XI (XI (XI (XI (XI (XO (XI
    XH)))))))))))))))

(** val padded_consts : z list **)

let padded_consts =
  eNC2_LIMIT :: (eNC3_LIMIT :: (lATIN1_MAX :: (pAD_LIMIT :: (cHARS_SIZE :: (sURR_LO :: (sURR_HI :: []))))))

(** val utf8_enc_c : z -> z list **)

let utf8_enc_c v =
  if Z.ltb v eNC2_LIMIT
  then enc2 v
  else if Z.ltb v eNC3_LIMIT then enc3 v else enc4 v

(** val is_cont : z -> bool **)

let is_cont b =
  (&&) (Z.leb (Zpos (XO (XO (XO (XO (XO (XO (XO XH)))))))) b)
    (Z.leb b (Zpos (XI (XI (XI (XI (XI (XI (XO XH)))))))))

(** val is_surrogate : z -> bool **)

let is_surrogate cp =
  (&&)
    (Z.leb (Zpos (XO (XO (XO (XO (XO (XO (XO (XO (XO (XO (XO (XI (XI (XO (XI
      XH)))))))))))))))) cp)
    (Z.leb cp (Zpos (XI (XI (XI (XI (XI (XI (XI (XI (XI (XI (XI (XI (XI (XO
      (XI XH)))))))))))))))))

(** val utf8_decode : z list -> z list option **)

let rec utf8_decode = function
| [] -> Some []
| b0 :: r ->
  if (||) (Z.ltb b0 Z0)
       (Z.ltb (Zpos (XI (XI (XI (XI (XI (XI (XI XH)))))))) b0)
  then None
  else if Z.ltb b0 (Zpos (XO (XO (XO (XO (XO (XO (XO XH))))))))
       then option_map (fun x -> b0 :: x) (utf8_decode r)
       else if Z.ltb b0 (Zpos (XO (XI (XO (XO (XO (XO (XI XH))))))))
            then None
            else if Z.ltb b0 (Zpos (XO (XO (XO (XO (XO (XI (XI XH))))))))
                 then (match r with
                       | [] -> None
                       | b1 :: r1 ->
                         if is_cont b1
                         then option_map (fun x ->
                                (Z.add
                                  (Z.mul
                                    (Z.sub b0 (Zpos (XO (XO (XO (XO (XO (XO
                                      (XI XH))))))))) (Zpos (XO (XO (XO (XO
                                    (XO (XO XH))))))))
                                  (Z.sub b1 (Zpos (XO (XO (XO (XO (XO (XO (XO
                                    XH)))))))))) :: x) (utf8_decode r1)
                         else None)
                 else if Z.ltb b0 (Zpos (XO (XO (XO (XO (XI (XI (XI XH))))))))
                      then (match r with
                            | [] -> None
                            | b1 :: l0 ->
                              (match l0 with
                               | [] -> None
                               | b2 :: r2 ->
                                 let cp =
                                   Z.add
                                     (Z.add
                                       (Z.mul
                                         (Z.sub b0 (Zpos (XO (XO (XO (XO (XO
                                           (XI (XI XH))))))))) (Zpos (XO (XO
                                         (XO (XO (XO (XO (XO (XO (XO (XO (XO
                                         (XO XH))))))))))))))
                                       (Z.mul
                                         (Z.sub b1 (Zpos (XO (XO (XO (XO (XO
                                           (XO (XO XH))))))))) (Zpos (XO (XO
                                         (XO (XO (XO (XO XH)))))))))
                                     (Z.sub b2 (Zpos (XO (XO (XO (XO (XO (XO
                                       (XO XH)))))))))
                                 in
                                 if (&&)
                                      ((&&) ((&&) (is_cont b1) (is_cont b2))
                                        (Z.leb (Zpos (XO (XO (XO (XO (XO (XO
                                          (XO (XO (XO (XO (XO XH))))))))))))
                                          cp)) (negb (is_surrogate cp))
                                 then option_map (fun x -> cp :: x)
                                        (utf8_decode r2)
                                 else None))
                      else if Z.ltb b0 (Zpos (XI (XO (XI (XO (XI (XI (XI
                                XH))))))))
                           then (match r with
                                 | [] -> None
                                 | b1 :: l0 ->
                                   (match l0 with
                                    | [] -> None
                                    | b2 :: l1 ->
                                      (match l1 with
                                       | [] -> None
                                       | b3 :: r3 ->
                                         let cp =
                                           Z.add
                                             (Z.add
                                               (Z.add
                                                 (Z.mul
                                                   (Z.sub b0 (Zpos (XO (XO
                                                     (XO (XO (XI (XI (XI
                                                     XH))))))))) (Zpos (XO
                                                   (XO (XO (XO (XO (XO (XO
                                                   (XO (XO (XO (XO (XO (XO
                                                   (XO (XO (XO (XO (XO
                                                   XH))))))))))))))))))))
                                                 (Z.mul
                                                   (Z.sub b1 (Zpos (XO (XO
                                                     (XO (XO (XO (XO (XO
                                                     XH))))))))) (Zpos (XO
                                                   (XO (XO (XO (XO (XO (XO
                                                   (XO (XO (XO (XO (XO
                                                   XH)))))))))))))))
                                               (Z.mul
                                                 (Z.sub b2 (Zpos (XO (XO (XO
                                                   (XO (XO (XO (XO XH)))))))))
                                                 (Zpos (XO (XO (XO (XO (XO
                                                 (XO XH)))))))))
                                             (Z.sub b3 (Zpos (XO (XO (XO (XO
                                               (XO (XO (XO XH)))))))))
                                         in
                                         if (&&)
                                              ((&&)
                                                ((&&)
                                                  ((&&) (is_cont b1)
                                                    (is_cont b2))
                                                  (is_cont b3))
                                                (Z.leb (Zpos (XO (XO (XO (XO
                                                  (XO (XO (XO (XO (XO (XO (XO
                                                  (XO (XO (XO (XO (XO
                                                  XH))))))))))))))))) cp))
                                              (Z.leb cp (Zpos (XI (XI (XI (XI
                                                (XI (XI (XI (XI (XI (XI (XI
                                                (XI (XI (XI (XI (XI (XO (XO
                                                (XO (XO
                                                XH))))))))))))))))))))))
                                         then option_map (fun x -> cp :: x)
                                                (utf8_decode r3)
                                         else None)))
                           else None

(** val from_ordinal_padded_b : z -> z -> z -> cres **)

let from_ordinal_padded_b iv ulength pad =
  let plen = Z.sub ulength (Zpos XH) in
  if (&&) (Z.leb plen pAD_LIMIT) ((||) (Z.ltb iv sURR_LO) (Z.ltb sURR_HI iv))
  then if Z.leb iv lATIN1_MAX
       then if (||) (Z.ltb plen Z0) (Z.ltb cHARS_SIZE ulength)
            then CBufferOverflow
            else CText
                   (app (repeat (cchar pad) (Z.to_nat plen))
                     ((cchar iv) :: []))
       else let enc = utf8_enc_c iv in
            let cpos = Z.sub (Z.sub cHARS_SIZE (Z.of_nat (length enc))) plen
            in
            if (||) (Z.ltb plen Z0) (Z.ltb cpos Z0)
            then CBufferOverflow
            else (match utf8_decode
                          (app (repeat (cchar pad) (Z.to_nat plen)) enc) with
                  | Some l -> CText l
                  | None -> CUnicodeDecodeError)
  else if Z.leb iv (Zpos (XI (XI (XI (XI (XI (XI XH)))))))
       then let c =
              Z.modulo iv (Zpos (XO (XO (XO (XO (XO (XO (XO (XO XH)))))))))
            in
            if Z.ltb (Zpos (XI (XI (XI (XI (XI (XI XH))))))) c
            then CAbort
            else CText (app (repeat pad (Z.to_nat plen)) (c :: []))
       else (match from_ordinal iv with
             | CText l -> CText (app (repeat pad (Z.to_nat plen)) l)
             | x -> x)

(** val uchar_to_unicode_b : bool -> z -> bool -> z -> z -> z -> cres **)

let uchar_to_unicode_b fixed w s value width pad =
  if negb (uchar_accepts fixed w s value)
  then COverflowError
  else let iv = wrap (Zpos (XO (XO (XO (XO (XO XH)))))) true value in
       if Z.leb width (Zpos XH)
       then from_ordinal iv
       else from_ordinal_padded_b iv width pad

(** val utf8_ref : z -> z list **)

let utf8_ref cp =
  if Z.ltb cp (Zpos (XO (XO (XO (XO (XO (XO (XO XH))))))))
  then cp :: []
  else if Z.ltb cp (Zpos (XO (XO (XO (XO (XO (XO (XO (XO (XO (XO (XO
            XH))))))))))))
       then (Z.add (Zpos (XO (XO (XO (XO (XO (XO (XI XH))))))))
              (Z.div cp (Zpos (XO (XO (XO (XO (XO (XO XH))))))))) :: (
              (Z.add (Zpos (XO (XO (XO (XO (XO (XO (XO XH))))))))
                (Z.modulo cp (Zpos (XO (XO (XO (XO (XO (XO XH))))))))) :: [])
       else if Z.ltb cp (Zpos (XO (XO (XO (XO (XO (XO (XO (XO (XO (XO (XO (XO
                 (XO (XO (XO (XO XH)))))))))))))))))
            then (Z.add (Zpos (XO (XO (XO (XO (XO (XI (XI XH))))))))
                   (Z.div cp (Zpos (XO (XO (XO (XO (XO (XO (XO (XO (XO (XO
                     (XO (XO XH))))))))))))))) :: ((Z.add (Zpos (XO (XO (XO
                                                     (XO (XO (XO (XO
                                                     XH))))))))
                                                     (Z.modulo
                                                       (Z.div cp (Zpos (XO
                                                         (XO (XO (XO (XO (XO
                                                         XH)))))))) (Zpos (XO
                                                       (XO (XO (XO (XO (XO
                                                       XH))))))))) :: (
                   (Z.add (Zpos (XO (XO (XO (XO (XO (XO (XO XH))))))))
                     (Z.modulo cp (Zpos (XO (XO (XO (XO (XO (XO XH))))))))) :: []))
            else (Z.add (Zpos (XO (XO (XO (XO (XI (XI (XI XH))))))))
                   (Z.div cp (Zpos (XO (XO (XO (XO (XO (XO (XO (XO (XO (XO
                     (XO (XO (XO (XO (XO (XO (XO (XO XH))))))))))))))))))))) :: (
                   (Z.add (Zpos (XO (XO (XO (XO (XO (XO (XO XH))))))))
                     (Z.modulo
                       (Z.div cp (Zpos (XO (XO (XO (XO (XO (XO (XO (XO (XO
                         (XO (XO (XO XH)))))))))))))) (Zpos (XO (XO (XO (XO
                       (XO (XO XH))))))))) :: ((Z.add (Zpos (XO (XO (XO (XO
                                                 (XO (XO (XO XH))))))))
                                                 (Z.modulo
                                                   (Z.div cp (Zpos (XO (XO
                                                     (XO (XO (XO (XO
                                                     XH)))))))) (Zpos (XO (XO
                                                   (XO (XO (XO (XO XH))))))))) :: (
                   (Z.add (Zpos (XO (XO (XO (XO (XO (XO (XO XH))))))))
                     (Z.modulo cp (Zpos (XO (XO (XO (XO (XO (XO XH))))))))) :: [])))
