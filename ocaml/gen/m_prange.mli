
type nat =
| O
| S of nat

val fst : ('a1 * 'a2) -> 'a1

val snd : ('a1 * 'a2) -> 'a2

type comparison =
| Eq
| Lt
| Gt

val compOpp : comparison -> comparison

val add : nat -> nat -> nat

type positive =
| XI of positive
| XO of positive
| XH

type n =
| N0
| Npos of positive

type z =
| Z0
| Zpos of positive
| Zneg of positive

module Pos :
 sig
  type mask =
  | IsNul
  | IsPos of positive
  | IsNeg
 end

module Coq_Pos :
 sig
  val succ : positive -> positive

  val add : positive -> positive -> positive

  val add_carry : positive -> positive -> positive

  val pred_double : positive -> positive

  type mask = Pos.mask =
  | IsNul
  | IsPos of positive
  | IsNeg

  val succ_double_mask : mask -> mask

  val double_mask : mask -> mask

  val double_pred_mask : positive -> mask

  val sub_mask : positive -> positive -> mask

  val sub_mask_carry : positive -> positive -> mask

  val mul : positive -> positive -> positive

  val compare_cont : comparison -> positive -> positive -> comparison

  val compare : positive -> positive -> comparison

  val eqb : positive -> positive -> bool

  val iter_op : ('a1 -> 'a1 -> 'a1) -> positive -> 'a1 -> 'a1

  val to_nat : positive -> nat

  val of_succ_nat : nat -> positive
 end

module N :
 sig
  val succ_double : n -> n

  val double : n -> n

  val sub : n -> n -> n

  val compare : n -> n -> comparison

  val leb : n -> n -> bool

  val pos_div_eucl : positive -> n -> n * n
 end

module Z :
 sig
  val double : z -> z

  val succ_double : z -> z

  val pred_double : z -> z

  val pos_sub : positive -> positive -> z

  val add : z -> z -> z

  val opp : z -> z

  val sub : z -> z -> z

  val mul : z -> z -> z

  val compare : z -> z -> comparison

  val leb : z -> z -> bool

  val ltb : z -> z -> bool

  val eqb : z -> z -> bool

  val to_nat : z -> nat

  val of_nat : nat -> z

  val of_N : n -> z

  val pos_div_eucl : positive -> z -> z * z

  val div_eucl : z -> z -> z * z

  val div : z -> z -> z

  val quotrem : z -> z -> z * z

  val quot : z -> z -> z
 end

val map : ('a1 -> 'a2) -> 'a1 list -> 'a2 list

val fold_left : ('a1 -> 'a2 -> 'a1) -> 'a2 list -> 'a1 -> 'a1

val seq : nat -> nat -> nat list

val ex_keep : (((((nat * n) * z) * z list) * z option) * positive) * bool

val b2z : bool -> z

val nsteps : z -> z -> z -> z option

val target_at : z -> z -> z -> z

val loop_indices : z -> z list

val prange_values : z -> z -> z -> z list option

val py_range_len : z -> z -> z -> z

val py_range : z -> z -> z -> z list

type hstate = { saved : z option; pending : (nat * z) list; why : z }

val h0 : hstate

val fetch : hstate -> (nat * z) -> hstate

type event =
| Err of nat * z
| Exit of nat * z

val step : hstate -> event -> hstate

val run : event list -> hstate

val finish : hstate -> (z * z option) * z list
