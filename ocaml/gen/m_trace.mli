
val implb : bool -> bool -> bool

val negb : bool -> bool

type nat =
| O
| S of nat

val fst : ('a1 * 'a2) -> 'a1

val length : 'a1 list -> nat

val app : 'a1 list -> 'a1 list -> 'a1 list

val add : nat -> nat -> nat

type positive =
| XI of positive
| XO of positive
| XH

type n =
| N0
| Npos of positive

type z =
| Z0
| Zpos of positive
| Zneg of positive

module Nat :
 sig
  val eqb : nat -> nat -> bool

  val leb : nat -> nat -> bool

  val ltb : nat -> nat -> bool
 end

val nth_error : 'a1 list -> nat -> 'a1 option

val rev : 'a1 list -> 'a1 list

val map : ('a1 -> 'a2) -> 'a1 list -> 'a2 list

val forallb : ('a1 -> bool) -> 'a1 list -> bool

val filter : ('a1 -> bool) -> 'a1 list -> 'a1 list

val repeat : 'a1 -> nat -> 'a1 list

val ex_keep : (((((nat * n) * z) * z list) * z option) * positive) * bool

type skind =
| SCall
| SGenStart
| SResume
| SThrow
| SCloseUnstarted

type ekind =
| EReturn
| ERaise
| EYield
| EPending

type node =
| Node of nat * skind * items * ekind
and items =
| INil
| ICall of node * items
| IRet of items
| ILine of nat * items

type tool =
| Legacy
| Monitoring

type evk =
| KCall
| KRet
| KStart
| KResume
| KThrow
| KReturn
| KYield
| KUnwind
| KRaise
| KLine of nat

type event = evk * nat

type evclass =
| CStart
| CEnd
| COther

val classify : evk -> evclass

val start_cy : tool -> skind -> nat -> event list

val end_ev : tool -> ekind -> nat -> event list

val end_cy : tool -> bool -> ekind -> nat -> event list

val ret_stmt_cy : tool -> bool -> nat -> event list

val line_ev : bool -> nat -> nat -> event list

val ev_cy : tool -> bool -> bool -> node -> event list

val evs_cy : tool -> bool -> bool -> nat -> items -> event list

val start_py : tool -> skind -> nat -> event list

val ev_py : tool -> bool -> node -> event list

val evs_py : tool -> bool -> nat -> items -> event list

type shape =
| Sh of nat * shape list

val shape_of : node -> shape

val shapes_of : items -> shape list

val parse :
  event list -> shape list -> (nat * shape list) list -> shape list option

val well_nested : event list -> bool

val shape_eqb : shape -> shape -> bool

val nests_as : event list -> node -> bool

val count_class : evclass -> event list -> nat

val size : node -> nat

val sizes : items -> nat

val clean : node -> bool

val cleans : items -> bool

val started : node -> bool

val starteds : items -> bool

val throw_as_resume : event -> event

type fkind =
| KFunc of bool * bool
| KGen of bool * bool

type cvar = { cv_fall : (fkind -> bool); cv_wrap2 : bool }

val wrapped : fkind -> bool

type stmt =
| SExpr
| SRaise
| SReturn
| SYield
| SIf of block * block
| SLoop of block * block
| STry of block * block
| SFin of block * block
and block =
| BNil
| BCons of stmt * block

type func = { f_kind : fkind; f_body : block; f_tflag : bool }

val is_term_s : stmt -> bool

val is_term : block -> bool

val clean_s : nat -> stmt -> bool

val clean_b : nat -> block -> bool

type choice = { c_kids : nat; c_go : bool; c_exc : bool option }

type outcome =
| ONormal
| OReturn of bool
| ORaise of bool
| OAbandon
| OStuck

type tok =
| TStart of skind
| TKid
| TLine
| TRet
| TYield
| TUnwind

val call_part : choice -> tok list

val is_stop : outcome -> bool

val exec_s :
  bool -> bool -> nat -> nat -> stmt -> choice list -> (tok
  list * outcome) * choice list

val exec_b :
  bool -> bool -> nat -> nat -> block -> choice list -> (tok
  list * outcome) * choice list

val exec_l :
  bool -> bool -> nat -> nat -> block -> block -> choice list -> (tok
  list * outcome) * choice list

val falloff : cvar -> fkind -> bool -> tok list

val finish : cvar -> bool -> fkind -> bool -> outcome -> tok list

val gen_allowed : fkind -> bool

val run : cvar -> bool -> func -> nat -> choice list -> tok list * outcome

val default_branch : tok list

type etok =
| EMark
| EFall
| EGotoRet
| EErrLabel
| EIfExc
| EExc
| EUnw

val epilogue : cvar -> fkind -> bool -> etok list

val take_seg : tok list -> tok list

val drop_seg : tok list -> tok list

val drop_segs : nat -> tok list -> tok list

val seg_at : nat -> tok list -> tok list

val count_yield : tok list -> nat

val final : outcome -> bool

val complete_seg : nat -> tok list -> outcome -> bool

type xt =
| XT of nat * choice list * nat * nat * xts
and xts =
| XNil
| XCons of xt * xts

val tok_events : tool -> bool -> nat -> tok -> event list

val expand : tool -> bool -> nat -> tok list -> event list list -> event list

val seg_of :
  cvar -> bool -> func list -> nat -> choice list -> nat -> nat -> tok list

val word : cvar -> bool -> tool -> bool -> func list -> xt -> event list

val words :
  cvar -> bool -> tool -> bool -> func list -> xts -> event list list

val mids : tok list -> node list -> (items * ekind) option

val seg_node : nat -> tok list -> node list -> node option

val to_node : cvar -> bool -> func list -> xt -> node option

val to_nodes : cvar -> bool -> func list -> xts -> node list option

val complete : cvar -> bool -> func list -> xt -> bool

val completes : cvar -> bool -> func list -> xts -> bool

val func_ok : cvar -> bool -> func -> bool

val prog_ok : cvar -> bool -> func list -> bool

val as_is : cvar

val wrap_fixed : cvar

val g_not_inlined : cvar
