
type nat =
| O
| S of nat

val fst : ('a1 * 'a2) -> 'a1

val length : 'a1 list -> nat

val app : 'a1 list -> 'a1 list -> 'a1 list

val add : nat -> nat -> nat

type positive =
| XI of positive
| XO of positive
| XH

type n =
| N0
| Npos of positive

type z =
| Z0
| Zpos of positive
| Zneg of positive

module Nat :
 sig
  val eqb : nat -> nat -> bool
 end

val rev : 'a1 list -> 'a1 list

val filter : ('a1 -> bool) -> 'a1 list -> 'a1 list

val ex_keep : (((((nat * n) * z) * z list) * z option) * positive) * bool

type skind =
| SCall
| SGenStart
| SResume
| SThrow
| SCloseUnstarted

type ekind =
| EReturn
| ERaise
| EYield
| EPending

type node =
| Node of nat * skind * items * ekind
and items =
| INil
| ICall of node * items
| IRet of items
| ILine of nat * items

type tool =
| Legacy
| Monitoring

type evk =
| KCall
| KRet
| KStart
| KResume
| KThrow
| KReturn
| KYield
| KUnwind
| KRaise
| KLine of nat

type event = evk * nat

type evclass =
| CStart
| CEnd
| COther

val classify : evk -> evclass

val start_cy : tool -> skind -> nat -> event list

val end_ev : tool -> ekind -> nat -> event list

val end_cy : tool -> bool -> ekind -> nat -> event list

val ret_stmt_cy : tool -> bool -> nat -> event list

val line_ev : bool -> nat -> nat -> event list

val ev_cy : tool -> bool -> bool -> node -> event list

val evs_cy : tool -> bool -> bool -> nat -> items -> event list

val start_py : tool -> skind -> nat -> event list

val ev_py : tool -> bool -> node -> event list

val evs_py : tool -> bool -> nat -> items -> event list

type shape =
| Sh of nat * shape list

val shape_of : node -> shape

val shapes_of : items -> shape list

val parse :
  event list -> shape list -> (nat * shape list) list -> shape list option

val well_nested : event list -> bool

val shape_eqb : shape -> shape -> bool

val nests_as : event list -> node -> bool

val count_class : evclass -> event list -> nat

val size : node -> nat

val sizes : items -> nat

val clean : node -> bool

val cleans : items -> bool

val started : node -> bool

val starteds : items -> bool

val throw_as_resume : event -> event
