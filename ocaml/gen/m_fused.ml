
(** val negb : bool -> bool **)

let negb = function
| true -> false
| false -> true

type nat =
| O
| S of nat

(** val fst : ('a1 * 'a2) -> 'a1 **)

let fst = function
| (x, _) -> x

(** val snd : ('a1 * 'a2) -> 'a2 **)

let snd = function
| (_, y) -> y

(** val length : 'a1 list -> nat **)

let rec length = function
| [] -> O
| _ :: l' -> S (length l')

(** val app : 'a1 list -> 'a1 list -> 'a1 list **)

let rec app l m =
  match l with
  | [] -> m
  | a :: l1 -> a :: (app l1 m)

type comparison =
| Eq
| Lt
| Gt

(** val compOpp : comparison -> comparison **)

let compOpp = function
| Eq -> Eq
| Lt -> Gt
| Gt -> Lt

(** val add : nat -> nat -> nat **)

let rec add n0 m =
  match n0 with
  | O -> m
  | S p -> S (add p m)

(** val sub : nat -> nat -> nat **)

let rec sub n0 m =
  match n0 with
  | O -> n0
  | S k -> (match m with
            | O -> n0
            | S l -> sub k l)

type positive =
| XI of positive
| XO of positive
| XH

type n =
| N0
| Npos of positive

type z =
| Z0
| Zpos of positive
| Zneg of positive

module Nat =
 struct
  (** val eqb : nat -> nat -> bool **)

  let rec eqb n0 m =
    match n0 with
    | O -> (match m with
            | O -> true
            | S _ -> false)
    | S n' -> (match m with
               | O -> false
               | S m' -> eqb n' m')

  (** val leb : nat -> nat -> bool **)

  let rec leb n0 m =
    match n0 with
    | O -> true
    | S n' -> (match m with
               | O -> false
               | S m' -> leb n' m')

  (** val ltb : nat -> nat -> bool **)

  let ltb n0 m =
    leb (S n0) m

  (** val div2 : nat -> nat **)

  let rec div2 = function
  | O -> O
  | S n1 -> (match n1 with
             | O -> O
             | S n' -> S (div2 n'))
 end

module Pos =
 struct
  (** val succ : positive -> positive **)

  let rec succ = function
  | XI p -> XO (succ p)
  | XO p -> XI p
  | XH -> XO XH

  (** val add : positive -> positive -> positive **)

  let rec add x y =
    match x with
    | XI p ->
      (match y with
       | XI q -> XO (add_carry p q)
       | XO q -> XI (add p q)
       | XH -> XO (succ p))
    | XO p ->
      (match y with
       | XI q -> XI (add p q)
       | XO q -> XO (add p q)
       | XH -> XI p)
    | XH -> (match y with
             | XI q -> XO (succ q)
             | XO q -> XI q
             | XH -> XO XH)

  (** val add_carry : positive -> positive -> positive **)

  and add_carry x y =
    match x with
    | XI p ->
      (match y with
       | XI q -> XI (add_carry p q)
       | XO q -> XO (add_carry p q)
       | XH -> XI (succ p))
    | XO p ->
      (match y with
       | XI q -> XO (add_carry p q)
       | XO q -> XI (add p q)
       | XH -> XO (succ p))
    | XH ->
      (match y with
       | XI q -> XI (succ q)
       | XO q -> XO (succ q)
       | XH -> XI XH)

  (** val pred_double : positive -> positive **)

  let rec pred_double = function
  | XI p -> XI (XO p)
  | XO p -> XI (pred_double p)
  | XH -> XH

  (** val compare_cont : comparison -> positive -> positive -> comparison **)

  let rec compare_cont r x y =
    match x with
    | XI p ->
      (match y with
       | XI q -> compare_cont r p q
       | XO q -> compare_cont Gt p q
       | XH -> Gt)
    | XO p ->
      (match y with
       | XI q -> compare_cont Lt p q
       | XO q -> compare_cont r p q
       | XH -> Gt)
    | XH -> (match y with
             | XH -> r
             | _ -> Lt)

  (** val compare : positive -> positive -> comparison **)

  let compare =
    compare_cont Eq

  (** val eqb : positive -> positive -> bool **)

  let rec eqb p q =
    match p with
    | XI p0 -> (match q with
                | XI q0 -> eqb p0 q0
                | _ -> false)
    | XO p0 -> (match q with
                | XO q0 -> eqb p0 q0
                | _ -> false)
    | XH -> (match q with
             | XH -> true
             | _ -> false)
 end

module Z =
 struct
  (** val double : z -> z **)

  let double = function
  | Z0 -> Z0
  | Zpos p -> Zpos (XO p)
  | Zneg p -> Zneg (XO p)

  (** val succ_double : z -> z **)

  let succ_double = function
  | Z0 -> Zpos XH
  | Zpos p -> Zpos (XI p)
  | Zneg p -> Zneg (Pos.pred_double p)

  (** val pred_double : z -> z **)

  let pred_double = function
  | Z0 -> Zneg XH
  | Zpos p -> Zpos (Pos.pred_double p)
  | Zneg p -> Zneg (XI p)

  (** val pos_sub : positive -> positive -> z **)

  let rec pos_sub x y =
    match x with
    | XI p ->
      (match y with
       | XI q -> double (pos_sub p q)
       | XO q -> succ_double (pos_sub p q)
       | XH -> Zpos (XO p))
    | XO p ->
      (match y with
       | XI q -> pred_double (pos_sub p q)
       | XO q -> double (pos_sub p q)
       | XH -> Zpos (Pos.pred_double p))
    | XH ->
      (match y with
       | XI q -> Zneg (XO q)
       | XO q -> Zneg (Pos.pred_double q)
       | XH -> Z0)

  (** val add : z -> z -> z **)

  let add x y =
    match x with
    | Z0 -> y
    | Zpos x' ->
      (match y with
       | Z0 -> x
       | Zpos y' -> Zpos (Pos.add x' y')
       | Zneg y' -> pos_sub x' y')
    | Zneg x' ->
      (match y with
       | Z0 -> x
       | Zpos y' -> pos_sub y' x'
       | Zneg y' -> Zneg (Pos.add x' y'))

  (** val compare : z -> z -> comparison **)

  let compare x y =
    match x with
    | Z0 -> (match y with
             | Z0 -> Eq
             | Zpos _ -> Lt
             | Zneg _ -> Gt)
    | Zpos x' -> (match y with
                  | Zpos y' -> Pos.compare x' y'
                  | _ -> Gt)
    | Zneg x' ->
      (match y with
       | Zneg y' -> compOpp (Pos.compare x' y')
       | _ -> Lt)

  (** val leb : z -> z -> bool **)

  let leb x y =
    match compare x y with
    | Gt -> false
    | _ -> true

  (** val ltb : z -> z -> bool **)

  let ltb x y =
    match compare x y with
    | Lt -> true
    | _ -> false

  (** val eqb : z -> z -> bool **)

  let eqb x y =
    match x with
    | Z0 -> (match y with
             | Z0 -> true
             | _ -> false)
    | Zpos p -> (match y with
                 | Zpos q -> Pos.eqb p q
                 | _ -> false)
    | Zneg p -> (match y with
                 | Zneg q -> Pos.eqb p q
                 | _ -> false)
 end

(** val hd_error : 'a1 list -> 'a1 option **)

let hd_error = function
| [] -> None
| x :: _ -> Some x

(** val nth : nat -> 'a1 list -> 'a1 -> 'a1 **)

let rec nth n0 l default =
  match n0 with
  | O -> (match l with
          | [] -> default
          | x :: _ -> x)
  | S m -> (match l with
            | [] -> default
            | _ :: t -> nth m t default)

(** val nth_error : 'a1 list -> nat -> 'a1 option **)

let rec nth_error l = function
| O -> (match l with
        | [] -> None
        | x :: _ -> Some x)
| S n1 -> (match l with
           | [] -> None
           | _ :: l0 -> nth_error l0 n1)

(** val rev : 'a1 list -> 'a1 list **)

let rec rev = function
| [] -> []
| x :: l' -> app (rev l') (x :: [])

(** val map : ('a1 -> 'a2) -> 'a1 list -> 'a2 list **)

let rec map f = function
| [] -> []
| a :: t -> (f a) :: (map f t)

(** val flat_map : ('a1 -> 'a2 list) -> 'a1 list -> 'a2 list **)

let rec flat_map f = function
| [] -> []
| x :: t -> app (f x) (flat_map f t)

(** val fold_left : ('a1 -> 'a2 -> 'a1) -> 'a2 list -> 'a1 -> 'a1 **)

let rec fold_left f l a0 =
  match l with
  | [] -> a0
  | b :: t -> fold_left f t (f a0 b)

(** val fold_right : ('a2 -> 'a1 -> 'a1) -> 'a1 -> 'a2 list -> 'a1 **)

let rec fold_right f a0 = function
| [] -> a0
| b :: t -> f b (fold_right f a0 t)

(** val existsb : ('a1 -> bool) -> 'a1 list -> bool **)

let rec existsb f = function
| [] -> false
| a :: l0 -> (||) (f a) (existsb f l0)

(** val forallb : ('a1 -> bool) -> 'a1 list -> bool **)

let rec forallb f = function
| [] -> true
| a :: l0 -> (&&) (f a) (forallb f l0)

(** val filter : ('a1 -> bool) -> 'a1 list -> 'a1 list **)

let rec filter f = function
| [] -> []
| x :: l0 -> if f x then x :: (filter f l0) else filter f l0

(** val find : ('a1 -> bool) -> 'a1 list -> 'a1 option **)

let rec find f = function
| [] -> None
| x :: tl -> if f x then Some x else find f tl

(** val combine : 'a1 list -> 'a2 list -> ('a1 * 'a2) list **)

let rec combine l l' =
  match l with
  | [] -> []
  | x :: tl ->
    (match l' with
     | [] -> []
     | y :: tl' -> (x, y) :: (combine tl tl'))

(** val firstn : nat -> 'a1 list -> 'a1 list **)

let rec firstn n0 l =
  match n0 with
  | O -> []
  | S n1 -> (match l with
             | [] -> []
             | a :: l0 -> a :: (firstn n1 l0))

(** val skipn : nat -> 'a1 list -> 'a1 list **)

let rec skipn n0 l =
  match n0 with
  | O -> l
  | S n1 -> (match l with
             | [] -> []
             | _ :: l0 -> skipn n1 l0)

(** val ex_keep :
    (((((nat * n) * z) * z list) * z option) * positive) * bool **)

let ex_keep =
  ((((((O, N0), Z0), []), None), XH), true)

type builtin =
| BBytes
| BStr
| BList
| BDict
| BTuple
| BSet

type num =
| NInt of z * z
| NBint
| NFloat of z
| NComplex of z

type cmode =
| MStrided
| MCContig
| MFContig

type ctype =
| TNum of num
| TObject
| TBuiltin of builtin
| TExt of nat
| TMem of num * nat * cmode

(** val builtin_eqb : builtin -> builtin -> bool **)

let builtin_eqb a b =
  match a with
  | BBytes -> (match b with
               | BBytes -> true
               | _ -> false)
  | BStr -> (match b with
             | BStr -> true
             | _ -> false)
  | BList -> (match b with
              | BList -> true
              | _ -> false)
  | BDict -> (match b with
              | BDict -> true
              | _ -> false)
  | BTuple -> (match b with
               | BTuple -> true
               | _ -> false)
  | BSet -> (match b with
             | BSet -> true
             | _ -> false)

(** val num_eqb : num -> num -> bool **)

let num_eqb a b =
  match a with
  | NInt (r, s) ->
    (match b with
     | NInt (r', s') -> (&&) (Z.eqb r r') (Z.eqb s s')
     | _ -> false)
  | NBint -> (match b with
              | NBint -> true
              | _ -> false)
  | NFloat r -> (match b with
                 | NFloat r' -> Z.eqb r r'
                 | _ -> false)
  | NComplex r -> (match b with
                   | NComplex r' -> Z.eqb r r'
                   | _ -> false)

(** val cmode_eqb : cmode -> cmode -> bool **)

let cmode_eqb a b =
  match a with
  | MStrided -> (match b with
                 | MStrided -> true
                 | _ -> false)
  | MCContig -> (match b with
                 | MCContig -> true
                 | _ -> false)
  | MFContig -> (match b with
                 | MFContig -> true
                 | _ -> false)

(** val ctype_eqb : ctype -> ctype -> bool **)

let ctype_eqb a b =
  match a with
  | TNum n0 -> (match b with
                | TNum n' -> num_eqb n0 n'
                | _ -> false)
  | TObject -> (match b with
                | TObject -> true
                | _ -> false)
  | TBuiltin x -> (match b with
                   | TBuiltin y -> builtin_eqb x y
                   | _ -> false)
  | TExt k -> (match b with
               | TExt k' -> Nat.eqb k k'
               | _ -> false)
  | TMem (n0, d, m) ->
    (match b with
     | TMem (n', d', m') ->
       (&&) ((&&) (num_eqb n0 n') (Nat.eqb d d')) (cmode_eqb m m')
     | _ -> false)

(** val rank_of : num -> z **)

let rank_of = function
| NInt (r, _) -> r
| NBint -> Zpos (XO (XO XH))
| NFloat r -> r
| NComplex r -> Z.add r (Zpos XH)

(** val sgn_of : num -> z **)

let sgn_of = function
| NInt (_, s) -> s
| _ -> Zpos XH

(** val num_lt : num -> num -> bool **)

let num_lt a b =
  match a with
  | NComplex ra -> (match b with
                    | NComplex rb -> Z.ltb rb ra
                    | _ -> false)
  | _ -> (&&) (Z.ltb (rank_of b) (rank_of a)) (Z.leb (sgn_of b) (sgn_of a))

type tclass =
| KInt
| KBint
| KFloat
| KComplex
| KObject
| KBuiltin
| KExt
| KMem

(** val class_of : ctype -> tclass **)

let class_of = function
| TNum n0 ->
  (match n0 with
   | NInt (_, _) -> KInt
   | NBint -> KBint
   | NFloat _ -> KFloat
   | NComplex _ -> KComplex)
| TObject -> KObject
| TBuiltin _ -> KBuiltin
| TExt _ -> KExt
| TMem (_, _, _) -> KMem

(** val ty_lt : (tclass -> bool) -> ctype -> ctype -> bool **)

let ty_lt idlt a b =
  match a with
  | TNum na ->
    (match b with
     | TNum nb -> num_lt na nb
     | _ -> (match na with
             | NComplex _ -> false
             | _ -> true))
  | TMem (_, _, _) ->
    (match b with
     | TMem (_, _, _) -> false
     | _ -> idlt (class_of b))
  | _ -> false

(** val bsearch :
    ('a1 -> 'a1 -> bool) -> nat -> 'a1 -> 'a1 list -> nat -> nat -> nat **)

let rec bsearch lt fuel x a l r =
  match fuel with
  | O -> l
  | S f ->
    if Nat.ltb l r
    then let p = add l (Nat.div2 (sub r l)) in
         if lt x (nth p a x)
         then bsearch lt f x a l p
         else bsearch lt f x a (S p) r
    else l

(** val binsert : ('a1 -> 'a1 -> bool) -> 'a1 list -> 'a1 -> 'a1 list **)

let binsert lt a x =
  let l = bsearch lt (S (length a)) x a O (length a) in
  app (firstn l a) (x :: (skipn l a))

(** val take_desc :
    ('a1 -> 'a1 -> bool) -> 'a1 -> 'a1 list -> 'a1 list * 'a1 list **)

let rec take_desc lt prev rest = match rest with
| [] -> ([], [])
| y :: tl ->
  if lt y prev
  then let (r, t) = take_desc lt y tl in ((y :: r), t)
  else ([], rest)

(** val take_asc :
    ('a1 -> 'a1 -> bool) -> 'a1 -> 'a1 list -> 'a1 list * 'a1 list **)

let rec take_asc lt prev rest = match rest with
| [] -> ([], [])
| y :: tl ->
  if lt y prev
  then ([], rest)
  else let (r, t) = take_asc lt y tl in ((y :: r), t)

(** val count_run :
    ('a1 -> 'a1 -> bool) -> 'a1 list -> 'a1 list * 'a1 list **)

let count_run lt l = match l with
| [] -> (l, [])
| x :: l0 ->
  (match l0 with
   | [] -> (l, [])
   | y :: rest ->
     if lt y x
     then let (r, t) = take_desc lt y rest in ((rev (x :: (y :: r))), t)
     else let (r, t) = take_asc lt y rest in ((x :: (y :: r)), t))

(** val pysort : ('a1 -> 'a1 -> bool) -> 'a1 list -> 'a1 list **)

let pysort lt l =
  let (run, rest) = count_run lt l in fold_left (binsert lt) rest run

type pyname =
| PInt
| PBool
| PFloat
| PComplex
| PObject
| PB of builtin
| PExt of nat

(** val pyname_eqb : pyname -> pyname -> bool **)

let pyname_eqb a b =
  match a with
  | PInt -> (match b with
             | PInt -> true
             | _ -> false)
  | PBool -> (match b with
              | PBool -> true
              | _ -> false)
  | PFloat -> (match b with
               | PFloat -> true
               | _ -> false)
  | PComplex -> (match b with
                 | PComplex -> true
                 | _ -> false)
  | PObject -> (match b with
                | PObject -> true
                | _ -> false)
  | PB x -> (match b with
             | PB y -> builtin_eqb x y
             | _ -> false)
  | PExt k -> (match b with
               | PExt k' -> Nat.eqb k k'
               | _ -> false)

(** val py_type_name : ctype -> pyname option **)

let py_type_name = function
| TNum n0 ->
  (match n0 with
   | NInt (_, _) -> Some PInt
   | NBint -> Some PBool
   | NFloat _ -> Some PFloat
   | NComplex _ -> Some PComplex)
| TObject -> Some PObject
| TBuiltin b -> Some (PB b)
| TExt k -> Some (PExt k)
| TMem (_, _, _) -> None

type split = { normal : ctype list; buffers : ctype list; has_obj : bool }

(** val split_go : pyname list -> ctype list -> split -> split **)

let rec split_go seen l acc =
  match l with
  | [] -> acc
  | t :: tl ->
    (match py_type_name t with
     | Some p ->
       if existsb (pyname_eqb p) seen
       then split_go seen tl acc
       else (match p with
             | PObject ->
               split_go (p :: seen) tl { normal = acc.normal; buffers =
                 acc.buffers; has_obj = true }
             | _ ->
               split_go (p :: seen) tl { normal = (app acc.normal (t :: []));
                 buffers = acc.buffers; has_obj = acc.has_obj })
     | None ->
       split_go seen tl { normal = acc.normal; buffers =
         (app acc.buffers (t :: [])); has_obj = acc.has_obj })

(** val split_fused : ctype list -> split **)

let split_fused sorted =
  split_go [] sorted { normal = []; buffers = []; has_obj = false }

type dkind =
| DKInt
| DKUInt
| DKFloat
| DKComplex

type bsrc =
| SNd
| SCyMvNd
| SPlain

type buf = { b_src : bsrc; b_kind : dkind; b_size : z; b_ndim : nat;
             b_cc : bool; b_fc : bool }

type atag =
| AInt
| ABool
| AFloat
| AComplex
| ANone
| ANpFloat64
| ANpComplex128
| ANpInt64
| ABuiltin of builtin
| AInst of nat list
| AOther
| ABuf of buf

(** val isinstance : atag -> pyname -> bool **)

let isinstance a = function
| PInt -> (match a with
           | AInt -> true
           | ABool -> true
           | _ -> false)
| PBool -> (match a with
            | ABool -> true
            | _ -> false)
| PFloat -> (match a with
             | AFloat -> true
             | ANpFloat64 -> true
             | _ -> false)
| PComplex ->
  (match a with
   | AComplex -> true
   | ANpComplex128 -> true
   | _ -> false)
| PObject -> true
| PB b -> (match a with
           | ABuiltin b' -> builtin_eqb b b'
           | _ -> false)
| PExt k -> (match a with
             | AInst mro -> existsb (Nat.eqb k) mro
             | _ -> false)

(** val inst_of : atag -> ctype -> bool **)

let inst_of a t =
  match py_type_name t with
  | Some p -> isinstance a p
  | None -> false

(** val sizeof : num -> z **)

let sizeof = function
| NInt (r, _) ->
  if Z.eqb r Z0
  then Zpos XH
  else if Z.eqb r (Zpos (XO XH))
       then Zpos (XO XH)
       else if Z.eqb r (Zpos (XO (XO XH)))
            then Zpos (XO (XO XH))
            else Zpos (XO (XO (XO XH)))
| NBint -> Zpos (XO (XO XH))
| NFloat r ->
  if Z.eqb r (Zpos (XO (XI (XO XH))))
  then Zpos (XO (XO XH))
  else if Z.eqb r (Zpos (XO (XO (XI XH))))
       then Zpos (XO (XO (XO XH)))
       else Zpos (XO (XO (XO (XO XH))))
| NComplex r ->
  if Z.eqb r (Zpos (XO (XI (XO XH))))
  then Zpos (XO (XO (XO XH)))
  else if Z.eqb r (Zpos (XO (XO (XI XH))))
       then Zpos (XO (XO (XO (XO XH))))
       else Zpos (XO (XO (XO (XO (XO XH)))))

(** val kind_match : num -> dkind -> bool **)

let kind_match n0 k =
  match n0 with
  | NInt (_, s) ->
    (match k with
     | DKInt -> negb (Z.eqb s Z0)
     | DKUInt -> Z.eqb s Z0
     | _ -> false)
  | NBint -> false
  | NFloat _ -> (match k with
                 | DKFloat -> true
                 | _ -> false)
  | NComplex _ -> (match k with
                   | DKComplex -> true
                   | _ -> false)

(** val contig_ok : cmode -> buf -> bool **)

let contig_ok m b =
  match m with
  | MStrided -> true
  | MCContig -> b.b_cc
  | MFContig -> b.b_fc

(** val coerce_ok : ctype -> buf -> bool **)

let coerce_ok t b =
  match t with
  | TMem (n0, d, m) ->
    (&&)
      ((&&) ((&&) (kind_match n0 b.b_kind) (Z.eqb (sizeof n0) b.b_size))
        (Nat.eqb d b.b_ndim)) (contig_ok m b)
  | _ -> false

(** val fast_ok : ctype -> buf -> bool **)

let fast_ok t b =
  match t with
  | TMem (n0, d, _) ->
    (&&) ((&&) (kind_match n0 b.b_kind) (Z.eqb (sizeof n0) b.b_size))
      (Nat.eqb d b.b_ndim)
  | _ -> false

(** val has_dtype : buf -> bool **)

let has_dtype b =
  match b.b_src with
  | SPlain -> false
  | _ -> true

(** val buffer_checks : bool -> ctype list -> atag -> ctype option **)

let buffer_checks fastfix bufs = function
| ANone -> hd_error bufs
| ABuf b ->
  (match if has_dtype b
         then find (fun t -> if fastfix then coerce_ok t b else fast_ok t b)
                bufs
         else None with
   | Some t -> Some t
   | None -> find (fun t -> coerce_ok t b) bufs)
| _ -> None

(** val map_fused :
    bool -> (tclass -> bool) -> ctype list -> atag -> ctype option **)

let map_fused fastfix idlt members0 a =
  let sp = split_fused (pysort (ty_lt idlt) members0) in
  (match find (inst_of a) sp.normal with
   | Some t -> Some t
   | None ->
     (match match sp.buffers with
            | [] -> None
            | _ :: _ -> buffer_checks fastfix sp.buffers a with
      | Some t -> Some t
      | None -> if sp.has_obj then Some TObject else None))

type ftype = { members : ctype list; fpos : nat }

type decl = { ftypes : ftype list; params : nat list }

type dres =
| Spec of ctype list
| NoMatch
| Ambiguous
| BadCall

(** val all_sigs : ctype list list -> ctype list list **)

let rec all_sigs = function
| [] -> [] :: []
| ms :: tl -> flat_map (fun m -> map (fun x -> m :: x) (all_sigs tl)) ms

(** val sig_match : ctype list -> ctype option list -> bool **)

let rec sig_match sig0 dest =
  match sig0 with
  | [] -> true
  | t :: s' ->
    (match dest with
     | [] -> true
     | o :: d' ->
       (match o with
        | Some d -> (&&) (ctype_eqb d t) (sig_match s' d')
        | None -> sig_match s' d'))

(** val dests :
    bool -> (tclass -> bool) -> decl -> atag list -> ctype option list option **)

let dests fastfix idlt d args =
  fold_right (fun ft acc ->
    match acc with
    | Some l ->
      (match nth_error args ft.fpos with
       | Some a -> Some ((map_fused fastfix idlt ft.members a) :: l)
       | None -> None)
    | None -> None) (Some []) d.ftypes

(** val dispatch_cy :
    bool -> (tclass -> bool) -> decl -> atag list -> dres **)

let dispatch_cy fastfix idlt d args =
  if negb (Nat.eqb (length args) (length d.params))
  then BadCall
  else (match dests fastfix idlt d args with
        | Some ds ->
          (match ds with
           | [] ->
             (match filter (fun s -> sig_match s ds)
                      (all_sigs (map (fun f -> f.members) d.ftypes)) with
              | [] -> NoMatch
              | s :: l -> (match l with
                           | [] -> Spec s
                           | _ :: _ -> Ambiguous))
           | one :: l ->
             (match l with
              | [] ->
                (match one with
                 | Some t -> Spec (t :: [])
                 | None -> NoMatch)
              | _ :: _ ->
                (match filter (fun s -> sig_match s ds)
                         (all_sigs (map (fun f -> f.members) d.ftypes)) with
                 | [] -> NoMatch
                 | s :: l0 ->
                   (match l0 with
                    | [] -> Spec s
                    | _ :: _ -> Ambiguous))))
        | None -> BadCall)

type cres =
| COk
| CTypeError
| CValueError

(** val conv : ctype -> atag -> cres **)

let conv t a =
  match t with
  | TNum n0 ->
    (match n0 with
     | NBint -> (match a with
                 | ABuf _ -> CValueError
                 | _ -> COk)
     | NComplex _ ->
       (match a with
        | ANone -> CTypeError
        | ABuiltin _ -> CTypeError
        | AInst _ -> CTypeError
        | AOther -> CTypeError
        | ABuf _ -> CTypeError
        | _ -> COk)
     | _ ->
       (match a with
        | AInt -> COk
        | ABool -> COk
        | AFloat -> COk
        | ANpFloat64 -> COk
        | ANpComplex128 -> COk
        | ANpInt64 -> COk
        | _ -> CTypeError))
  | TObject -> COk
  | TBuiltin b ->
    (match a with
     | ANone -> COk
     | ABuiltin b' -> if builtin_eqb b b' then COk else CTypeError
     | _ -> CTypeError)
  | TExt k ->
    (match a with
     | ANone -> COk
     | AInst mro -> if existsb (Nat.eqb k) mro then COk else CTypeError
     | _ -> CTypeError)
  | TMem (_, _, _) ->
    (match a with
     | ANone -> COk
     | ANpFloat64 -> CValueError
     | ANpComplex128 -> CValueError
     | ANpInt64 -> CValueError
     | ABuf b -> if coerce_ok t b then COk else CValueError
     | _ -> CTypeError)

type outcome =
| Ran of ctype list
| TypeErr
| ValueErr
| BadArgs

(** val conv_all : ctype list -> nat list -> atag list -> cres **)

let rec conv_all sig0 ps args =
  match ps with
  | [] -> COk
  | p :: ps' ->
    (match args with
     | [] -> COk
     | a :: args' ->
       (match nth_error sig0 p with
        | Some t ->
          (match conv t a with
           | COk -> conv_all sig0 ps' args'
           | x -> x)
        | None -> CTypeError))

(** val call_cy : bool -> (tclass -> bool) -> decl -> atag list -> outcome **)

let call_cy fastfix idlt d args =
  match dispatch_cy fastfix idlt d args with
  | Spec sig0 ->
    (match conv_all sig0 d.params args with
     | COk -> Ran sig0
     | CTypeError -> TypeErr
     | CValueError -> ValueErr)
  | BadCall -> BadArgs
  | _ -> TypeErr

(** val exact : atag -> ctype -> bool **)

let exact a t =
  match a with
  | AInt ->
    (match t with
     | TNum n0 -> (match n0 with
                   | NInt (_, _) -> true
                   | _ -> false)
     | _ -> false)
  | ABool ->
    (match t with
     | TNum n0 -> (match n0 with
                   | NBint -> true
                   | _ -> false)
     | _ -> false)
  | AFloat ->
    (match t with
     | TNum n0 -> (match n0 with
                   | NFloat _ -> true
                   | _ -> false)
     | _ -> false)
  | AComplex ->
    (match t with
     | TNum n0 -> (match n0 with
                   | NComplex _ -> true
                   | _ -> false)
     | _ -> false)
  | ANone -> (match t with
              | TMem (_, _, _) -> true
              | _ -> false)
  | ABuiltin b -> (match t with
                   | TBuiltin b' -> builtin_eqb b b'
                   | _ -> false)
  | AInst mro ->
    (match mro with
     | [] -> false
     | k :: _ -> (match t with
                  | TExt k' -> Nat.eqb k k'
                  | _ -> false))
  | ABuf b -> (match t with
               | TMem (_, _, _) -> coerce_ok t b
               | _ -> false)
  | _ -> false

(** val subinst : atag -> ctype -> bool **)

let subinst a t =
  match a with
  | ABool ->
    (match t with
     | TNum n0 -> (match n0 with
                   | NInt (_, _) -> true
                   | _ -> false)
     | _ -> false)
  | ANpFloat64 ->
    (match t with
     | TNum n0 -> (match n0 with
                   | NFloat _ -> true
                   | _ -> false)
     | _ -> false)
  | ANpComplex128 ->
    (match t with
     | TNum n0 -> (match n0 with
                   | NComplex _ -> true
                   | _ -> false)
     | _ -> false)
  | AInst mro ->
    (match mro with
     | [] -> false
     | _ :: bases ->
       (match t with
        | TExt k -> existsb (Nat.eqb k) bases
        | _ -> false))
  | _ -> false

(** val is_numeric : ctype -> bool **)

let is_numeric = function
| TNum _ -> true
| _ -> false

(** val trank : ctype -> z **)

let trank = function
| TNum n0 -> rank_of n0
| _ -> Z0

(** val biggest : ctype list -> ctype option **)

let rec biggest = function
| [] -> None
| t :: tl ->
  (match biggest tl with
   | Some u ->
     if (&&) ((&&) (is_numeric t) (is_numeric u)) (Z.ltb (trank t) (trank u))
     then Some u
     else Some t
   | None -> Some t)

(** val doc_choice : ctype list -> atag -> ctype option **)

let doc_choice ms a =
  match filter (exact a) ms with
  | [] ->
    (match filter (subinst a) ms with
     | [] -> if existsb (ctype_eqb TObject) ms then Some TObject else None
     | c :: l0 -> biggest (c :: l0))
  | c :: l0 -> biggest (c :: l0)

(** val doc_sig : ftype list -> atag list -> ctype list option **)

let rec doc_sig fts args =
  match fts with
  | [] -> Some []
  | ft :: tl ->
    (match nth_error args ft.fpos with
     | Some a ->
       (match doc_sig tl args with
        | Some s ->
          (match doc_choice ft.members a with
           | Some t -> Some (t :: s)
           | None -> None)
        | None -> None)
     | None -> None)

(** val doc_call : decl -> atag list -> outcome **)

let doc_call d args =
  if negb (Nat.eqb (length args) (length d.params))
  then BadArgs
  else (match doc_sig d.ftypes args with
        | Some sig0 ->
          (match conv_all sig0 d.params args with
           | COk -> Ran sig0
           | _ -> TypeErr)
        | None -> TypeErr)

type ires =
| IFound of ctype list
| IKeyError

(** val getitem :
    ('a1 -> 'a1 -> bool) -> (ctype -> 'a1) -> ctype list list -> 'a1 list ->
    ires **)

let getitem keq name sigs idx =
  match find (fun s ->
          (&&) (Nat.eqb (length s) (length idx))
            (forallb (fun p -> keq (name (fst p)) (snd p)) (combine s idx)))
          sigs with
  | Some s -> IFound s
  | None -> IKeyError

type pkind =
| KPosOnly
| KPosKw
| KKwOnly

(** val is_kwonly : pkind -> bool **)

let is_kwonly = function
| KKwOnly -> true
| _ -> false

(** val is_posonly : pkind -> bool **)

let is_posonly = function
| KPosOnly -> true
| _ -> false

type plan = { pl_ft : nat; pl_idx : nat; pl_name : nat; pl_kind : pkind;
              pl_def : nat option }

type 'v param = { p_name : nat; p_kind : pkind; p_fused : nat option;
                  p_default : 'v option }

type 'v fsig = { s_params : 'v param list; s_star : bool; s_kw : bool }

(** val has_default : 'a1 param -> bool **)

let has_default p =
  match p.p_default with
  | Some _ -> true
  | None -> false

(** val defaults_tuple : 'a1 param list -> 'a1 list **)

let defaults_tuple ps =
  flat_map (fun p -> match p.p_default with
                     | Some v -> v :: []
                     | None -> []) ps

(** val plans_from :
    bool -> 'a1 param list -> nat -> nat -> nat list -> plan list **)

let rec plans_from count_all ps i didx seen =
  match ps with
  | [] -> []
  | p :: tl ->
    let relevant =
      match p.p_fused with
      | Some ft -> negb (existsb (Nat.eqb ft) seen)
      | None -> false
    in
    let didx' =
      if (&&) (has_default p) ((||) count_all relevant) then S didx else didx
    in
    (match p.p_fused with
     | Some ft ->
       if relevant
       then { pl_ft = ft; pl_idx = i; pl_name = p.p_name; pl_kind = p.p_kind;
              pl_def =
              (if has_default p then Some didx else None) } :: (plans_from
                                                                 count_all tl
                                                                 (S i) didx'
                                                                 (ft :: seen))
       else plans_from count_all tl (S i) didx' seen
     | None -> plans_from count_all tl (S i) didx' seen)

(** val plans : bool -> 'a1 fsig -> plan list **)

let plans count_all s =
  plans_from count_all s.s_params O O []

(** val lookup : nat -> (nat * 'a1) list -> 'a1 option **)

let rec lookup n0 = function
| [] -> None
| p :: r -> let (k, v) = p in if Nat.eqb k n0 then Some v else lookup n0 r

type 'v fetched =
| FVal of 'v
| FMissing
| FBadIndex

(** val run_plan :
    bool -> plan -> 'a1 list -> (nat * 'a1) list -> 'a1 list -> 'a1 fetched **)

let run_plan kinds_fix pl args kwargs dt =
  let from_pos =
    if (&&) kinds_fix (is_kwonly pl.pl_kind)
    then None
    else nth_error args pl.pl_idx
  in
  (match from_pos with
   | Some v -> FVal v
   | None ->
     let from_kw =
       if (&&) kinds_fix (is_posonly pl.pl_kind)
       then None
       else lookup pl.pl_name kwargs
     in
     (match from_kw with
      | Some v -> FVal v
      | None ->
        (match pl.pl_def with
         | Some k ->
           (match nth_error dt k with
            | Some v -> FVal v
            | None -> FBadIndex)
         | None -> FMissing)))

type 'v fres =
| Fetched of 'v list
| FetchMissing
| FetchBadIndex

(** val fetch_all :
    bool -> plan list -> 'a1 list -> (nat * 'a1) list -> 'a1 list -> 'a1 fres **)

let rec fetch_all kinds_fix pls args kwargs dt =
  match pls with
  | [] -> Fetched []
  | pl :: tl ->
    (match run_plan kinds_fix pl args kwargs dt with
     | FVal v ->
       (match fetch_all kinds_fix tl args kwargs dt with
        | Fetched vs -> Fetched (v :: vs)
        | x -> x)
     | FMissing -> FetchMissing
     | FBadIndex -> FetchBadIndex)

(** val positional : 'a1 param -> bool **)

let positional p =
  negb (is_kwonly p.p_kind)

(** val npos : 'a1 param list -> nat **)

let npos ps =
  length (filter positional ps)

(** val accepts_kw : 'a1 param list -> nat -> bool **)

let accepts_kw ps n0 =
  existsb (fun p -> (&&) (Nat.eqb p.p_name n0) (negb (is_posonly p.p_kind)))
    ps

(** val in_kw : nat -> (nat * 'a1) list -> bool **)

let in_kw n0 kw =
  match lookup n0 kw with
  | Some _ -> true
  | None -> false

(** val bind_one :
    'a1 list -> (nat * 'a1) list -> nat -> 'a1 param -> 'a1 option **)

let bind_one args kwargs i p =
  match p.p_kind with
  | KPosOnly ->
    (match nth_error args i with
     | Some v -> Some v
     | None -> p.p_default)
  | KPosKw ->
    (match nth_error args i with
     | Some v -> if in_kw p.p_name kwargs then None else Some v
     | None ->
       (match lookup p.p_name kwargs with
        | Some v -> Some v
        | None -> p.p_default))
  | KKwOnly ->
    (match lookup p.p_name kwargs with
     | Some v -> Some v
     | None -> p.p_default)

(** val bind_from :
    'a1 list -> (nat * 'a1) list -> nat -> 'a1 param list -> 'a1 list option **)

let rec bind_from args kwargs i = function
| [] -> Some []
| p :: tl ->
  (match bind_one args kwargs i p with
   | Some v ->
     (match bind_from args kwargs (S i) tl with
      | Some vs -> Some (v :: vs)
      | None -> None)
   | None -> None)

(** val bind_py :
    'a1 fsig -> 'a1 list -> (nat * 'a1) list -> 'a1 list option **)

let bind_py s args kwargs =
  if (&&) (negb s.s_star) (Nat.ltb (npos s.s_params) (length args))
  then None
  else if (&&) (negb s.s_kw)
            (existsb (fun kv -> negb (accepts_kw s.s_params (fst kv))) kwargs)
       then None
       else bind_from args kwargs O s.s_params

(** val kinds_sorted : 'a1 param list -> bool **)

let rec kinds_sorted = function
| [] -> true
| p :: tl ->
  (&&)
    (if is_kwonly p.p_kind
     then forallb (fun q -> is_kwonly q.p_kind) tl
     else true) (kinds_sorted tl)

(** val nodupb : nat list -> bool **)

let rec nodupb = function
| [] -> true
| x :: r -> (&&) (negb (existsb (Nat.eqb x) r)) (nodupb r)

(** val wf_sig : 'a1 fsig -> bool **)

let wf_sig s =
  (&&) (kinds_sorted s.s_params) (nodupb (map (fun p -> p.p_name) s.s_params))

(** val hazard_free : plan -> 'a1 list -> (nat * 'a1) list -> bool **)

let hazard_free pl args kwargs =
  match pl.pl_kind with
  | KPosOnly ->
    (||) (Nat.ltb pl.pl_idx (length args)) (negb (in_kw pl.pl_name kwargs))
  | KPosKw -> true
  | KKwOnly -> Nat.leb (length args) pl.pl_idx

(** val select : ctype list list -> ctype option list -> dres **)

let select mss ds = match ds with
| [] ->
  (match filter (fun s -> sig_match s ds) (all_sigs mss) with
   | [] -> NoMatch
   | s :: l -> (match l with
                | [] -> Spec s
                | _ :: _ -> Ambiguous))
| one :: l ->
  (match l with
   | [] -> (match one with
            | Some t -> Spec (t :: [])
            | None -> NoMatch)
   | _ :: _ ->
     (match filter (fun s -> sig_match s ds) (all_sigs mss) with
      | [] -> NoMatch
      | s :: l0 -> (match l0 with
                    | [] -> Spec s
                    | _ :: _ -> Ambiguous)))

(** val fparams : 'a1 param list -> nat list **)

let fparams ps =
  flat_map (fun p -> match p.p_fused with
                     | Some ft -> ft :: []
                     | None -> []) ps

(** val fused_vals :
    ('a1 -> atag) -> 'a1 param list -> 'a1 list -> atag list **)

let rec fused_vals tag_of ps vals =
  match ps with
  | [] -> []
  | p :: ps' ->
    (match vals with
     | [] -> []
     | v :: vals' ->
       (match p.p_fused with
        | Some _ -> (tag_of v) :: (fused_vals tag_of ps' vals')
        | None -> fused_vals tag_of ps' vals'))

(** val ft_pos : plan list -> nat -> nat **)

let rec ft_pos pls ft =
  match pls with
  | [] -> O
  | pl :: tl -> if Nat.eqb pl.pl_ft ft then O else S (ft_pos tl ft)

(** val members_of : ctype list list -> plan -> ctype list **)

let members_of mss pl =
  nth pl.pl_ft mss []

(** val decl_of : ctype list list -> 'a1 fsig -> decl **)

let decl_of mss s =
  let pls = plans true s in
  { ftypes =
  (map (fun pl -> { members = (members_of mss pl); fpos =
    (length (fparams (firstn pl.pl_idx s.s_params))) }) pls); params =
  (map (ft_pos pls) (fparams s.s_params)) }

(** val call2_cy :
    ('a1 -> atag) -> bool -> bool -> bool -> (tclass -> bool) -> ctype list
    list -> 'a1 fsig -> 'a1 list -> (nat * 'a1) list -> outcome **)

let call2_cy tag_of count_all kinds_fix fastfix idlt mss s args kwargs =
  let pls = plans count_all s in
  (match fetch_all kinds_fix pls args kwargs (defaults_tuple s.s_params) with
   | Fetched vs ->
     let ds =
       map (fun pv ->
         map_fused fastfix idlt (members_of mss (fst pv)) (tag_of (snd pv)))
         (combine pls vs)
     in
     (match select (map (members_of mss) pls) ds with
      | Spec sg ->
        (match bind_py s args kwargs with
         | Some vals ->
           (match conv_all sg (map (ft_pos pls) (fparams s.s_params))
                    (fused_vals tag_of s.s_params vals) with
            | COk -> Ran sg
            | CTypeError -> TypeErr
            | CValueError -> ValueErr)
         | None -> TypeErr)
      | BadCall -> BadArgs
      | _ -> TypeErr)
   | FetchMissing -> TypeErr
   | FetchBadIndex -> BadArgs)

(** val doc_call2 :
    ('a1 -> atag) -> ctype list list -> 'a1 fsig -> 'a1 list -> (nat * 'a1)
    list -> outcome **)

let doc_call2 tag_of mss s args kwargs =
  match bind_py s args kwargs with
  | Some vals -> doc_call (decl_of mss s) (fused_vals tag_of s.s_params vals)
  | None -> TypeErr

(** val call_index :
    ('a1 -> atag) -> 'a1 fsig -> ctype list -> 'a1 list -> (nat * 'a1) list
    -> outcome **)

let call_index tag_of s sg args kwargs =
  match bind_py s args kwargs with
  | Some vals ->
    (match conv_all sg (map (ft_pos (plans true s)) (fparams s.s_params))
             (fused_vals tag_of s.s_params vals) with
     | COk -> Ran sg
     | CTypeError -> TypeErr
     | CValueError -> ValueErr)
  | None -> TypeErr
