
val negb : bool -> bool

type nat =
| O
| S of nat

val fst : ('a1 * 'a2) -> 'a1

val snd : ('a1 * 'a2) -> 'a2

val app : 'a1 list -> 'a1 list -> 'a1 list

type positive =
| XI of positive
| XO of positive
| XH

type n =
| N0
| Npos of positive

type z =
| Z0
| Zpos of positive
| Zneg of positive

val map : ('a1 -> 'a2) -> 'a1 list -> 'a2 list

val existsb : ('a1 -> bool) -> 'a1 list -> bool

val find : ('a1 -> bool) -> 'a1 list -> 'a1 option

val ex_keep : (((((nat * n) * z) * z list) * z option) * positive) * bool

type cls =
| CB
| CT
| CCS
| CPS
| CU

type kind =
| KOp
| KRop
| KIop

type mstate =
| Undef
| RetNI
| RetVal

type world =
| WPy
| WCy

val cls_eqb : cls -> cls -> bool

val parent : cls -> cls option

val chain : cls -> cls list

val issub : cls -> cls -> bool

type slot =
| SNone
| SPy
| SCy of cls

val slot_eqb : slot -> slot -> bool

val is_some : slot -> bool

type entry =
| ENone
| EFun of cls * kind
| EWrap of cls * kind

val entry_eqb : entry -> entry -> bool

type res =
| NI
| Val of cls * kind
| Fuel

type ev = (cls * kind) * bool

type m = ev list * res

type opnd = bool * cls

val ty : opnd -> cls

val orelse : m -> (unit -> m) -> m

val defd : (cls -> kind -> mstate) -> cls -> kind -> bool

val is_py : world -> bool -> cls -> bool

val own_slot : (cls -> kind -> mstate) -> cls -> bool

val entry_of :
  world -> (cls -> kind -> mstate) -> bool -> cls -> kind -> entry

val lookup_in :
  world -> (cls -> kind -> mstate) -> bool -> cls list -> kind -> entry

val lookup : world -> (cls -> kind -> mstate) -> bool -> cls -> kind -> entry

val upd : ((cls option * bool) * bool) -> entry -> (cls option * bool) * bool

val py_slot : world -> (cls -> kind -> mstate) -> bool -> cls -> slot

val cy_slot_in : (cls -> kind -> mstate) -> cls list -> slot

val binslot : world -> (cls -> kind -> mstate) -> bool -> cls -> slot

val base_slot : world -> (cls -> kind -> mstate) -> bool -> cls -> slot

val user : (cls -> kind -> mstate) -> cls -> kind -> opnd -> m

val call_entry :
  (cls -> kind -> mstate) -> (slot -> opnd -> opnd -> m) -> entry -> opnd ->
  opnd -> m

val overloaded :
  world -> (cls -> kind -> mstate) -> bool -> opnd -> opnd -> bool

val slot_py :
  world -> (cls -> kind -> mstate) -> bool -> (slot -> opnd -> opnd -> m) ->
  opnd -> opnd -> m

val cy_binop :
  world -> (cls -> kind -> mstate) -> bool -> bool -> (slot -> opnd -> opnd
  -> m) -> cls -> opnd -> opnd -> m

val call_slot :
  world -> (cls -> kind -> mstate) -> bool -> bool -> nat -> slot -> opnd ->
  opnd -> m

val fUEL : nat

val binary_op1 :
  world -> (cls -> kind -> mstate) -> bool -> bool -> opnd -> opnd -> m

type cst = mstate * mstate

type bcfg = ((((cst * cst) * cst) * cst) * cst) * bool

type icfg = (((mstate * mstate) * mstate) * mstate) * mstate

val bc_upy : bcfg -> bool

val mkst : bcfg -> icfg -> cls -> kind -> mstate

val ic0 : icfg

type fres =
| FTypeError
| FVal of cls * kind
| FNotImplementedObject
| FFuel

type out = ev list * fres

val finish : m -> out

val relevant : cls -> cls -> cls -> bool

val keep : cls -> cls -> cls -> cst -> cst

val norm : cls -> cls -> bcfg -> bcfg

val run_bin : world -> bool -> bcfg -> cls -> cls -> m

val iop_part : bcfg -> icfg -> cls -> m

val sq_concat_applies : world -> bool -> bcfg -> icfg -> cls -> bool

val run : world -> bool -> bool -> bool -> bcfg -> icfg -> cls -> cls -> out

val related : cls -> cls -> bool

val slots_of : bcfg -> cls -> cls -> slot list

val multi_slot : bcfg -> cls -> cls -> bool

val any_rop : bcfg -> cls -> bool

val any_slot : bcfg -> cls -> cls -> bool

val exc_same_type : bool -> bcfg -> cls -> cls -> bool

val exc_multi_slot : bcfg -> cls -> cls -> bool

val capi_slot_in : (cls -> kind -> mstate) -> cls list -> cls option

val run_capi : bcfg -> cls -> cls -> out

type rcls =
| RT
| RX
| RU

type cop =
| LT
| LE
| EQ
| NE
| GT
| GE

type cstate =
| CU0
| CN
| CTr
| CFa

type rres =
| RNI
| RB of bool
| RTypeErr
| RFuel

type rev = (rcls * cop) * bool

type rM = rev list * rres

type ropnd = bool * rcls

val rcls_eqb : rcls -> rcls -> bool

val swap : cop -> cop

val all_cop : cop list

val root_pref : cop list

val rsub : rcls -> rcls -> bool

val rchain : rcls -> rcls list

val rbind : rM -> (rres -> rM) -> rM

val rret : rres -> rM

val rnot : rres -> rres

val derive : cop -> cop -> bool * nat

val is_ordering : cop -> bool

val rst : (cop -> cstate) -> (cop -> cstate) -> rcls -> cop -> cstate

val rdef : (cop -> cstate) -> (cop -> cstate) -> rcls -> cop -> bool

val r_is_py : world -> bool -> rcls -> bool

val ruser : (cop -> cstate) -> (cop -> cstate) -> rcls -> cop -> ropnd -> rM

val root : (cop -> cstate) -> (cop -> cstate) -> cop option

val any_def : (cop -> cstate) -> (cop -> cstate) -> rcls -> bool

val comp :
  world -> (cop -> cstate) -> (cop -> cstate) -> bool -> rcls -> cop -> rcls
  option

type rreq =
| QDo of ropnd * ropnd * cop
| QTp of rcls * ropnd * ropnd * cop

val rev_ :
  world -> (cop -> cstate) -> (cop -> cstate) -> bool -> bool -> cstate ->
  cstate -> bool -> nat -> rreq -> rM

val rc_run :
  world -> (cop -> cstate) -> (cop -> cstate) -> bool -> bool -> cstate ->
  cstate -> bool -> rcls -> rcls -> cop -> rM
