
val negb : bool -> bool

type nat =
| O
| S of nat

type ('a, 'b) sum =
| Inl of 'a
| Inr of 'b

val length : 'a1 list -> nat

type comparison =
| Eq
| Lt
| Gt

val compOpp : comparison -> comparison

val add : nat -> nat -> nat

type positive =
| XI of positive
| XO of positive
| XH

type n =
| N0
| Npos of positive

type z =
| Z0
| Zpos of positive
| Zneg of positive

module Pos :
 sig
  val succ : positive -> positive

  val add : positive -> positive -> positive

  val add_carry : positive -> positive -> positive

  val pred_double : positive -> positive

  val pred_N : positive -> n

  val mul : positive -> positive -> positive

  val iter : ('a1 -> 'a1) -> 'a1 -> positive -> 'a1

  val div2 : positive -> positive

  val div2_up : positive -> positive

  val size : positive -> positive

  val compare_cont : comparison -> positive -> positive -> comparison

  val compare : positive -> positive -> comparison

  val eqb : positive -> positive -> bool

  val coq_Nsucc_double : n -> n

  val coq_Ndouble : n -> n

  val coq_lor : positive -> positive -> positive

  val coq_land : positive -> positive -> n

  val ldiff : positive -> positive -> n

  val iter_op : ('a1 -> 'a1 -> 'a1) -> positive -> 'a1 -> 'a1

  val to_nat : positive -> nat

  val of_succ_nat : nat -> positive
 end

module N :
 sig
  val succ_pos : n -> positive

  val coq_lor : n -> n -> n

  val coq_land : n -> n -> n

  val ldiff : n -> n -> n
 end

module Z :
 sig
  val double : z -> z

  val succ_double : z -> z

  val pred_double : z -> z

  val pos_sub : positive -> positive -> z

  val add : z -> z -> z

  val opp : z -> z

  val sub : z -> z -> z

  val mul : z -> z -> z

  val pow_pos : z -> positive -> z

  val pow : z -> z -> z

  val compare : z -> z -> comparison

  val leb : z -> z -> bool

  val ltb : z -> z -> bool

  val eqb : z -> z -> bool

  val abs : z -> z

  val to_nat : z -> nat

  val of_nat : nat -> z

  val of_N : n -> z

  val pos_div_eucl : positive -> z -> z * z

  val div_eucl : z -> z -> z * z

  val div : z -> z -> z

  val modulo : z -> z -> z

  val div2 : z -> z

  val log2 : z -> z

  val shiftl : z -> z -> z

  val coq_lor : z -> z -> z

  val coq_land : z -> z -> z
 end

val nth : nat -> 'a1 list -> 'a1 -> 'a1

val last : 'a1 list -> 'a1 -> 'a1

val forallb : ('a1 -> bool) -> 'a1 list -> bool

val firstn : nat -> 'a1 list -> 'a1 list

val ex_keep : (((((nat * n) * z) * z list) * z option) * positive) * bool

val min_int : z -> bool -> z

val max_int : z -> bool -> z

val in_rangeb : z -> bool -> z -> bool

val wrap : z -> bool -> z -> z

type pylong = { pl_neg : bool; pl_digits : z list }

val mag : z -> z list -> z

val value : z -> pylong -> z

val ndigits : pylong -> z

val digit : pylong -> nat -> z

val digit_okb : z -> z -> bool

val wfb : z -> pylong -> bool

val joinl_c : z -> bool -> z -> z list -> z option

val join_c : z -> bool -> z -> nat -> pylong -> z option

val digits_of : z -> nat -> z -> z list

val of_Z : z -> z -> pylong

type cop =
| OpLt
| OpLe
| OpEq
| OpNe
| OpGt
| OpGe

type icfg = { i_sh : z; i_ssz : z; i_llong : z; i_tag312 : bool;
              i_internals : bool }

val lp64_312 : icfg

val lp64_311 : icfg

val lp64_noint : icfg

val ilp32_15 : icfg

val zop : cop -> z -> z -> bool

val in_eqlege : cop -> bool

val final : cop -> z -> bool

val signbits : pylong -> z

val tag : pylong -> z

val ssize : pylong -> z

val css : icfg -> pylong -> pylong -> z

val is_neg : icfg -> pylong -> bool

val sub_ss : z -> z -> z -> z option

val dcast : z -> pylong -> nat -> z

val digit_loop : z -> pylong -> pylong -> nat -> z -> z option

val digit_cmp : icfg -> pylong -> pylong -> z option

val as_llong_ovf : z -> z -> z * z

val cmp_intint :
  icfg -> (cop -> z -> z -> bool) -> cop -> pylong -> pylong -> bool option

val cmp_exact :
  icfg -> (cop -> z -> z -> bool) -> cop -> bool -> pylong -> pylong -> bool
  option

type dbl =
| DNan
| DInf of bool
| DFin of z * z

val dbl_okb : dbl -> bool

val is_finite : dbl -> bool

val dcmp : dbl -> dbl -> comparison option

val cop_of : cop -> comparison option -> bool

val dop : cop -> dbl -> dbl -> bool

val fz_cmp : dbl -> z -> comparison option

val zf_cmp : z -> dbl -> comparison option

val fop : cop -> dbl -> z -> bool

val zfop : cop -> z -> dbl -> bool

val in_nelelt : cop -> bool

val in_negegt : cop -> bool

val in_eqlelt : cop -> bool

val in_eqgegt : cop -> bool

type fcfg = { f_i : icfg; f_long : z }

val f_lp64_312 : fcfg

val f_lp64_311 : fcfg

val f_lp64_noint : fcfg

val f_llp64_noint : fcfg

val f_ilp32_15 : fcfg

val i2d : z -> dbl option

val dzero : dbl

val two_sh : icfg -> dbl

val neg_two_sh : icfg -> dbl

val two53 : dbl

val neg_two53 : dbl

val compact : icfg -> pylong -> bool

val sign_of : icfg -> pylong -> z

val compact_val : icfg -> pylong -> z

val long_or_overflow : z -> z -> (z, z) sum

val via : dbl option -> (dbl -> bool) -> bool option

val cmp_floatint :
  fcfg -> (cop -> dbl -> z -> bool) -> cop -> dbl -> pylong -> bool option

val cmp_intfloat :
  fcfg -> (cop -> z -> dbl -> bool) -> cop -> pylong -> dbl -> bool option

type num =
| NFloat of dbl
| NInt of pylong

val cmp_num :
  fcfg -> (cop -> dbl -> z -> bool) -> (cop -> z -> dbl -> bool) -> (cop -> z
  -> z -> bool) -> cop -> bool -> num -> num -> bool option

val fbranch : fcfg -> bool -> dbl -> pylong -> z
