
(** val negb : bool -> bool **)

let negb = function
| true -> false
| false -> true

type nat =
| O
| S of nat

(** val fst : ('a1 * 'a2) -> 'a1 **)

let fst = function
| (x, _) -> x

(** val app : 'a1 list -> 'a1 list -> 'a1 list **)

let rec app l m =
  match l with
  | [] -> m
  | a :: l1 -> a :: (app l1 m)

(** val add : nat -> nat -> nat **)

let rec add n0 m =
  match n0 with
  | O -> m
  | S p -> S (add p m)

(** val sub : nat -> nat -> nat **)

let rec sub n0 m =
  match n0 with
  | O -> n0
  | S k -> (match m with
            | O -> n0
            | S l -> sub k l)

type positive =
| XI of positive
| XO of positive
| XH

type n =
| N0
| Npos of positive

type z =
| Z0
| Zpos of positive
| Zneg of positive

module Nat =
 struct
  (** val eqb : nat -> nat -> bool **)

  let rec eqb n0 m =
    match n0 with
    | O -> (match m with
            | O -> true
            | S _ -> false)
    | S n' -> (match m with
               | O -> false
               | S m' -> eqb n' m')

  (** val max : nat -> nat -> nat **)

  let rec max n0 m =
    match n0 with
    | O -> m
    | S n' -> (match m with
               | O -> n0
               | S m' -> S (max n' m'))
 end

(** val nth : nat -> 'a1 list -> 'a1 -> 'a1 **)

let rec nth n0 l default =
  match n0 with
  | O -> (match l with
          | [] -> default
          | x :: _ -> x)
  | S m -> (match l with
            | [] -> default
            | _ :: t -> nth m t default)

(** val rev : 'a1 list -> 'a1 list **)

let rec rev = function
| [] -> []
| x :: l' -> app (rev l') (x :: [])

(** val map : ('a1 -> 'a2) -> 'a1 list -> 'a2 list **)

let rec map f = function
| [] -> []
| a :: t -> (f a) :: (map f t)

(** val flat_map : ('a1 -> 'a2 list) -> 'a1 list -> 'a2 list **)

let rec flat_map f = function
| [] -> []
| x :: t -> app (f x) (flat_map f t)

(** val fold_left : ('a1 -> 'a2 -> 'a1) -> 'a2 list -> 'a1 -> 'a1 **)

let rec fold_left f l a1 =
  match l with
  | [] -> a1
  | b :: t -> fold_left f t (f a1 b)

(** val existsb : ('a1 -> bool) -> 'a1 list -> bool **)

let rec existsb f = function
| [] -> false
| a :: l0 -> (||) (f a) (existsb f l0)

(** val filter : ('a1 -> bool) -> 'a1 list -> 'a1 list **)

let rec filter f = function
| [] -> []
| x :: l0 -> if f x then x :: (filter f l0) else filter f l0

(** val seq : nat -> nat -> nat list **)

let rec seq start = function
| O -> []
| S len0 -> start :: (seq (S start) len0)

(** val ex_keep :
    (((((nat * n) * z) * z list) * z option) * positive) * bool **)

let ex_keep =
  ((((((O, N0), Z0), []), None), XH), true)

type obj = nat

type event =
| Got of obj
| Give of obj

(** val bal : event list -> obj -> nat **)

let rec bal tr0 o =
  match tr0 with
  | [] -> O
  | e :: tr' ->
    (match e with
     | Got p -> add (if Nat.eqb p o then S O else O) (bal tr' o)
     | Give p -> sub (bal tr' o) (if Nat.eqb p o then S O else O))

(** val nanny_errs : event list -> nat **)

let rec nanny_errs = function
| [] -> O
| e :: tr' ->
  (match e with
   | Got _ -> nanny_errs tr'
   | Give p -> add (if Nat.eqb (bal tr' p) O then S O else O) (nanny_errs tr'))

(** val nanny_leaks : event list -> obj list -> nat list **)

let nanny_leaks tr0 objs =
  filter (fun n0 -> negb (Nat.eqb n0 O)) (map (bal tr0) objs)

(** val nanny_report : event list -> obj list -> nat * nat list **)

let nanny_report evs objs =
  ((nanny_errs (rev evs)), (nanny_leaks (rev evs) objs))

type fmap = (nat * obj) list

(** val get : nat -> fmap -> obj option **)

let rec get k = function
| [] -> None
| p :: m' -> let (k', v) = p in if Nat.eqb k k' then Some v else get k m'

(** val rem : nat -> fmap -> fmap **)

let rec rem k = function
| [] -> []
| p :: m' ->
  let (k', v) = p in if Nat.eqb k k' then rem k m' else (k', v) :: (rem k m')

(** val put : nat -> obj -> fmap -> fmap **)

let put k v m =
  (k, v) :: (rem k m)

(** val kbound : fmap -> nat **)

let rec kbound = function
| [] -> O
| p :: m' -> let (k, _) = p in Nat.max (S k) (kbound m')

type rand =
| RArg of nat
| RLoc of nat
| RTmp of nat

type instr =
| IOp of nat * rand list * nat list
| IVoid of rand list
| ITruth of rand
| IAlloc of nat
| IIncref of nat * rand
| IGiveB of rand
| ISteal of nat
| IDecref of nat
| ISetLoc of nat * rand
| ISetRes of rand
| INext of nat * nat

type code =
| CSkip
| CI of instr
| CSeq of code * code
| CIf of code * code
| CLoop of nat * nat * nat * code
| CBreak
| CContinue
| CReturn

type state = { temps : fmap; locs : fmap; res : obj option; tr : event list;
               nxt : obj; calls : nat; allocs : nat; flag : bool }

(** val set_temps : fmap -> state -> state **)

let set_temps m s =
  { temps = m; locs = s.locs; res = s.res; tr = s.tr; nxt = s.nxt; calls =
    s.calls; allocs = s.allocs; flag = s.flag }

(** val set_locs : fmap -> state -> state **)

let set_locs m s =
  { temps = s.temps; locs = m; res = s.res; tr = s.tr; nxt = s.nxt; calls =
    s.calls; allocs = s.allocs; flag = s.flag }

(** val set_res : obj option -> state -> state **)

let set_res r s =
  { temps = s.temps; locs = s.locs; res = r; tr = s.tr; nxt = s.nxt; calls =
    s.calls; allocs = s.allocs; flag = s.flag }

(** val set_tr : event list -> state -> state **)

let set_tr t s =
  { temps = s.temps; locs = s.locs; res = s.res; tr = t; nxt = s.nxt; calls =
    s.calls; allocs = s.allocs; flag = s.flag }

(** val set_flag : bool -> state -> state **)

let set_flag b s =
  { temps = s.temps; locs = s.locs; res = s.res; tr = s.tr; nxt = s.nxt;
    calls = s.calls; allocs = s.allocs; flag = b }

(** val tick : state -> state **)

let tick s =
  { temps = s.temps; locs = s.locs; res = s.res; tr = s.tr; nxt = s.nxt;
    calls = (S s.calls); allocs = s.allocs; flag = s.flag }

(** val atick : state -> state **)

let atick s =
  { temps = s.temps; locs = s.locs; res = s.res; tr = s.tr; nxt = s.nxt;
    calls = s.calls; allocs = (S s.allocs); flag = s.flag }

(** val fresh : state -> state **)

let fresh s =
  { temps = s.temps; locs = s.locs; res = s.res; tr = s.tr; nxt = (S s.nxt);
    calls = s.calls; allocs = s.allocs; flag = s.flag }

type orc = { fail : (nat -> bool); afail : (nat -> bool);
             more : (nat -> bool); truth : (nat -> bool);
             alias : (nat -> nat option) }

type why =
| NullUse
| NullDecref
| TooManyDecref
| UseDead
| Overwrite
| BadJump

type result =
| Norm of state
| Err of state
| Ret of state
| Brk of state
| Cnt of state
| Stuck of why
| Fuel

(** val bind : result -> (state -> result) -> result **)

let bind r f =
  match r with
  | Norm s -> f s
  | _ -> r

(** val got : obj -> state -> state **)

let got o s =
  set_tr ((Got o) :: s.tr) s

(** val give : obj -> state -> state option **)

let give o s =
  if Nat.eqb (bal s.tr o) O then None else Some (set_tr ((Give o) :: s.tr) s)

type rdres =
| RdOk of obj
| RdUnbound
| RdStuck of why

(** val rd : state -> rand -> rdres **)

let rd s = function
| RArg i -> RdOk i
| RLoc x ->
  (match get x s.locs with
   | Some o -> if Nat.eqb (bal s.tr o) O then RdStuck UseDead else RdOk o
   | None -> RdUnbound)
| RTmp t ->
  (match get t s.temps with
   | Some o -> if Nat.eqb (bal s.tr o) O then RdStuck UseDead else RdOk o
   | None -> RdStuck NullUse)

type rdsres =
| RsOk of obj list
| RsUnbound
| RsStuck of why

(** val rds : state -> rand list -> rdsres **)

let rec rds s = function
| [] -> RsOk []
| r :: rs' ->
  (match rd s r with
   | RdOk o -> (match rds s rs' with
                | RsOk os -> RsOk (o :: os)
                | x -> x)
   | RdUnbound -> (match rds s rs' with
                   | RsOk _ -> RsUnbound
                   | x -> x)
   | RdStuck w -> RsStuck w)

(** val decref_clear : nat -> state -> result **)

let decref_clear t s =
  match get t s.temps with
  | Some o ->
    (match give o s with
     | Some s' -> Norm (set_temps (rem t s'.temps) s')
     | None -> Stuck TooManyDecref)
  | None -> Stuck NullDecref

(** val decref_all : nat list -> state -> result **)

let rec decref_all ts s =
  match ts with
  | [] -> Norm s
  | t :: ts' -> bind (decref_clear t s) (decref_all ts')

(** val new_ref : nat -> obj -> state -> result **)

let new_ref d o s =
  match get d s.temps with
  | Some _ -> Stuck Overwrite
  | None -> Norm (got o (set_temps (put d o s.temps) s))

(** val take : rand -> state -> (obj -> state -> result) -> result **)

let take r s k =
  match r with
  | RTmp t ->
    (match get t s.temps with
     | Some o -> k o (set_temps (rem t s.temps) s)
     | None -> Stuck NullUse)
  | _ ->
    (match rd s r with
     | RdOk o -> k o (got o s)
     | RdUnbound -> Err s
     | RdStuck w -> Stuck w)

(** val release_old : obj option -> state -> result **)

let release_old old s =
  match old with
  | Some p ->
    (match give p s with
     | Some s' -> Norm s'
     | None -> Stuck TooManyDecref)
  | None -> Norm s

(** val step : orc -> instr -> state -> result **)

let step o i s =
  match i with
  | IOp (d, srcs, pre) ->
    (match rds s srcs with
     | RsOk os ->
       let k = s.calls in
       bind (decref_all pre (tick s)) (fun s2 ->
         if o.fail k
         then Err s2
         else let o0 =
                match o.alias k with
                | Some j -> nth j os s2.nxt
                | None -> s2.nxt
              in
              new_ref d o0 (fresh s2))
     | RsUnbound -> Err s
     | RsStuck w -> Stuck w)
  | IVoid srcs ->
    (match rds s srcs with
     | RsOk _ -> if o.fail s.calls then Err (tick s) else Norm (tick s)
     | RsUnbound -> Err s
     | RsStuck w -> Stuck w)
  | ITruth r ->
    (match rds s (r :: []) with
     | RsOk _ ->
       if o.fail s.calls
       then Err (tick s)
       else Norm (set_flag (o.truth s.calls) (tick s))
     | RsUnbound -> Err s
     | RsStuck w -> Stuck w)
  | IAlloc d ->
    if o.afail s.allocs
    then Err (atick s)
    else new_ref d s.nxt (fresh (atick s))
  | IIncref (d, r) ->
    (match rd s r with
     | RdOk o0 -> new_ref d o0 s
     | RdUnbound -> Err s
     | RdStuck w -> Stuck w)
  | IGiveB r ->
    (match rd s r with
     | RdOk o0 ->
       (match give o0 (got o0 s) with
        | Some s' -> Norm s'
        | None -> Stuck TooManyDecref)
     | RdUnbound -> Err s
     | RdStuck w -> Stuck w)
  | ISteal t ->
    (match get t s.temps with
     | Some o0 ->
       (match give o0 s with
        | Some s' -> Norm (set_temps (rem t s'.temps) s')
        | None -> Stuck TooManyDecref)
     | None -> Stuck NullDecref)
  | IDecref t -> decref_clear t s
  | ISetLoc (x, r) ->
    take r s (fun o0 s1 ->
      let old = get x s1.locs in
      release_old old (set_locs (put x o0 s1.locs) s1))
  | ISetRes r ->
    take r s (fun o0 s1 ->
      let old = s1.res in release_old old (set_res (Some o0) s1))
  | INext (d, it) ->
    (match rd s (RTmp it) with
     | RdOk _ ->
       let k = s.calls in
       if o.fail k
       then Err (tick s)
       else if o.more k
            then new_ref d s.nxt (set_flag true (fresh (tick s)))
            else Norm (set_flag false (tick s))
     | RdUnbound -> Err s
     | RdStuck w -> Stuck w)

(** val run : orc -> instr list -> state -> result **)

let rec run o c s =
  match c with
  | [] -> Norm s
  | i :: c' -> bind (step o i s) (run o c')

(** val loop_on :
    orc -> nat -> nat -> nat -> (state -> result) -> nat -> state -> result **)

let rec loop_on o it d x body n0 s =
  match n0 with
  | O -> Fuel
  | S n' ->
    (match step o (INext (d, it)) s with
     | Norm s1 ->
       if s1.flag
       then (match step o (ISetLoc (x, (RTmp d))) s1 with
             | Norm s2 ->
               (match body s2 with
                | Norm s3 -> loop_on o it d x body n' s3
                | Brk s3 -> step o (IDecref it) s3
                | Cnt s3 -> loop_on o it d x body n' s3
                | x0 -> x0)
             | x0 -> x0)
       else step o (IDecref it) s1
     | x0 -> x0)

(** val exec : orc -> nat -> code -> state -> result **)

let rec exec o fuel c s =
  match c with
  | CSkip -> Norm s
  | CI i -> step o i s
  | CSeq (c1, c2) -> bind (exec o fuel c1 s) (exec o fuel c2)
  | CIf (c1, c2) -> if s.flag then exec o fuel c1 s else exec o fuel c2 s
  | CLoop (it, d, x, body) -> loop_on o it d x (exec o fuel body) fuel s
  | CBreak -> Brk s
  | CContinue -> Cnt s
  | CReturn -> Ret s

(** val sweep :
    (state -> fmap) -> (fmap -> state -> state) -> nat list -> state -> result **)

let rec sweep get_m set_m ks s =
  match ks with
  | [] -> Norm s
  | k :: ks' ->
    (match get k (get_m s) with
     | Some o ->
       (match give o s with
        | Some s' -> sweep get_m set_m ks' (set_m (rem k (get_m s')) s')
        | None -> Stuck TooManyDecref)
     | None -> sweep get_m set_m ks' s)

(** val init : nat -> state **)

let init nargs =
  { temps = []; locs = []; res = None; tr = []; nxt = nargs; calls = O;
    allocs = O; flag = false }

type final =
| Done of bool * state
| FStuck of why
| FFuel

(** val epilogue : bool -> state -> final **)

let epilogue returned s =
  match sweep (fun s0 -> s0.locs) set_locs (seq O (kbound s.locs)) s with
  | Norm s1 ->
    (match s1.res with
     | Some o ->
       (match give o s1 with
        | Some s2 -> Done (returned, (set_res None s2))
        | None -> FStuck TooManyDecref)
     | None -> Done (returned, s1))
  | Stuck w -> FStuck w
  | _ -> FStuck BadJump

(** val run_fun : orc -> nat -> nat -> code -> final **)

let run_fun o fuel nargs body =
  match exec o fuel body (init nargs) with
  | Norm s -> epilogue true s
  | Err s ->
    (match sweep (fun s0 -> s0.temps) set_temps (seq O (kbound s.temps)) s with
     | Norm s1 ->
       (match s1.res with
        | Some _ -> FStuck Overwrite
        | None -> epilogue false s1)
     | Stuck w -> FStuck w
     | _ -> FStuck BadJump)
  | Ret s -> epilogue true s
  | Stuck w -> FStuck w
  | Fuel -> FFuel
  | _ -> FStuck BadJump

type expr =
| EArg of nat
| ELoc of nat
| EOp of exprs
| ESeq of exprs
| ECall of expr * exprs
and exprs =
| ENil
| ECons of expr * exprs

type stmt =
| SSkip
| SSeq of stmt * stmt
| SAssign of nat * expr
| SExpr of expr
| SReturn of expr
| SStore of expr * exprs * bool
| SIf of expr * stmt * stmt
| SFor of nat * expr * stmt
| SBreak
| SContinue

type astate = { anext : nat; afree : nat list }

(** val alloc : astate -> nat * astate **)

let alloc a =
  match a.afree with
  | [] -> (a.anext, { anext = (S a.anext); afree = [] })
  | t :: f -> (t, { anext = a.anext; afree = f })

(** val release : nat -> astate -> astate **)

let release t a =
  { anext = a.anext; afree = (t :: a.afree) }

(** val tmp_of : rand -> nat list **)

let tmp_of = function
| RTmp t -> t :: []
| _ -> []

(** val tmps_of : rand list -> nat list **)

let tmps_of rs =
  flat_map tmp_of rs

(** val release_all : nat list -> astate -> astate **)

let release_all ts a =
  fold_left (fun a1 t -> release t a1) ts a

(** val inuse_list : astate -> nat list **)

let inuse_list a =
  filter (fun t -> negb (existsb (Nat.eqb t) a.afree)) (seq O a.anext)

(** val give_of : rand -> instr **)

let give_of r = match r with
| RTmp t -> ISteal t
| _ -> IGiveB r

(** val gen_expr : expr -> astate -> (instr list * rand) * astate **)

let rec gen_expr e a =
  match e with
  | EArg i -> (([], (RArg i)), a)
  | ELoc x -> (([], (RLoc x)), a)
  | EOp es ->
    let (p, a1) = gen_list es a in
    let (c, rs) = p in
    let (d, a2) = alloc a1 in
    (((app c
        (app ((IOp (d, rs, [])) :: [])
          (map (fun x -> IDecref x) (tmps_of rs)))), (RTmp d)),
    (release_all (tmps_of rs) a2))
  | ESeq es ->
    let (p, a1) = gen_list es a in
    let (c, rs) = p in
    let (d, a2) = alloc a1 in
    (((app c (app ((IAlloc d) :: []) (map give_of rs))), (RTmp d)),
    (release_all (tmps_of rs) a2))
  | ECall (f, es) ->
    let (d, a1) = alloc a in
    let (sf, a2) = alloc a1 in
    let (p, a3) = gen_expr f a2 in
    let (cf, rf) = p in
    (match rf with
     | RArg _ ->
       let (t, a') = alloc a3 in
       let p0 = (((IIncref (t, rf)) :: []), t) in
       let (cf2, ft) = p0 in
       let (p1, a5) = gen_list es a' in
       let (ca, rs) = p1 in
       (((app cf
           (app cf2
             (app ca ((IOp (d, ((RTmp ft) :: rs),
               (app (tmps_of rs) (ft :: [])))) :: [])))), (RTmp d)),
       (release ft (release_all (tmps_of rs) (release sf a5))))
     | RLoc _ ->
       let (t, a') = alloc a3 in
       let p0 = (((IIncref (t, rf)) :: []), t) in
       let (cf2, ft) = p0 in
       let (p1, a5) = gen_list es a' in
       let (ca, rs) = p1 in
       (((app cf
           (app cf2
             (app ca ((IOp (d, ((RTmp ft) :: rs),
               (app (tmps_of rs) (ft :: [])))) :: [])))), (RTmp d)),
       (release ft (release_all (tmps_of rs) (release sf a5))))
     | RTmp t ->
       let p0 = ([], t) in
       let (cf2, ft) = p0 in
       let (p1, a5) = gen_list es a3 in
       let (ca, rs) = p1 in
       (((app cf
           (app cf2
             (app ca ((IOp (d, ((RTmp ft) :: rs),
               (app (tmps_of rs) (ft :: [])))) :: [])))), (RTmp d)),
       (release ft (release_all (tmps_of rs) (release sf a5)))))

(** val gen_list : exprs -> astate -> (instr list * rand list) * astate **)

and gen_list es a =
  match es with
  | ENil -> (([], []), a)
  | ECons (e, es') ->
    let (p, a1) = gen_expr e a in
    let (c1, r) = p in
    let (p0, a2) = gen_list es' a1 in
    let (c2, rs) = p0 in (((app c1 c2), (r :: rs)), a2)

(** val cseq : instr list -> code -> code **)

let rec cseq c k =
  match c with
  | [] -> k
  | i :: c' -> CSeq ((CI i), (cseq c' k))

(** val gen_stmt : stmt -> astate -> code * astate **)

let rec gen_stmt s a =
  match s with
  | SSkip -> (CSkip, a)
  | SSeq (s1, s2) ->
    let (c1, a1) = gen_stmt s1 a in
    let (c2, a2) = gen_stmt s2 a1 in ((CSeq (c1, c2)), a2)
  | SAssign (x, e) ->
    let (p, a1) = gen_expr e a in
    let (c, r) = p in
    ((cseq (app c ((ISetLoc (x, r)) :: [])) CSkip),
    (release_all (tmp_of r) a1))
  | SExpr e ->
    let (p, a1) = gen_expr e a in
    let (c, r) = p in
    ((cseq (app c (map (fun x -> IDecref x) (tmp_of r))) CSkip),
    (release_all (tmp_of r) a1))
  | SReturn e ->
    let (p, a1) = gen_expr e a in
    let (c, r) = p in
    let a2 = release_all (tmp_of r) a1 in
    ((cseq
       (app c
         (app ((ISetRes r) :: []) (map (fun x -> IDecref x) (inuse_list a2))))
       CReturn), a2)
  | SStore (v, es, v_last) ->
    let (p, a1) = gen_expr v a in
    let (c1, r) = p in
    let (p0, a2) = gen_list es a1 in
    let (c2, rs) = p0 in
    let order =
      if v_last
      then app (tmps_of rs) (tmp_of r)
      else app (tmp_of r) (tmps_of rs)
    in
    ((cseq
       (app c1
         (app c2
           (app ((IVoid (app rs (r :: []))) :: [])
             (map (fun x -> IDecref x) order)))) CSkip),
    (release_all order a2))
  | SIf (c, s1, s2) ->
    let (p, a1) = gen_expr c a in
    let (cc, r) = p in
    let a2 = release_all (tmp_of r) a1 in
    let (c1, a3) = gen_stmt s1 a2 in
    let (c2, a4) = gen_stmt s2 a3 in
    ((cseq
       (app cc (app ((ITruth r) :: []) (map (fun x -> IDecref x) (tmp_of r))))
       (CIf (c1, c2))), a4)
  | SFor (x, e, body) ->
    let (p, a1) = gen_expr e a in
    let (ce, r) = p in
    let (it, a2) = alloc a1 in
    let a3 = release_all (tmp_of r) a2 in
    let (d, a4) = alloc a3 in
    let a5 = release d a4 in
    let (cb, a6) = gen_stmt body a5 in
    ((cseq
       (app ce
         (app ((IOp (it, (r :: []), [])) :: [])
           (map (fun x0 -> IDecref x0) (tmp_of r)))) (CLoop (it, d, x, cb))),
    (release it a6))
  | SBreak -> (CBreak, a)
  | SContinue -> (CContinue, a)

(** val a0 : astate **)

let a0 =
  { anext = O; afree = [] }

(** val gen_fun : nat -> stmt -> code **)

let gen_fun none body =
  CSeq ((fst (gen_stmt body a0)), (CI (ISetRes (RArg none))))

(** val orc_of : nat option -> nat list -> orc **)

let orc_of k decisions =
  { fail = (fun i -> match k with
                     | Some j -> Nat.eqb i j
                     | None -> false); afail = (fun _ -> false); more =
    (fun i -> Nat.eqb (nth i decisions O) (S O)); truth = (fun i ->
    Nat.eqb (nth i decisions O) (S O)); alias = (fun _ -> None) }

(** val events_of : final -> (bool * event list) option **)

let events_of = function
| Done (b, s) -> Some (b, (rev s.tr))
| _ -> None

(** val exit_call :
    orc -> bool -> bool -> nat -> nat list -> state -> result **)

let exit_call o late test te args s =
  match rds s (map (fun x -> RTmp x) (te :: args)) with
  | RsOk _ ->
    let k = s.calls in
    bind (decref_all (te :: args) (tick s)) (fun s2 ->
      if o.fail k
      then Err s2
      else let o0 = s2.nxt in
           let s3 = got o0 (fresh s2) in
           if test
           then let k2 = s3.calls in
                let s4 = tick s3 in
                if late
                then if o.fail k2
                     then Err s4
                     else (match give o0 s4 with
                           | Some s5 -> Norm (set_flag (o.truth k2) s5)
                           | None -> Stuck TooManyDecref)
                else (match give o0 s4 with
                      | Some s5 ->
                        if o.fail k2
                        then Err s5
                        else Norm (set_flag (o.truth k2) s5)
                      | None -> Stuck TooManyDecref)
           else (match give o0 s3 with
                 | Some s5 -> Norm s5
                 | None -> Stuck TooManyDecref))
  | RsUnbound -> Err s
  | RsStuck w -> Stuck w

(** val exit_order : bool -> bool -> nat list **)

let exit_order late test =
  app (O :: ((S O) :: ((S (S O)) :: ((S (S (S O))) :: ((S (S (S (S
    O)))) :: [])))))
    (if test
     then if late
          then (S (S (S (S (S O))))) :: ((S (S (S (S (S (S (S O))))))) :: ((S
                 (S (S (S (S (S O)))))) :: []))
          else (S (S (S (S (S O))))) :: ((S (S (S (S (S (S O)))))) :: ((S (S
                 (S (S (S (S (S O))))))) :: []))
     else (S (S (S (S (S (S O)))))) :: [])

(** val exc_fetch : nat -> nat -> nat -> state -> result **)

let exc_fetch e0 e1 e2 s =
  bind (new_ref e0 s.nxt (fresh s)) (fun s1 ->
    bind (new_ref e1 s1.nxt (fresh s1)) (fun s2 ->
      new_ref e2 s2.nxt (fresh s2)))

(** val reraise3 : orc -> nat -> nat -> nat -> state -> result **)

let reraise3 o e0 e1 e2 s =
  bind
    (run o ((IGiveB (RTmp e0)) :: ((IGiveB (RTmp e1)) :: ((IGiveB (RTmp
      e2)) :: []))) s) (fun s' -> Err s')

(** val try_cleanup : nat list -> state -> result **)

let try_cleanup keep s =
  sweep (fun s0 -> s0.temps) set_temps
    (filter (fun t -> negb (existsb (Nat.eqb t) keep))
      (seq O (kbound s.temps))) s

(** val with_stat :
    orc -> bool -> rand -> nat -> nat -> nat -> nat -> nat -> nat -> nat
    option -> nat list -> (state -> result) -> state -> result **)

let with_stat o late rm te tv e0 e1 e2 ta x keep body s =
  bind (step o (IAlloc te) s) (fun s1 ->
    match run o
            (app ((IOp (tv, (rm :: []), [])) :: [])
              (map (fun x0 -> IDecref x0) (tmp_of rm))) s1 with
    | Norm s2 ->
      let pre =
        match x with
        | Some v -> step o (ISetLoc (v, (RTmp tv))) s2
        | None -> decref_clear tv s2
      in
      let fin = fun k s3 -> bind (exit_call o late false te [] s3) k in
      (match bind pre body with
       | Norm s3 -> fin (fun x0 -> Norm x0) s3
       | Err s3 ->
         bind (try_cleanup (te :: keep) s3) (fun s4 ->
           bind (exc_fetch e0 e1 e2 s4) (fun s5 ->
             bind (step o (IAlloc ta) s5) (fun s6 ->
               bind (exit_call o late true te (ta :: []) s6) (fun s7 ->
                 if s7.flag
                 then decref_all (e0 :: (e1 :: (e2 :: []))) s7
                 else reraise3 o e0 e1 e2 s7))))
       | Ret s3 -> fin (fun x0 -> Ret x0) s3
       | Brk s3 -> fin (fun x0 -> Brk x0) s3
       | Cnt s3 -> fin (fun x0 -> Cnt x0) s3
       | x0 -> x0)
    | Err s2 -> bind (decref_clear te s2) (fun x0 -> Err x0)
    | x0 -> x0)
