
val negb : bool -> bool

type nat =
| O
| S of nat

type ('a, 'b) sum =
| Inl of 'a
| Inr of 'b

val fst : ('a1 * 'a2) -> 'a1

val snd : ('a1 * 'a2) -> 'a2

val app : 'a1 list -> 'a1 list -> 'a1 list

type positive =
| XI of positive
| XO of positive
| XH

type n =
| N0
| Npos of positive

type z =
| Z0
| Zpos of positive
| Zneg of positive

module Pos :
 sig
  val eqb : positive -> positive -> bool
 end

module Z :
 sig
  val eqb : z -> z -> bool
 end

val map : ('a1 -> 'a2) -> 'a1 list -> 'a2 list

val existsb : ('a1 -> bool) -> 'a1 list -> bool

val filter : ('a1 -> bool) -> 'a1 list -> 'a1 list

val ex_keep : (((((nat * n) * z) * z list) * z option) * positive) * bool

type val0 = z

type exn = z

type event =
| EvOp of z
| EvCmp of z * val0 * val0
| EvTruth of val0

type 'a outcome =
| OVal of 'a
| ORaise of exn
| OUndef

type operand = { o_id : z; o_log : bool; o_res : (val0, exn) sum }

val ev_of : operand -> event list

type cascade = operand * (z * operand) list

val ref_links :
  (z -> val0 -> val0 -> (val0, exn) sum) -> (val0 -> (bool, exn) sum) -> val0
  -> (z * operand) list -> event list -> event list * val0 outcome

val ref_cascade :
  (z -> val0 -> val0 -> (val0, exn) sum) -> (val0 -> (bool, exn) sum) ->
  cascade -> event list * val0 outcome

type cfop = { f_op : operand; f_const : bool }

type chain = cfop * (z * cfop) list

val plain_links : (z * cfop) list -> (z * operand) list

val plain : chain -> cascade

type fnode =
| FBool of bool
| FCasc of cascade

val mk_casc : operand -> (z * operand) list -> fnode list

val is_false_node : fnode -> bool

val status :
  (z -> val0 -> val0 -> bool option) -> z -> cfop -> cfop -> bool option

val fold_from :
  (z -> val0 -> val0 -> bool option) -> bool -> cfop -> (z * cfop) list ->
  (z * operand) list * fnode list

val fold :
  (z -> val0 -> val0 -> bool option) -> bool -> bool -> chain -> fnode list

val eval_node :
  (z -> val0 -> val0 -> (val0, exn) sum) -> (val0 -> (bool, exn) sum) ->
  (bool -> val0) -> fnode -> event list -> event list * val0 outcome

val and_then :
  (val0 -> (bool, exn) sum) -> (event list * val0 outcome) -> (event list ->
  event list * val0 outcome) -> event list * val0 outcome

val eval_nodes :
  (z -> val0 -> val0 -> (val0, exn) sum) -> (val0 -> (bool, exn) sum) ->
  (bool -> val0) -> fnode list -> event list -> event list * val0 outcome

val run_fold :
  (z -> val0 -> val0 -> (val0, exn) sum) -> (val0 -> (bool, exn) sum) ->
  (bool -> val0) -> (z -> val0 -> val0 -> bool option) -> bool -> bool ->
  chain -> event list * val0 outcome

val keep : (val0 -> bool) -> event -> bool

val obs :
  (val0 -> bool) -> (event list * val0 outcome) -> event list * val0 outcome

val negate_op : z -> z option

type nexpr =
| NPlain of fnode list
| NNot of fnode list

val handle_not : fnode list -> nexpr

val eval_nexpr :
  (z -> val0 -> val0 -> (val0, exn) sum) -> (val0 -> (bool, exn) sum) ->
  (bool -> val0) -> nexpr -> event list * val0 outcome

val run_not :
  (z -> val0 -> val0 -> (val0, exn) sum) -> (val0 -> (bool, exn) sum) ->
  (bool -> val0) -> (z -> val0 -> val0 -> bool option) -> bool -> chain ->
  event list * val0 outcome

val ref_not :
  (z -> val0 -> val0 -> (val0, exn) sum) -> (val0 -> (bool, exn) sum) ->
  (bool -> val0) -> (z -> val0 -> val0 -> bool option) -> bool -> chain ->
  event list * val0 outcome
