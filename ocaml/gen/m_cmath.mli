
val xorb : bool -> bool -> bool

val negb : bool -> bool

type nat =
| O
| S of nat

val fst : ('a1 * 'a2) -> 'a1

val snd : ('a1 * 'a2) -> 'a2

type comparison =
| Eq
| Lt
| Gt

val compOpp : comparison -> comparison

type positive =
| XI of positive
| XO of positive
| XH

type n =
| N0
| Npos of positive

type z =
| Z0
| Zpos of positive
| Zneg of positive

module Pos :
 sig
  type mask =
  | IsNul
  | IsPos of positive
  | IsNeg
 end

module Coq_Pos :
 sig
  val succ : positive -> positive

  val add : positive -> positive -> positive

  val add_carry : positive -> positive -> positive

  val pred_double : positive -> positive

  val pred_N : positive -> n

  type mask = Pos.mask =
  | IsNul
  | IsPos of positive
  | IsNeg

  val succ_double_mask : mask -> mask

  val double_mask : mask -> mask

  val double_pred_mask : positive -> mask

  val sub_mask : positive -> positive -> mask

  val sub_mask_carry : positive -> positive -> mask

  val mul : positive -> positive -> positive

  val iter : ('a1 -> 'a1) -> 'a1 -> positive -> 'a1

  val compare_cont : comparison -> positive -> positive -> comparison

  val compare : positive -> positive -> comparison

  val eqb : positive -> positive -> bool

  val coq_Nsucc_double : n -> n

  val coq_Ndouble : n -> n

  val coq_lxor : positive -> positive -> n
 end

module N :
 sig
  val succ_double : n -> n

  val double : n -> n

  val succ_pos : n -> positive

  val sub : n -> n -> n

  val compare : n -> n -> comparison

  val leb : n -> n -> bool

  val pos_div_eucl : positive -> n -> n * n

  val coq_lxor : n -> n -> n
 end

module Z :
 sig
  val double : z -> z

  val succ_double : z -> z

  val pred_double : z -> z

  val pos_sub : positive -> positive -> z

  val add : z -> z -> z

  val opp : z -> z

  val sub : z -> z -> z

  val mul : z -> z -> z

  val pow_pos : z -> positive -> z

  val pow : z -> z -> z

  val compare : z -> z -> comparison

  val leb : z -> z -> bool

  val ltb : z -> z -> bool

  val eqb : z -> z -> bool

  val of_N : n -> z

  val pos_div_eucl : positive -> z -> z * z

  val div_eucl : z -> z -> z * z

  val div : z -> z -> z

  val modulo : z -> z -> z

  val quotrem : z -> z -> z * z

  val quot : z -> z -> z

  val rem : z -> z -> z

  val coq_lxor : z -> z -> z
 end

val ex_keep : (((((nat * n) * z) * z list) * z option) * positive) * bool

val min_int : z -> bool -> z

val max_int : z -> bool -> z

val in_rangeb : z -> bool -> z -> bool

val wrap : z -> bool -> z -> z

val b2z : bool -> z

val adapt_python : bool -> z -> z -> z

val div_int : z -> bool -> bool -> z -> z -> z

val mod_int_old : z -> bool -> bool -> z -> z -> z

val mod_int : z -> bool -> bool -> z -> z -> z

val cdiv_c : z -> bool -> z -> z -> z

val cmod_c : z -> bool -> z -> z -> z

val div_ub : z -> bool -> z -> z -> bool

val div_int_no_overflow : z -> bool -> bool -> z -> z -> bool

val mod_int_no_overflow : z -> bool -> bool -> z -> z -> bool

type outcome =
| Value of z
| ZeroDivisionError
| OverflowError
| UB

val div_node : bool -> z -> bool -> bool -> z -> z -> outcome

val mod_node : z -> bool -> bool -> z -> z -> outcome

val sh_cdiv : z -> z -> z

val sh_cmod : z -> z -> z

type divisor =
| DRun
| DNum of z
| DOpaque

val has_constant_result : divisor -> bool

type variant = { zc : bool; oq : bool }

val may_equal : variant -> divisor -> z -> bool

type dcfg = { cdir : bool; cforced : bool }

val zerodivision_check : variant -> dcfg -> divisor -> bool

val min_division_check : variant -> dcfg -> bool -> bool -> divisor -> bool

val c_operator : dcfg -> bool -> bool

val decisions :
  variant -> dcfg -> bool -> bool -> divisor -> ((bool * bool) * bool) * bool

val div_stmt : variant -> dcfg -> z -> bool -> divisor -> z -> z -> outcome

val mod_stmt : variant -> dcfg -> z -> bool -> divisor -> z -> z -> outcome

val divmod_q : bool -> z -> bool -> z -> z -> outcome

val divmod_r : bool -> z -> bool -> z -> z -> outcome
