
val negb : bool -> bool

type nat =
| O
| S of nat

val length : 'a1 list -> nat

val app : 'a1 list -> 'a1 list -> 'a1 list

type comparison =
| Eq
| Lt
| Gt

val compOpp : comparison -> comparison

val add : nat -> nat -> nat

type positive =
| XI of positive
| XO of positive
| XH

type n =
| N0
| Npos of positive

type z =
| Z0
| Zpos of positive
| Zneg of positive

module Pos :
 sig
  val succ : positive -> positive

  val add : positive -> positive -> positive

  val add_carry : positive -> positive -> positive

  val pred_double : positive -> positive

  val pred_N : positive -> n

  val mul : positive -> positive -> positive

  val iter : ('a1 -> 'a1) -> 'a1 -> positive -> 'a1

  val div2 : positive -> positive

  val div2_up : positive -> positive

  val size : positive -> positive

  val compare_cont : comparison -> positive -> positive -> comparison

  val compare : positive -> positive -> comparison

  val eqb : positive -> positive -> bool

  val coq_Nsucc_double : n -> n

  val coq_Ndouble : n -> n

  val coq_lor : positive -> positive -> positive

  val coq_land : positive -> positive -> n

  val ldiff : positive -> positive -> n

  val coq_lxor : positive -> positive -> n

  val iter_op : ('a1 -> 'a1 -> 'a1) -> positive -> 'a1 -> 'a1

  val to_nat : positive -> nat

  val of_succ_nat : nat -> positive
 end

module N :
 sig
  val succ_pos : n -> positive

  val coq_lor : n -> n -> n

  val coq_land : n -> n -> n

  val ldiff : n -> n -> n

  val coq_lxor : n -> n -> n
 end

module Z :
 sig
  val double : z -> z

  val succ_double : z -> z

  val pred_double : z -> z

  val pos_sub : positive -> positive -> z

  val add : z -> z -> z

  val opp : z -> z

  val pred : z -> z

  val sub : z -> z -> z

  val mul : z -> z -> z

  val pow_pos : z -> positive -> z

  val pow : z -> z -> z

  val compare : z -> z -> comparison

  val leb : z -> z -> bool

  val ltb : z -> z -> bool

  val gtb : z -> z -> bool

  val eqb : z -> z -> bool

  val max : z -> z -> z

  val abs : z -> z

  val to_nat : z -> nat

  val of_nat : nat -> z

  val of_N : n -> z

  val pos_div_eucl : positive -> z -> z * z

  val div_eucl : z -> z -> z * z

  val div : z -> z -> z

  val modulo : z -> z -> z

  val div2 : z -> z

  val log2 : z -> z

  val shiftl : z -> z -> z

  val shiftr : z -> z -> z

  val coq_lor : z -> z -> z

  val coq_land : z -> z -> z

  val coq_lxor : z -> z -> z

  val ones : z -> z
 end

val last : 'a1 list -> 'a1 -> 'a1

val removelast : 'a1 list -> 'a1 list

val rev : 'a1 list -> 'a1 list

val map : ('a1 -> 'a2) -> 'a1 list -> 'a2 list

val fold_left : ('a1 -> 'a2 -> 'a1) -> 'a2 list -> 'a1 -> 'a1

val existsb : ('a1 -> bool) -> 'a1 list -> bool

val forallb : ('a1 -> bool) -> 'a1 list -> bool

val filter : ('a1 -> bool) -> 'a1 list -> 'a1 list

val skipn : nat -> 'a1 list -> 'a1 list

val ex_keep : (((((nat * n) * z) * z list) * z option) * positive) * bool

val wrap : z -> bool -> z -> z

val b2z : bool -> z

val ch_us : z

val ch_minus : z

val ch_plus : z

val ch_0 : z

val is_x : z -> bool

val is_o : z -> bool

val is_b : z -> bool

val is_l : z -> bool

val is_space : z -> bool

val digit_val : z -> z

val drop_space : z list -> z list

val scan : z -> bool -> z -> z -> z list -> ((z * z) * z list) option

val max_str_digits : z

val is_pow2_base : z -> bool

val py_int : z -> z list -> z option

val strip_L : z list -> z list

val str_to_number : z list -> z option

val strip_us : z list -> z list

val is_dec : z -> bool

val is_nonzero_dec : z -> bool

val is_hexd : z -> bool

val is_octd : z -> bool

val is_bind : z -> bool

val is_zero_ch : z -> bool

val us_digits : (z -> bool) -> z list -> bool

val nonempty : z list -> bool

val lit_split : z list -> (z * z list) option

val eval_digits : z -> z list -> z

val python_int_literal : z list -> z option

val literal_within_limit : z list -> bool

val signed_literal : z list -> z option

val signed_within_limit : z list -> bool

val legacy_octal : z list -> bool

val digit_char : z -> z

val digits_rev : nat -> z -> z -> z list

val digits_rev_pow2 : nat -> z -> z -> z list

val digit_fuel : z -> nat

val to_digits : z -> z -> z list

val to_digits_pow2 : z -> z -> z list

val pow10_limit : z

val py_str : z -> z list option

val py_hex : z -> z list

val int_const_text : bool -> z -> z list option

val negated_literal_text : bool -> z list -> z list option

val to_base32 : z -> z list

val bit_length : z -> z

val next_size : z -> z -> z

val c_array_bytes : z -> z -> z

type emitted =
| EmitC of z * z
| EmitBase32 of z list

val emit_num : z -> z list -> emitted option

val decode_emitted : emitted -> z option

val int_emission : bool -> z -> z -> z option

val int_const_key : bool -> z -> bool -> (z list * bool) option

type scalar =
| SNone
| SEllipsis
| SInt of z
| SBool of bool
| SFloat of z
| SStr of z list
| SBytes of z list

type pyclass =
| PcNone
| PcEllipsis
| PcInt
| PcBool
| PcFloat
| PcStr
| PcBytes

val class_of : scalar -> pyclass

val pyclass_eqb : pyclass -> pyclass -> bool

type ntype =
| TPyObject
| TPyInt
| TPyFloat
| TPyBool
| TPyStr
| TPyBytes
| TPyTuple
| TPyList
| TPySlice
| TPyFrozenset
| TC of z

val ntype_eqb : ntype -> ntype -> bool

val f_sign : z -> z

val f_exp : z -> z

val f_man : z -> z

val f_is_nan : z -> bool

val f_is_zero : z -> bool

val float_eq : z -> z -> bool

val float_as_int : z -> z option

val zlist_eqb : z list -> z list -> bool

val as_int : scalar -> z option

val scalar_eq : scalar -> scalar -> bool

val float_sign_tag : scalar -> z option

type cnode =
| NLeaf of ntype * scalar
| NSeq of ntype * bool * cnode option * cnode list
| NSlice of ntype * cnode * cnode * cnode
| NOpaque

type key =
| KLeaf of ntype * scalar * pyclass option * z option option
| KCont of ntype * bool * key list

val none_entry : bool -> key

val leaf_key : bool -> ntype -> scalar -> key

val all_some : key option list -> key list option

val cont_key : bool -> ntype -> key option list -> key option

val item_key : bool -> bool -> cnode -> key option

val make_dedup_key : bool -> bool -> ntype -> cnode option list -> key option

val optclass_eqb : pyclass option -> pyclass option -> bool

val optz_eqb : z option -> z option -> bool

val sgn_eqb : z option option -> z option option -> bool

val key_eq : key -> key -> bool

type pyconst =
| CScalar of scalar
| CSeq of ntype * pyconst list
| CSlice of pyconst * pyconst * pyconst

val leaf_okb : ntype -> scalar -> bool

val mult_okb : cnode option -> bool

val float_okb : scalar -> bool

val wf_node : cnode -> bool

type topnode =
| TopSeq of cnode
| TopSlice of cnode
| TopFrozen of cnode list

val top_key : bool -> bool -> topnode -> key option

val wf_top : topnode -> bool

val py_eq : pyconst -> pyconst -> bool

val key_value : key -> pyconst

val first_by : ('a1 -> pyconst) -> pyconst list -> 'a1 list -> 'a1 list

val has_mult : cnode -> bool

val frozen_key : bool -> bool -> cnode list -> key option

val top_key2 : bool -> bool -> topnode -> key option

val hashable : cnode -> bool

val wf_top2 : topnode -> bool

val top_has_mult : topnode -> bool

type binop =
| OAdd
| OSub
| OMul
| OFloorDiv
| OMod
| OPow
| OLshift
| ORshift
| OAnd
| OOr
| OXor

type unop =
| UPlus
| UMinus
| UInvert
| UNot

type lit =
| LBool of bool
| LInt of z

val lit_int : lit -> z

val py_binop : binop -> lit -> lit -> lit option

val py_unop : unop -> lit -> lit

val op_in_arith_string : binop -> bool

type folded =
| FBool of bool
| FInt of z list
| FOperand

val int_of_lit : lit -> z

val bool_of_lit : lit -> bool

val fold_binop : binop -> lit -> lit -> folded option

val fold_unop : unop -> lit -> folded option

val folded_value : lit -> folded -> lit option
