
val negb : bool -> bool

type nat =
| O
| S of nat

val option_map : ('a1 -> 'a2) -> 'a1 option -> 'a2 option

val fst : ('a1 * 'a2) -> 'a1

val snd : ('a1 * 'a2) -> 'a2

val length : 'a1 list -> nat

val app : 'a1 list -> 'a1 list -> 'a1 list

type comparison =
| Eq
| Lt
| Gt

val compOpp : comparison -> comparison

val add : nat -> nat -> nat

type positive =
| XI of positive
| XO of positive
| XH

type n =
| N0
| Npos of positive

type z =
| Z0
| Zpos of positive
| Zneg of positive

module Pos :
 sig
  type mask =
  | IsNul
  | IsPos of positive
  | IsNeg
 end

module Coq_Pos :
 sig
  val succ : positive -> positive

  val add : positive -> positive -> positive

  val add_carry : positive -> positive -> positive

  val pred_double : positive -> positive

  val pred_N : positive -> n

  type mask = Pos.mask =
  | IsNul
  | IsPos of positive
  | IsNeg

  val succ_double_mask : mask -> mask

  val double_mask : mask -> mask

  val double_pred_mask : positive -> mask

  val sub_mask : positive -> positive -> mask

  val sub_mask_carry : positive -> positive -> mask

  val mul : positive -> positive -> positive

  val iter : ('a1 -> 'a1) -> 'a1 -> positive -> 'a1

  val div2 : positive -> positive

  val div2_up : positive -> positive

  val size : positive -> positive

  val compare_cont : comparison -> positive -> positive -> comparison

  val compare : positive -> positive -> comparison

  val eqb : positive -> positive -> bool

  val coq_Nsucc_double : n -> n

  val coq_Ndouble : n -> n

  val coq_lor : positive -> positive -> positive

  val coq_land : positive -> positive -> n

  val ldiff : positive -> positive -> n

  val iter_op : ('a1 -> 'a1 -> 'a1) -> positive -> 'a1 -> 'a1

  val to_nat : positive -> nat

  val of_succ_nat : nat -> positive
 end

module N :
 sig
  val succ_double : n -> n

  val double : n -> n

  val succ_pos : n -> positive

  val sub : n -> n -> n

  val compare : n -> n -> comparison

  val leb : n -> n -> bool

  val pos_div_eucl : positive -> n -> n * n

  val coq_lor : n -> n -> n

  val coq_land : n -> n -> n

  val ldiff : n -> n -> n
 end

module Z :
 sig
  val double : z -> z

  val succ_double : z -> z

  val pred_double : z -> z

  val pos_sub : positive -> positive -> z

  val add : z -> z -> z

  val opp : z -> z

  val pred : z -> z

  val sub : z -> z -> z

  val mul : z -> z -> z

  val pow_pos : z -> positive -> z

  val pow : z -> z -> z

  val compare : z -> z -> comparison

  val leb : z -> z -> bool

  val ltb : z -> z -> bool

  val eqb : z -> z -> bool

  val max : z -> z -> z

  val abs : z -> z

  val to_nat : z -> nat

  val of_nat : nat -> z

  val of_N : n -> z

  val pos_div_eucl : positive -> z -> z * z

  val div_eucl : z -> z -> z * z

  val div : z -> z -> z

  val modulo : z -> z -> z

  val quotrem : z -> z -> z * z

  val quot : z -> z -> z

  val rem : z -> z -> z

  val div2 : z -> z

  val log2 : z -> z

  val shiftl : z -> z -> z

  val shiftr : z -> z -> z

  val coq_lor : z -> z -> z

  val coq_land : z -> z -> z

  val lnot : z -> z
 end

val nth_error : 'a1 list -> nat -> 'a1 option

val map : ('a1 -> 'a2) -> 'a1 list -> 'a2 list

val flat_map : ('a1 -> 'a2 list) -> 'a1 list -> 'a2 list

val fold_left : ('a1 -> 'a2 -> 'a1) -> 'a2 list -> 'a1 -> 'a1

val firstn : nat -> 'a1 list -> 'a1 list

val seq : nat -> nat -> nat list

val repeat : 'a1 -> nat -> 'a1 list

val ex_keep : (((((nat * n) * z) * z list) * z option) * positive) * bool

val wrap : z -> bool -> z -> z

val b2z : bool -> z

val zseq : nat -> z list

val pairs_table : z -> z list

val dIGIT_PAIRS_10 : z list

val dIGIT_PAIRS_8 : z list

val dIGITS_HEX : z list

val tbl_get : z list -> z -> z option

type err =
| ErrBufferOverflow
| ErrTableIndex
| ErrOutOfFuel
| ErrAssert
| ErrReadOutside
| ErrWriteOutside

type result =
| Text of z list
| Err of err

val sizeof : z -> z

val buf_size : z -> z

val loop_fuel : z -> nat

type sres =
| SOk of z * z * z list * bool
| SErr of err

val pair_step : z -> bool -> z -> z list -> z -> z -> z list -> sres

val hex_step : z -> bool -> z -> z -> z -> z list -> bool -> sres

type lres =
| LDone of z * z list * bool
| LErr of err

val digits_loop :
  nat -> z -> bool -> z -> z -> z -> z -> z list -> bool -> lres

val build_from_ascii : z -> z list -> z -> bool -> z -> result

val cint_to_unicode : z -> bool -> z -> z -> z -> z -> result

val digit_char : bool -> z -> z

val digs : nat -> z -> bool -> z -> z list

val py_digits : z -> bool -> z -> z list

val fmt_base : z -> z

val fmt_upper : z -> bool

val py_format_int : z -> z -> z -> z -> z list

val digit_val : z -> z

val parse_base : z -> z list -> z

type cres =
| CText of z list
| COverflowError
| CValueError
| CUnicodeDecodeError
| CAbort
| CBufferOverflow

val uchar_accepts : bool -> z -> bool -> z -> bool

val from_ordinal : z -> cres

val from_ordinal_padded : z -> z -> z -> cres

val uchar_to_unicode : bool -> z -> bool -> z -> z -> z -> cres

val py_format_char : z -> z -> z -> cres

val cchar : z -> z

val enc2 : z -> z list

val enc3 : z -> z list

val enc4 : z -> z list

val eNC2_LIMIT : z

val eNC3_LIMIT : z

val lATIN1_MAX : z

val pAD_LIMIT : z

val cHARS_SIZE : z

val sURR_LO : z

val sURR_HI : z

val padded_consts : z list

val utf8_enc_c : z -> z list

val is_cont : z -> bool

val is_surrogate : z -> bool

val utf8_decode : z list -> z list option

val from_ordinal_padded_b : z -> z -> z -> cres

val uchar_to_unicode_b : bool -> z -> bool -> z -> z -> z -> cres

val utf8_ref : z -> z list
