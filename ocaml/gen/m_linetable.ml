
type nat =
| O
| S of nat

(** val fst : ('a1 * 'a2) -> 'a1 **)

let fst = function
| (x, _) -> x

(** val snd : ('a1 * 'a2) -> 'a2 **)

let snd = function
| (_, y) -> y

(** val length : 'a1 list -> nat **)

let rec length = function
| [] -> O
| _ :: l' -> S (length l')

(** val app : 'a1 list -> 'a1 list -> 'a1 list **)

let rec app l m =
  match l with
  | [] -> m
  | a :: l1 -> a :: (app l1 m)

type comparison =
| Eq
| Lt
| Gt

(** val compOpp : comparison -> comparison **)

let compOpp = function
| Eq -> Eq
| Lt -> Gt
| Gt -> Lt

module Coq__1 = struct
 (** val add : nat -> nat -> nat **)
 let rec add n0 m =
   match n0 with
   | O -> m
   | S p -> S (add p m)
end
include Coq__1

type positive =
| XI of positive
| XO of positive
| XH

type n =
| N0
| Npos of positive

type z =
| Z0
| Zpos of positive
| Zneg of positive

module Pos =
 struct
  (** val succ : positive -> positive **)

  let rec succ = function
  | XI p -> XO (succ p)
  | XO p -> XI p
  | XH -> XO XH

  (** val add : positive -> positive -> positive **)

  let rec add x y =
    match x with
    | XI p ->
      (match y with
       | XI q -> XO (add_carry p q)
       | XO q -> XI (add p q)
       | XH -> XO (succ p))
    | XO p ->
      (match y with
       | XI q -> XI (add p q)
       | XO q -> XO (add p q)
       | XH -> XI p)
    | XH -> (match y with
             | XI q -> XO (succ q)
             | XO q -> XI q
             | XH -> XO XH)

  (** val add_carry : positive -> positive -> positive **)

  and add_carry x y =
    match x with
    | XI p ->
      (match y with
       | XI q -> XI (add_carry p q)
       | XO q -> XO (add_carry p q)
       | XH -> XI (succ p))
    | XO p ->
      (match y with
       | XI q -> XO (add_carry p q)
       | XO q -> XI (add p q)
       | XH -> XO (succ p))
    | XH ->
      (match y with
       | XI q -> XI (succ q)
       | XO q -> XO (succ q)
       | XH -> XI XH)

  (** val pred_double : positive -> positive **)

  let rec pred_double = function
  | XI p -> XI (XO p)
  | XO p -> XI (pred_double p)
  | XH -> XH

  (** val pred_N : positive -> n **)

  let pred_N = function
  | XI p -> Npos (XO p)
  | XO p -> Npos (pred_double p)
  | XH -> N0

  (** val mul : positive -> positive -> positive **)

  let rec mul x y =
    match x with
    | XI p -> add y (XO (mul p y))
    | XO p -> XO (mul p y)
    | XH -> y

  (** val iter : ('a1 -> 'a1) -> 'a1 -> positive -> 'a1 **)

  let rec iter f x = function
  | XI n' -> f (iter f (iter f x n') n')
  | XO n' -> iter f (iter f x n') n'
  | XH -> f x

  (** val div2 : positive -> positive **)

  let div2 = function
  | XI p0 -> p0
  | XO p0 -> p0
  | XH -> XH

  (** val div2_up : positive -> positive **)

  let div2_up = function
  | XI p0 -> succ p0
  | XO p0 -> p0
  | XH -> XH

  (** val size : positive -> positive **)

  let rec size = function
  | XI p0 -> succ (size p0)
  | XO p0 -> succ (size p0)
  | XH -> XH

  (** val compare_cont : comparison -> positive -> positive -> comparison **)

  let rec compare_cont r x y =
    match x with
    | XI p ->
      (match y with
       | XI q -> compare_cont r p q
       | XO q -> compare_cont Gt p q
       | XH -> Gt)
    | XO p ->
      (match y with
       | XI q -> compare_cont Lt p q
       | XO q -> compare_cont r p q
       | XH -> Gt)
    | XH -> (match y with
             | XH -> r
             | _ -> Lt)

  (** val compare : positive -> positive -> comparison **)

  let compare =
    compare_cont Eq

  (** val eqb : positive -> positive -> bool **)

  let rec eqb p q =
    match p with
    | XI p0 -> (match q with
                | XI q0 -> eqb p0 q0
                | _ -> false)
    | XO p0 -> (match q with
                | XO q0 -> eqb p0 q0
                | _ -> false)
    | XH -> (match q with
             | XH -> true
             | _ -> false)

  (** val coq_Nsucc_double : n -> n **)

  let coq_Nsucc_double = function
  | N0 -> Npos XH
  | Npos p -> Npos (XI p)

  (** val coq_Ndouble : n -> n **)

  let coq_Ndouble = function
  | N0 -> N0
  | Npos p -> Npos (XO p)

  (** val coq_lor : positive -> positive -> positive **)

  let rec coq_lor p q =
    match p with
    | XI p0 ->
      (match q with
       | XI q0 -> XI (coq_lor p0 q0)
       | XO q0 -> XI (coq_lor p0 q0)
       | XH -> p)
    | XO p0 ->
      (match q with
       | XI q0 -> XI (coq_lor p0 q0)
       | XO q0 -> XO (coq_lor p0 q0)
       | XH -> XI p0)
    | XH -> (match q with
             | XO q0 -> XI q0
             | _ -> q)

  (** val coq_land : positive -> positive -> n **)

  let rec coq_land p q =
    match p with
    | XI p0 ->
      (match q with
       | XI q0 -> coq_Nsucc_double (coq_land p0 q0)
       | XO q0 -> coq_Ndouble (coq_land p0 q0)
       | XH -> Npos XH)
    | XO p0 ->
      (match q with
       | XI q0 -> coq_Ndouble (coq_land p0 q0)
       | XO q0 -> coq_Ndouble (coq_land p0 q0)
       | XH -> N0)
    | XH -> (match q with
             | XO _ -> N0
             | _ -> Npos XH)

  (** val ldiff : positive -> positive -> n **)

  let rec ldiff p q =
    match p with
    | XI p0 ->
      (match q with
       | XI q0 -> coq_Ndouble (ldiff p0 q0)
       | XO q0 -> coq_Nsucc_double (ldiff p0 q0)
       | XH -> Npos (XO p0))
    | XO p0 ->
      (match q with
       | XI q0 -> coq_Ndouble (ldiff p0 q0)
       | XO q0 -> coq_Ndouble (ldiff p0 q0)
       | XH -> Npos p)
    | XH -> (match q with
             | XO _ -> Npos XH
             | _ -> N0)

  (** val iter_op : ('a1 -> 'a1 -> 'a1) -> positive -> 'a1 -> 'a1 **)

  let rec iter_op op p a =
    match p with
    | XI p0 -> op a (iter_op op p0 (op a a))
    | XO p0 -> iter_op op p0 (op a a)
    | XH -> a

  (** val to_nat : positive -> nat **)

  let to_nat x =
    iter_op Coq__1.add x (S O)
 end

module N =
 struct
  (** val succ_pos : n -> positive **)

  let succ_pos = function
  | N0 -> XH
  | Npos p -> Pos.succ p

  (** val coq_lor : n -> n -> n **)

  let coq_lor n0 m =
    match n0 with
    | N0 -> m
    | Npos p -> (match m with
                 | N0 -> n0
                 | Npos q -> Npos (Pos.coq_lor p q))

  (** val coq_land : n -> n -> n **)

  let coq_land n0 m =
    match n0 with
    | N0 -> N0
    | Npos p -> (match m with
                 | N0 -> N0
                 | Npos q -> Pos.coq_land p q)

  (** val ldiff : n -> n -> n **)

  let ldiff n0 m =
    match n0 with
    | N0 -> N0
    | Npos p -> (match m with
                 | N0 -> n0
                 | Npos q -> Pos.ldiff p q)
 end

module Z =
 struct
  (** val double : z -> z **)

  let double = function
  | Z0 -> Z0
  | Zpos p -> Zpos (XO p)
  | Zneg p -> Zneg (XO p)

  (** val succ_double : z -> z **)

  let succ_double = function
  | Z0 -> Zpos XH
  | Zpos p -> Zpos (XI p)
  | Zneg p -> Zneg (Pos.pred_double p)

  (** val pred_double : z -> z **)

  let pred_double = function
  | Z0 -> Zneg XH
  | Zpos p -> Zpos (Pos.pred_double p)
  | Zneg p -> Zneg (XI p)

  (** val pos_sub : positive -> positive -> z **)

  let rec pos_sub x y =
    match x with
    | XI p ->
      (match y with
       | XI q -> double (pos_sub p q)
       | XO q -> succ_double (pos_sub p q)
       | XH -> Zpos (XO p))
    | XO p ->
      (match y with
       | XI q -> pred_double (pos_sub p q)
       | XO q -> double (pos_sub p q)
       | XH -> Zpos (Pos.pred_double p))
    | XH ->
      (match y with
       | XI q -> Zneg (XO q)
       | XO q -> Zneg (Pos.pred_double q)
       | XH -> Z0)

  (** val add : z -> z -> z **)

  let add x y =
    match x with
    | Z0 -> y
    | Zpos x' ->
      (match y with
       | Z0 -> x
       | Zpos y' -> Zpos (Pos.add x' y')
       | Zneg y' -> pos_sub x' y')
    | Zneg x' ->
      (match y with
       | Z0 -> x
       | Zpos y' -> pos_sub y' x'
       | Zneg y' -> Zneg (Pos.add x' y'))

  (** val opp : z -> z **)

  let opp = function
  | Z0 -> Z0
  | Zpos x0 -> Zneg x0
  | Zneg x0 -> Zpos x0

  (** val sub : z -> z -> z **)

  let sub m n0 =
    add m (opp n0)

  (** val mul : z -> z -> z **)

  let mul x y =
    match x with
    | Z0 -> Z0
    | Zpos x' ->
      (match y with
       | Z0 -> Z0
       | Zpos y' -> Zpos (Pos.mul x' y')
       | Zneg y' -> Zneg (Pos.mul x' y'))
    | Zneg x' ->
      (match y with
       | Z0 -> Z0
       | Zpos y' -> Zneg (Pos.mul x' y')
       | Zneg y' -> Zpos (Pos.mul x' y'))

  (** val compare : z -> z -> comparison **)

  let compare x y =
    match x with
    | Z0 -> (match y with
             | Z0 -> Eq
             | Zpos _ -> Lt
             | Zneg _ -> Gt)
    | Zpos x' -> (match y with
                  | Zpos y' -> Pos.compare x' y'
                  | _ -> Gt)
    | Zneg x' ->
      (match y with
       | Zneg y' -> compOpp (Pos.compare x' y')
       | _ -> Lt)

  (** val leb : z -> z -> bool **)

  let leb x y =
    match compare x y with
    | Gt -> false
    | _ -> true

  (** val ltb : z -> z -> bool **)

  let ltb x y =
    match compare x y with
    | Lt -> true
    | _ -> false

  (** val eqb : z -> z -> bool **)

  let eqb x y =
    match x with
    | Z0 -> (match y with
             | Z0 -> true
             | _ -> false)
    | Zpos p -> (match y with
                 | Zpos q -> Pos.eqb p q
                 | _ -> false)
    | Zneg p -> (match y with
                 | Zneg q -> Pos.eqb p q
                 | _ -> false)

  (** val to_nat : z -> nat **)

  let to_nat = function
  | Zpos p -> Pos.to_nat p
  | _ -> O

  (** val of_N : n -> z **)

  let of_N = function
  | N0 -> Z0
  | Npos p -> Zpos p

  (** val div2 : z -> z **)

  let div2 = function
  | Z0 -> Z0
  | Zpos p -> (match p with
               | XH -> Z0
               | _ -> Zpos (Pos.div2 p))
  | Zneg p -> Zneg (Pos.div2_up p)

  (** val log2 : z -> z **)

  let log2 = function
  | Zpos p0 ->
    (match p0 with
     | XI p -> Zpos (Pos.size p)
     | XO p -> Zpos (Pos.size p)
     | XH -> Z0)
  | _ -> Z0

  (** val shiftl : z -> z -> z **)

  let shiftl a = function
  | Z0 -> a
  | Zpos p -> Pos.iter (mul (Zpos (XO XH))) a p
  | Zneg p -> Pos.iter div2 a p

  (** val shiftr : z -> z -> z **)

  let shiftr a n0 =
    shiftl a (opp n0)

  (** val coq_lor : z -> z -> z **)

  let coq_lor a b =
    match a with
    | Z0 -> b
    | Zpos a0 ->
      (match b with
       | Z0 -> a
       | Zpos b0 -> Zpos (Pos.coq_lor a0 b0)
       | Zneg b0 -> Zneg (N.succ_pos (N.ldiff (Pos.pred_N b0) (Npos a0))))
    | Zneg a0 ->
      (match b with
       | Z0 -> a
       | Zpos b0 -> Zneg (N.succ_pos (N.ldiff (Pos.pred_N a0) (Npos b0)))
       | Zneg b0 ->
         Zneg (N.succ_pos (N.coq_land (Pos.pred_N a0) (Pos.pred_N b0))))

  (** val coq_land : z -> z -> z **)

  let coq_land a b =
    match a with
    | Z0 -> Z0
    | Zpos a0 ->
      (match b with
       | Z0 -> Z0
       | Zpos b0 -> of_N (Pos.coq_land a0 b0)
       | Zneg b0 -> of_N (N.ldiff (Npos a0) (Pos.pred_N b0)))
    | Zneg a0 ->
      (match b with
       | Z0 -> Z0
       | Zpos b0 -> of_N (N.ldiff (Npos b0) (Pos.pred_N a0))
       | Zneg b0 ->
         Zneg (N.succ_pos (N.coq_lor (Pos.pred_N a0) (Pos.pred_N b0))))
 end

(** val forallb : ('a1 -> bool) -> 'a1 list -> bool **)

let rec forallb f = function
| [] -> true
| a :: l0 -> (&&) (f a) (forallb f l0)

(** val repeat : 'a1 -> nat -> 'a1 list **)

let rec repeat x = function
| O -> []
| S k -> x :: (repeat x k)

(** val ex_keep :
    (((((nat * n) * z) * z list) * z option) * positive) * bool **)

let ex_keep =
  ((((((O, N0), Z0), []), None), XH), true)

type pos = ((z * z) * z) * z

type 'a eres =
| EOk of 'a
| EAssertionError
| EEncodeError
| EOutOfFuel

(** val ebind : 'a1 eres -> ('a1 -> 'a2 eres) -> 'a2 eres **)

let ebind x f =
  match x with
  | EOk a -> f a
  | EAssertionError -> EAssertionError
  | EEncodeError -> EEncodeError
  | EOutOfFuel -> EOutOfFuel

(** val byte_ok : z -> bool **)

let byte_ok b =
  (&&) (Z.leb Z0 b)
    (Z.ltb b (Zpos (XO (XO (XO (XO (XO (XO (XO (XO XH))))))))))

(** val chars : z list -> z list eres **)

let chars l =
  if forallb byte_ok l then EOk l else EEncodeError

(** val varint_loop : nat -> z -> z list eres **)

let rec varint_loop fuel v =
  match fuel with
  | O -> EOutOfFuel
  | S f ->
    if Z.leb (Zpos (XO (XO (XO (XO (XO (XO XH))))))) v
    then ebind (varint_loop f (Z.shiftr v (Zpos (XO (XI XH))))) (fun r -> EOk
           ((Z.coq_lor (Zpos (XO (XO (XO (XO (XO (XO XH)))))))
              (Z.coq_land v (Zpos (XI (XI (XI (XI (XI XH)))))))) :: r))
    else EOk (v :: [])

(** val varint_fuel : z -> nat **)

let varint_fuel v =
  S (Z.to_nat (Z.log2 v))

(** val encode_varint : z -> z list eres **)

let encode_varint v =
  if Z.ltb v Z0 then EAssertionError else varint_loop (varint_fuel v) v

(** val short_bytes : z -> z -> z list **)

let short_bytes sc ec =
  let low_bits = Z.coq_land sc (Zpos (XI (XI XH))) in
  let code = Z.shiftr sc (Zpos (XI XH)) in
  (Z.coq_lor (Zpos (XO (XO (XO (XO (XO (XO (XO XH))))))))
    (Z.shiftl code (Zpos (XI XH)))) :: ((Z.coq_lor
                                          (Z.shiftl low_bits (Zpos (XO (XO
                                            XH)))) (Z.sub ec sc)) :: [])

(** val oneline_bytes : z -> z -> z -> z list **)

let oneline_bytes d sc ec =
  (Z.coq_lor (Zpos (XO (XO (XO (XO (XO (XO (XO XH))))))))
    (Z.shiftl (Z.add (Zpos (XO (XI (XO XH)))) d) (Zpos (XI XH)))) :: (sc :: (ec :: []))

(** val long_start : z **)

let long_start =
  Z.coq_lor (Zpos (XO (XO (XO (XO (XO (XO (XO XH))))))))
    (Z.shiftl (Zpos (XO (XI (XI XH)))) (Zpos (XI XH)))

(** val encode_single : bool -> pos -> z -> (z list * z) eres **)

let encode_single fx p last =
  let (p0, ec) = p in
  let (p1, sc) = p0 in
  let (sl, el) = p1 in
  if Z.ltb sl last
  then EAssertionError
  else let d = Z.sub sl last in
       if (&&) (Z.eqb el sl)
            ((&&)
              ((&&) (Z.eqb d Z0)
                (Z.ltb sc (Zpos (XO (XO (XO (XO (XI (XO XH)))))))))
              ((&&) (Z.leb Z0 (Z.sub ec sc))
                (Z.ltb (Z.sub ec sc) (Zpos (XO (XO (XO (XO XH))))))))
       then ebind (chars (short_bytes sc ec)) (fun b -> EOk (b, el))
       else if (&&) (Z.eqb el sl)
                 ((&&)
                   ((&&) ((&&) (Z.leb Z0 d) (Z.ltb d (Zpos (XI XH))))
                     (Z.ltb sc (Zpos (XO (XO (XO (XO (XO (XO (XO XH))))))))))
                   (Z.ltb ec (Zpos (XO (XO (XO (XO (XO (XO (XO XH))))))))))
            then ebind (chars (oneline_bytes d sc ec)) (fun b -> EOk (b, el))
            else ebind (encode_varint (Z.shiftl d (Zpos XH))) (fun v1 ->
                   ebind (encode_varint (Z.sub el sl)) (fun v2 ->
                     ebind (encode_varint (Z.add sc (Zpos XH))) (fun v3 ->
                       ebind (encode_varint (Z.add ec (Zpos XH))) (fun v4 ->
                         EOk ((long_start :: (app v1 (app v2 (app v3 v4)))),
                         (if fx then sl else el))))))

(** val build_loop : bool -> pos list -> z -> z list eres **)

let rec build_loop fx ps last =
  match ps with
  | [] -> EOk []
  | p :: r ->
    ebind (encode_single fx p last) (fun bl ->
      ebind (build_loop fx r (snd bl)) (fun bs -> EOk (app (fst bl) bs)))

(** val build_line_table : bool -> pos list -> z -> z list eres **)

let build_line_table =
  build_loop

(** val read_varint_loop : z list -> z -> z -> (z * z list) option **)

let rec read_varint_loop bs val0 shift =
  match bs with
  | [] -> None
  | b :: r ->
    let val' =
      Z.coq_lor val0
        (Z.shiftl (Z.coq_land b (Zpos (XI (XI (XI (XI (XI XH))))))) shift)
    in
    if Z.eqb (Z.coq_land b (Zpos (XO (XO (XO (XO (XO (XO XH)))))))) Z0
    then Some (val', r)
    else read_varint_loop r val' (Z.add shift (Zpos (XO (XI XH))))

(** val read_varint : z list -> (z * z list) option **)

let read_varint bs =
  read_varint_loop bs Z0 Z0

(** val signed_of_uval : z -> z **)

let signed_of_uval u =
  if Z.eqb (Z.coq_land u (Zpos XH)) Z0
  then Z.shiftr u (Zpos XH)
  else Z.opp (Z.shiftr u (Zpos XH))

(** val read_signed_varint : z list -> (z * z list) option **)

let read_signed_varint bs =
  match read_varint bs with
  | Some p -> let (u, r) = p in Some ((signed_of_uval u), r)
  | None -> None

(** val entry_code : z -> z **)

let entry_code first_byte =
  Z.coq_land (Z.shiftr first_byte (Zpos (XI XH))) (Zpos (XI (XI (XI XH))))

(** val entry_units : z -> z **)

let entry_units first_byte =
  Z.add (Z.coq_land first_byte (Zpos (XI (XI XH)))) (Zpos XH)

(** val advance_with_locations :
    z list -> z -> (((pos * z) * z) * z list) option **)

let advance_with_locations bs computed_line =
  match bs with
  | [] -> None
  | first_byte :: r ->
    let code = entry_code first_byte in
    let n0 = entry_units first_byte in
    if Z.eqb code (Zpos (XI (XI (XI XH))))
    then Some (((((((Zneg XH), (Zneg XH)), (Zneg XH)), (Zneg XH)), n0),
           computed_line), r)
    else if Z.eqb code (Zpos (XO (XI (XI XH))))
         then (match read_signed_varint r with
               | Some p ->
                 let (dl, r1) = p in
                 (match read_varint r1 with
                  | Some p0 ->
                    let (de, r2) = p0 in
                    (match read_varint r2 with
                     | Some p1 ->
                       let (c, r3) = p1 in
                       (match read_varint r3 with
                        | Some p2 ->
                          let (ec, r4) = p2 in
                          let line = Z.add computed_line dl in
                          Some ((((((line, (Z.add line de)),
                          (Z.sub c (Zpos XH))), (Z.sub ec (Zpos XH))), n0),
                          line), r4)
                        | None -> None)
                     | None -> None)
                  | None -> None)
               | None -> None)
         else if Z.eqb code (Zpos (XI (XO (XI XH))))
              then (match read_signed_varint r with
                    | Some p ->
                      let (dl, r1) = p in
                      let line = Z.add computed_line dl in
                      Some ((((((line, line), (Zneg XH)), (Zneg XH)), n0),
                      line), r1)
                    | None -> None)
              else if (&&) (Z.leb (Zpos (XO (XI (XO XH)))) code)
                        (Z.leb code (Zpos (XO (XO (XI XH)))))
                   then (match r with
                         | [] -> None
                         | c :: l ->
                           (match l with
                            | [] -> None
                            | ec :: r2 ->
                              let line =
                                Z.add computed_line
                                  (Z.sub code (Zpos (XO (XI (XO XH)))))
                              in
                              Some ((((((line, line), c), ec), n0), line), r2)))
                   else (match r with
                         | [] -> None
                         | second_byte :: r1 ->
                           let column =
                             Z.coq_lor (Z.shiftl code (Zpos (XI XH)))
                               (Z.shiftr second_byte (Zpos (XO (XO XH))))
                           in
                           Some ((((((computed_line, computed_line), column),
                           (Z.add column
                             (Z.coq_land second_byte (Zpos (XI (XI (XI XH))))))),
                           n0), computed_line), r1))

type dres =
| DOk of pos list
| DTruncated
| DOutOfFuel

(** val decode_loop : nat -> z list -> z -> dres **)

let rec decode_loop fuel bs computed_line =
  match bs with
  | [] -> DOk []
  | _ :: _ ->
    (match fuel with
     | O -> DOutOfFuel
     | S f ->
       (match advance_with_locations bs computed_line with
        | Some p ->
          let (p0, rest) = p in
          let (p1, line') = p0 in
          let (tup, n0) = p1 in
          (match decode_loop f rest line' with
           | DOk l -> DOk (app (repeat tup (Z.to_nat n0)) l)
           | x -> x)
        | None -> DTruncated))

(** val decode_positions : z -> z list -> dres **)

let decode_positions first bs =
  decode_loop (length bs) bs first

(** val scan_varint : z list -> z option **)

let scan_varint bs =
  match read_varint bs with
  | Some p -> let (u, _) = p in Some u
  | None -> None

(** val scan_signed_varint : z list -> z option **)

let scan_signed_varint bs =
  match scan_varint bs with
  | Some u -> Some (signed_of_uval u)
  | None -> None

(** val get_line_delta : z list -> z option **)

let get_line_delta = function
| [] -> None
| b :: r ->
  let code = entry_code b in
  if Z.eqb code (Zpos (XI (XI (XI XH))))
  then Some Z0
  else if (||) (Z.eqb code (Zpos (XI (XO (XI XH)))))
            (Z.eqb code (Zpos (XO (XI (XI XH)))))
       then scan_signed_varint r
       else if Z.eqb code (Zpos (XO (XI (XO XH))))
            then Some Z0
            else if Z.eqb code (Zpos (XI (XI (XO XH))))
                 then Some (Zpos XH)
                 else if Z.eqb code (Zpos (XO (XO (XI XH))))
                      then Some (Zpos (XO XH))
                      else Some Z0

(** val skip_payload : z list -> z list **)

let rec skip_payload bs = match bs with
| [] -> []
| b :: r ->
  if Z.eqb (Z.coq_land b (Zpos (XO (XO (XO (XO (XO (XO (XO XH))))))))) Z0
  then skip_payload r
  else bs

(** val advance : z list -> z -> (((z * z) * z) * z list) option **)

let advance bs computed_line =
  match bs with
  | [] -> None
  | b :: r ->
    (match get_line_delta bs with
     | Some dl ->
       let cl = Z.add computed_line dl in
       let ar_line =
         if Z.eqb (Z.shiftr b (Zpos (XI XH))) (Zpos (XI (XI (XI (XI XH)))))
         then Zneg XH
         else cl
       in
       Some (((ar_line, (entry_units b)), cl), (skip_payload r))
     | None -> None)

type lres =
| LOk of z list
| LTruncated
| LOutOfFuel

(** val lines_loop : nat -> z list -> z -> lres **)

let rec lines_loop fuel bs computed_line =
  match bs with
  | [] -> LOk []
  | _ :: _ ->
    (match fuel with
     | O -> LOutOfFuel
     | S f ->
       (match advance bs computed_line with
        | Some p ->
          let (p0, rest) = p in
          let (p1, cl) = p0 in
          let (line, n0) = p1 in
          (match lines_loop f rest cl with
           | LOk l -> LOk (app (repeat line (Z.to_nat n0)) l)
           | x -> x)
        | None -> LTruncated))

(** val decode_lines : z -> z list -> lres **)

let decode_lines first bs =
  lines_loop (length bs) bs first
