
val negb : bool -> bool

type nat =
| O
| S of nat

val fst : ('a1 * 'a2) -> 'a1

val snd : ('a1 * 'a2) -> 'a2

val length : 'a1 list -> nat

val app : 'a1 list -> 'a1 list -> 'a1 list

type comparison =
| Eq
| Lt
| Gt

val compOpp : comparison -> comparison

val sub : nat -> nat -> nat

type positive =
| XI of positive
| XO of positive
| XH

type n =
| N0
| Npos of positive

type z =
| Z0
| Zpos of positive
| Zneg of positive

module Nat :
 sig
  val add : nat -> nat -> nat

  val sub : nat -> nat -> nat

  val leb : nat -> nat -> bool

  val ltb : nat -> nat -> bool

  val divmod : nat -> nat -> nat -> nat -> nat * nat

  val div : nat -> nat -> nat

  val modulo : nat -> nat -> nat
 end

module Pos :
 sig
  val succ : positive -> positive

  val add : positive -> positive -> positive

  val add_carry : positive -> positive -> positive

  val pred_double : positive -> positive

  val mul : positive -> positive -> positive

  val compare_cont : comparison -> positive -> positive -> comparison

  val compare : positive -> positive -> comparison

  val eqb : positive -> positive -> bool

  val of_succ_nat : nat -> positive
 end

module Z :
 sig
  val double : z -> z

  val succ_double : z -> z

  val pred_double : z -> z

  val pos_sub : positive -> positive -> z

  val add : z -> z -> z

  val opp : z -> z

  val sub : z -> z -> z

  val mul : z -> z -> z

  val compare : z -> z -> comparison

  val leb : z -> z -> bool

  val ltb : z -> z -> bool

  val eqb : z -> z -> bool

  val of_nat : nat -> z
 end

val rev : 'a1 list -> 'a1 list

val map : ('a1 -> 'a2) -> 'a1 list -> 'a2 list

val fold_right : ('a2 -> 'a1 -> 'a1) -> 'a1 -> 'a2 list -> 'a1

val forallb : ('a1 -> bool) -> 'a1 list -> bool

val filter : ('a1 -> bool) -> 'a1 list -> 'a1 list

val repeat : 'a1 -> nat -> 'a1 list

val ex_keep : (((((nat * n) * z) * z list) * z option) * positive) * bool

type special =
| SBol
| SEol
| SEof

type event =
| EvChar of z
| EvBol
| EvEol
| EvEof
| EvNone

type ere =
| EEmpty
| EEps
| ERange of z * z
| ESym of special
| ESeq of ere * ere
| EAlt of ere * ere
| ERep1 of ere

val eOpt : ere -> ere

val e_nullable : ere -> bool

val special_eqb : special -> special -> bool

val ev_matches : z -> z -> event -> bool

val ev_is : special -> event -> bool

val ere_eqb : ere -> ere -> bool

val is_empty : ere -> bool

val is_eps : ere -> bool

val alt_mem : ere -> ere -> bool

val mk_alt : ere -> ere -> ere

val mk_seq : ere -> ere -> ere

val n_deriv : event -> ere -> ere

val n_matches : ere -> event list -> bool

val strip_underscores : z list -> z list

val is_suffix_char : z -> bool

val drop_suffix_rev : z list -> z list

val int_token_value : z list -> z list

type s2n =
| S2N of z
| S2N_BadDigit
| S2N_TooLong

val digit_val : z -> z option

val digits_val : z -> z -> z list -> z option

val pow2_base : z -> bool

val py_int_base : z -> z -> z list -> s2n

val is_xX : z -> bool

val is_oO : z -> bool

val is_bB : z -> bool

val is_lL : z -> bool

val py_int_base0 : z -> z list -> s2n

val strip_py2_long_suffix : z list -> z list

val str_to_number : z -> z list -> s2n

val decode_int_token : z -> z list -> s2n

type outcome =
| Accepted of z
| PositionedError
| InternalCrash

val int_token_outcome : bool -> z -> z list -> outcome

val dot_ev : event

val dots : nat -> event list

val dot_tokens : nat -> nat list

val import_level : nat list -> nat

val longest_from : ere -> event list -> nat -> nat -> nat

val longest : ere -> event list -> nat

val x_lex_int : ere

val x_lex_float : ere

val x_lex_imag_old : ere

val x_lex_imag_new : ere

val x_py_integer : ere

val x_py_float : ere

val x_py_imag : ere

val x_lex_strbegin : ere

val x_py_strbegin : ere

val x_token_kind : bool -> z list -> z

val x_py_kind : z list -> z

val x_strbegin : z list -> bool * bool

val x_lex_text : ere

val x_lex_number : bool -> ere

val x_scan_dots : nat -> bool -> nat -> nat list
