
(** val negb : bool -> bool **)

let negb = function
| true -> false
| false -> true

type nat =
| O
| S of nat

(** val fst : ('a1 * 'a2) -> 'a1 **)

let fst = function
| (x, _) -> x

(** val snd : ('a1 * 'a2) -> 'a2 **)

let snd = function
| (_, y) -> y

(** val length : 'a1 list -> nat **)

let rec length = function
| [] -> O
| _ :: l' -> S (length l')

(** val app : 'a1 list -> 'a1 list -> 'a1 list **)

let rec app l m =
  match l with
  | [] -> m
  | a :: l1 -> a :: (app l1 m)

(** val add : nat -> nat -> nat **)

let rec add n0 m =
  match n0 with
  | O -> m
  | S p -> S (add p m)

(** val mul : nat -> nat -> nat **)

let rec mul n0 m =
  match n0 with
  | O -> O
  | S p -> add m (mul p m)

(** val sub : nat -> nat -> nat **)

let rec sub n0 m =
  match n0 with
  | O -> n0
  | S k -> (match m with
            | O -> n0
            | S l -> sub k l)

type positive =
| XI of positive
| XO of positive
| XH

type n =
| N0
| Npos of positive

type z =
| Z0
| Zpos of positive
| Zneg of positive

module Nat =
 struct
  (** val eqb : nat -> nat -> bool **)

  let rec eqb n0 m =
    match n0 with
    | O -> (match m with
            | O -> true
            | S _ -> false)
    | S n' -> (match m with
               | O -> false
               | S m' -> eqb n' m')
 end

module Pos =
 struct
  (** val succ : positive -> positive **)

  let rec succ = function
  | XI p -> XO (succ p)
  | XO p -> XI p
  | XH -> XO XH

  (** val iter : ('a1 -> 'a1) -> 'a1 -> positive -> 'a1 **)

  let rec iter f x = function
  | XI n' -> f (iter f (iter f x n') n')
  | XO n' -> iter f (iter f x n') n'
  | XH -> f x

  (** val eqb : positive -> positive -> bool **)

  let rec eqb p q =
    match p with
    | XI p0 -> (match q with
                | XI q0 -> eqb p0 q0
                | _ -> false)
    | XO p0 -> (match q with
                | XO q0 -> eqb p0 q0
                | _ -> false)
    | XH -> (match q with
             | XH -> true
             | _ -> false)

  (** val coq_Nsucc_double : n -> n **)

  let coq_Nsucc_double = function
  | N0 -> Npos XH
  | Npos p -> Npos (XI p)

  (** val coq_Ndouble : n -> n **)

  let coq_Ndouble = function
  | N0 -> N0
  | Npos p -> Npos (XO p)

  (** val coq_lor : positive -> positive -> positive **)

  let rec coq_lor p q =
    match p with
    | XI p0 ->
      (match q with
       | XI q0 -> XI (coq_lor p0 q0)
       | XO q0 -> XI (coq_lor p0 q0)
       | XH -> p)
    | XO p0 ->
      (match q with
       | XI q0 -> XI (coq_lor p0 q0)
       | XO q0 -> XO (coq_lor p0 q0)
       | XH -> XI p0)
    | XH -> (match q with
             | XO q0 -> XI q0
             | _ -> q)

  (** val coq_land : positive -> positive -> n **)

  let rec coq_land p q =
    match p with
    | XI p0 ->
      (match q with
       | XI q0 -> coq_Nsucc_double (coq_land p0 q0)
       | XO q0 -> coq_Ndouble (coq_land p0 q0)
       | XH -> Npos XH)
    | XO p0 ->
      (match q with
       | XI q0 -> coq_Ndouble (coq_land p0 q0)
       | XO q0 -> coq_Ndouble (coq_land p0 q0)
       | XH -> N0)
    | XH -> (match q with
             | XO _ -> N0
             | _ -> Npos XH)

  (** val ldiff : positive -> positive -> n **)

  let rec ldiff p q =
    match p with
    | XI p0 ->
      (match q with
       | XI q0 -> coq_Ndouble (ldiff p0 q0)
       | XO q0 -> coq_Nsucc_double (ldiff p0 q0)
       | XH -> Npos (XO p0))
    | XO p0 ->
      (match q with
       | XI q0 -> coq_Ndouble (ldiff p0 q0)
       | XO q0 -> coq_Ndouble (ldiff p0 q0)
       | XH -> Npos p)
    | XH -> (match q with
             | XO _ -> Npos XH
             | _ -> N0)

  (** val shiftl : positive -> n -> positive **)

  let shiftl p = function
  | N0 -> p
  | Npos n1 -> iter (fun x -> XO x) p n1

  (** val of_succ_nat : nat -> positive **)

  let rec of_succ_nat = function
  | O -> XH
  | S x -> succ (of_succ_nat x)
 end

module N =
 struct
  (** val eqb : n -> n -> bool **)

  let eqb n0 m =
    match n0 with
    | N0 -> (match m with
             | N0 -> true
             | Npos _ -> false)
    | Npos p -> (match m with
                 | N0 -> false
                 | Npos q -> Pos.eqb p q)

  (** val coq_lor : n -> n -> n **)

  let coq_lor n0 m =
    match n0 with
    | N0 -> m
    | Npos p -> (match m with
                 | N0 -> n0
                 | Npos q -> Npos (Pos.coq_lor p q))

  (** val coq_land : n -> n -> n **)

  let coq_land n0 m =
    match n0 with
    | N0 -> N0
    | Npos p -> (match m with
                 | N0 -> N0
                 | Npos q -> Pos.coq_land p q)

  (** val ldiff : n -> n -> n **)

  let ldiff n0 m =
    match n0 with
    | N0 -> N0
    | Npos p -> (match m with
                 | N0 -> n0
                 | Npos q -> Pos.ldiff p q)

  (** val shiftl : n -> n -> n **)

  let shiftl a n0 =
    match a with
    | N0 -> N0
    | Npos a0 -> Npos (Pos.shiftl a0 n0)

  (** val of_nat : nat -> n **)

  let of_nat = function
  | O -> N0
  | S n' -> Npos (Pos.of_succ_nat n')
 end

(** val tl : 'a1 list -> 'a1 list **)

let tl = function
| [] -> []
| _ :: m -> m

(** val nth : nat -> 'a1 list -> 'a1 -> 'a1 **)

let rec nth n0 l default =
  match n0 with
  | O -> (match l with
          | [] -> default
          | x :: _ -> x)
  | S m -> (match l with
            | [] -> default
            | _ :: t -> nth m t default)

(** val concat : 'a1 list list -> 'a1 list **)

let rec concat = function
| [] -> []
| x :: l0 -> app x (concat l0)

(** val map : ('a1 -> 'a2) -> 'a1 list -> 'a2 list **)

let rec map f = function
| [] -> []
| a :: t -> (f a) :: (map f t)

(** val fold_left : ('a1 -> 'a2 -> 'a1) -> 'a2 list -> 'a1 -> 'a1 **)

let rec fold_left f l a0 =
  match l with
  | [] -> a0
  | b :: t -> fold_left f t (f a0 b)

(** val filter : ('a1 -> bool) -> 'a1 list -> 'a1 list **)

let rec filter f = function
| [] -> []
| x :: l0 -> if f x then x :: (filter f l0) else filter f l0

(** val combine : 'a1 list -> 'a2 list -> ('a1 * 'a2) list **)

let rec combine l l' =
  match l with
  | [] -> []
  | x :: tl0 ->
    (match l' with
     | [] -> []
     | y :: tl' -> (x, y) :: (combine tl0 tl'))

(** val seq : nat -> nat -> nat list **)

let rec seq start = function
| O -> []
| S len0 -> start :: (seq (S start) len0)

(** val ex_keep :
    (((((nat * n) * z) * z list) * z option) * positive) * bool **)

let ex_keep =
  ((((((O, N0), Z0), []), None), XH), true)

type rblock = { r_parents : nat list; r_gen : n; r_kill : n }

(** val getN : n list -> nat -> n **)

let getN l i =
  nth i l N0

(** val set_nth : nat -> n -> n list -> n list **)

let rec set_nth i v = function
| [] -> []
| h :: t -> (match i with
             | O -> v :: t
             | S j -> h :: (set_nth j v t))

(** val or_parents : n list -> nat list -> n **)

let or_parents outs ps =
  fold_left (fun acc p -> N.coq_lor acc (getN outs p)) ps N0

(** val transfer : rblock -> n -> n **)

let transfer b i_input =
  N.coq_lor (N.ldiff i_input b.r_kill) b.r_gen

(** val rd_pass :
    (nat * rblock) list -> n list -> n list -> bool -> (n list * n
    list) * bool **)

let rec rd_pass todo outs ins dirty =
  match todo with
  | [] -> ((outs, ins), dirty)
  | p :: rest ->
    let (i, b) = p in
    let i_input = or_parents outs b.r_parents in
    let i_output = transfer b i_input in
    let dirty' = if N.eqb i_output (getN outs i) then dirty else true in
    rd_pass rest (set_nth i i_output outs) (set_nth i i_input ins) dirty'

(** val rd_loop :
    nat -> (nat * rblock) list -> n list -> n list -> (n list * n list) option **)

let rec rd_loop fuel todo outs ins =
  match fuel with
  | O -> None
  | S f ->
    let (p, dirty) = rd_pass todo outs ins false in
    let (outs', ins') = p in
    if dirty then rd_loop f todo outs' ins' else Some (outs', ins')

(** val todo_of : rblock list -> (nat * rblock) list **)

let todo_of bs =
  combine (seq (S O) (sub (length bs) (S O))) (tl bs)

(** val init_outs : rblock list -> n list **)

let init_outs bs =
  map (fun r -> r.r_gen) bs

(** val init_ins : rblock list -> n list **)

let init_ins bs =
  map (fun _ -> N0) bs

(** val rd_fuel : nat -> rblock list -> nat **)

let rd_fuel nbits bs =
  add (mul (length bs) nbits) (S O)

(** val reaching_definitions :
    nat -> rblock list -> (n list * n list) option **)

let reaching_definitions nbits bs =
  rd_loop (rd_fuel nbits bs) (todo_of bs) (init_outs bs) (init_ins bs)

type stat =
| SAssign of nat
| SDel of nat
| SRef of nat

(** val stat_entry : stat -> nat **)

let stat_entry = function
| SAssign e -> e
| SDel e -> e
| SRef e -> e

(** val is_def : stat -> bool **)

let is_def = function
| SRef _ -> false
| _ -> true

type block = { b_parents : nat list; b_stats : stat list; b_bounded : nat list }

type cfg = { c_ne : nat; c_closure : bool list; c_static : bool list;
             c_blocks : block list }

(** val bitN : nat -> n **)

let bitN k =
  N.shiftl (Npos XH) (N.of_nat k)

(** val number_stats : nat -> stat list -> (stat * nat) list * nat **)

let rec number_stats next = function
| [] -> ([], next)
| s :: r ->
  if is_def s
  then let (l, n0) = number_stats (S next) r in (((s, next) :: l), n0)
  else let (l, n0) = number_stats next r in (((s, O) :: l), n0)

(** val number_blocks : nat -> block list -> (stat * nat) list list * nat **)

let rec number_blocks next = function
| [] -> ([], next)
| b :: r ->
  let (ns, n1) = number_stats next b.b_stats in
  let (l, n2) = number_blocks n1 r in ((ns :: l), n2)

(** val numbered : cfg -> (stat * nat) list list * nat **)

let numbered c =
  let (l, n0) = number_blocks c.c_ne (tl c.c_blocks) in (([] :: l), n0)

(** val mask_of : (stat * nat) list -> nat -> n **)

let mask_of all e =
  fold_left (fun acc p ->
    if (&&) (is_def (fst p)) (Nat.eqb (stat_entry (fst p)) e)
    then N.coq_lor acc (bitN (snd p))
    else acc) all (bitN e)

(** val dict_set :
    nat -> nat option -> (nat * nat option) list -> (nat * nat option) list **)

let dict_set e v d =
  (e, v) :: (filter (fun p -> negb (Nat.eqb (fst p) e)) d)

(** val gen_dict :
    (stat * nat) list -> (nat * nat option) list -> (nat * nat option) list **)

let rec gen_dict ns d =
  match ns with
  | [] -> d
  | p :: r ->
    let (s, k) = p in
    (match s with
     | SAssign e -> gen_dict r (dict_set e (Some k) d)
     | SDel e -> gen_dict r (dict_set e None d)
     | SRef _ -> gen_dict r d)

(** val gen_bits : (nat * nat option) list -> n **)

let gen_bits d =
  fold_left (fun acc p ->
    N.coq_lor acc (match snd p with
                   | Some k -> bitN k
                   | None -> bitN (fst p))) d N0

(** val kill_bits : (nat -> n) -> (nat * nat option) list -> nat list -> n **)

let kill_bits mask d bounded =
  fold_left (fun acc e -> N.coq_lor acc (bitN e)) bounded
    (fold_left (fun acc p -> N.coq_lor acc (mask (fst p))) d N0)

(** val all_uninit : nat -> n **)

let all_uninit ne =
  fold_left (fun acc e -> N.coq_lor acc (bitN e)) (seq O ne) N0

(** val initialize : cfg -> rblock list **)

let initialize c =
  let (nss, _) = numbered c in
  let mask = mask_of (concat nss) in
  (match combine c.c_blocks nss with
   | [] -> []
   | p :: rest ->
     let (b0, _) = p in
     { r_parents = b0.b_parents; r_gen = (all_uninit c.c_ne); r_kill =
     N0 } :: (map (fun p0 ->
               let d = gen_dict (snd p0) [] in
               { r_parents = (fst p0).b_parents; r_gen = (gen_bits d);
               r_kill = (kill_bits mask d (fst p0).b_bounded) }) rest))

type cls =
| DefNull
| MaybeNull
| Bound

(** val classify : bool -> bool -> bool -> bool -> cls **)

let classify from_closure static has_uninit0 has_other0 =
  if has_uninit0
  then if static
       then Bound
       else if from_closure
            then MaybeNull
            else if has_other0 then MaybeNull else DefNull
  else Bound

(** val has_uninit : n -> nat -> bool **)

let has_uninit i_state e =
  negb (N.eqb (N.coq_land i_state (bitN e)) N0)

(** val has_other : (nat -> n) -> n -> nat -> bool **)

let has_other mask i_state e =
  negb (N.eqb (N.ldiff (N.coq_land i_state (mask e)) (bitN e)) N0)

(** val stat_step : (nat -> n) -> n -> (stat * nat) -> n **)

let stat_step mask i_state = function
| (s, k) ->
  (match s with
   | SAssign e -> N.coq_lor (N.ldiff i_state (mask e)) (bitN k)
   | SDel e -> N.coq_lor (N.ldiff i_state (mask e)) (bitN e)
   | SRef _ -> i_state)

(** val walk : cfg -> (nat -> n) -> n -> (stat * nat) list -> cls list **)

let rec walk c mask i_state = function
| [] -> []
| p :: r ->
  let e = stat_entry (fst p) in
  (classify (nth e c.c_closure false) (nth e c.c_static false)
    (has_uninit i_state e) (has_other mask i_state e)) :: (walk c mask
                                                            (stat_step mask
                                                              i_state p) r)

type result = { res_masks : n list; res_bits : nat list list;
                res_raw : rblock list; res_in : n list; res_out : n list;
                res_cls : cls list list }

(** val analyse : cfg -> result option **)

let analyse c =
  let (nss, nbits) = numbered c in
  let mask = mask_of (concat nss) in
  let raw = initialize c in
  (match reaching_definitions nbits raw with
   | Some p ->
     let (outs, ins) = p in
     Some { res_masks = (map mask (seq O c.c_ne)); res_bits =
     (map (map snd) nss); res_raw = raw; res_in = ins; res_out = outs;
     res_cls =
     (map (fun p0 -> walk c mask (fst p0) (snd p0)) (combine ins nss)) }
   | None -> None)
