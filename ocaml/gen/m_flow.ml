
(** val negb : bool -> bool **)

let negb = function
| true -> false
| false -> true

type nat =
| O
| S of nat

(** val fst : ('a1 * 'a2) -> 'a1 **)

let fst = function
| (x, _) -> x

(** val snd : ('a1 * 'a2) -> 'a2 **)

let snd = function
| (_, y) -> y

(** val length : 'a1 list -> nat **)

let rec length = function
| [] -> O
| _ :: l' -> S (length l')

(** val app : 'a1 list -> 'a1 list -> 'a1 list **)

let rec app l m =
  match l with
  | [] -> m
  | a :: l1 -> a :: (app l1 m)

(** val add : nat -> nat -> nat **)

let rec add n0 m =
  match n0 with
  | O -> m
  | S p -> S (add p m)

(** val mul : nat -> nat -> nat **)

let rec mul n0 m =
  match n0 with
  | O -> O
  | S p -> add m (mul p m)

(** val sub : nat -> nat -> nat **)

let rec sub n0 m =
  match n0 with
  | O -> n0
  | S k -> (match m with
            | O -> n0
            | S l -> sub k l)

type positive =
| XI of positive
| XO of positive
| XH

type n =
| N0
| Npos of positive

type z =
| Z0
| Zpos of positive
| Zneg of positive

module Nat =
 struct
  (** val eqb : nat -> nat -> bool **)

  let rec eqb n0 m =
    match n0 with
    | O -> (match m with
            | O -> true
            | S _ -> false)
    | S n' -> (match m with
               | O -> false
               | S m' -> eqb n' m')

  (** val leb : nat -> nat -> bool **)

  let rec leb n0 m =
    match n0 with
    | O -> true
    | S n' -> (match m with
               | O -> false
               | S m' -> leb n' m')

  (** val ltb : nat -> nat -> bool **)

  let ltb n0 m =
    leb (S n0) m
 end

module Pos =
 struct
  (** val succ : positive -> positive **)

  let rec succ = function
  | XI p -> XO (succ p)
  | XO p -> XI p
  | XH -> XO XH

  (** val iter : ('a1 -> 'a1) -> 'a1 -> positive -> 'a1 **)

  let rec iter f x = function
  | XI n' -> f (iter f (iter f x n') n')
  | XO n' -> iter f (iter f x n') n'
  | XH -> f x

  (** val eqb : positive -> positive -> bool **)

  let rec eqb p q =
    match p with
    | XI p0 -> (match q with
                | XI q0 -> eqb p0 q0
                | _ -> false)
    | XO p0 -> (match q with
                | XO q0 -> eqb p0 q0
                | _ -> false)
    | XH -> (match q with
             | XH -> true
             | _ -> false)

  (** val coq_Nsucc_double : n -> n **)

  let coq_Nsucc_double = function
  | N0 -> Npos XH
  | Npos p -> Npos (XI p)

  (** val coq_Ndouble : n -> n **)

  let coq_Ndouble = function
  | N0 -> N0
  | Npos p -> Npos (XO p)

  (** val coq_lor : positive -> positive -> positive **)

  let rec coq_lor p q =
    match p with
    | XI p0 ->
      (match q with
       | XI q0 -> XI (coq_lor p0 q0)
       | XO q0 -> XI (coq_lor p0 q0)
       | XH -> p)
    | XO p0 ->
      (match q with
       | XI q0 -> XI (coq_lor p0 q0)
       | XO q0 -> XO (coq_lor p0 q0)
       | XH -> XI p0)
    | XH -> (match q with
             | XO q0 -> XI q0
             | _ -> q)

  (** val coq_land : positive -> positive -> n **)

  let rec coq_land p q =
    match p with
    | XI p0 ->
      (match q with
       | XI q0 -> coq_Nsucc_double (coq_land p0 q0)
       | XO q0 -> coq_Ndouble (coq_land p0 q0)
       | XH -> Npos XH)
    | XO p0 ->
      (match q with
       | XI q0 -> coq_Ndouble (coq_land p0 q0)
       | XO q0 -> coq_Ndouble (coq_land p0 q0)
       | XH -> N0)
    | XH -> (match q with
             | XO _ -> N0
             | _ -> Npos XH)

  (** val ldiff : positive -> positive -> n **)

  let rec ldiff p q =
    match p with
    | XI p0 ->
      (match q with
       | XI q0 -> coq_Ndouble (ldiff p0 q0)
       | XO q0 -> coq_Nsucc_double (ldiff p0 q0)
       | XH -> Npos (XO p0))
    | XO p0 ->
      (match q with
       | XI q0 -> coq_Ndouble (ldiff p0 q0)
       | XO q0 -> coq_Ndouble (ldiff p0 q0)
       | XH -> Npos p)
    | XH -> (match q with
             | XO _ -> Npos XH
             | _ -> N0)

  (** val shiftl : positive -> n -> positive **)

  let shiftl p = function
  | N0 -> p
  | Npos n1 -> iter (fun x -> XO x) p n1

  (** val of_succ_nat : nat -> positive **)

  let rec of_succ_nat = function
  | O -> XH
  | S x -> succ (of_succ_nat x)
 end

module N =
 struct
  (** val eqb : n -> n -> bool **)

  let eqb n0 m =
    match n0 with
    | N0 -> (match m with
             | N0 -> true
             | Npos _ -> false)
    | Npos p -> (match m with
                 | N0 -> false
                 | Npos q -> Pos.eqb p q)

  (** val coq_lor : n -> n -> n **)

  let coq_lor n0 m =
    match n0 with
    | N0 -> m
    | Npos p -> (match m with
                 | N0 -> n0
                 | Npos q -> Npos (Pos.coq_lor p q))

  (** val coq_land : n -> n -> n **)

  let coq_land n0 m =
    match n0 with
    | N0 -> N0
    | Npos p -> (match m with
                 | N0 -> N0
                 | Npos q -> Pos.coq_land p q)

  (** val ldiff : n -> n -> n **)

  let ldiff n0 m =
    match n0 with
    | N0 -> N0
    | Npos p -> (match m with
                 | N0 -> n0
                 | Npos q -> Pos.ldiff p q)

  (** val shiftl : n -> n -> n **)

  let shiftl a n0 =
    match a with
    | N0 -> N0
    | Npos a0 -> Npos (Pos.shiftl a0 n0)

  (** val of_nat : nat -> n **)

  let of_nat = function
  | O -> N0
  | S n' -> Npos (Pos.of_succ_nat n')
 end

(** val tl : 'a1 list -> 'a1 list **)

let tl = function
| [] -> []
| _ :: m -> m

(** val nth : nat -> 'a1 list -> 'a1 -> 'a1 **)

let rec nth n0 l default =
  match n0 with
  | O -> (match l with
          | [] -> default
          | x :: _ -> x)
  | S m -> (match l with
            | [] -> default
            | _ :: t -> nth m t default)

(** val rev : 'a1 list -> 'a1 list **)

let rec rev = function
| [] -> []
| x :: l' -> app (rev l') (x :: [])

(** val concat : 'a1 list list -> 'a1 list **)

let rec concat = function
| [] -> []
| x :: l0 -> app x (concat l0)

(** val map : ('a1 -> 'a2) -> 'a1 list -> 'a2 list **)

let rec map f = function
| [] -> []
| a :: t -> (f a) :: (map f t)

(** val fold_left : ('a1 -> 'a2 -> 'a1) -> 'a2 list -> 'a1 -> 'a1 **)

let rec fold_left f l a0 =
  match l with
  | [] -> a0
  | b :: t -> fold_left f t (f a0 b)

(** val existsb : ('a1 -> bool) -> 'a1 list -> bool **)

let rec existsb f = function
| [] -> false
| a :: l0 -> (||) (f a) (existsb f l0)

(** val forallb : ('a1 -> bool) -> 'a1 list -> bool **)

let rec forallb f = function
| [] -> true
| a :: l0 -> (&&) (f a) (forallb f l0)

(** val filter : ('a1 -> bool) -> 'a1 list -> 'a1 list **)

let rec filter f = function
| [] -> []
| x :: l0 -> if f x then x :: (filter f l0) else filter f l0

(** val combine : 'a1 list -> 'a2 list -> ('a1 * 'a2) list **)

let rec combine l l' =
  match l with
  | [] -> []
  | x :: tl0 ->
    (match l' with
     | [] -> []
     | y :: tl' -> (x, y) :: (combine tl0 tl'))

(** val seq : nat -> nat -> nat list **)

let rec seq start = function
| O -> []
| S len1 -> start :: (seq (S start) len1)

(** val repeat : 'a1 -> nat -> 'a1 list **)

let rec repeat x = function
| O -> []
| S k -> x :: (repeat x k)

(** val ex_keep :
    (((((nat * n) * z) * z list) * z option) * positive) * bool **)

let ex_keep =
  ((((((O, N0), Z0), []), None), XH), true)

type rblock = { r_parents : nat list; r_gen : n; r_kill : n }

(** val getN : n list -> nat -> n **)

let getN l i =
  nth i l N0

(** val set_nth : nat -> n -> n list -> n list **)

let rec set_nth i v = function
| [] -> []
| h :: t -> (match i with
             | O -> v :: t
             | S j -> h :: (set_nth j v t))

(** val or_parents : n list -> nat list -> n **)

let or_parents outs ps =
  fold_left (fun acc p -> N.coq_lor acc (getN outs p)) ps N0

(** val transfer : rblock -> n -> n **)

let transfer b i_input =
  N.coq_lor (N.ldiff i_input b.r_kill) b.r_gen

(** val rd_pass :
    (nat * rblock) list -> n list -> n list -> bool -> (n list * n
    list) * bool **)

let rec rd_pass todo outs ins dirty =
  match todo with
  | [] -> ((outs, ins), dirty)
  | p :: rest ->
    let (i, b) = p in
    let i_input = or_parents outs b.r_parents in
    let i_output = transfer b i_input in
    let dirty' = if N.eqb i_output (getN outs i) then dirty else true in
    rd_pass rest (set_nth i i_output outs) (set_nth i i_input ins) dirty'

(** val rd_loop :
    nat -> (nat * rblock) list -> n list -> n list -> (n list * n list) option **)

let rec rd_loop fuel todo outs ins =
  match fuel with
  | O -> None
  | S f ->
    let (p, dirty) = rd_pass todo outs ins false in
    let (outs', ins') = p in
    if dirty then rd_loop f todo outs' ins' else Some (outs', ins')

(** val todo_of : rblock list -> (nat * rblock) list **)

let todo_of bs =
  combine (seq (S O) (sub (length bs) (S O))) (tl bs)

(** val init_outs : rblock list -> n list **)

let init_outs bs =
  map (fun r -> r.r_gen) bs

(** val init_ins : rblock list -> n list **)

let init_ins bs =
  map (fun _ -> N0) bs

(** val rd_fuel : nat -> rblock list -> nat **)

let rd_fuel nbits bs =
  add (mul (length bs) nbits) (S O)

(** val reaching_definitions :
    nat -> rblock list -> (n list * n list) option **)

let reaching_definitions nbits bs =
  rd_loop (rd_fuel nbits bs) (todo_of bs) (init_outs bs) (init_ins bs)

type stat =
| SAssign of nat
| SDel of nat
| SRef of nat

(** val stat_entry : stat -> nat **)

let stat_entry = function
| SAssign e -> e
| SDel e -> e
| SRef e -> e

(** val is_def : stat -> bool **)

let is_def = function
| SRef _ -> false
| _ -> true

type block = { b_parents : nat list; b_stats : stat list; b_bounded : nat list }

type cfg = { c_ne : nat; c_closure : bool list; c_static : bool list;
             c_blocks : block list }

(** val bitN : nat -> n **)

let bitN k =
  N.shiftl (Npos XH) (N.of_nat k)

(** val number_stats : nat -> stat list -> (stat * nat) list * nat **)

let rec number_stats next = function
| [] -> ([], next)
| s :: r ->
  if is_def s
  then let (l, n0) = number_stats (S next) r in (((s, next) :: l), n0)
  else let (l, n0) = number_stats next r in (((s, O) :: l), n0)

(** val number_blocks : nat -> block list -> (stat * nat) list list * nat **)

let rec number_blocks next = function
| [] -> ([], next)
| b :: r ->
  let (ns, n1) = number_stats next b.b_stats in
  let (l, n2) = number_blocks n1 r in ((ns :: l), n2)

(** val numbered : cfg -> (stat * nat) list list * nat **)

let numbered c =
  let (l, n0) = number_blocks c.c_ne (tl c.c_blocks) in (([] :: l), n0)

(** val mask_of : (stat * nat) list -> nat -> n **)

let mask_of all e =
  fold_left (fun acc p ->
    if (&&) (is_def (fst p)) (Nat.eqb (stat_entry (fst p)) e)
    then N.coq_lor acc (bitN (snd p))
    else acc) all (bitN e)

(** val dict_set :
    nat -> nat option -> (nat * nat option) list -> (nat * nat option) list **)

let dict_set e v d =
  (e, v) :: (filter (fun p -> negb (Nat.eqb (fst p) e)) d)

(** val gen_dict :
    (stat * nat) list -> (nat * nat option) list -> (nat * nat option) list **)

let rec gen_dict ns d =
  match ns with
  | [] -> d
  | p :: r ->
    let (s, k) = p in
    (match s with
     | SAssign e -> gen_dict r (dict_set e (Some k) d)
     | SDel e -> gen_dict r (dict_set e None d)
     | SRef _ -> gen_dict r d)

(** val gen_bits : (nat * nat option) list -> n **)

let gen_bits d =
  fold_left (fun acc p ->
    N.coq_lor acc (match snd p with
                   | Some k -> bitN k
                   | None -> bitN (fst p))) d N0

(** val kill_bits : (nat -> n) -> (nat * nat option) list -> nat list -> n **)

let kill_bits mask d bounded =
  fold_left (fun acc e -> N.coq_lor acc (bitN e)) bounded
    (fold_left (fun acc p -> N.coq_lor acc (mask (fst p))) d N0)

(** val all_uninit : nat -> n **)

let all_uninit ne =
  fold_left (fun acc e -> N.coq_lor acc (bitN e)) (seq O ne) N0

(** val initialize : cfg -> rblock list **)

let initialize c =
  let (nss, _) = numbered c in
  let mask = mask_of (concat nss) in
  (match combine c.c_blocks nss with
   | [] -> []
   | p :: rest ->
     let (b0, _) = p in
     { r_parents = b0.b_parents; r_gen = (all_uninit c.c_ne); r_kill =
     N0 } :: (map (fun p0 ->
               let d = gen_dict (snd p0) [] in
               { r_parents = (fst p0).b_parents; r_gen = (gen_bits d);
               r_kill = (kill_bits mask d (fst p0).b_bounded) }) rest))

type cls =
| DefNull
| MaybeNull
| Bound

(** val classify : bool -> bool -> bool -> bool -> cls **)

let classify from_closure static has_uninit0 has_other0 =
  if has_uninit0
  then if static
       then Bound
       else if from_closure
            then MaybeNull
            else if has_other0 then MaybeNull else DefNull
  else Bound

(** val has_uninit : n -> nat -> bool **)

let has_uninit i_state e =
  negb (N.eqb (N.coq_land i_state (bitN e)) N0)

(** val has_other : (nat -> n) -> n -> nat -> bool **)

let has_other mask i_state e =
  negb (N.eqb (N.ldiff (N.coq_land i_state (mask e)) (bitN e)) N0)

(** val stat_step : (nat -> n) -> n -> (stat * nat) -> n **)

let stat_step mask i_state = function
| (s, k) ->
  (match s with
   | SAssign e -> N.coq_lor (N.ldiff i_state (mask e)) (bitN k)
   | SDel e -> N.coq_lor (N.ldiff i_state (mask e)) (bitN e)
   | SRef _ -> i_state)

(** val walk : cfg -> (nat -> n) -> n -> (stat * nat) list -> cls list **)

let rec walk c mask i_state = function
| [] -> []
| p :: r ->
  let e = stat_entry (fst p) in
  (classify (nth e c.c_closure false) (nth e c.c_static false)
    (has_uninit i_state e) (has_other mask i_state e)) :: (walk c mask
                                                            (stat_step mask
                                                              i_state p) r)

type result = { res_masks : n list; res_bits : nat list list;
                res_raw : rblock list; res_in : n list; res_out : n list;
                res_cls : cls list list }

(** val analyse : cfg -> result option **)

let analyse c =
  let (nss, nbits) = numbered c in
  let mask = mask_of (concat nss) in
  let raw = initialize c in
  (match reaching_definitions nbits raw with
   | Some p ->
     let (outs, ins) = p in
     Some { res_masks = (map mask (seq O c.c_ne)); res_bits =
     (map (map snd) nss); res_raw = raw; res_in = ins; res_out = outs;
     res_cls =
     (map (fun p0 -> walk c mask (fst p0) (snd p0)) (combine ins nss)) }
   | None -> None)

type nref = nat * nat

type stmt =
| Skip
| Call
| Ref of nat * nat
| Asg of nat * nat
| Del of nat * nat * bool
| Seq of stmt * stmt
| If of nref list * stmt * bool * stmt
| Loop of bool * nref list * nref list * stmt * bool * stmt
| Try of stmt * bool * stmt * handlers
| TryFin of stmt * stmt * stmt
| Break
| Continue
| Return
| Raise
and handlers =
| HNil
| HCons of bool * nat * nat * stmt * handlers

type lstat =
| LRef of nat * nat
| LAsg of nat * nat
| LDel of nat * nat

type excd = { x_entry : nat; x_fin : (nat * (nat * nat) option) option }

type loopd = { l_next : nat; l_loop : nat; l_excs : excd list }

type bst = { nb : nat; sts : (nat * lstat) list;
             eds : ((nat * nat) * nat) list; cur : nat option;
             loops : loopd list; excs : excd list }

(** val set_cur : nat option -> bst -> bst **)

let set_cur c st =
  { nb = st.nb; sts = st.sts; eds = st.eds; cur = c; loops = st.loops; excs =
    st.excs }

(** val set_loops : loopd list -> bst -> bst **)

let set_loops l st =
  { nb = st.nb; sts = st.sts; eds = st.eds; cur = st.cur; loops = l; excs =
    st.excs }

(** val set_excs : excd list -> bst -> bst **)

let set_excs x st =
  { nb = st.nb; sts = st.sts; eds = st.eds; cur = st.cur; loops = st.loops;
    excs = x }

(** val len : bst -> nat -> nat **)

let len st b =
  length (filter (fun p -> Nat.eqb (fst p) b) st.sts)

(** val add_edge_k : nat -> nat -> nat -> bst -> bst **)

let add_edge_k u k v st =
  { nb = st.nb; sts = st.sts; eds = (((u, k), v) :: st.eds); cur = st.cur;
    loops = st.loops; excs = st.excs }

(** val add_edge : nat -> nat -> bst -> bst **)

let add_edge u v st =
  add_edge_k u (len st u) v st

(** val add_edge_o : nat option -> nat -> bst -> bst **)

let add_edge_o u v st =
  match u with
  | Some u0 -> add_edge u0 v st
  | None -> st

(** val link_cur : nat -> bst -> bst **)

let link_cur v st =
  add_edge_o st.cur v st

(** val newblock : bst -> bst **)

let newblock st =
  { nb = (S st.nb); sts = st.sts; eds = st.eds; cur = st.cur; loops =
    st.loops; excs = st.excs }

(** val nextblock_from : nat option -> bst -> bst **)

let nextblock_from p st =
  let b = st.nb in
  let st1 = newblock st in
  let st2 = match p with
            | Some u -> add_edge u b st1
            | None -> link_cur b st1
  in
  set_cur (Some b) st2

(** val nextblock : bst -> bst **)

let nextblock st =
  nextblock_from None st

(** val append : lstat -> bst -> bst **)

let append s st =
  match st.cur with
  | Some b ->
    { nb = st.nb; sts = ((b, s) :: st.sts); eds = st.eds; cur = st.cur;
      loops = st.loops; excs = st.excs }
  | None -> st

(** val exc_edge : bst -> bst **)

let exc_edge st =
  match st.cur with
  | Some b ->
    (match st.excs with
     | [] -> st
     | x :: _ -> nextblock (add_edge b x.x_entry st))
  | None -> st

(** val v_ref : nat -> nat -> bst -> bst **)

let v_ref l e st =
  append (LRef (l, e)) st

(** val v_asg : nat -> nat -> bst -> bst **)

let v_asg l e st =
  match st.cur with
  | Some _ -> exc_edge (append (LAsg (l, e)) (exc_edge st))
  | None -> st

(** val v_del : nat -> nat -> bool -> bst -> bst **)

let v_del l e ign st =
  match st.cur with
  | Some _ ->
    exc_edge
      (append (LDel (l, e)) (if ign then st else append (LRef (l, e)) st))
  | None -> st

(** val refs : nref list -> bst -> bst **)

let refs c st =
  fold_left (fun st0 r -> v_ref (fst r) (snd r) st0) c st

(** val asgs : nref list -> bst -> bst **)

let asgs c st =
  fold_left (fun st0 r -> v_asg (fst r) (snd r) st0) c st

(** val has_parents : nat -> bst -> bool **)

let has_parents v st =
  existsb (fun e -> Nat.eqb (snd e) v) st.eds

(** val cur_if_parents : nat -> bst -> bst **)

let cur_if_parents v st =
  set_cur (if has_parents v st then Some v else None) st

(** val push_loop : loopd -> bst -> bst **)

let push_loop d st =
  set_loops (d :: st.loops) st

(** val pop_loop : bst -> bst **)

let pop_loop st =
  set_loops (tl st.loops) st

(** val push_exc : excd -> bst -> bst **)

let push_exc d st =
  set_excs (d :: st.excs) st

(** val pop_exc : bst -> bst **)

let pop_exc st =
  set_excs (tl st.excs) st

(** val push_loop_exc : excd -> bst -> bst **)

let push_loop_exc d st =
  match st.loops with
  | [] -> st
  | l :: r ->
    set_loops ({ l_next = l.l_next; l_loop = l.l_loop; l_excs =
      (d :: l.l_excs) } :: r) st

(** val pop_loop_exc : bst -> bst **)

let pop_loop_exc st =
  match st.loops with
  | [] -> st
  | l :: r ->
    set_loops ({ l_next = l.l_next; l_loop = l.l_loop; l_excs =
      (tl l.l_excs) } :: r) st

(** val chain_edges : nat -> nat -> excd list -> nat -> bst -> bst **)

let rec chain_edges src k fs t st =
  match fs with
  | [] -> add_edge_k src k t st
  | x :: r ->
    (match x.x_fin with
     | Some p ->
       let (fe, o) = p in
       (match o with
        | Some p0 ->
          let (fxb, kx) = p0 in
          chain_edges fxb kx r t (add_edge_k src k fe st)
        | None -> add_edge_k src k fe st)
     | None -> chain_edges src k r t st)

(** val jump_loop_asis : nat -> nat -> excd list -> nat -> bst -> bst **)

let jump_loop_asis src k fs t st =
  match fs with
  | [] -> add_edge_k src k t st
  | x :: _ ->
    (match x.x_fin with
     | Some p ->
       let (fe, fxo) = p in
       let st1 = add_edge_k src k fe st in
       (match fxo with
        | Some p0 -> let (fxb, kx) = p0 in add_edge_k fxb kx t st1
        | None -> st1)
     | None -> add_edge_k src k t st)

(** val first_fin :
    excd list -> ((nat * (nat * nat) option) * excd list) option **)

let rec first_fin = function
| [] -> None
| x :: r -> (match x.x_fin with
             | Some p -> Some (p, r)
             | None -> first_fin r)

(** val jump_ret_asis : nat -> nat -> excd list -> bst -> bst **)

let jump_ret_asis src k fs st =
  match first_fin fs with
  | Some p ->
    let (p0, r) = p in
    let (fe, fxo) = p0 in
    let st1 = add_edge_k src k fe st in
    (match fxo with
     | Some p1 ->
       let (fxb, kx) = p1 in
       let t =
         match first_fin r with
         | Some p2 -> let (p3, _) = p2 in let (fe2, _) = p3 in fe2
         | None -> S O
       in
       add_edge_k fxb kx t st1
     | None -> st1)
  | None -> add_edge_k src k (S O) st

(** val v_break : bool -> bool -> bst -> bst **)

let v_break fx isbrk st =
  match st.loops with
  | [] -> st
  | l :: _ ->
    (match st.cur with
     | Some b ->
       let t = if isbrk then l.l_next else l.l_loop in
       set_cur None
         (if fx
          then chain_edges b (len st b) l.l_excs t st
          else jump_loop_asis b (len st b) l.l_excs t st)
     | None -> st)

(** val v_return : bool -> bst -> bst **)

let v_return fx st =
  match st.cur with
  | Some b ->
    set_cur None
      (if fx
       then chain_edges b (len st b) st.excs (S O) st
       else jump_ret_asis b (len st b) st.excs st)
  | None -> st

(** val v_raise : bst -> bst **)

let v_raise st =
  match st.cur with
  | Some b ->
    set_cur None
      (match st.excs with
       | [] -> st
       | x :: _ -> add_edge b x.x_entry st)
  | None -> st

(** val visit : bool -> stmt -> bst -> bst **)

let rec visit fx s st =
  match s with
  | Ref (l, e) -> v_ref l e st
  | Asg (l, e) -> v_asg l e st
  | Del (l, e, ign) -> v_del l e ign st
  | Seq (a, b) ->
    let st1 = visit fx a st in
    (match st1.cur with
     | Some _ -> visit fx b st1
     | None -> st1)
  | If (c, th, hasel, el) ->
    let n0 = st.nb in
    let st3 = refs c (nextblock (newblock st)) in
    let parent = st3.cur in
    let st6 = link_cur n0 (visit fx th (nextblock st3)) in
    let st7 =
      if hasel
      then link_cur n0 (visit fx el (nextblock_from parent st6))
      else add_edge_o parent n0 st6
    in
    cur_if_parents n0 st7
  | Loop (isfor, c, tg, body, hasel, el) ->
    let c0 = st.nb in
    let n0 = S st.nb in
    let st4 =
      refs c
        (push_loop { l_next = n0; l_loop = c0; l_excs = [] }
          (newblock (nextblock st)))
    in
    let cend = st4.cur in
    let st5 = nextblock st4 in
    let st6 = if isfor then nextblock (asgs tg st5) else st5 in
    let st7 = pop_loop (visit fx body st6) in
    let st8 =
      match st7.cur with
      | Some b ->
        let s1 = add_edge b c0 st7 in if isfor then s1 else add_edge b n0 s1
      | None -> st7
    in
    let st9 =
      if hasel
      then link_cur n0 (visit fx el (nextblock_from cend st8))
      else add_edge_o cend n0 st8
    in
    cur_if_parents n0 st9
  | Try (body, hasel, el, hs) ->
    let n0 = st.nb in
    let e = S (S st.nb) in
    let st4 =
      push_exc { x_entry = e; x_fin = None }
        (newblock (newblock (newblock st)))
    in
    let st6 = nextblock (link_cur e (nextblock st4)) in
    let st7 = pop_exc (visit fx body st6) in
    let st8 =
      match st7.cur with
      | Some _ ->
        link_cur n0 (if hasel then visit fx el (nextblock st7) else st7)
      | None -> st7
    in
    let (e', st9) = visit_h fx hs n0 e st8 in
    let st10 =
      match st9.excs with
      | [] -> st9
      | x :: _ -> add_edge e' x.x_entry st9
    in
    cur_if_parents n0 st10
  | TryFin (body, fexc, fnorm) ->
    let b = st.nb in
    let eP = S st.nb in
    let st2 = set_cur (Some eP) (newblock (nextblock st)) in
    let st2' = if fx then exc_edge st2 else st2 in
    let st3 = visit fx fexc st2' in
    let st4 =
      match st3.cur with
      | Some b0 ->
        (match st3.excs with
         | [] -> st3
         | x :: _ -> add_edge b0 x.x_entry st3)
      | None -> st3
    in
    let fE = st4.nb in
    let st6 = visit fx fnorm (set_cur (Some fE) (newblock st4)) in
    let fexit =
      match st6.cur with
      | Some b0 -> Some (b0, (len st6 b0))
      | None -> None
    in
    let d = { x_entry = eP; x_fin = (Some (fE, fexit)) } in
    let st7 = push_exc d (push_loop_exc d st6) in
    let st8 = nextblock (add_edge b eP (set_cur (Some b) st7)) in
    let st9 = pop_loop_exc (pop_exc (visit fx body st8)) in
    (match st9.cur with
     | Some b0 ->
       let s1 = add_edge b0 fE st9 in
       (match fexit with
        | Some p ->
          let (fxb, k) = p in
          set_cur (Some s1.nb) (add_edge_k fxb k s1.nb (newblock s1))
        | None -> set_cur None s1)
     | None -> st9)
  | Break -> v_break fx true st
  | Continue -> v_break fx false st
  | Return -> v_return fx st
  | Raise -> v_raise st
  | _ -> st

(** val visit_h : bool -> handlers -> nat -> nat -> bst -> nat * bst **)

and visit_h fx hs n0 e st =
  match hs with
  | HNil -> (e, st)
  | HCons (hastg, tl0, te, hb, rest) ->
    let st1 = set_cur (Some e) st in
    let e2 = st1.nb in
    let st4 = nextblock (add_edge_o st1.cur e2 (newblock st1)) in
    let st5 = if hastg then v_asg tl0 te st4 else st4 in
    visit_h fx rest n0 e2 (link_cur n0 (visit fx hb st5))

(** val st_init : nref list -> bst **)

let st_init args =
  let st =
    nextblock { nb = (S (S O)); sts = []; eds = []; cur = (Some O); loops =
      []; excs = [] }
  in
  fold_left (fun st0 r -> append (LAsg ((fst r), (snd r))) st0) args st

(** val build : bool -> nref list -> stmt -> bst **)

let build fx args body =
  link_cur (S O) (visit fx body (st_init args))

(** val block_stats : bst -> nat -> lstat list **)

let block_stats st b =
  rev (map snd (filter (fun p -> Nat.eqb (fst p) b) st.sts))

(** val edges_at_end : bst -> bool **)

let edges_at_end st =
  forallb (fun e -> let (y, _) = e in let (u, k) = y in Nat.eqb k (len st u))
    st.eds

(** val entry_of : lstat -> nat **)

let entry_of = function
| LRef (_, e) -> e
| LAsg (_, e) -> e
| LDel (_, e) -> e

(** val graph_ok : nat -> bst -> bool **)

let graph_ok ne st =
  (&&)
    ((&&)
      ((&&) ((&&) (edges_at_end st) (Nat.eqb (len st O) O))
        (Nat.leb (S O) st.nb))
      (forallb (fun e ->
        let (y, v) = e in
        let (u, _) = y in (&&) (Nat.ltb u st.nb) (Nat.ltb v st.nb)) st.eds))
    (forallb (fun p ->
      (&&) (Nat.ltb (fst p) st.nb) (Nat.ltb (entry_of (snd p)) ne)) st.sts)

(** val reach_step : bst -> nat list -> nat list **)

let reach_step st r =
  fold_left (fun acc e ->
    let (y, v) = e in
    let (u, _) = y in
    if (&&) (existsb (Nat.eqb u) acc) (negb (existsb (Nat.eqb v) acc))
    then v :: acc
    else acc) st.eds r

(** val reach_iter : nat -> bst -> nat list -> nat list **)

let rec reach_iter n0 st r =
  match n0 with
  | O -> r
  | S m -> reach_iter m st (reach_step st r)

(** val closed_b : bst -> nat list -> bool **)

let closed_b st r =
  (&&) (existsb (Nat.eqb O) r)
    (forallb (fun e ->
      let (y, v) = e in
      let (u, _) = y in
      (||) (negb (existsb (Nat.eqb u) r)) (existsb (Nat.eqb v) r)) st.eds)

(** val reachable : bst -> nat -> bool **)

let reachable st =
  let r = reach_iter st.nb st (O :: []) in
  (fun b -> if closed_b st r then existsb (Nat.eqb b) r else true)

(** val to_stat : lstat -> stat **)

let to_stat = function
| LRef (_, e) -> SRef e
| LAsg (_, e) -> SAssign e
| LDel (_, e) -> SDel e

(** val cfg_of : nat -> bst -> cfg **)

let cfg_of ne st =
  let r = reachable st in
  { c_ne = ne; c_closure = (repeat false ne); c_static = (repeat false ne);
  c_blocks =
  (map (fun b ->
    if r b
    then { b_parents =
           (map (fun e -> fst (fst e))
             (filter (fun e -> (&&) (Nat.eqb (snd e) b) (r (fst (fst e))))
               st.eds)); b_stats = (map to_stat (block_stats st b));
           b_bounded = [] }
    else { b_parents = []; b_stats = []; b_bounded = [] }) (seq O st.nb)) }

(** val cls_at : nat -> bst -> result -> nat -> nat -> cls option **)

let cls_at _ st r b k =
  if reachable st b then Some (nth k (nth b r.res_cls []) Bound) else None

(** val wf : bool -> stmt -> bool **)

let rec wf inl = function
| Seq (a, b) -> (&&) (wf inl a) (wf inl b)
| If (_, th, _, el) -> (&&) (wf inl th) (wf inl el)
| Loop (_, _, _, body, _, el) -> (&&) (wf true body) (wf inl el)
| Try (body, _, el, hs) -> (&&) ((&&) (wf inl body) (wf inl el)) (wf_h inl hs)
| TryFin (body, fexc, fnorm) ->
  (&&) ((&&) (wf inl body) (wf inl fexc)) (wf inl fnorm)
| Break -> inl
| Continue -> inl
| _ -> true

(** val wf_h : bool -> handlers -> bool **)

and wf_h inl = function
| HNil -> true
| HCons (_, _, _, hb, rest) -> (&&) (wf inl hb) (wf_h inl rest)

(** val run_cfg : bool -> nat -> nref list -> stmt -> bst * result option **)

let run_cfg fx ne args body =
  let st = build fx args body in (st, (analyse (cfg_of ne st)))
