
val negb : bool -> bool

type nat =
| O
| S of nat

val option_map : ('a1 -> 'a2) -> 'a1 option -> 'a2 option

val fst : ('a1 * 'a2) -> 'a1

val snd : ('a1 * 'a2) -> 'a2

val length : 'a1 list -> nat

val app : 'a1 list -> 'a1 list -> 'a1 list

type comparison =
| Eq
| Lt
| Gt

val compOpp : comparison -> comparison

val add : nat -> nat -> nat

type positive =
| XI of positive
| XO of positive
| XH

type n =
| N0
| Npos of positive

type z =
| Z0
| Zpos of positive
| Zneg of positive

module Pos :
 sig
  type mask =
  | IsNul
  | IsPos of positive
  | IsNeg
 end

module Coq_Pos :
 sig
  val succ : positive -> positive

  val add : positive -> positive -> positive

  val add_carry : positive -> positive -> positive

  val pred_double : positive -> positive

  type mask = Pos.mask =
  | IsNul
  | IsPos of positive
  | IsNeg

  val succ_double_mask : mask -> mask

  val double_mask : mask -> mask

  val double_pred_mask : positive -> mask

  val sub_mask : positive -> positive -> mask

  val sub_mask_carry : positive -> positive -> mask

  val mul : positive -> positive -> positive

  val iter : ('a1 -> 'a1) -> 'a1 -> positive -> 'a1

  val compare_cont : comparison -> positive -> positive -> comparison

  val compare : positive -> positive -> comparison

  val eqb : positive -> positive -> bool

  val iter_op : ('a1 -> 'a1 -> 'a1) -> positive -> 'a1 -> 'a1

  val to_nat : positive -> nat

  val of_succ_nat : nat -> positive
 end

module N :
 sig
  val succ_double : n -> n

  val double : n -> n

  val sub : n -> n -> n

  val compare : n -> n -> comparison

  val leb : n -> n -> bool

  val pos_div_eucl : positive -> n -> n * n
 end

module Z :
 sig
  val double : z -> z

  val succ_double : z -> z

  val pred_double : z -> z

  val pos_sub : positive -> positive -> z

  val add : z -> z -> z

  val opp : z -> z

  val sub : z -> z -> z

  val mul : z -> z -> z

  val pow_pos : z -> positive -> z

  val pow : z -> z -> z

  val compare : z -> z -> comparison

  val leb : z -> z -> bool

  val ltb : z -> z -> bool

  val eqb : z -> z -> bool

  val max : z -> z -> z

  val abs : z -> z

  val to_nat : z -> nat

  val of_nat : nat -> z

  val of_N : n -> z

  val pos_div_eucl : positive -> z -> z * z

  val div_eucl : z -> z -> z * z

  val div : z -> z -> z

  val modulo : z -> z -> z

  val quotrem : z -> z -> z * z

  val quot : z -> z -> z
 end

val rev : 'a1 list -> 'a1 list

val map : ('a1 -> 'a2) -> 'a1 list -> 'a2 list

val combine : 'a1 list -> 'a2 list -> ('a1 * 'a2) list

val seq : nat -> nat -> nat list

val ex_keep : (((((nat * n) * z) * z list) * z option) * positive) * bool

val min_int : z -> bool -> z

val max_int : z -> bool -> z

val in_rangeb : z -> bool -> z -> bool

val wrap : z -> bool -> z -> z

val py_range_len : z -> z -> z -> z

val py_range : z -> z -> z -> z list

type ctl =
| Next
| Break

val py_for : (z -> 'a1 -> ctl * 'a1) -> z list -> 'a1 -> 'a1 * bool

type 's outcome =
| Done of 's * bool
| OutOfFuel
| UB

val c_loop :
  (z -> 'a1 -> ctl * 'a1) -> (z -> bool) -> (z -> z option) -> (z -> z
  option) -> nat -> z -> 'a1 -> 'a1 outcome

val py_reversed_range : z -> z -> z -> z list

val prom_w : z -> z

val prom_s : z -> bool -> bool

val carith : z -> bool -> z -> z option

val cop : z -> bool -> z -> z option

type rel =
| Le
| Lt0
| Ge
| Gt0

val find_relations : bool -> bool -> rel * rel

val rel_offset : rel -> z

val rel_incr : rel -> bool

val rel_test : rel -> z -> z -> bool

val rel_is_gt : rel -> bool

val for_from :
  (z -> 'a1 -> ctl * 'a1) -> z -> bool -> rel -> rel -> z -> z -> z -> nat ->
  'a1 -> 'a1 outcome

val range_loop :
  (z -> 'a1 -> ctl * 'a1) -> z -> bool -> z -> z -> z -> nat -> 'a1 -> 'a1
  outcome

val rev_bound1_const : z -> z -> z -> z

val bind : 'a1 option -> ('a1 -> 'a2 option) -> 'a2 option

val rev_bound1_rt : bool -> z -> bool -> z -> z -> z -> z option

val reversed_loop_from :
  (z -> 'a1 -> ctl * 'a1) -> z -> bool -> z option -> z -> z -> nat -> 'a1 ->
  'a1 outcome

val reversed_loop_const :
  (z -> 'a1 -> ctl * 'a1) -> z -> bool -> z -> z -> z -> nat -> 'a1 -> 'a1
  outcome

val reversed_loop_rt :
  (z -> 'a1 -> ctl * 'a1) -> bool -> z -> bool -> z -> bool -> z -> z -> z ->
  nat -> 'a1 -> 'a1 outcome

val unsigned_desc : bool -> bool -> bool -> bool

val fwd_safe : z -> bool -> z -> z -> z -> bool

val rev_safe : z -> bool -> z -> z -> z -> bool

val enum_body :
  z -> bool -> bool -> ((z * z) -> 'a1 -> ctl * 'a1) -> z -> (z * 'a1) ->
  ctl * (z * 'a1)

val py_for_pairs :
  ((z * z) -> 'a1 -> ctl * 'a1) -> (z * z) list -> 'a1 -> 'a1 * bool

val py_enumerate : z list -> z -> (z * z) list

type lstate = z list * z option

val log_body : z -> z -> lstate -> ctl * lstate

val l0 : lstate

val plog_body : z -> (z * z) -> (z * z) list -> ctl * (z * z) list
