
(** val negb : bool -> bool **)

let negb = function
| true -> false
| false -> true

type nat =
| O
| S of nat

(** val length : 'a1 list -> nat **)

let rec length = function
| [] -> O
| _ :: l' -> S (length l')

(** val app : 'a1 list -> 'a1 list -> 'a1 list **)

let rec app l m =
  match l with
  | [] -> m
  | a :: l1 -> a :: (app l1 m)

type comparison =
| Eq
| Lt
| Gt

(** val compOpp : comparison -> comparison **)

let compOpp = function
| Eq -> Eq
| Lt -> Gt
| Gt -> Lt

(** val add : nat -> nat -> nat **)

let rec add n0 m =
  match n0 with
  | O -> m
  | S p -> S (add p m)

(** val mul : nat -> nat -> nat **)

let rec mul n0 m =
  match n0 with
  | O -> O
  | S p -> add m (mul p m)

type positive =
| XI of positive
| XO of positive
| XH

type n =
| N0
| Npos of positive

type z =
| Z0
| Zpos of positive
| Zneg of positive

module Nat =
 struct
  (** val eqb : nat -> nat -> bool **)

  let rec eqb n0 m =
    match n0 with
    | O -> (match m with
            | O -> true
            | S _ -> false)
    | S n' -> (match m with
               | O -> false
               | S m' -> eqb n' m')

  (** val leb : nat -> nat -> bool **)

  let rec leb n0 m =
    match n0 with
    | O -> true
    | S n' -> (match m with
               | O -> false
               | S m' -> leb n' m')

  (** val ltb : nat -> nat -> bool **)

  let ltb n0 m =
    leb (S n0) m
 end

module Pos =
 struct
  (** val succ : positive -> positive **)

  let rec succ = function
  | XI p -> XO (succ p)
  | XO p -> XI p
  | XH -> XO XH

  (** val add : positive -> positive -> positive **)

  let rec add x y =
    match x with
    | XI p ->
      (match y with
       | XI q -> XO (add_carry p q)
       | XO q -> XI (add p q)
       | XH -> XO (succ p))
    | XO p ->
      (match y with
       | XI q -> XI (add p q)
       | XO q -> XO (add p q)
       | XH -> XI p)
    | XH -> (match y with
             | XI q -> XO (succ q)
             | XO q -> XI q
             | XH -> XO XH)

  (** val add_carry : positive -> positive -> positive **)

  and add_carry x y =
    match x with
    | XI p ->
      (match y with
       | XI q -> XI (add_carry p q)
       | XO q -> XO (add_carry p q)
       | XH -> XI (succ p))
    | XO p ->
      (match y with
       | XI q -> XO (add_carry p q)
       | XO q -> XI (add p q)
       | XH -> XO (succ p))
    | XH ->
      (match y with
       | XI q -> XI (succ q)
       | XO q -> XO (succ q)
       | XH -> XI XH)

  (** val mul : positive -> positive -> positive **)

  let rec mul x y =
    match x with
    | XI p -> add y (XO (mul p y))
    | XO p -> XO (mul p y)
    | XH -> y

  (** val iter : ('a1 -> 'a1) -> 'a1 -> positive -> 'a1 **)

  let rec iter f x = function
  | XI n' -> f (iter f (iter f x n') n')
  | XO n' -> iter f (iter f x n') n'
  | XH -> f x

  (** val compare_cont : comparison -> positive -> positive -> comparison **)

  let rec compare_cont r x y =
    match x with
    | XI p ->
      (match y with
       | XI q -> compare_cont r p q
       | XO q -> compare_cont Gt p q
       | XH -> Gt)
    | XO p ->
      (match y with
       | XI q -> compare_cont Lt p q
       | XO q -> compare_cont r p q
       | XH -> Gt)
    | XH -> (match y with
             | XH -> r
             | _ -> Lt)

  (** val compare : positive -> positive -> comparison **)

  let compare =
    compare_cont Eq
 end

module Z =
 struct
  (** val opp : z -> z **)

  let opp = function
  | Z0 -> Z0
  | Zpos x0 -> Zneg x0
  | Zneg x0 -> Zpos x0

  (** val mul : z -> z -> z **)

  let mul x y =
    match x with
    | Z0 -> Z0
    | Zpos x' ->
      (match y with
       | Z0 -> Z0
       | Zpos y' -> Zpos (Pos.mul x' y')
       | Zneg y' -> Zneg (Pos.mul x' y'))
    | Zneg x' ->
      (match y with
       | Z0 -> Z0
       | Zpos y' -> Zneg (Pos.mul x' y')
       | Zneg y' -> Zpos (Pos.mul x' y'))

  (** val pow_pos : z -> positive -> z **)

  let pow_pos z0 =
    Pos.iter (mul z0) (Zpos XH)

  (** val pow : z -> z -> z **)

  let pow x = function
  | Z0 -> Zpos XH
  | Zpos p -> pow_pos x p
  | Zneg _ -> Z0

  (** val compare : z -> z -> comparison **)

  let compare x y =
    match x with
    | Z0 -> (match y with
             | Z0 -> Eq
             | Zpos _ -> Lt
             | Zneg _ -> Gt)
    | Zpos x' -> (match y with
                  | Zpos y' -> Pos.compare x' y'
                  | _ -> Gt)
    | Zneg x' ->
      (match y with
       | Zneg y' -> compOpp (Pos.compare x' y')
       | _ -> Lt)

  (** val leb : z -> z -> bool **)

  let leb x y =
    match compare x y with
    | Gt -> false
    | _ -> true

  (** val ltb : z -> z -> bool **)

  let ltb x y =
    match compare x y with
    | Lt -> true
    | _ -> false
 end

(** val nth : nat -> 'a1 list -> 'a1 -> 'a1 **)

let rec nth n0 l default =
  match n0 with
  | O -> (match l with
          | [] -> default
          | x :: _ -> x)
  | S m -> (match l with
            | [] -> default
            | _ :: t -> nth m t default)

(** val nth_error : 'a1 list -> nat -> 'a1 option **)

let rec nth_error l = function
| O -> (match l with
        | [] -> None
        | x :: _ -> Some x)
| S n1 -> (match l with
           | [] -> None
           | _ :: l0 -> nth_error l0 n1)

(** val map : ('a1 -> 'a2) -> 'a1 list -> 'a2 list **)

let rec map f = function
| [] -> []
| a :: t -> (f a) :: (map f t)

(** val flat_map : ('a1 -> 'a2 list) -> 'a1 list -> 'a2 list **)

let rec flat_map f = function
| [] -> []
| x :: t -> app (f x) (flat_map f t)

(** val fold_left : ('a1 -> 'a2 -> 'a1) -> 'a2 list -> 'a1 -> 'a1 **)

let rec fold_left f l a0 =
  match l with
  | [] -> a0
  | b :: t -> fold_left f t (f a0 b)

(** val existsb : ('a1 -> bool) -> 'a1 list -> bool **)

let rec existsb f = function
| [] -> false
| a :: l0 -> (||) (f a) (existsb f l0)

(** val forallb : ('a1 -> bool) -> 'a1 list -> bool **)

let rec forallb f = function
| [] -> true
| a :: l0 -> (&&) (f a) (forallb f l0)

(** val filter : ('a1 -> bool) -> 'a1 list -> 'a1 list **)

let rec filter f = function
| [] -> []
| x :: l0 -> if f x then x :: (filter f l0) else filter f l0

(** val firstn : nat -> 'a1 list -> 'a1 list **)

let rec firstn n0 l =
  match n0 with
  | O -> []
  | S n1 -> (match l with
             | [] -> []
             | a :: l0 -> a :: (firstn n1 l0))

(** val skipn : nat -> 'a1 list -> 'a1 list **)

let rec skipn n0 l =
  match n0 with
  | O -> l
  | S n1 -> (match l with
             | [] -> []
             | _ :: l0 -> skipn n1 l0)

(** val seq : nat -> nat -> nat list **)

let rec seq start = function
| O -> []
| S len0 -> start :: (seq (S start) len0)

(** val ex_keep :
    (((((nat * n) * z) * z list) * z option) * positive) * bool **)

let ex_keep =
  ((((((O, N0), Z0), []), None), XH), true)

type ty =
| TObj
| TPyInt
| TPyFloat
| TPyBool
| TPyStr
| TPyList
| TCLong
| TCInt
| TCDouble
| TCBint

(** val ty_idx : ty -> nat **)

let ty_idx = function
| TObj -> O
| TPyInt -> S O
| TPyFloat -> S (S O)
| TPyBool -> S (S (S O))
| TPyStr -> S (S (S (S O)))
| TPyList -> S (S (S (S (S O))))
| TCLong -> S (S (S (S (S (S O)))))
| TCInt -> S (S (S (S (S (S (S O))))))
| TCDouble -> S (S (S (S (S (S (S (S O)))))))
| TCBint -> S (S (S (S (S (S (S (S (S O))))))))

(** val ty_of_idx : nat -> ty **)

let ty_of_idx = function
| O -> TObj
| S n1 ->
  (match n1 with
   | O -> TPyInt
   | S n2 ->
     (match n2 with
      | O -> TPyFloat
      | S n3 ->
        (match n3 with
         | O -> TPyBool
         | S n4 ->
           (match n4 with
            | O -> TPyStr
            | S n5 ->
              (match n5 with
               | O -> TPyList
               | S n6 ->
                 (match n6 with
                  | O -> TCLong
                  | S n7 ->
                    (match n7 with
                     | O -> TCInt
                     | S n8 ->
                       (match n8 with
                        | O -> TCDouble
                        | S n9 -> (match n9 with
                                   | O -> TCBint
                                   | S _ -> TObj)))))))))

(** val all_ty : ty list **)

let all_ty =
  TObj :: (TPyInt :: (TPyFloat :: (TPyBool :: (TPyStr :: (TPyList :: (TCLong :: (TCInt :: (TCDouble :: (TCBint :: [])))))))))

(** val ty_eqb : ty -> ty -> bool **)

let ty_eqb a b =
  Nat.eqb (ty_idx a) (ty_idx b)

(** val is_pyobj : ty -> bool **)

let is_pyobj = function
| TCLong -> false
| TCInt -> false
| TCDouble -> false
| TCBint -> false
| _ -> true

(** val is_builtin : ty -> bool **)

let is_builtin = function
| TObj -> false
| TCLong -> false
| TCInt -> false
| TCDouble -> false
| TCBint -> false
| _ -> true

(** val is_cnum : ty -> bool **)

let is_cnum = function
| TCLong -> true
| TCInt -> true
| TCDouble -> true
| TCBint -> true
| _ -> false

(** val is_cint : ty -> bool **)

let is_cint = function
| TCLong -> true
| TCInt -> true
| TCBint -> true
| _ -> false

(** val is_cintw : ty -> bool **)

let is_cintw = function
| TCLong -> true
| TCInt -> true
| _ -> false

(** val is_floatty : ty -> bool **)

let is_floatty = function
| TPyFloat -> true
| TCDouble -> true
| _ -> false

(** val rank : ty -> nat **)

let rank = function
| TCLong -> S (S (S O))
| TCInt -> S (S O)
| TCDouble -> S (S (S (S (S (S (S O))))))
| TCBint -> S (S O)
| _ -> O

(** val widest : ty -> ty -> ty **)

let widest t1 t2 =
  if ty_eqb t1 t2
  then t1
  else if Nat.ltb (rank t1) (rank t2)
       then t2
       else if Nat.ltb (rank t2) (rank t1) then t1 else t2

(** val builtin_op : ty -> ty -> ty option **)

let builtin_op b t2 =
  match b with
  | TPyInt ->
    if (||) (ty_eqb t2 TPyInt) (is_cint t2)
    then Some TPyInt
    else (match t2 with
          | TPyFloat -> Some TCDouble
          | TCDouble -> Some TCDouble
          | _ -> None)
  | TPyFloat ->
    if is_cnum t2
    then Some (widest TCDouble t2)
    else (match t2 with
          | TPyInt -> Some TCDouble
          | TPyFloat -> Some TCDouble
          | _ -> None)
  | _ -> None

(** val span2 : ty -> ty -> ty **)

let span2 t1 t2 =
  if ty_eqb t1 t2
  then t1
  else (match t1 with
        | TObj -> TObj
        | _ ->
          (match t2 with
           | TObj -> TObj
           | _ ->
             if (&&) (is_cnum t1) (is_cnum t2)
             then widest t1 t2
             else if is_builtin t1
                  then (match builtin_op t1 t2 with
                        | Some r -> r
                        | None -> TObj)
                  else if is_builtin t2
                       then (match builtin_op t2 t1 with
                             | Some r -> r
                             | None -> TObj)
                       else TObj))

(** val find_span : ty -> ty -> ty **)

let find_span t1 t2 =
  if ty_eqb t1 t2
  then if is_floatty t1 then TCDouble else t1
  else (match t1 with
        | TCBint -> TObj
        | _ ->
          (match t2 with
           | TCBint -> TObj
           | _ -> let r = span2 t1 t2 in if is_floatty r then TCDouble else r))

(** val reduce_span : ty list -> ty **)

let reduce_span = function
| [] -> TObj
| t :: r -> fold_left find_span r t

type flags = { fx_float : bool; fx_bint : bool; fx_closure : bool }

(** val safe_span : flags -> ty list -> bool -> ty **)

let safe_span fx types mo =
  let r = reduce_span types in
  if is_pyobj r
  then r
  else (match r with
        | TCLong -> if mo then TPyInt else r
        | TCInt -> if mo then TPyInt else r
        | TCDouble ->
          if (&&) fx.fx_float (negb (forallb is_floatty types))
          then TObj
          else TCDouble
        | TCBint -> if (&&) fx.fx_bint mo then TObj else TCBint
        | _ -> r)

(** val aggr_span : ty list -> ty **)

let aggr_span =
  reduce_span

type imode =
| MSafe
| MAggr
| MOff

(** val span_mode : flags -> imode -> ty list -> bool -> ty **)

let span_mode fx m types mo =
  match m with
  | MSafe -> safe_span fx types mo
  | MAggr -> aggr_span types
  | MOff -> TObj

type binop =
| Add
| Sub
| Mul
| FloorDiv
| Mod
| TrueDiv
| LShift
| RShift
| BAnd
| BOr
| BXor

type unop =
| Neg
| Inv
| Not
| Pos

(** val binop_idx : binop -> nat **)

let binop_idx = function
| Add -> O
| Sub -> S O
| Mul -> S (S O)
| FloorDiv -> S (S (S O))
| Mod -> S (S (S (S O)))
| TrueDiv -> S (S (S (S (S O))))
| LShift -> S (S (S (S (S (S O)))))
| RShift -> S (S (S (S (S (S (S O))))))
| BAnd -> S (S (S (S (S (S (S (S O)))))))
| BOr -> S (S (S (S (S (S (S (S (S O))))))))
| BXor -> S (S (S (S (S (S (S (S (S (S O)))))))))

(** val all_binop : binop list **)

let all_binop =
  Add :: (Sub :: (Mul :: (FloorDiv :: (Mod :: (TrueDiv :: (LShift :: (RShift :: (BAnd :: (BOr :: (BXor :: []))))))))))

(** val unop_idx : unop -> nat **)

let unop_idx = function
| Neg -> O
| Inv -> S O
| Not -> S (S O)
| Pos -> S (S (S O))

(** val all_unop : unop list **)

let all_unop =
  Neg :: (Inv :: (Not :: (Pos :: [])))

(** val is_bitwise : binop -> bool **)

let is_bitwise = function
| BAnd -> true
| BOr -> true
| BXor -> true
| _ -> false

type expr =
| EInt of z
| EFloat
| EBool of bool
| EStr
| ENone
| EName of nat * ty option * nat list
| EBin of binop * expr * expr
| EUn of unop * expr
| ECmp of expr * expr
| ECond of expr * expr * expr
| EBoolOp of expr * expr
| ECall of expr
| EOpaque of ty * expr
| EAsg of nat option * expr
| EDanger of expr
| EInner of expr
| ESeq of expr * expr
| ESkip

type tables = { tb_bin : nat list; tb_un : nat list; tb_cond : nat list;
                tb_bool : nat list }

(** val tb2 : nat list -> nat -> ty -> ty -> ty **)

let tb2 l k t1 t2 =
  ty_of_idx
    (nth
      (add
        (mul
          (add (mul k (S (S (S (S (S (S (S (S (S (S O))))))))))) (ty_idx t1))
          (S (S (S (S (S (S (S (S (S (S O))))))))))) (ty_idx t2)) l O)

(** val tb1 : nat list -> nat -> ty -> ty **)

let tb1 l k t1 =
  ty_of_idx
    (nth (add (mul k (S (S (S (S (S (S (S (S (S (S O))))))))))) (ty_idx t1))
      l O)

(** val bin_ty : tables -> binop -> ty -> ty -> ty **)

let bin_ty t o t1 t2 =
  tb2 t.tb_bin (binop_idx o) t1 t2

(** val un_ty : tables -> unop -> ty -> ty **)

let un_ty t o t1 =
  tb1 t.tb_un (unop_idx o) t1

(** val cond_ty : tables -> ty -> ty -> ty **)

let cond_ty t t1 t2 =
  tb2 t.tb_cond O t1 t2

(** val bool_ty : tables -> ty -> ty -> ty **)

let bool_ty t t1 t2 =
  tb2 t.tb_bool O t1 t2

(** val long_literal : z -> bool **)

let long_literal z0 =
  negb
    ((&&)
      (Z.leb (Z.opp (Z.pow (Zpos (XO XH)) (Zpos (XI (XI (XI (XI XH))))))) z0)
      (Z.ltb z0 (Z.pow (Zpos (XO XH)) (Zpos (XI (XI (XI (XI XH))))))))

(** val name_ty : ty -> bool -> ty option -> ty **)

let name_ty et mo ann =
  if is_pyobj et
  then (match ann with
        | Some t -> if negb ((&&) (is_cint t) mo) then t else et
        | None -> et)
  else et

(** val ety : tables -> (nat -> ty) -> (nat -> bool) -> expr -> ty **)

let rec ety t e mO = function
| EInt z0 -> if long_literal z0 then TPyInt else TCLong
| EFloat -> TCDouble
| EBool _ -> TCBint
| EStr -> TPyStr
| EName (x, ann, _) -> name_ty (e x) (mO x) ann
| EBin (o, a, b) -> bin_ty t o (ety t e mO a) (ety t e mO b)
| EUn (o, a) -> un_ty t o (ety t e mO a)
| ECond (_, a, b) -> cond_ty t (ety t e mO a) (ety t e mO b)
| EBoolOp (a, b) -> bool_ty t (ety t e mO a) (ety t e mO b)
| EOpaque (t0, _) -> t0
| _ -> TObj

(** val mark : flags -> bool -> bool -> expr -> nat list **)

let rec mark fx flag inner = function
| EName (x, _, _) ->
  if (&&) flag ((||) (negb inner) fx.fx_closure) then x :: [] else []
| EBin (o, a, b) ->
  if is_bitwise o
  then app (mark fx flag inner a) (mark fx flag inner b)
  else app (mark fx true inner a) (mark fx true inner b)
| EUn (o, a) ->
  (match o with
   | Neg -> mark fx true inner a
   | _ -> mark fx flag inner a)
| ECmp (a, b) -> app (mark fx false inner a) (mark fx false inner b)
| ECond (c, a, b) ->
  app (mark fx false inner c)
    (app (mark fx false inner a) (mark fx false inner b))
| EBoolOp (a, b) -> app (mark fx false inner a) (mark fx false inner b)
| ECall a -> mark fx flag inner a
| EOpaque (_, a) -> mark fx false inner a
| EAsg (x, rhs) ->
  app
    (match x with
     | Some n0 ->
       (match rhs with
        | EInt z0 ->
          if (&&) (long_literal z0) (negb inner) then n0 :: [] else []
        | _ -> [])
     | None -> []) (mark fx false inner rhs)
| EDanger a -> mark fx true inner a
| EInner a -> mark fx false true a
| ESeq (a, b) -> app (mark fx flag inner a) (mark fx flag inner b)
| _ -> []

(** val memb : nat -> nat list -> bool **)

let rec memb n0 = function
| [] -> false
| x :: r -> (||) (Nat.eqb n0 x) (memb n0 r)

type assign = { a_lhs : nat; a_rhs : expr }

type summary = { s_decl : ty option list; s_assigns : assign list;
                 s_body : expr }

(** val mo_of : flags -> summary -> nat -> bool **)

let mo_of fx s =
  let l = mark fx false false s.s_body in (fun x -> memb x l)

(** val is_none_rhs : expr -> bool **)

let is_none_rhs = function
| ENone -> true
| _ -> false

(** val assigns_of : summary -> nat -> assign list **)

let assigns_of s x =
  filter (fun a -> Nat.eqb a.a_lhs x) s.s_assigns

(** val inferred_types :
    tables -> summary -> (nat -> ty) -> (nat -> bool) -> nat -> ty list **)

let inferred_types t s e mO x =
  let asg = assigns_of s x in
  let nn = filter (fun a -> negb (is_none_rhs a.a_rhs)) asg in
  let tys = map (fun a -> ety t e mO a.a_rhs) nn in
  let has_none = existsb (fun a -> is_none_rhs a.a_rhs) asg in
  let has_py = existsb is_pyobj tys in
  if (&&) has_none (negb has_py) then app tys (TObj :: []) else tys

(** val lookup : ty list -> nat -> ty **)

let lookup d x =
  nth x d TObj

(** val entry_type :
    flags -> imode -> tables -> summary -> ty list -> nat -> ty **)

let entry_type fx m t s d x =
  match nth x s.s_decl None with
  | Some t0 -> t0
  | None ->
    (match m with
     | MOff -> TObj
     | _ ->
       let mO = mo_of fx s in
       (match inferred_types t s (lookup d) mO x with
        | [] -> TObj
        | t0 :: l -> span_mode fx m (t0 :: l) (mO x)))

(** val ty_list_eqb : ty list -> ty list -> bool **)

let rec ty_list_eqb a b =
  match a with
  | [] -> (match b with
           | [] -> true
           | _ :: _ -> false)
  | x :: a' ->
    (match b with
     | [] -> false
     | y :: b' -> (&&) (ty_eqb x y) (ty_list_eqb a' b'))

(** val reinfer_pass :
    flags -> imode -> tables -> summary -> nat -> nat -> ty list -> ty list **)

let rec reinfer_pass fx m t s n0 x d =
  match n0 with
  | O -> d
  | S n' ->
    let t0 = entry_type fx m t s d x in
    let d' = app (firstn x d) (app (t0 :: []) (skipn (S x) d)) in
    reinfer_pass fx m t s n' (S x) d'

(** val reinfer_loop :
    flags -> imode -> tables -> summary -> nat -> ty list -> ty list option **)

let rec reinfer_loop fx m t s fuel d =
  match fuel with
  | O -> None
  | S f ->
    let d' = reinfer_pass fx m t s (length d) O d in
    if ty_list_eqb d d' then Some d else reinfer_loop fx m t s f d'

type kind =
| KInt
| KBool
| KFloat
| KStr
| KNone
| KList
| KOther

(** val kind_idx : kind -> nat **)

let kind_idx = function
| KInt -> O
| KBool -> S O
| KFloat -> S (S O)
| KStr -> S (S (S O))
| KNone -> S (S (S (S O)))
| KList -> S (S (S (S (S O))))
| KOther -> S (S (S (S (S (S O)))))

(** val kind_eqb : kind -> kind -> bool **)

let kind_eqb a b =
  Nat.eqb (kind_idx a) (kind_idx b)

(** val all_kind : kind list **)

let all_kind =
  KInt :: (KBool :: (KFloat :: (KStr :: (KNone :: (KList :: (KOther :: []))))))

(** val kinds : ty -> kind list **)

let kinds = function
| TObj -> all_kind
| TPyInt -> KInt :: (KBool :: (KNone :: []))
| TPyFloat -> KFloat :: (KNone :: [])
| TPyBool -> KBool :: (KNone :: [])
| TPyStr -> KStr :: (KNone :: [])
| TPyList -> KList :: (KNone :: [])
| TCDouble -> KFloat :: []
| TCBint -> KBool :: []
| _ -> KInt :: []

(** val kmem : kind -> kind list -> bool **)

let rec kmem k = function
| [] -> false
| x :: r -> (||) (kind_eqb k x) (kmem k r)

(** val kinds_sub : ty -> ty -> bool **)

let kinds_sub t1 t2 =
  forallb (fun k -> kmem k (kinds t2)) (kinds t1)

(** val tsub : ty -> ty -> bool **)

let tsub t1 t2 =
  (&&) (kinds_sub t1 t2)
    (match t2 with
     | TCLong -> is_cintw t1
     | TCInt -> ty_eqb t1 TCInt
     | _ -> true)

(** val aty : flags -> tables -> summary -> ty list -> nat -> ty **)

let aty fx t s d =
  let mO = mo_of fx s in
  (fun a ->
  match nth_error s.s_assigns a with
  | Some asg -> ety t (lookup d) mO asg.a_rhs
  | None -> TObj)

(** val cf_ok : summary -> nat -> nat list -> bool **)

let cf_ok s x cf =
  forallb (fun a ->
    match nth_error s.s_assigns a with
    | Some asg -> Nat.eqb asg.a_lhs x
    | None -> false) cf

(** val ann_ok : flags -> tables -> summary -> ty list -> expr -> bool **)

let rec ann_ok fx t s d = function
| EName (x, ann, cf) ->
  (&&) (cf_ok s x cf)
    (match ann with
     | Some t0 ->
       forallb (fun a ->
         match nth_error s.s_assigns a with
         | Some asg ->
           (||) ((&&) (is_none_rhs asg.a_rhs) (is_pyobj t0))
             (tsub (aty fx t s d a) t0)
         | None -> false) cf
     | None -> true)
| EBin (_, a, b) -> (&&) (ann_ok fx t s d a) (ann_ok fx t s d b)
| EUn (_, a) -> ann_ok fx t s d a
| ECmp (a, b) -> (&&) (ann_ok fx t s d a) (ann_ok fx t s d b)
| ECond (c, a, b) ->
  (&&) ((&&) (ann_ok fx t s d c) (ann_ok fx t s d a)) (ann_ok fx t s d b)
| EBoolOp (a, b) -> (&&) (ann_ok fx t s d a) (ann_ok fx t s d b)
| ECall a -> ann_ok fx t s d a
| EOpaque (_, a) -> ann_ok fx t s d a
| EAsg (_, a) -> ann_ok fx t s d a
| EDanger a -> ann_ok fx t s d a
| EInner a -> ann_ok fx t s d a
| ESeq (a, b) -> (&&) (ann_ok fx t s d a) (ann_ok fx t s d b)
| _ -> true

(** val stable_entry :
    flags -> tables -> summary -> ty list -> imode -> nat -> bool **)

let stable_entry fx t s d m x =
  let t0 = lookup d x in
  (match nth x s.s_decl None with
   | Some d0 -> ty_eqb t0 d0
   | None -> (||) (ty_eqb t0 TObj) (ty_eqb t0 (entry_type fx m t s d x)))

(** val stable : flags -> tables -> summary -> ty list -> imode -> bool **)

let stable fx t s d m =
  (&&)
    ((&&) (Nat.eqb (length d) (length s.s_decl))
      (forallb (stable_entry fx t s d m) (seq O (length d))))
    (forallb (fun a -> ann_ok fx t s d a.a_rhs) s.s_assigns)

(** val first_pass :
    flags -> imode -> tables -> summary -> ty list -> ty list **)

let first_pass fx m t s d0 =
  map (fun x ->
    match nth x s.s_decl None with
    | Some t0 -> t0
    | None ->
      (match m with
       | MOff -> TObj
       | _ ->
         (match inferred_types t s (fun _ -> TObj) (fun _ -> false) x with
          | [] -> TObj
          | t0 :: l -> span_mode fx m (t0 :: l) (mo_of fx s x))))
    (seq O (length d0))

type infer_result =
| Inferred of ty list
| NoFixpoint
| Unstable of ty list

(** val infer :
    flags -> imode -> tables -> summary -> ty list -> infer_result **)

let infer fx m t s d0 =
  match reinfer_loop fx m t s (S (S (add (length d0) (length s.s_assigns))))
          (first_pass fx m t s d0) with
  | Some d -> if stable fx t s d m then Inferred d else Unstable d
  | None -> NoFixpoint

type value =
| VInt of z
| VBool of bool
| VFloat
| VStr
| VNone
| VList
| VOther

(** val kind_of : value -> kind **)

let kind_of = function
| VInt _ -> KInt
| VBool _ -> KBool
| VFloat -> KFloat
| VStr -> KStr
| VNone -> KNone
| VList -> KList
| VOther -> KOther

(** val in64 : z -> bool **)

let in64 z0 =
  (&&)
    (Z.leb (Z.opp (Z.pow (Zpos (XO XH)) (Zpos (XI (XI (XI (XI (XI XH))))))))
      z0) (Z.ltb z0 (Z.pow (Zpos (XO XH)) (Zpos (XI (XI (XI (XI (XI XH))))))))

(** val in32 : z -> bool **)

let in32 z0 =
  (&&)
    (Z.leb (Z.opp (Z.pow (Zpos (XO XH)) (Zpos (XI (XI (XI (XI XH))))))) z0)
    (Z.ltb z0 (Z.pow (Zpos (XO XH)) (Zpos (XI (XI (XI (XI XH)))))))

(** val ty_ok : ty -> value -> bool **)

let ty_ok t v =
  (&&) (kmem (kind_of v) (kinds t))
    (match t with
     | TCLong -> (match v with
                  | VInt z0 -> in64 z0
                  | _ -> true)
     | TCInt -> (match v with
                 | VInt z0 -> in32 z0
                 | _ -> true)
     | _ -> true)

(** val is_intlike : kind -> bool **)

let is_intlike = function
| KInt -> true
| KBool -> true
| _ -> false

(** val is_numk : kind -> bool **)

let is_numk = function
| KInt -> true
| KBool -> true
| KFloat -> true
| _ -> false

(** val kbin : binop -> kind -> kind -> kind option **)

let kbin o k1 k2 =
  match o with
  | TrueDiv -> if (&&) (is_numk k1) (is_numk k2) then Some KFloat else None
  | LShift -> if (&&) (is_intlike k1) (is_intlike k2) then Some KInt else None
  | RShift -> if (&&) (is_intlike k1) (is_intlike k2) then Some KInt else None
  | BAnd ->
    (match k1 with
     | KBool ->
       (match k2 with
        | KBool -> Some KBool
        | _ ->
          if (&&) (is_intlike k1) (is_intlike k2) then Some KInt else None)
     | _ -> if (&&) (is_intlike k1) (is_intlike k2) then Some KInt else None)
  | BOr ->
    (match k1 with
     | KBool ->
       (match k2 with
        | KBool -> Some KBool
        | _ ->
          if (&&) (is_intlike k1) (is_intlike k2) then Some KInt else None)
     | _ -> if (&&) (is_intlike k1) (is_intlike k2) then Some KInt else None)
  | BXor ->
    (match k1 with
     | KBool ->
       (match k2 with
        | KBool -> Some KBool
        | _ ->
          if (&&) (is_intlike k1) (is_intlike k2) then Some KInt else None)
     | _ -> if (&&) (is_intlike k1) (is_intlike k2) then Some KInt else None)
  | _ ->
    if (&&) (is_intlike k1) (is_intlike k2)
    then Some KInt
    else if (&&) (is_numk k1) (is_numk k2)
         then Some KFloat
         else (match o with
               | Add ->
                 (match k1 with
                  | KStr -> (match k2 with
                             | KStr -> Some KStr
                             | _ -> None)
                  | KList -> (match k2 with
                              | KList -> Some KList
                              | _ -> None)
                  | _ -> None)
               | Mul ->
                 (match k1 with
                  | KInt ->
                    (match k2 with
                     | KStr -> Some KStr
                     | KList -> Some KList
                     | _ -> None)
                  | KBool ->
                    (match k2 with
                     | KStr -> Some KStr
                     | KList -> Some KList
                     | _ -> None)
                  | KStr ->
                    (match k2 with
                     | KInt -> Some KStr
                     | KBool -> Some KStr
                     | _ -> None)
                  | KList ->
                    (match k2 with
                     | KInt -> Some KList
                     | KBool -> Some KList
                     | _ -> None)
                  | _ -> None)
               | Mod -> (match k1 with
                         | KStr -> Some KStr
                         | _ -> None)
               | _ -> None)

(** val kun : unop -> kind -> kind option **)

let kun o k =
  match o with
  | Inv -> if is_intlike k then Some KInt else None
  | Not -> Some KBool
  | _ ->
    if is_intlike k
    then Some KInt
    else (match k with
          | KFloat -> Some KFloat
          | _ -> None)

(** val bin_entry_ok : tables -> binop -> ty -> ty -> bool **)

let bin_entry_ok t o t1 t2 =
  let r = bin_ty t o t1 t2 in
  (&&) (negb (is_cintw r))
    (forallb (fun k1 ->
      forallb (fun k2 ->
        match kbin o k1 k2 with
        | Some k -> kmem k (kinds r)
        | None -> true) (kinds t2)) (kinds t1))

(** val un_entry_ok : tables -> unop -> ty -> bool **)

let un_entry_ok t o t1 =
  let r = un_ty t o t1 in
  (&&) (negb (is_cintw r))
    (forallb (fun k1 ->
      match kun o k1 with
      | Some k -> kmem k (kinds r)
      | None -> true) (kinds t1))

(** val cond_entry_ok : tables -> ty -> ty -> bool **)

let cond_entry_ok t t1 t2 =
  (&&) (tsub t1 (cond_ty t t1 t2)) (tsub t2 (cond_ty t t1 t2))

(** val bool_entry_ok : tables -> ty -> ty -> bool **)

let bool_entry_ok t t1 t2 =
  (&&) (tsub t1 (bool_ty t t1 t2)) (tsub t2 (bool_ty t t1 t2))

(** val expr_ok : tables -> (nat -> ty) -> (nat -> bool) -> expr -> bool **)

let rec expr_ok t e mO = function
| EBin (o, a, b) ->
  (&&) ((&&) (expr_ok t e mO a) (expr_ok t e mO b))
    (bin_entry_ok t o (ety t e mO a) (ety t e mO b))
| EUn (o, a) -> (&&) (expr_ok t e mO a) (un_entry_ok t o (ety t e mO a))
| ECond (_, a, b) ->
  (&&) ((&&) (expr_ok t e mO a) (expr_ok t e mO b))
    (cond_entry_ok t (ety t e mO a) (ety t e mO b))
| EBoolOp (a, b) ->
  (&&) ((&&) (expr_ok t e mO a) (expr_ok t e mO b))
    (bool_entry_ok t (ety t e mO a) (ety t e mO b))
| _ -> true

(** val bad_bin : tables -> ((nat * nat) * nat) list **)

let bad_bin t =
  flat_map (fun o ->
    flat_map (fun t1 ->
      flat_map (fun t2 ->
        if bin_entry_ok t o t1 t2
        then []
        else (((binop_idx o), (ty_idx t1)), (ty_idx t2)) :: []) all_ty) all_ty)
    all_binop

(** val bad_un : tables -> (nat * nat) list **)

let bad_un t =
  flat_map (fun o ->
    flat_map (fun t1 ->
      if un_entry_ok t o t1 then [] else ((unop_idx o), (ty_idx t1)) :: [])
      all_ty) all_unop

(** val bad_cond : tables -> (nat * nat) list **)

let bad_cond t =
  flat_map (fun t1 ->
    flat_map (fun t2 ->
      if cond_entry_ok t t1 t2 then [] else ((ty_idx t1), (ty_idx t2)) :: [])
      all_ty) all_ty

(** val bad_bool : tables -> (nat * nat) list **)

let bad_bool t =
  flat_map (fun t1 ->
    flat_map (fun t2 ->
      if bool_entry_ok t t1 t2 then [] else ((ty_idx t1), (ty_idx t2)) :: [])
      all_ty) all_ty

(** val gen_tables : tables **)

let gen_tables =
  { tb_bin =
    (O :: (O :: (O :: (O :: (O :: (O :: (O :: (O :: (O :: (O :: (O :: ((S
    O) :: ((S (S (S (S (S (S (S (S O)))))))) :: (O :: (O :: (O :: ((S
    O) :: ((S O) :: ((S (S (S (S (S (S (S (S O)))))))) :: ((S O) :: (O :: ((S
    (S (S (S (S (S (S (S O)))))))) :: ((S (S O)) :: (O :: (O :: (O :: ((S (S
    (S (S (S (S (S (S O)))))))) :: ((S (S (S (S (S (S (S (S O)))))))) :: ((S
    (S (S (S (S (S (S (S O)))))))) :: ((S (S (S (S (S (S (S (S
    O)))))))) :: (O :: (O :: (O :: ((S (S (S
    O))) :: (O :: (O :: (O :: (O :: (O :: (O :: (O :: (O :: (O :: (O :: ((S
    (S (S (S
    O)))) :: (O :: (O :: (O :: (O :: (O :: (O :: (O :: (O :: (O :: (O :: ((S
    (S (S (S (S O))))) :: (O :: (O :: (O :: (O :: (O :: ((S O) :: ((S (S (S
    (S (S (S (S (S O)))))))) :: (O :: (O :: (O :: ((S (S (S (S (S (S
    O)))))) :: ((S (S (S (S (S (S O)))))) :: ((S (S (S (S (S (S (S (S
    O)))))))) :: ((S (S (S (S (S (S O)))))) :: (O :: ((S O) :: ((S (S (S (S
    (S (S (S (S O)))))))) :: (O :: (O :: (O :: ((S (S (S (S (S (S
    O)))))) :: ((S (S (S (S (S (S (S O))))))) :: ((S (S (S (S (S (S (S (S
    O)))))))) :: ((S (S (S (S (S (S (S O))))))) :: (O :: ((S (S (S (S (S (S
    (S (S O)))))))) :: ((S (S (S (S (S (S (S (S
    O)))))))) :: (O :: (O :: (O :: ((S (S (S (S (S (S (S (S O)))))))) :: ((S
    (S (S (S (S (S (S (S O)))))))) :: ((S (S (S (S (S (S (S (S
    O)))))))) :: ((S (S (S (S (S (S (S (S O)))))))) :: (O :: ((S O) :: ((S (S
    (S (S (S (S (S (S O)))))))) :: (O :: (O :: (O :: ((S (S (S (S (S (S
    O)))))) :: ((S (S (S (S (S (S (S O))))))) :: ((S (S (S (S (S (S (S (S
    O)))))))) :: ((S (S (S (S (S (S (S
    O))))))) :: (O :: (O :: (O :: (O :: (O :: (O :: (O :: (O :: (O :: (O :: (O :: ((S
    O) :: ((S (S (S (S (S (S (S (S O)))))))) :: (O :: (O :: (O :: ((S
    O) :: ((S O) :: ((S (S (S (S (S (S (S (S O)))))))) :: ((S O) :: (O :: ((S
    (S (S (S (S (S (S (S O)))))))) :: ((S (S (S (S (S (S (S (S
    O)))))))) :: (O :: (O :: (O :: ((S (S (S (S (S (S (S (S O)))))))) :: ((S
    (S (S (S (S (S (S (S O)))))))) :: ((S (S (S (S (S (S (S (S
    O)))))))) :: ((S (S (S (S (S (S (S (S
    O)))))))) :: (O :: (O :: (O :: (O :: (O :: (O :: (O :: (O :: (O :: (O :: (O :: (O :: (O :: (O :: (O :: (O :: (O :: (O :: (O :: (O :: (O :: (O :: (O :: (O :: (O :: (O :: (O :: (O :: (O :: (O :: (O :: ((S
    O) :: ((S (S (S (S (S (S (S (S O)))))))) :: (O :: (O :: (O :: ((S (S (S
    (S (S (S O)))))) :: ((S (S (S (S (S (S O)))))) :: ((S (S (S (S (S (S (S
    (S O)))))))) :: ((S (S (S (S (S (S O)))))) :: (O :: ((S O) :: ((S (S (S
    (S (S (S (S (S O)))))))) :: (O :: (O :: (O :: ((S (S (S (S (S (S
    O)))))) :: ((S (S (S (S (S (S (S O))))))) :: ((S (S (S (S (S (S (S (S
    O)))))))) :: ((S (S (S (S (S (S (S O))))))) :: (O :: ((S (S (S (S (S (S
    (S (S O)))))))) :: ((S (S (S (S (S (S (S (S
    O)))))))) :: (O :: (O :: (O :: ((S (S (S (S (S (S (S (S O)))))))) :: ((S
    (S (S (S (S (S (S (S O)))))))) :: ((S (S (S (S (S (S (S (S
    O)))))))) :: ((S (S (S (S (S (S (S (S O)))))))) :: (O :: ((S O) :: ((S (S
    (S (S (S (S (S (S O)))))))) :: (O :: (O :: (O :: ((S (S (S (S (S (S
    O)))))) :: ((S (S (S (S (S (S (S O))))))) :: ((S (S (S (S (S (S (S (S
    O)))))))) :: ((S (S (S (S (S (S (S
    O))))))) :: (O :: (O :: (O :: (O :: (O :: (O :: (O :: (O :: (O :: (O :: (O :: ((S
    O) :: ((S (S (S (S (S (S (S (S O)))))))) :: (O :: ((S (S (S (S
    O)))) :: ((S (S (S (S (S O))))) :: ((S O) :: ((S O) :: ((S (S (S (S (S (S
    (S (S O)))))))) :: ((S O) :: (O :: ((S (S (S (S (S (S (S (S
    O)))))))) :: ((S (S O)) :: (O :: ((S (S (S (S O)))) :: ((S (S (S (S (S
    O))))) :: ((S (S O)) :: ((S (S O)) :: ((S (S (S (S (S (S (S (S
    O)))))))) :: ((S (S O)) :: (O :: (O :: (O :: ((S (S (S O))) :: ((S (S (S
    (S O)))) :: ((S (S (S (S (S O))))) :: ((S (S (S O))) :: ((S (S (S
    O))) :: (O :: ((S (S (S O))) :: (O :: ((S (S (S (S O)))) :: ((S (S (S (S
    O)))) :: ((S (S (S (S O)))) :: ((S (S (S (S O)))) :: ((S (S (S (S
    O)))) :: ((S (S (S (S O)))) :: ((S (S (S (S O)))) :: (O :: ((S (S (S (S
    O)))) :: (O :: ((S (S (S (S (S O))))) :: ((S (S (S (S (S O))))) :: ((S (S
    (S (S (S O))))) :: ((S (S (S (S (S O))))) :: ((S (S (S (S (S
    O))))) :: ((S (S (S (S (S O))))) :: ((S (S (S (S (S O))))) :: (O :: ((S
    (S (S (S (S O))))) :: (O :: ((S O) :: ((S (S O)) :: ((S (S (S O))) :: ((S
    (S (S (S O)))) :: ((S (S (S (S (S O))))) :: ((S (S (S (S (S (S
    O)))))) :: ((S (S (S (S (S (S O)))))) :: ((S (S (S (S (S (S (S (S
    O)))))))) :: ((S (S (S (S (S (S O)))))) :: (O :: ((S O) :: ((S (S
    O)) :: ((S (S (S O))) :: ((S (S (S (S O)))) :: ((S (S (S (S (S
    O))))) :: ((S (S (S (S (S (S O)))))) :: ((S (S (S (S (S (S (S
    O))))))) :: ((S (S (S (S (S (S (S (S O)))))))) :: ((S (S (S (S (S (S (S
    O))))))) :: (O :: ((S (S (S (S (S (S (S (S O)))))))) :: ((S (S (S (S (S
    (S (S (S O)))))))) :: (O :: (O :: (O :: ((S (S (S (S (S (S (S (S
    O)))))))) :: ((S (S (S (S (S (S (S (S O)))))))) :: ((S (S (S (S (S (S (S
    (S O)))))))) :: ((S (S (S (S (S (S (S (S O)))))))) :: (O :: ((S O) :: ((S
    (S O)) :: ((S (S (S O))) :: ((S (S (S (S O)))) :: ((S (S (S (S (S
    O))))) :: ((S (S (S (S (S (S O)))))) :: ((S (S (S (S (S (S (S
    O))))))) :: ((S (S (S (S (S (S (S (S O)))))))) :: ((S (S (S (S (S (S (S
    O))))))) :: (O :: (O :: (O :: (O :: (O :: (O :: (O :: (O :: (O :: (O :: (O :: ((S
    O) :: ((S (S (S (S (S (S (S (S O)))))))) :: (O :: (O :: (O :: ((S
    O) :: ((S O) :: ((S (S (S (S (S (S (S (S O)))))))) :: ((S O) :: (O :: ((S
    (S (S (S (S (S (S (S O)))))))) :: ((S (S (S (S (S (S (S (S
    O)))))))) :: (O :: (O :: (O :: ((S (S (S (S (S (S (S (S O)))))))) :: ((S
    (S (S (S (S (S (S (S O)))))))) :: ((S (S (S (S (S (S (S (S
    O)))))))) :: ((S (S (S (S (S (S (S (S
    O)))))))) :: (O :: (O :: (O :: (O :: (O :: (O :: (O :: (O :: (O :: (O :: (O :: (O :: (O :: (O :: (O :: (O :: (O :: (O :: (O :: (O :: (O :: (O :: (O :: (O :: (O :: (O :: (O :: (O :: (O :: (O :: (O :: ((S
    O) :: ((S (S (S (S (S (S (S (S O)))))))) :: (O :: (O :: (O :: ((S (S (S
    (S (S (S O)))))) :: ((S (S (S (S (S (S O)))))) :: ((S (S (S (S (S (S (S
    (S O)))))))) :: ((S (S (S (S (S (S O)))))) :: (O :: ((S O) :: ((S (S (S
    (S (S (S (S (S O)))))))) :: (O :: (O :: (O :: ((S (S (S (S (S (S
    O)))))) :: ((S (S (S (S (S (S (S O))))))) :: ((S (S (S (S (S (S (S (S
    O)))))))) :: ((S (S (S (S (S (S (S O))))))) :: (O :: ((S (S (S (S (S (S
    (S (S O)))))))) :: ((S (S (S (S (S (S (S (S
    O)))))))) :: (O :: (O :: (O :: ((S (S (S (S (S (S (S (S O)))))))) :: ((S
    (S (S (S (S (S (S (S O)))))))) :: ((S (S (S (S (S (S (S (S
    O)))))))) :: ((S (S (S (S (S (S (S (S O)))))))) :: (O :: ((S O) :: ((S (S
    (S (S (S (S (S (S O)))))))) :: (O :: (O :: (O :: ((S (S (S (S (S (S
    O)))))) :: ((S (S (S (S (S (S (S O))))))) :: ((S (S (S (S (S (S (S (S
    O)))))))) :: ((S (S (S (S (S (S (S
    O))))))) :: (O :: (O :: (O :: (O :: (O :: (O :: (O :: (O :: (O :: (O :: (O :: ((S
    O) :: ((S (S (S (S (S (S (S (S O)))))))) :: (O :: (O :: (O :: ((S
    O) :: ((S O) :: ((S (S (S (S (S (S (S (S O)))))))) :: ((S O) :: (O :: ((S
    (S (S (S (S (S (S (S O)))))))) :: ((S (S O)) :: (O :: (O :: (O :: ((S (S
    (S (S (S (S (S (S O)))))))) :: ((S (S (S (S (S (S (S (S O)))))))) :: ((S
    (S (S (S (S (S (S (S O)))))))) :: ((S (S (S (S (S (S (S (S
    O)))))))) :: (O :: (O :: (O :: ((S (S (S
    O))) :: (O :: (O :: (O :: (O :: (O :: (O :: (O :: ((S (S (S (S
    O)))) :: ((S (S (S (S O)))) :: ((S (S (S (S O)))) :: ((S (S (S (S
    O)))) :: ((S (S (S (S O)))) :: ((S (S (S (S O)))) :: ((S (S (S (S
    O)))) :: ((S (S (S (S O)))) :: ((S (S (S (S
    O)))) :: (O :: (O :: (O :: (O :: (O :: ((S (S (S (S (S
    O))))) :: (O :: (O :: (O :: (O :: (O :: ((S O) :: ((S (S (S (S (S (S (S
    (S O)))))))) :: (O :: (O :: (O :: ((S (S (S (S (S (S O)))))) :: ((S (S (S
    (S (S (S O)))))) :: ((S (S (S (S (S (S (S (S O)))))))) :: ((S (S (S (S (S
    (S O)))))) :: (O :: ((S O) :: ((S (S (S (S (S (S (S (S
    O)))))))) :: (O :: (O :: (O :: ((S (S (S (S (S (S O)))))) :: ((S (S (S (S
    (S (S (S O))))))) :: ((S (S (S (S (S (S (S (S O)))))))) :: ((S (S (S (S
    (S (S (S O))))))) :: (O :: ((S (S (S (S (S (S (S (S O)))))))) :: ((S (S
    (S (S (S (S (S (S O)))))))) :: (O :: (O :: (O :: ((S (S (S (S (S (S (S (S
    O)))))))) :: ((S (S (S (S (S (S (S (S O)))))))) :: ((S (S (S (S (S (S (S
    (S O)))))))) :: ((S (S (S (S (S (S (S (S O)))))))) :: (O :: ((S O) :: ((S
    (S (S (S (S (S (S (S O)))))))) :: (O :: (O :: (O :: ((S (S (S (S (S (S
    O)))))) :: ((S (S (S (S (S (S (S O))))))) :: ((S (S (S (S (S (S (S (S
    O)))))))) :: ((S (S (S (S (S (S (S
    O))))))) :: (O :: (O :: (O :: (O :: (O :: (O :: (O :: (O :: (O :: (O :: (O :: ((S
    (S (S (S (S (S (S (S O)))))))) :: ((S (S (S (S (S (S (S (S
    O)))))))) :: (O :: (O :: (O :: ((S (S (S (S (S (S (S (S O)))))))) :: ((S
    (S (S (S (S (S (S (S O)))))))) :: ((S (S (S (S (S (S (S (S
    O)))))))) :: ((S (S (S (S (S (S (S (S O)))))))) :: (O :: ((S (S (S (S (S
    (S (S (S O)))))))) :: ((S (S (S (S (S (S (S (S
    O)))))))) :: (O :: (O :: (O :: ((S (S (S (S (S (S (S (S O)))))))) :: ((S
    (S (S (S (S (S (S (S O)))))))) :: ((S (S (S (S (S (S (S (S
    O)))))))) :: ((S (S (S (S (S (S (S (S
    O)))))))) :: (O :: (O :: (O :: (O :: (O :: (O :: (O :: (O :: (O :: (O :: (O :: (O :: (O :: (O :: (O :: (O :: (O :: (O :: (O :: (O :: (O :: (O :: (O :: (O :: (O :: (O :: (O :: (O :: (O :: (O :: (O :: ((S
    (S (S (S (S (S (S (S O)))))))) :: ((S (S (S (S (S (S (S (S
    O)))))))) :: (O :: (O :: (O :: ((S (S (S (S (S (S (S (S O)))))))) :: ((S
    (S (S (S (S (S (S (S O)))))))) :: ((S (S (S (S (S (S (S (S
    O)))))))) :: ((S (S (S (S (S (S (S (S O)))))))) :: (O :: ((S (S (S (S (S
    (S (S (S O)))))))) :: ((S (S (S (S (S (S (S (S
    O)))))))) :: (O :: (O :: (O :: ((S (S (S (S (S (S (S (S O)))))))) :: ((S
    (S (S (S (S (S (S (S O)))))))) :: ((S (S (S (S (S (S (S (S
    O)))))))) :: ((S (S (S (S (S (S (S (S O)))))))) :: (O :: ((S (S (S (S (S
    (S (S (S O)))))))) :: ((S (S (S (S (S (S (S (S
    O)))))))) :: (O :: (O :: (O :: ((S (S (S (S (S (S (S (S O)))))))) :: ((S
    (S (S (S (S (S (S (S O)))))))) :: ((S (S (S (S (S (S (S (S
    O)))))))) :: ((S (S (S (S (S (S (S (S O)))))))) :: (O :: ((S (S (S (S (S
    (S (S (S O)))))))) :: ((S (S (S (S (S (S (S (S
    O)))))))) :: (O :: (O :: (O :: ((S (S (S (S (S (S (S (S O)))))))) :: ((S
    (S (S (S (S (S (S (S O)))))))) :: ((S (S (S (S (S (S (S (S
    O)))))))) :: ((S (S (S (S (S (S (S (S
    O)))))))) :: (O :: (O :: (O :: (O :: (O :: (O :: (O :: (O :: (O :: (O :: (O :: ((S
    O) :: ((S (S (S (S (S (S (S (S O)))))))) :: (O :: (O :: (O :: ((S
    O) :: ((S O) :: ((S (S (S (S (S (S (S (S O)))))))) :: ((S O) :: (O :: ((S
    (S (S (S (S (S (S (S O)))))))) :: ((S (S (S (S (S (S (S (S
    O)))))))) :: (O :: (O :: (O :: ((S (S (S (S (S (S (S (S O)))))))) :: ((S
    (S (S (S (S (S (S (S O)))))))) :: ((S (S (S (S (S (S (S (S
    O)))))))) :: ((S (S (S (S (S (S (S (S
    O)))))))) :: (O :: (O :: (O :: (O :: (O :: (O :: (O :: (O :: (O :: (O :: (O :: (O :: (O :: (O :: (O :: (O :: (O :: (O :: (O :: (O :: (O :: (O :: (O :: (O :: (O :: (O :: (O :: (O :: (O :: (O :: (O :: ((S
    O) :: ((S (S (S (S (S (S (S (S O)))))))) :: (O :: (O :: (O :: ((S (S (S
    (S (S (S O)))))) :: ((S (S (S (S (S (S O)))))) :: ((S (S (S (S (S (S (S
    (S (S (S (S (S (S (S (S (S (S (S (S (S (S (S (S (S (S (S (S (S (S (S (S
    (S (S (S (S (S (S (S (S (S (S (S (S (S (S (S (S (S (S (S (S (S (S (S (S
    (S (S (S (S (S (S (S (S (S (S (S (S (S (S (S (S (S (S (S (S (S (S (S (S
    (S (S (S (S (S (S (S (S (S (S (S (S (S (S (S (S (S (S (S (S (S (S (S (S
    (S (S (S (S (S (S (S (S (S (S (S (S (S (S (S (S (S (S (S (S (S (S (S (S
    (S (S (S (S (S (S (S (S (S (S (S (S (S (S (S (S (S (S (S (S (S (S (S (S
    (S (S (S (S (S (S (S (S (S (S (S (S (S (S (S (S (S (S (S (S (S (S (S (S
    (S (S (S (S (S (S (S (S (S (S (S (S (S (S (S (S (S (S (S (S (S (S (S (S
    (S (S (S (S (S (S (S (S (S (S (S (S (S (S (S (S (S (S (S (S (S (S (S (S
    (S (S (S (S (S (S (S (S (S (S (S (S (S (S (S (S (S (S (S (S (S (S (S (S
    (S (S (S (S (S (S (S (S
    O))))))))))))))))))))))))))))))))))))))))))))))))))))))))))))))))))))))))))))))))))))))))))))))))))))))))))))))))))))))))))))))))))))))))))))))))))))))))))))))))))))))))))))))))))))))))))))))))))))))))))))))))))))))))))))))))))))))))))))))))))))))))))))))) :: ((S
    (S (S (S (S (S O)))))) :: (O :: ((S O) :: ((S (S (S (S (S (S (S (S
    O)))))))) :: (O :: (O :: (O :: ((S (S (S (S (S (S O)))))) :: ((S (S (S (S
    (S (S (S O))))))) :: ((S (S (S (S (S (S (S (S (S (S (S (S (S (S (S (S (S
    (S (S (S (S (S (S (S (S (S (S (S (S (S (S (S (S (S (S (S (S (S (S (S (S
    (S (S (S (S (S (S (S (S (S (S (S (S (S (S (S (S (S (S (S (S (S (S (S (S
    (S (S (S (S (S (S (S (S (S (S (S (S (S (S (S (S (S (S (S (S (S (S (S (S
    (S (S (S (S (S (S (S (S (S (S (S (S (S (S (S (S (S (S (S (S (S (S (S (S
    (S (S (S (S (S (S (S (S (S (S (S (S (S (S (S (S (S (S (S (S (S (S (S (S
    (S (S (S (S (S (S (S (S (S (S (S (S (S (S (S (S (S (S (S (S (S (S (S (S
    (S (S (S (S (S (S (S (S (S (S (S (S (S (S (S (S (S (S (S (S (S (S (S (S
    (S (S (S (S (S (S (S (S (S (S (S (S (S (S (S (S (S (S (S (S (S (S (S (S
    (S (S (S (S (S (S (S (S (S (S (S (S (S (S (S (S (S (S (S (S (S (S (S (S
    (S (S (S (S (S (S (S (S (S (S (S (S (S (S (S (S (S (S (S (S (S (S
    O))))))))))))))))))))))))))))))))))))))))))))))))))))))))))))))))))))))))))))))))))))))))))))))))))))))))))))))))))))))))))))))))))))))))))))))))))))))))))))))))))))))))))))))))))))))))))))))))))))))))))))))))))))))))))))))))))))))))))))))))))))))))))))))) :: ((S
    (S (S (S (S (S (S O))))))) :: (O :: ((S (S (S (S (S (S (S (S
    O)))))))) :: ((S (S (S (S (S (S (S (S O)))))))) :: (O :: (O :: (O :: ((S
    (S (S (S (S (S (S (S (S (S (S (S (S (S (S (S (S (S (S (S (S (S (S (S (S
    (S (S (S (S (S (S (S (S (S (S (S (S (S (S (S (S (S (S (S (S (S (S (S (S
    (S (S (S (S (S (S (S (S (S (S (S (S (S (S (S (S (S (S (S (S (S (S (S (S
    (S (S (S (S (S (S (S (S (S (S (S (S (S (S (S (S (S (S (S (S (S (S (S (S
    (S (S (S (S (S (S (S (S (S (S (S (S (S (S (S (S (S (S (S (S (S (S (S (S
    (S (S (S (S (S (S (S (S (S (S (S (S (S (S (S (S (S (S (S (S (S (S (S (S
    (S (S (S (S (S (S (S (S (S (S (S (S (S (S (S (S (S (S (S (S (S (S (S (S
    (S (S (S (S (S (S (S (S (S (S (S (S (S (S (S (S (S (S (S (S (S (S (S (S
    (S (S (S (S (S (S (S (S (S (S (S (S (S (S (S (S (S (S (S (S (S (S (S (S
    (S (S (S (S (S (S (S (S (S (S (S (S (S (S (S (S (S (S (S (S (S (S (S (S
    (S (S (S (S (S (S (S (S (S (S (S (S (S (S
    O))))))))))))))))))))))))))))))))))))))))))))))))))))))))))))))))))))))))))))))))))))))))))))))))))))))))))))))))))))))))))))))))))))))))))))))))))))))))))))))))))))))))))))))))))))))))))))))))))))))))))))))))))))))))))))))))))))))))))))))))))))))))))))))) :: ((S
    (S (S (S (S (S (S (S (S (S (S (S (S (S (S (S (S (S (S (S (S (S (S (S (S
    (S (S (S (S (S (S (S (S (S (S (S (S (S (S (S (S (S (S (S (S (S (S (S (S
    (S (S (S (S (S (S (S (S (S (S (S (S (S (S (S (S (S (S (S (S (S (S (S (S
    (S (S (S (S (S (S (S (S (S (S (S (S (S (S (S (S (S (S (S (S (S (S (S (S
    (S (S (S (S (S (S (S (S (S (S (S (S (S (S (S (S (S (S (S (S (S (S (S (S
    (S (S (S (S (S (S (S (S (S (S (S (S (S (S (S (S (S (S (S (S (S (S (S (S
    (S (S (S (S (S (S (S (S (S (S (S (S (S (S (S (S (S (S (S (S (S (S (S (S
    (S (S (S (S (S (S (S (S (S (S (S (S (S (S (S (S (S (S (S (S (S (S (S (S
    (S (S (S (S (S (S (S (S (S (S (S (S (S (S (S (S (S (S (S (S (S (S (S (S
    (S (S (S (S (S (S (S (S (S (S (S (S (S (S (S (S (S (S (S (S (S (S (S (S
    (S (S (S (S (S (S (S (S (S (S (S (S (S (S
    O))))))))))))))))))))))))))))))))))))))))))))))))))))))))))))))))))))))))))))))))))))))))))))))))))))))))))))))))))))))))))))))))))))))))))))))))))))))))))))))))))))))))))))))))))))))))))))))))))))))))))))))))))))))))))))))))))))))))))))))))))))))))))))))) :: ((S
    (S (S (S (S (S (S (S (S (S (S (S (S (S (S (S (S (S (S (S (S (S (S (S (S
    (S (S (S (S (S (S (S (S (S (S (S (S (S (S (S (S (S (S (S (S (S (S (S (S
    (S (S (S (S (S (S (S (S (S (S (S (S (S (S (S (S (S (S (S (S (S (S (S (S
    (S (S (S (S (S (S (S (S (S (S (S (S (S (S (S (S (S (S (S (S (S (S (S (S
    (S (S (S (S (S (S (S (S (S (S (S (S (S (S (S (S (S (S (S (S (S (S (S (S
    (S (S (S (S (S (S (S (S (S (S (S (S (S (S (S (S (S (S (S (S (S (S (S (S
    (S (S (S (S (S (S (S (S (S (S (S (S (S (S (S (S (S (S (S (S (S (S (S (S
    (S (S (S (S (S (S (S (S (S (S (S (S (S (S (S (S (S (S (S (S (S (S (S (S
    (S (S (S (S (S (S (S (S (S (S (S (S (S (S (S (S (S (S (S (S (S (S (S (S
    (S (S (S (S (S (S (S (S (S (S (S (S (S (S (S (S (S (S (S (S (S (S (S (S
    (S (S (S (S (S (S (S (S (S (S (S (S (S (S
    O))))))))))))))))))))))))))))))))))))))))))))))))))))))))))))))))))))))))))))))))))))))))))))))))))))))))))))))))))))))))))))))))))))))))))))))))))))))))))))))))))))))))))))))))))))))))))))))))))))))))))))))))))))))))))))))))))))))))))))))))))))))))))))))) :: ((S
    (S (S (S (S (S (S (S (S (S (S (S (S (S (S (S (S (S (S (S (S (S (S (S (S
    (S (S (S (S (S (S (S (S (S (S (S (S (S (S (S (S (S (S (S (S (S (S (S (S
    (S (S (S (S (S (S (S (S (S (S (S (S (S (S (S (S (S (S (S (S (S (S (S (S
    (S (S (S (S (S (S (S (S (S (S (S (S (S (S (S (S (S (S (S (S (S (S (S (S
    (S (S (S (S (S (S (S (S (S (S (S (S (S (S (S (S (S (S (S (S (S (S (S (S
    (S (S (S (S (S (S (S (S (S (S (S (S (S (S (S (S (S (S (S (S (S (S (S (S
    (S (S (S (S (S (S (S (S (S (S (S (S (S (S (S (S (S (S (S (S (S (S (S (S
    (S (S (S (S (S (S (S (S (S (S (S (S (S (S (S (S (S (S (S (S (S (S (S (S
    (S (S (S (S (S (S (S (S (S (S (S (S (S (S (S (S (S (S (S (S (S (S (S (S
    (S (S (S (S (S (S (S (S (S (S (S (S (S (S (S (S (S (S (S (S (S (S (S (S
    (S (S (S (S (S (S (S (S (S (S (S (S (S (S
    O))))))))))))))))))))))))))))))))))))))))))))))))))))))))))))))))))))))))))))))))))))))))))))))))))))))))))))))))))))))))))))))))))))))))))))))))))))))))))))))))))))))))))))))))))))))))))))))))))))))))))))))))))))))))))))))))))))))))))))))))))))))))))))))) :: (O :: ((S
    O) :: ((S (S (S (S (S (S (S (S O)))))))) :: (O :: (O :: (O :: ((S (S (S
    (S (S (S O)))))) :: ((S (S (S (S (S (S (S O))))))) :: ((S (S (S (S (S (S
    (S (S (S (S (S (S (S (S (S (S (S (S (S (S (S (S (S (S (S (S (S (S (S (S
    (S (S (S (S (S (S (S (S (S (S (S (S (S (S (S (S (S (S (S (S (S (S (S (S
    (S (S (S (S (S (S (S (S (S (S (S (S (S (S (S (S (S (S (S (S (S (S (S (S
    (S (S (S (S (S (S (S (S (S (S (S (S (S (S (S (S (S (S (S (S (S (S (S (S
    (S (S (S (S (S (S (S (S (S (S (S (S (S (S (S (S (S (S (S (S (S (S (S (S
    (S (S (S (S (S (S (S (S (S (S (S (S (S (S (S (S (S (S (S (S (S (S (S (S
    (S (S (S (S (S (S (S (S (S (S (S (S (S (S (S (S (S (S (S (S (S (S (S (S
    (S (S (S (S (S (S (S (S (S (S (S (S (S (S (S (S (S (S (S (S (S (S (S (S
    (S (S (S (S (S (S (S (S (S (S (S (S (S (S (S (S (S (S (S (S (S (S (S (S
    (S (S (S (S (S (S (S (S (S (S (S (S (S (S (S (S (S (S (S (S (S (S (S (S
    (S (S (S (S (S (S (S (S (S
    O))))))))))))))))))))))))))))))))))))))))))))))))))))))))))))))))))))))))))))))))))))))))))))))))))))))))))))))))))))))))))))))))))))))))))))))))))))))))))))))))))))))))))))))))))))))))))))))))))))))))))))))))))))))))))))))))))))))))))))))))))))))))))))))) :: ((S
    (S (S (S (S (S (S
    O))))))) :: (O :: (O :: (O :: (O :: (O :: (O :: (O :: (O :: (O :: (O :: (O :: ((S
    O) :: ((S (S (S (S (S (S (S (S O)))))))) :: (O :: (O :: (O :: ((S
    O) :: ((S O) :: ((S (S (S (S (S (S (S (S O)))))))) :: ((S O) :: (O :: ((S
    (S (S (S (S (S (S (S O)))))))) :: ((S (S (S (S (S (S (S (S
    O)))))))) :: (O :: (O :: (O :: ((S (S (S (S (S (S (S (S O)))))))) :: ((S
    (S (S (S (S (S (S (S O)))))))) :: ((S (S (S (S (S (S (S (S
    O)))))))) :: ((S (S (S (S (S (S (S (S
    O)))))))) :: (O :: (O :: (O :: (O :: (O :: (O :: (O :: (O :: (O :: (O :: (O :: (O :: (O :: (O :: (O :: (O :: (O :: (O :: (O :: (O :: (O :: (O :: (O :: (O :: (O :: (O :: (O :: (O :: (O :: (O :: (O :: ((S
    O) :: ((S (S (S (S (S (S (S (S O)))))))) :: (O :: (O :: (O :: ((S (S (S
    (S (S (S O)))))) :: ((S (S (S (S (S (S O)))))) :: ((S (S (S (S (S (S (S
    (S (S (S (S (S (S (S (S (S (S (S (S (S (S (S (S (S (S (S (S (S (S (S (S
    (S (S (S (S (S (S (S (S (S (S (S (S (S (S (S (S (S (S (S (S (S (S (S (S
    (S (S (S (S (S (S (S (S (S (S (S (S (S (S (S (S (S (S (S (S (S (S (S (S
    (S (S (S (S (S (S (S (S (S (S (S (S (S (S (S (S (S (S (S (S (S (S (S (S
    (S (S (S (S (S (S (S (S (S (S (S (S (S (S (S (S (S (S (S (S (S (S (S (S
    (S (S (S (S (S (S (S (S (S (S (S (S (S (S (S (S (S (S (S (S (S (S (S (S
    (S (S (S (S (S (S (S (S (S (S (S (S (S (S (S (S (S (S (S (S (S (S (S (S
    (S (S (S (S (S (S (S (S (S (S (S (S (S (S (S (S (S (S (S (S (S (S (S (S
    (S (S (S (S (S (S (S (S (S (S (S (S (S (S (S (S (S (S (S (S (S (S (S (S
    (S (S (S (S (S (S (S (S (S (S (S (S (S (S (S (S (S (S (S (S (S (S (S (S
    (S (S (S (S (S (S (S (S
    O))))))))))))))))))))))))))))))))))))))))))))))))))))))))))))))))))))))))))))))))))))))))))))))))))))))))))))))))))))))))))))))))))))))))))))))))))))))))))))))))))))))))))))))))))))))))))))))))))))))))))))))))))))))))))))))))))))))))))))))))))))))))))))))) :: ((S
    (S (S (S (S (S O)))))) :: (O :: ((S O) :: ((S (S (S (S (S (S (S (S
    O)))))))) :: (O :: (O :: (O :: ((S (S (S (S (S (S O)))))) :: ((S (S (S (S
    (S (S (S O))))))) :: ((S (S (S (S (S (S (S (S (S (S (S (S (S (S (S (S (S
    (S (S (S (S (S (S (S (S (S (S (S (S (S (S (S (S (S (S (S (S (S (S (S (S
    (S (S (S (S (S (S (S (S (S (S (S (S (S (S (S (S (S (S (S (S (S (S (S (S
    (S (S (S (S (S (S (S (S (S (S (S (S (S (S (S (S (S (S (S (S (S (S (S (S
    (S (S (S (S (S (S (S (S (S (S (S (S (S (S (S (S (S (S (S (S (S (S (S (S
    (S (S (S (S (S (S (S (S (S (S (S (S (S (S (S (S (S (S (S (S (S (S (S (S
    (S (S (S (S (S (S (S (S (S (S (S (S (S (S (S (S (S (S (S (S (S (S (S (S
    (S (S (S (S (S (S (S (S (S (S (S (S (S (S (S (S (S (S (S (S (S (S (S (S
    (S (S (S (S (S (S (S (S (S (S (S (S (S (S (S (S (S (S (S (S (S (S (S (S
    (S (S (S (S (S (S (S (S (S (S (S (S (S (S (S (S (S (S (S (S (S (S (S (S
    (S (S (S (S (S (S (S (S (S (S (S (S (S (S (S (S (S (S (S (S (S (S
    O))))))))))))))))))))))))))))))))))))))))))))))))))))))))))))))))))))))))))))))))))))))))))))))))))))))))))))))))))))))))))))))))))))))))))))))))))))))))))))))))))))))))))))))))))))))))))))))))))))))))))))))))))))))))))))))))))))))))))))))))))))))))))))))) :: ((S
    (S (S (S (S (S (S O))))))) :: (O :: ((S (S (S (S (S (S (S (S
    O)))))))) :: ((S (S (S (S (S (S (S (S O)))))))) :: (O :: (O :: (O :: ((S
    (S (S (S (S (S (S (S (S (S (S (S (S (S (S (S (S (S (S (S (S (S (S (S (S
    (S (S (S (S (S (S (S (S (S (S (S (S (S (S (S (S (S (S (S (S (S (S (S (S
    (S (S (S (S (S (S (S (S (S (S (S (S (S (S (S (S (S (S (S (S (S (S (S (S
    (S (S (S (S (S (S (S (S (S (S (S (S (S (S (S (S (S (S (S (S (S (S (S (S
    (S (S (S (S (S (S (S (S (S (S (S (S (S (S (S (S (S (S (S (S (S (S (S (S
    (S (S (S (S (S (S (S (S (S (S (S (S (S (S (S (S (S (S (S (S (S (S (S (S
    (S (S (S (S (S (S (S (S (S (S (S (S (S (S (S (S (S (S (S (S (S (S (S (S
    (S (S (S (S (S (S (S (S (S (S (S (S (S (S (S (S (S (S (S (S (S (S (S (S
    (S (S (S (S (S (S (S (S (S (S (S (S (S (S (S (S (S (S (S (S (S (S (S (S
    (S (S (S (S (S (S (S (S (S (S (S (S (S (S (S (S (S (S (S (S (S (S (S (S
    (S (S (S (S (S (S (S (S (S (S (S (S (S (S
    O))))))))))))))))))))))))))))))))))))))))))))))))))))))))))))))))))))))))))))))))))))))))))))))))))))))))))))))))))))))))))))))))))))))))))))))))))))))))))))))))))))))))))))))))))))))))))))))))))))))))))))))))))))))))))))))))))))))))))))))))))))))))))))))) :: ((S
    (S (S (S (S (S (S (S (S (S (S (S (S (S (S (S (S (S (S (S (S (S (S (S (S
    (S (S (S (S (S (S (S (S (S (S (S (S (S (S (S (S (S (S (S (S (S (S (S (S
    (S (S (S (S (S (S (S (S (S (S (S (S (S (S (S (S (S (S (S (S (S (S (S (S
    (S (S (S (S (S (S (S (S (S (S (S (S (S (S (S (S (S (S (S (S (S (S (S (S
    (S (S (S (S (S (S (S (S (S (S (S (S (S (S (S (S (S (S (S (S (S (S (S (S
    (S (S (S (S (S (S (S (S (S (S (S (S (S (S (S (S (S (S (S (S (S (S (S (S
    (S (S (S (S (S (S (S (S (S (S (S (S (S (S (S (S (S (S (S (S (S (S (S (S
    (S (S (S (S (S (S (S (S (S (S (S (S (S (S (S (S (S (S (S (S (S (S (S (S
    (S (S (S (S (S (S (S (S (S (S (S (S (S (S (S (S (S (S (S (S (S (S (S (S
    (S (S (S (S (S (S (S (S (S (S (S (S (S (S (S (S (S (S (S (S (S (S (S (S
    (S (S (S (S (S (S (S (S (S (S (S (S (S (S
    O))))))))))))))))))))))))))))))))))))))))))))))))))))))))))))))))))))))))))))))))))))))))))))))))))))))))))))))))))))))))))))))))))))))))))))))))))))))))))))))))))))))))))))))))))))))))))))))))))))))))))))))))))))))))))))))))))))))))))))))))))))))))))))))) :: ((S
    (S (S (S (S (S (S (S (S (S (S (S (S (S (S (S (S (S (S (S (S (S (S (S (S
    (S (S (S (S (S (S (S (S (S (S (S (S (S (S (S (S (S (S (S (S (S (S (S (S
    (S (S (S (S (S (S (S (S (S (S (S (S (S (S (S (S (S (S (S (S (S (S (S (S
    (S (S (S (S (S (S (S (S (S (S (S (S (S (S (S (S (S (S (S (S (S (S (S (S
    (S (S (S (S (S (S (S (S (S (S (S (S (S (S (S (S (S (S (S (S (S (S (S (S
    (S (S (S (S (S (S (S (S (S (S (S (S (S (S (S (S (S (S (S (S (S (S (S (S
    (S (S (S (S (S (S (S (S (S (S (S (S (S (S (S (S (S (S (S (S (S (S (S (S
    (S (S (S (S (S (S (S (S (S (S (S (S (S (S (S (S (S (S (S (S (S (S (S (S
    (S (S (S (S (S (S (S (S (S (S (S (S (S (S (S (S (S (S (S (S (S (S (S (S
    (S (S (S (S (S (S (S (S (S (S (S (S (S (S (S (S (S (S (S (S (S (S (S (S
    (S (S (S (S (S (S (S (S (S (S (S (S (S (S
    O))))))))))))))))))))))))))))))))))))))))))))))))))))))))))))))))))))))))))))))))))))))))))))))))))))))))))))))))))))))))))))))))))))))))))))))))))))))))))))))))))))))))))))))))))))))))))))))))))))))))))))))))))))))))))))))))))))))))))))))))))))))))))))))) :: ((S
    (S (S (S (S (S (S (S (S (S (S (S (S (S (S (S (S (S (S (S (S (S (S (S (S
    (S (S (S (S (S (S (S (S (S (S (S (S (S (S (S (S (S (S (S (S (S (S (S (S
    (S (S (S (S (S (S (S (S (S (S (S (S (S (S (S (S (S (S (S (S (S (S (S (S
    (S (S (S (S (S (S (S (S (S (S (S (S (S (S (S (S (S (S (S (S (S (S (S (S
    (S (S (S (S (S (S (S (S (S (S (S (S (S (S (S (S (S (S (S (S (S (S (S (S
    (S (S (S (S (S (S (S (S (S (S (S (S (S (S (S (S (S (S (S (S (S (S (S (S
    (S (S (S (S (S (S (S (S (S (S (S (S (S (S (S (S (S (S (S (S (S (S (S (S
    (S (S (S (S (S (S (S (S (S (S (S (S (S (S (S (S (S (S (S (S (S (S (S (S
    (S (S (S (S (S (S (S (S (S (S (S (S (S (S (S (S (S (S (S (S (S (S (S (S
    (S (S (S (S (S (S (S (S (S (S (S (S (S (S (S (S (S (S (S (S (S (S (S (S
    (S (S (S (S (S (S (S (S (S (S (S (S (S (S
    O))))))))))))))))))))))))))))))))))))))))))))))))))))))))))))))))))))))))))))))))))))))))))))))))))))))))))))))))))))))))))))))))))))))))))))))))))))))))))))))))))))))))))))))))))))))))))))))))))))))))))))))))))))))))))))))))))))))))))))))))))))))))))))))) :: (O :: ((S
    O) :: ((S (S (S (S (S (S (S (S O)))))))) :: (O :: (O :: (O :: ((S (S (S
    (S (S (S O)))))) :: ((S (S (S (S (S (S (S O))))))) :: ((S (S (S (S (S (S
    (S (S (S (S (S (S (S (S (S (S (S (S (S (S (S (S (S (S (S (S (S (S (S (S
    (S (S (S (S (S (S (S (S (S (S (S (S (S (S (S (S (S (S (S (S (S (S (S (S
    (S (S (S (S (S (S (S (S (S (S (S (S (S (S (S (S (S (S (S (S (S (S (S (S
    (S (S (S (S (S (S (S (S (S (S (S (S (S (S (S (S (S (S (S (S (S (S (S (S
    (S (S (S (S (S (S (S (S (S (S (S (S (S (S (S (S (S (S (S (S (S (S (S (S
    (S (S (S (S (S (S (S (S (S (S (S (S (S (S (S (S (S (S (S (S (S (S (S (S
    (S (S (S (S (S (S (S (S (S (S (S (S (S (S (S (S (S (S (S (S (S (S (S (S
    (S (S (S (S (S (S (S (S (S (S (S (S (S (S (S (S (S (S (S (S (S (S (S (S
    (S (S (S (S (S (S (S (S (S (S (S (S (S (S (S (S (S (S (S (S (S (S (S (S
    (S (S (S (S (S (S (S (S (S (S (S (S (S (S (S (S (S (S (S (S (S (S (S (S
    (S (S (S (S (S (S (S (S (S
    O))))))))))))))))))))))))))))))))))))))))))))))))))))))))))))))))))))))))))))))))))))))))))))))))))))))))))))))))))))))))))))))))))))))))))))))))))))))))))))))))))))))))))))))))))))))))))))))))))))))))))))))))))))))))))))))))))))))))))))))))))))))))))))))) :: ((S
    (S (S (S (S (S (S
    O))))))) :: (O :: (O :: (O :: (O :: (O :: (O :: (O :: (O :: (O :: (O :: (O :: ((S
    O) :: ((S (S (S (S (S (S (S (S O)))))))) :: (O :: (O :: (O :: ((S
    O) :: ((S O) :: ((S (S (S (S (S (S (S (S O)))))))) :: ((S O) :: (O :: ((S
    (S (S (S (S (S (S (S O)))))))) :: ((S (S O)) :: (O :: (O :: (O :: ((S (S
    (S (S (S (S (S (S O)))))))) :: ((S (S (S (S (S (S (S (S O)))))))) :: ((S
    (S (S (S (S (S (S (S O)))))))) :: ((S (S (S (S (S (S (S (S
    O)))))))) :: (O :: (O :: (O :: ((S (S (S
    O))) :: (O :: (O :: (O :: (O :: (O :: (O :: (O :: (O :: (O :: (O :: ((S
    (S (S (S
    O)))) :: (O :: (O :: (O :: (O :: (O :: (O :: (O :: (O :: (O :: (O :: ((S
    (S (S (S (S O))))) :: (O :: (O :: (O :: (O :: (O :: ((S O) :: ((S (S (S
    (S (S (S (S (S O)))))))) :: (O :: (O :: (O :: ((S (S (S (S (S (S
    O)))))) :: ((S (S (S (S (S (S O)))))) :: ((S (S (S (S (S (S (S (S (S (S
    (S (S (S (S (S (S (S (S (S (S (S (S (S (S (S (S (S (S (S (S (S (S (S (S
    (S (S (S (S (S (S (S (S (S (S (S (S (S (S (S (S (S (S (S (S (S (S (S (S
    (S (S (S (S (S (S (S (S (S (S (S (S (S (S (S (S (S (S (S (S (S (S (S (S
    (S (S (S (S (S (S (S (S (S (S (S (S (S (S (S (S (S (S (S (S (S (S (S (S
    (S (S (S (S (S (S (S (S (S (S (S (S (S (S (S (S (S (S (S (S (S (S (S (S
    (S (S (S (S (S (S (S (S (S (S (S (S (S (S (S (S (S (S (S (S (S (S (S (S
    (S (S (S (S (S (S (S (S (S (S (S (S (S (S (S (S (S (S (S (S (S (S (S (S
    (S (S (S (S (S (S (S (S (S (S (S (S (S (S (S (S (S (S (S (S (S (S (S (S
    (S (S (S (S (S (S (S (S (S (S (S (S (S (S (S (S (S (S (S (S (S (S (S (S
    (S (S (S (S (S (S (S (S (S (S (S (S (S (S (S (S (S (S (S (S (S (S (S (S
    (S (S (S (S (S
    O))))))))))))))))))))))))))))))))))))))))))))))))))))))))))))))))))))))))))))))))))))))))))))))))))))))))))))))))))))))))))))))))))))))))))))))))))))))))))))))))))))))))))))))))))))))))))))))))))))))))))))))))))))))))))))))))))))))))))))))))))))))))))))))) :: ((S
    (S (S (S (S (S O)))))) :: (O :: ((S O) :: ((S (S (S (S (S (S (S (S
    O)))))))) :: (O :: (O :: (O :: ((S (S (S (S (S (S O)))))) :: ((S (S (S (S
    (S (S (S O))))))) :: ((S (S (S (S (S (S (S (S (S (S (S (S (S (S (S (S (S
    (S (S (S (S (S (S (S (S (S (S (S (S (S (S (S (S (S (S (S (S (S (S (S (S
    (S (S (S (S (S (S (S (S (S (S (S (S (S (S (S (S (S (S (S (S (S (S (S (S
    (S (S (S (S (S (S (S (S (S (S (S (S (S (S (S (S (S (S (S (S (S (S (S (S
    (S (S (S (S (S (S (S (S (S (S (S (S (S (S (S (S (S (S (S (S (S (S (S (S
    (S (S (S (S (S (S (S (S (S (S (S (S (S (S (S (S (S (S (S (S (S (S (S (S
    (S (S (S (S (S (S (S (S (S (S (S (S (S (S (S (S (S (S (S (S (S (S (S (S
    (S (S (S (S (S (S (S (S (S (S (S (S (S (S (S (S (S (S (S (S (S (S (S (S
    (S (S (S (S (S (S (S (S (S (S (S (S (S (S (S (S (S (S (S (S (S (S (S (S
    (S (S (S (S (S (S (S (S (S (S (S (S (S (S (S (S (S (S (S (S (S (S (S (S
    (S (S (S (S (S (S (S (S (S (S (S (S (S (S (S (S (S (S (S (S (S (S
    O))))))))))))))))))))))))))))))))))))))))))))))))))))))))))))))))))))))))))))))))))))))))))))))))))))))))))))))))))))))))))))))))))))))))))))))))))))))))))))))))))))))))))))))))))))))))))))))))))))))))))))))))))))))))))))))))))))))))))))))))))))))))))))))) :: ((S
    (S (S (S (S (S (S (S (S O))))))))) :: (O :: ((S (S (S (S (S (S (S (S
    O)))))))) :: ((S (S (S (S (S (S (S (S O)))))))) :: (O :: (O :: (O :: ((S
    (S (S (S (S (S (S (S (S (S (S (S (S (S (S (S (S (S (S (S (S (S (S (S (S
    (S (S (S (S (S (S (S (S (S (S (S (S (S (S (S (S (S (S (S (S (S (S (S (S
    (S (S (S (S (S (S (S (S (S (S (S (S (S (S (S (S (S (S (S (S (S (S (S (S
    (S (S (S (S (S (S (S (S (S (S (S (S (S (S (S (S (S (S (S (S (S (S (S (S
    (S (S (S (S (S (S (S (S (S (S (S (S (S (S (S (S (S (S (S (S (S (S (S (S
    (S (S (S (S (S (S (S (S (S (S (S (S (S (S (S (S (S (S (S (S (S (S (S (S
    (S (S (S (S (S (S (S (S (S (S (S (S (S (S (S (S (S (S (S (S (S (S (S (S
    (S (S (S (S (S (S (S (S (S (S (S (S (S (S (S (S (S (S (S (S (S (S (S (S
    (S (S (S (S (S (S (S (S (S (S (S (S (S (S (S (S (S (S (S (S (S (S (S (S
    (S (S (S (S (S (S (S (S (S (S (S (S (S (S (S (S (S (S (S (S (S (S (S (S
    (S (S (S (S (S (S (S (S (S (S (S (S (S (S
    O))))))))))))))))))))))))))))))))))))))))))))))))))))))))))))))))))))))))))))))))))))))))))))))))))))))))))))))))))))))))))))))))))))))))))))))))))))))))))))))))))))))))))))))))))))))))))))))))))))))))))))))))))))))))))))))))))))))))))))))))))))))))))))))) :: ((S
    (S (S (S (S (S (S (S (S (S (S (S (S (S (S (S (S (S (S (S (S (S (S (S (S
    (S (S (S (S (S (S (S (S (S (S (S (S (S (S (S (S (S (S (S (S (S (S (S (S
    (S (S (S (S (S (S (S (S (S (S (S (S (S (S (S (S (S (S (S (S (S (S (S (S
    (S (S (S (S (S (S (S (S (S (S (S (S (S (S (S (S (S (S (S (S (S (S (S (S
    (S (S (S (S (S (S (S (S (S (S (S (S (S (S (S (S (S (S (S (S (S (S (S (S
    (S (S (S (S (S (S (S (S (S (S (S (S (S (S (S (S (S (S (S (S (S (S (S (S
    (S (S (S (S (S (S (S (S (S (S (S (S (S (S (S (S (S (S (S (S (S (S (S (S
    (S (S (S (S (S (S (S (S (S (S (S (S (S (S (S (S (S (S (S (S (S (S (S (S
    (S (S (S (S (S (S (S (S (S (S (S (S (S (S (S (S (S (S (S (S (S (S (S (S
    (S (S (S (S (S (S (S (S (S (S (S (S (S (S (S (S (S (S (S (S (S (S (S (S
    (S (S (S (S (S (S (S (S (S (S (S (S (S (S
    O))))))))))))))))))))))))))))))))))))))))))))))))))))))))))))))))))))))))))))))))))))))))))))))))))))))))))))))))))))))))))))))))))))))))))))))))))))))))))))))))))))))))))))))))))))))))))))))))))))))))))))))))))))))))))))))))))))))))))))))))))))))))))))))) :: ((S
    (S (S (S (S (S (S (S (S (S (S (S (S (S (S (S (S (S (S (S (S (S (S (S (S
    (S (S (S (S (S (S (S (S (S (S (S (S (S (S (S (S (S (S (S (S (S (S (S (S
    (S (S (S (S (S (S (S (S (S (S (S (S (S (S (S (S (S (S (S (S (S (S (S (S
    (S (S (S (S (S (S (S (S (S (S (S (S (S (S (S (S (S (S (S (S (S (S (S (S
    (S (S (S (S (S (S (S (S (S (S (S (S (S (S (S (S (S (S (S (S (S (S (S (S
    (S (S (S (S (S (S (S (S (S (S (S (S (S (S (S (S (S (S (S (S (S (S (S (S
    (S (S (S (S (S (S (S (S (S (S (S (S (S (S (S (S (S (S (S (S (S (S (S (S
    (S (S (S (S (S (S (S (S (S (S (S (S (S (S (S (S (S (S (S (S (S (S (S (S
    (S (S (S (S (S (S (S (S (S (S (S (S (S (S (S (S (S (S (S (S (S (S (S (S
    (S (S (S (S (S (S (S (S (S (S (S (S (S (S (S (S (S (S (S (S (S (S (S (S
    (S (S (S (S (S (S (S (S (S (S (S (S (S (S
    O))))))))))))))))))))))))))))))))))))))))))))))))))))))))))))))))))))))))))))))))))))))))))))))))))))))))))))))))))))))))))))))))))))))))))))))))))))))))))))))))))))))))))))))))))))))))))))))))))))))))))))))))))))))))))))))))))))))))))))))))))))))))))))))) :: ((S
    (S (S (S (S (S (S (S (S (S (S (S (S (S (S (S (S (S (S (S (S (S (S (S (S
    (S (S (S (S (S (S (S (S (S (S (S (S (S (S (S (S (S (S (S (S (S (S (S (S
    (S (S (S (S (S (S (S (S (S (S (S (S (S (S (S (S (S (S (S (S (S (S (S (S
    (S (S (S (S (S (S (S (S (S (S (S (S (S (S (S (S (S (S (S (S (S (S (S (S
    (S (S (S (S (S (S (S (S (S (S (S (S (S (S (S (S (S (S (S (S (S (S (S (S
    (S (S (S (S (S (S (S (S (S (S (S (S (S (S (S (S (S (S (S (S (S (S (S (S
    (S (S (S (S (S (S (S (S (S (S (S (S (S (S (S (S (S (S (S (S (S (S (S (S
    (S (S (S (S (S (S (S (S (S (S (S (S (S (S (S (S (S (S (S (S (S (S (S (S
    (S (S (S (S (S (S (S (S (S (S (S (S (S (S (S (S (S (S (S (S (S (S (S (S
    (S (S (S (S (S (S (S (S (S (S (S (S (S (S (S (S (S (S (S (S (S (S (S (S
    (S (S (S (S (S (S (S (S (S (S (S (S (S (S
    O))))))))))))))))))))))))))))))))))))))))))))))))))))))))))))))))))))))))))))))))))))))))))))))))))))))))))))))))))))))))))))))))))))))))))))))))))))))))))))))))))))))))))))))))))))))))))))))))))))))))))))))))))))))))))))))))))))))))))))))))))))))))))))))) :: (O :: ((S
    O) :: ((S (S (S (S (S (S (S (S O)))))))) :: (O :: (O :: (O :: ((S (S (S
    (S (S (S O)))))) :: ((S (S (S (S (S (S (S O))))))) :: ((S (S (S (S (S (S
    (S (S (S (S (S (S (S (S (S (S (S (S (S (S (S (S (S (S (S (S (S (S (S (S
    (S (S (S (S (S (S (S (S (S (S (S (S (S (S (S (S (S (S (S (S (S (S (S (S
    (S (S (S (S (S (S (S (S (S (S (S (S (S (S (S (S (S (S (S (S (S (S (S (S
    (S (S (S (S (S (S (S (S (S (S (S (S (S (S (S (S (S (S (S (S (S (S (S (S
    (S (S (S (S (S (S (S (S (S (S (S (S (S (S (S (S (S (S (S (S (S (S (S (S
    (S (S (S (S (S (S (S (S (S (S (S (S (S (S (S (S (S (S (S (S (S (S (S (S
    (S (S (S (S (S (S (S (S (S (S (S (S (S (S (S (S (S (S (S (S (S (S (S (S
    (S (S (S (S (S (S (S (S (S (S (S (S (S (S (S (S (S (S (S (S (S (S (S (S
    (S (S (S (S (S (S (S (S (S (S (S (S (S (S (S (S (S (S (S (S (S (S (S (S
    (S (S (S (S (S (S (S (S (S (S (S (S (S (S (S (S (S (S (S (S (S (S (S (S
    (S (S (S (S (S (S (S (S (S
    O))))))))))))))))))))))))))))))))))))))))))))))))))))))))))))))))))))))))))))))))))))))))))))))))))))))))))))))))))))))))))))))))))))))))))))))))))))))))))))))))))))))))))))))))))))))))))))))))))))))))))))))))))))))))))))))))))))))))))))))))))))))))))))))) :: ((S
    (S (S (S (S (S (S (S (S
    O))))))))) :: (O :: (O :: (O :: (O :: (O :: (O :: (O :: (O :: (O :: (O :: (O :: ((S
    O) :: ((S (S (S (S (S (S (S (S O)))))))) :: (O :: (O :: (O :: ((S
    O) :: ((S O) :: ((S (S (S (S (S (S (S (S O)))))))) :: ((S O) :: (O :: ((S
    (S (S (S (S (S (S (S O)))))))) :: ((S (S O)) :: (O :: (O :: (O :: ((S (S
    (S (S (S (S (S (S O)))))))) :: ((S (S (S (S (S (S (S (S O)))))))) :: ((S
    (S (S (S (S (S (S (S O)))))))) :: ((S (S (S (S (S (S (S (S
    O)))))))) :: (O :: (O :: (O :: ((S (S (S
    O))) :: (O :: (O :: (O :: (O :: (O :: (O :: (O :: (O :: (O :: (O :: ((S
    (S (S (S
    O)))) :: (O :: (O :: (O :: (O :: (O :: (O :: (O :: (O :: (O :: (O :: ((S
    (S (S (S (S O))))) :: (O :: (O :: (O :: (O :: (O :: ((S O) :: ((S (S (S
    (S (S (S (S (S O)))))))) :: (O :: (O :: (O :: ((S (S (S (S (S (S
    O)))))) :: ((S (S (S (S (S (S O)))))) :: ((S (S (S (S (S (S (S (S (S (S
    (S (S (S (S (S (S (S (S (S (S (S (S (S (S (S (S (S (S (S (S (S (S (S (S
    (S (S (S (S (S (S (S (S (S (S (S (S (S (S (S (S (S (S (S (S (S (S (S (S
    (S (S (S (S (S (S (S (S (S (S (S (S (S (S (S (S (S (S (S (S (S (S (S (S
    (S (S (S (S (S (S (S (S (S (S (S (S (S (S (S (S (S (S (S (S (S (S (S (S
    (S (S (S (S (S (S (S (S (S (S (S (S (S (S (S (S (S (S (S (S (S (S (S (S
    (S (S (S (S (S (S (S (S (S (S (S (S (S (S (S (S (S (S (S (S (S (S (S (S
    (S (S (S (S (S (S (S (S (S (S (S (S (S (S (S (S (S (S (S (S (S (S (S (S
    (S (S (S (S (S (S (S (S (S (S (S (S (S (S (S (S (S (S (S (S (S (S (S (S
    (S (S (S (S (S (S (S (S (S (S (S (S (S (S (S (S (S (S (S (S (S (S (S (S
    (S (S (S (S (S (S (S (S (S (S (S (S (S (S (S (S (S (S (S (S (S (S (S (S
    (S (S (S (S (S
    O))))))))))))))))))))))))))))))))))))))))))))))))))))))))))))))))))))))))))))))))))))))))))))))))))))))))))))))))))))))))))))))))))))))))))))))))))))))))))))))))))))))))))))))))))))))))))))))))))))))))))))))))))))))))))))))))))))))))))))))))))))))))))))))) :: ((S
    (S (S (S (S (S O)))))) :: (O :: ((S O) :: ((S (S (S (S (S (S (S (S
    O)))))))) :: (O :: (O :: (O :: ((S (S (S (S (S (S O)))))) :: ((S (S (S (S
    (S (S (S O))))))) :: ((S (S (S (S (S (S (S (S (S (S (S (S (S (S (S (S (S
    (S (S (S (S (S (S (S (S (S (S (S (S (S (S (S (S (S (S (S (S (S (S (S (S
    (S (S (S (S (S (S (S (S (S (S (S (S (S (S (S (S (S (S (S (S (S (S (S (S
    (S (S (S (S (S (S (S (S (S (S (S (S (S (S (S (S (S (S (S (S (S (S (S (S
    (S (S (S (S (S (S (S (S (S (S (S (S (S (S (S (S (S (S (S (S (S (S (S (S
    (S (S (S (S (S (S (S (S (S (S (S (S (S (S (S (S (S (S (S (S (S (S (S (S
    (S (S (S (S (S (S (S (S (S (S (S (S (S (S (S (S (S (S (S (S (S (S (S (S
    (S (S (S (S (S (S (S (S (S (S (S (S (S (S (S (S (S (S (S (S (S (S (S (S
    (S (S (S (S (S (S (S (S (S (S (S (S (S (S (S (S (S (S (S (S (S (S (S (S
    (S (S (S (S (S (S (S (S (S (S (S (S (S (S (S (S (S (S (S (S (S (S (S (S
    (S (S (S (S (S (S (S (S (S (S (S (S (S (S (S (S (S (S (S (S (S (S
    O))))))))))))))))))))))))))))))))))))))))))))))))))))))))))))))))))))))))))))))))))))))))))))))))))))))))))))))))))))))))))))))))))))))))))))))))))))))))))))))))))))))))))))))))))))))))))))))))))))))))))))))))))))))))))))))))))))))))))))))))))))))))))))))) :: ((S
    (S (S (S (S (S (S (S (S O))))))))) :: (O :: ((S (S (S (S (S (S (S (S
    O)))))))) :: ((S (S (S (S (S (S (S (S O)))))))) :: (O :: (O :: (O :: ((S
    (S (S (S (S (S (S (S (S (S (S (S (S (S (S (S (S (S (S (S (S (S (S (S (S
    (S (S (S (S (S (S (S (S (S (S (S (S (S (S (S (S (S (S (S (S (S (S (S (S
    (S (S (S (S (S (S (S (S (S (S (S (S (S (S (S (S (S (S (S (S (S (S (S (S
    (S (S (S (S (S (S (S (S (S (S (S (S (S (S (S (S (S (S (S (S (S (S (S (S
    (S (S (S (S (S (S (S (S (S (S (S (S (S (S (S (S (S (S (S (S (S (S (S (S
    (S (S (S (S (S (S (S (S (S (S (S (S (S (S (S (S (S (S (S (S (S (S (S (S
    (S (S (S (S (S (S (S (S (S (S (S (S (S (S (S (S (S (S (S (S (S (S (S (S
    (S (S (S (S (S (S (S (S (S (S (S (S (S (S (S (S (S (S (S (S (S (S (S (S
    (S (S (S (S (S (S (S (S (S (S (S (S (S (S (S (S (S (S (S (S (S (S (S (S
    (S (S (S (S (S (S (S (S (S (S (S (S (S (S (S (S (S (S (S (S (S (S (S (S
    (S (S (S (S (S (S (S (S (S (S (S (S (S (S
    O))))))))))))))))))))))))))))))))))))))))))))))))))))))))))))))))))))))))))))))))))))))))))))))))))))))))))))))))))))))))))))))))))))))))))))))))))))))))))))))))))))))))))))))))))))))))))))))))))))))))))))))))))))))))))))))))))))))))))))))))))))))))))))))) :: ((S
    (S (S (S (S (S (S (S (S (S (S (S (S (S (S (S (S (S (S (S (S (S (S (S (S
    (S (S (S (S (S (S (S (S (S (S (S (S (S (S (S (S (S (S (S (S (S (S (S (S
    (S (S (S (S (S (S (S (S (S (S (S (S (S (S (S (S (S (S (S (S (S (S (S (S
    (S (S (S (S (S (S (S (S (S (S (S (S (S (S (S (S (S (S (S (S (S (S (S (S
    (S (S (S (S (S (S (S (S (S (S (S (S (S (S (S (S (S (S (S (S (S (S (S (S
    (S (S (S (S (S (S (S (S (S (S (S (S (S (S (S (S (S (S (S (S (S (S (S (S
    (S (S (S (S (S (S (S (S (S (S (S (S (S (S (S (S (S (S (S (S (S (S (S (S
    (S (S (S (S (S (S (S (S (S (S (S (S (S (S (S (S (S (S (S (S (S (S (S (S
    (S (S (S (S (S (S (S (S (S (S (S (S (S (S (S (S (S (S (S (S (S (S (S (S
    (S (S (S (S (S (S (S (S (S (S (S (S (S (S (S (S (S (S (S (S (S (S (S (S
    (S (S (S (S (S (S (S (S (S (S (S (S (S (S
    O))))))))))))))))))))))))))))))))))))))))))))))))))))))))))))))))))))))))))))))))))))))))))))))))))))))))))))))))))))))))))))))))))))))))))))))))))))))))))))))))))))))))))))))))))))))))))))))))))))))))))))))))))))))))))))))))))))))))))))))))))))))))))))))) :: ((S
    (S (S (S (S (S (S (S (S (S (S (S (S (S (S (S (S (S (S (S (S (S (S (S (S
    (S (S (S (S (S (S (S (S (S (S (S (S (S (S (S (S (S (S (S (S (S (S (S (S
    (S (S (S (S (S (S (S (S (S (S (S (S (S (S (S (S (S (S (S (S (S (S (S (S
    (S (S (S (S (S (S (S (S (S (S (S (S (S (S (S (S (S (S (S (S (S (S (S (S
    (S (S (S (S (S (S (S (S (S (S (S (S (S (S (S (S (S (S (S (S (S (S (S (S
    (S (S (S (S (S (S (S (S (S (S (S (S (S (S (S (S (S (S (S (S (S (S (S (S
    (S (S (S (S (S (S (S (S (S (S (S (S (S (S (S (S (S (S (S (S (S (S (S (S
    (S (S (S (S (S (S (S (S (S (S (S (S (S (S (S (S (S (S (S (S (S (S (S (S
    (S (S (S (S (S (S (S (S (S (S (S (S (S (S (S (S (S (S (S (S (S (S (S (S
    (S (S (S (S (S (S (S (S (S (S (S (S (S (S (S (S (S (S (S (S (S (S (S (S
    (S (S (S (S (S (S (S (S (S (S (S (S (S (S
    O))))))))))))))))))))))))))))))))))))))))))))))))))))))))))))))))))))))))))))))))))))))))))))))))))))))))))))))))))))))))))))))))))))))))))))))))))))))))))))))))))))))))))))))))))))))))))))))))))))))))))))))))))))))))))))))))))))))))))))))))))))))))))))))) :: ((S
    (S (S (S (S (S (S (S (S (S (S (S (S (S (S (S (S (S (S (S (S (S (S (S (S
    (S (S (S (S (S (S (S (S (S (S (S (S (S (S (S (S (S (S (S (S (S (S (S (S
    (S (S (S (S (S (S (S (S (S (S (S (S (S (S (S (S (S (S (S (S (S (S (S (S
    (S (S (S (S (S (S (S (S (S (S (S (S (S (S (S (S (S (S (S (S (S (S (S (S
    (S (S (S (S (S (S (S (S (S (S (S (S (S (S (S (S (S (S (S (S (S (S (S (S
    (S (S (S (S (S (S (S (S (S (S (S (S (S (S (S (S (S (S (S (S (S (S (S (S
    (S (S (S (S (S (S (S (S (S (S (S (S (S (S (S (S (S (S (S (S (S (S (S (S
    (S (S (S (S (S (S (S (S (S (S (S (S (S (S (S (S (S (S (S (S (S (S (S (S
    (S (S (S (S (S (S (S (S (S (S (S (S (S (S (S (S (S (S (S (S (S (S (S (S
    (S (S (S (S (S (S (S (S (S (S (S (S (S (S (S (S (S (S (S (S (S (S (S (S
    (S (S (S (S (S (S (S (S (S (S (S (S (S (S
    O))))))))))))))))))))))))))))))))))))))))))))))))))))))))))))))))))))))))))))))))))))))))))))))))))))))))))))))))))))))))))))))))))))))))))))))))))))))))))))))))))))))))))))))))))))))))))))))))))))))))))))))))))))))))))))))))))))))))))))))))))))))))))))))) :: (O :: ((S
    O) :: ((S (S (S (S (S (S (S (S O)))))))) :: (O :: (O :: (O :: ((S (S (S
    (S (S (S O)))))) :: ((S (S (S (S (S (S (S O))))))) :: ((S (S (S (S (S (S
    (S (S (S (S (S (S (S (S (S (S (S (S (S (S (S (S (S (S (S (S (S (S (S (S
    (S (S (S (S (S (S (S (S (S (S (S (S (S (S (S (S (S (S (S (S (S (S (S (S
    (S (S (S (S (S (S (S (S (S (S (S (S (S (S (S (S (S (S (S (S (S (S (S (S
    (S (S (S (S (S (S (S (S (S (S (S (S (S (S (S (S (S (S (S (S (S (S (S (S
    (S (S (S (S (S (S (S (S (S (S (S (S (S (S (S (S (S (S (S (S (S (S (S (S
    (S (S (S (S (S (S (S (S (S (S (S (S (S (S (S (S (S (S (S (S (S (S (S (S
    (S (S (S (S (S (S (S (S (S (S (S (S (S (S (S (S (S (S (S (S (S (S (S (S
    (S (S (S (S (S (S (S (S (S (S (S (S (S (S (S (S (S (S (S (S (S (S (S (S
    (S (S (S (S (S (S (S (S (S (S (S (S (S (S (S (S (S (S (S (S (S (S (S (S
    (S (S (S (S (S (S (S (S (S (S (S (S (S (S (S (S (S (S (S (S (S (S (S (S
    (S (S (S (S (S (S (S (S (S
    O))))))))))))))))))))))))))))))))))))))))))))))))))))))))))))))))))))))))))))))))))))))))))))))))))))))))))))))))))))))))))))))))))))))))))))))))))))))))))))))))))))))))))))))))))))))))))))))))))))))))))))))))))))))))))))))))))))))))))))))))))))))))))))))) :: ((S
    (S (S (S (S (S (S (S (S
    O))))))))) :: (O :: (O :: (O :: (O :: (O :: (O :: (O :: (O :: (O :: (O :: (O :: ((S
    O) :: ((S (S (S (S (S (S (S (S O)))))))) :: (O :: (O :: (O :: ((S
    O) :: ((S O) :: ((S (S (S (S (S (S (S (S O)))))))) :: ((S O) :: (O :: ((S
    (S (S (S (S (S (S (S O)))))))) :: ((S (S O)) :: (O :: (O :: (O :: ((S (S
    (S (S (S (S (S (S O)))))))) :: ((S (S (S (S (S (S (S (S O)))))))) :: ((S
    (S (S (S (S (S (S (S O)))))))) :: ((S (S (S (S (S (S (S (S
    O)))))))) :: (O :: (O :: (O :: ((S (S (S
    O))) :: (O :: (O :: (O :: (O :: (O :: (O :: (O :: (O :: (O :: (O :: ((S
    (S (S (S
    O)))) :: (O :: (O :: (O :: (O :: (O :: (O :: (O :: (O :: (O :: (O :: ((S
    (S (S (S (S O))))) :: (O :: (O :: (O :: (O :: (O :: ((S O) :: ((S (S (S
    (S (S (S (S (S O)))))))) :: (O :: (O :: (O :: ((S (S (S (S (S (S
    O)))))) :: ((S (S (S (S (S (S O)))))) :: ((S (S (S (S (S (S (S (S (S (S
    (S (S (S (S (S (S (S (S (S (S (S (S (S (S (S (S (S (S (S (S (S (S (S (S
    (S (S (S (S (S (S (S (S (S (S (S (S (S (S (S (S (S (S (S (S (S (S (S (S
    (S (S (S (S (S (S (S (S (S (S (S (S (S (S (S (S (S (S (S (S (S (S (S (S
    (S (S (S (S (S (S (S (S (S (S (S (S (S (S (S (S (S (S (S (S (S (S (S (S
    (S (S (S (S (S (S (S (S (S (S (S (S (S (S (S (S (S (S (S (S (S (S (S (S
    (S (S (S (S (S (S (S (S (S (S (S (S (S (S (S (S (S (S (S (S (S (S (S (S
    (S (S (S (S (S (S (S (S (S (S (S (S (S (S (S (S (S (S (S (S (S (S (S (S
    (S (S (S (S (S (S (S (S (S (S (S (S (S (S (S (S (S (S (S (S (S (S (S (S
    (S (S (S (S (S (S (S (S (S (S (S (S (S (S (S (S (S (S (S (S (S (S (S (S
    (S (S (S (S (S (S (S (S (S (S (S (S (S (S (S (S (S (S (S (S (S (S (S (S
    (S (S (S (S (S
    O))))))))))))))))))))))))))))))))))))))))))))))))))))))))))))))))))))))))))))))))))))))))))))))))))))))))))))))))))))))))))))))))))))))))))))))))))))))))))))))))))))))))))))))))))))))))))))))))))))))))))))))))))))))))))))))))))))))))))))))))))))))))))))))) :: ((S
    (S (S (S (S (S O)))))) :: (O :: ((S O) :: ((S (S (S (S (S (S (S (S
    O)))))))) :: (O :: (O :: (O :: ((S (S (S (S (S (S O)))))) :: ((S (S (S (S
    (S (S (S O))))))) :: ((S (S (S (S (S (S (S (S (S (S (S (S (S (S (S (S (S
    (S (S (S (S (S (S (S (S (S (S (S (S (S (S (S (S (S (S (S (S (S (S (S (S
    (S (S (S (S (S (S (S (S (S (S (S (S (S (S (S (S (S (S (S (S (S (S (S (S
    (S (S (S (S (S (S (S (S (S (S (S (S (S (S (S (S (S (S (S (S (S (S (S (S
    (S (S (S (S (S (S (S (S (S (S (S (S (S (S (S (S (S (S (S (S (S (S (S (S
    (S (S (S (S (S (S (S (S (S (S (S (S (S (S (S (S (S (S (S (S (S (S (S (S
    (S (S (S (S (S (S (S (S (S (S (S (S (S (S (S (S (S (S (S (S (S (S (S (S
    (S (S (S (S (S (S (S (S (S (S (S (S (S (S (S (S (S (S (S (S (S (S (S (S
    (S (S (S (S (S (S (S (S (S (S (S (S (S (S (S (S (S (S (S (S (S (S (S (S
    (S (S (S (S (S (S (S (S (S (S (S (S (S (S (S (S (S (S (S (S (S (S (S (S
    (S (S (S (S (S (S (S (S (S (S (S (S (S (S (S (S (S (S (S (S (S (S
    O))))))))))))))))))))))))))))))))))))))))))))))))))))))))))))))))))))))))))))))))))))))))))))))))))))))))))))))))))))))))))))))))))))))))))))))))))))))))))))))))))))))))))))))))))))))))))))))))))))))))))))))))))))))))))))))))))))))))))))))))))))))))))))))) :: ((S
    (S (S (S (S (S (S (S (S O))))))))) :: (O :: ((S (S (S (S (S (S (S (S
    O)))))))) :: ((S (S (S (S (S (S (S (S O)))))))) :: (O :: (O :: (O :: ((S
    (S (S (S (S (S (S (S (S (S (S (S (S (S (S (S (S (S (S (S (S (S (S (S (S
    (S (S (S (S (S (S (S (S (S (S (S (S (S (S (S (S (S (S (S (S (S (S (S (S
    (S (S (S (S (S (S (S (S (S (S (S (S (S (S (S (S (S (S (S (S (S (S (S (S
    (S (S (S (S (S (S (S (S (S (S (S (S (S (S (S (S (S (S (S (S (S (S (S (S
    (S (S (S (S (S (S (S (S (S (S (S (S (S (S (S (S (S (S (S (S (S (S (S (S
    (S (S (S (S (S (S (S (S (S (S (S (S (S (S (S (S (S (S (S (S (S (S (S (S
    (S (S (S (S (S (S (S (S (S (S (S (S (S (S (S (S (S (S (S (S (S (S (S (S
    (S (S (S (S (S (S (S (S (S (S (S (S (S (S (S (S (S (S (S (S (S (S (S (S
    (S (S (S (S (S (S (S (S (S (S (S (S (S (S (S (S (S (S (S (S (S (S (S (S
    (S (S (S (S (S (S (S (S (S (S (S (S (S (S (S (S (S (S (S (S (S (S (S (S
    (S (S (S (S (S (S (S (S (S (S (S (S (S (S
    O))))))))))))))))))))))))))))))))))))))))))))))))))))))))))))))))))))))))))))))))))))))))))))))))))))))))))))))))))))))))))))))))))))))))))))))))))))))))))))))))))))))))))))))))))))))))))))))))))))))))))))))))))))))))))))))))))))))))))))))))))))))))))))))) :: ((S
    (S (S (S (S (S (S (S (S (S (S (S (S (S (S (S (S (S (S (S (S (S (S (S (S
    (S (S (S (S (S (S (S (S (S (S (S (S (S (S (S (S (S (S (S (S (S (S (S (S
    (S (S (S (S (S (S (S (S (S (S (S (S (S (S (S (S (S (S (S (S (S (S (S (S
    (S (S (S (S (S (S (S (S (S (S (S (S (S (S (S (S (S (S (S (S (S (S (S (S
    (S (S (S (S (S (S (S (S (S (S (S (S (S (S (S (S (S (S (S (S (S (S (S (S
    (S (S (S (S (S (S (S (S (S (S (S (S (S (S (S (S (S (S (S (S (S (S (S (S
    (S (S (S (S (S (S (S (S (S (S (S (S (S (S (S (S (S (S (S (S (S (S (S (S
    (S (S (S (S (S (S (S (S (S (S (S (S (S (S (S (S (S (S (S (S (S (S (S (S
    (S (S (S (S (S (S (S (S (S (S (S (S (S (S (S (S (S (S (S (S (S (S (S (S
    (S (S (S (S (S (S (S (S (S (S (S (S (S (S (S (S (S (S (S (S (S (S (S (S
    (S (S (S (S (S (S (S (S (S (S (S (S (S (S
    O))))))))))))))))))))))))))))))))))))))))))))))))))))))))))))))))))))))))))))))))))))))))))))))))))))))))))))))))))))))))))))))))))))))))))))))))))))))))))))))))))))))))))))))))))))))))))))))))))))))))))))))))))))))))))))))))))))))))))))))))))))))))))))))) :: ((S
    (S (S (S (S (S (S (S (S (S (S (S (S (S (S (S (S (S (S (S (S (S (S (S (S
    (S (S (S (S (S (S (S (S (S (S (S (S (S (S (S (S (S (S (S (S (S (S (S (S
    (S (S (S (S (S (S (S (S (S (S (S (S (S (S (S (S (S (S (S (S (S (S (S (S
    (S (S (S (S (S (S (S (S (S (S (S (S (S (S (S (S (S (S (S (S (S (S (S (S
    (S (S (S (S (S (S (S (S (S (S (S (S (S (S (S (S (S (S (S (S (S (S (S (S
    (S (S (S (S (S (S (S (S (S (S (S (S (S (S (S (S (S (S (S (S (S (S (S (S
    (S (S (S (S (S (S (S (S (S (S (S (S (S (S (S (S (S (S (S (S (S (S (S (S
    (S (S (S (S (S (S (S (S (S (S (S (S (S (S (S (S (S (S (S (S (S (S (S (S
    (S (S (S (S (S (S (S (S (S (S (S (S (S (S (S (S (S (S (S (S (S (S (S (S
    (S (S (S (S (S (S (S (S (S (S (S (S (S (S (S (S (S (S (S (S (S (S (S (S
    (S (S (S (S (S (S (S (S (S (S (S (S (S (S
    O))))))))))))))))))))))))))))))))))))))))))))))))))))))))))))))))))))))))))))))))))))))))))))))))))))))))))))))))))))))))))))))))))))))))))))))))))))))))))))))))))))))))))))))))))))))))))))))))))))))))))))))))))))))))))))))))))))))))))))))))))))))))))))))) :: ((S
    (S (S (S (S (S (S (S (S (S (S (S (S (S (S (S (S (S (S (S (S (S (S (S (S
    (S (S (S (S (S (S (S (S (S (S (S (S (S (S (S (S (S (S (S (S (S (S (S (S
    (S (S (S (S (S (S (S (S (S (S (S (S (S (S (S (S (S (S (S (S (S (S (S (S
    (S (S (S (S (S (S (S (S (S (S (S (S (S (S (S (S (S (S (S (S (S (S (S (S
    (S (S (S (S (S (S (S (S (S (S (S (S (S (S (S (S (S (S (S (S (S (S (S (S
    (S (S (S (S (S (S (S (S (S (S (S (S (S (S (S (S (S (S (S (S (S (S (S (S
    (S (S (S (S (S (S (S (S (S (S (S (S (S (S (S (S (S (S (S (S (S (S (S (S
    (S (S (S (S (S (S (S (S (S (S (S (S (S (S (S (S (S (S (S (S (S (S (S (S
    (S (S (S (S (S (S (S (S (S (S (S (S (S (S (S (S (S (S (S (S (S (S (S (S
    (S (S (S (S (S (S (S (S (S (S (S (S (S (S (S (S (S (S (S (S (S (S (S (S
    (S (S (S (S (S (S (S (S (S (S (S (S (S (S
    O))))))))))))))))))))))))))))))))))))))))))))))))))))))))))))))))))))))))))))))))))))))))))))))))))))))))))))))))))))))))))))))))))))))))))))))))))))))))))))))))))))))))))))))))))))))))))))))))))))))))))))))))))))))))))))))))))))))))))))))))))))))))))))))) :: (O :: ((S
    O) :: ((S (S (S (S (S (S (S (S O)))))))) :: (O :: (O :: (O :: ((S (S (S
    (S (S (S O)))))) :: ((S (S (S (S (S (S (S O))))))) :: ((S (S (S (S (S (S
    (S (S (S (S (S (S (S (S (S (S (S (S (S (S (S (S (S (S (S (S (S (S (S (S
    (S (S (S (S (S (S (S (S (S (S (S (S (S (S (S (S (S (S (S (S (S (S (S (S
    (S (S (S (S (S (S (S (S (S (S (S (S (S (S (S (S (S (S (S (S (S (S (S (S
    (S (S (S (S (S (S (S (S (S (S (S (S (S (S (S (S (S (S (S (S (S (S (S (S
    (S (S (S (S (S (S (S (S (S (S (S (S (S (S (S (S (S (S (S (S (S (S (S (S
    (S (S (S (S (S (S (S (S (S (S (S (S (S (S (S (S (S (S (S (S (S (S (S (S
    (S (S (S (S (S (S (S (S (S (S (S (S (S (S (S (S (S (S (S (S (S (S (S (S
    (S (S (S (S (S (S (S (S (S (S (S (S (S (S (S (S (S (S (S (S (S (S (S (S
    (S (S (S (S (S (S (S (S (S (S (S (S (S (S (S (S (S (S (S (S (S (S (S (S
    (S (S (S (S (S (S (S (S (S (S (S (S (S (S (S (S (S (S (S (S (S (S (S (S
    (S (S (S (S (S (S (S (S (S
    O))))))))))))))))))))))))))))))))))))))))))))))))))))))))))))))))))))))))))))))))))))))))))))))))))))))))))))))))))))))))))))))))))))))))))))))))))))))))))))))))))))))))))))))))))))))))))))))))))))))))))))))))))))))))))))))))))))))))))))))))))))))))))))))) :: ((S
    (S (S (S (S (S (S (S (S
    O))))))))) :: []))))))))))))))))))))))))))))))))))))))))))))))))))))))))))))))))))))))))))))))))))))))))))))))))))))))))))))))))))))))))))))))))))))))))))))))))))))))))))))))))))))))))))))))))))))))))))))))))))))))))))))))))))))))))))))))))))))))))))))))))))))))))))))))))))))))))))))))))))))))))))))))))))))))))))))))))))))))))))))))))))))))))))))))))))))))))))))))))))))))))))))))))))))))))))))))))))))))))))))))))))))))))))))))))))))))))))))))))))))))))))))))))))))))))))))))))))))))))))))))))))))))))))))))))))))))))))))))))))))))))))))))))))))))))))))))))))))))))))))))))))))))))))))))))))))))))))))))))))))))))))))))))))))))))))))))))))))))))))))))))))))))))))))))))))))))))))))))))))))))))))))))))))))))))))))))))))))))))))))))))))))))))))))))))))))))))))))))))))))))))))))))))))))))))))))))))))))))))))))))))))))))))))))))))))))))))))))))))))))))))))))))))))))))))))))))))))))))))))))))))))))))))))))))))))))))))))))))))))))))))))))))))))))))))))))))))))))))))))))))))))))))))))))))))))))))))))))))))))))))))))))))))))))))))))))))))))))))))))))))))))))))))))))))))))))))))))))))))))))))))))))))))))))))))))));
    tb_un = (O :: ((S O) :: ((S (S O)) :: ((S (S (S O))) :: ((S (S (S (S
    O)))) :: ((S (S (S (S (S O))))) :: ((S (S (S (S (S (S O)))))) :: ((S (S
    (S (S (S (S (S O))))))) :: ((S (S (S (S (S (S (S (S O)))))))) :: ((S (S
    (S (S (S (S (S (S (S O))))))))) :: (O :: ((S O) :: ((S (S O)) :: ((S (S
    (S O))) :: ((S (S (S (S O)))) :: ((S (S (S (S (S O))))) :: ((S (S (S (S
    (S (S O)))))) :: ((S (S (S (S (S (S (S O))))))) :: ((S (S (S (S (S (S (S
    (S O)))))))) :: ((S (S (S (S (S (S (S O))))))) :: ((S (S (S (S (S (S (S
    (S (S O))))))))) :: ((S (S (S (S (S (S (S (S (S O))))))))) :: ((S (S (S
    (S (S (S (S (S (S O))))))))) :: ((S (S (S (S (S (S (S (S (S
    O))))))))) :: ((S (S (S (S (S (S (S (S (S O))))))))) :: ((S (S (S (S (S
    (S (S (S (S O))))))))) :: ((S (S (S (S (S (S (S (S (S O))))))))) :: ((S
    (S (S (S (S (S (S (S (S O))))))))) :: ((S (S (S (S (S (S (S (S (S
    O))))))))) :: ((S (S (S (S (S (S (S (S (S O))))))))) :: (O :: ((S
    O) :: ((S (S O)) :: ((S (S (S O))) :: ((S (S (S (S O)))) :: ((S (S (S (S
    (S O))))) :: ((S (S (S (S (S (S O)))))) :: ((S (S (S (S (S (S (S
    O))))))) :: ((S (S (S (S (S (S (S (S O)))))))) :: ((S (S (S (S (S (S (S
    (S (S O))))))))) :: [])))))))))))))))))))))))))))))))))))))))); tb_cond =
    (O :: (O :: (O :: (O :: (O :: (O :: (O :: (O :: (O :: (O :: (O :: ((S
    O) :: (O :: (O :: (O :: (O :: ((S O) :: ((S
    O) :: (O :: (O :: (O :: (O :: ((S (S
    O)) :: (O :: (O :: (O :: (O :: (O :: ((S (S (S (S (S (S (S (S
    O)))))))) :: (O :: (O :: (O :: (O :: ((S (S (S
    O))) :: (O :: (O :: (O :: (O :: (O :: ((S (S (S (S (S (S (S (S (S
    O))))))))) :: (O :: (O :: (O :: (O :: ((S (S (S (S
    O)))) :: (O :: (O :: (O :: (O :: (O :: (O :: (O :: (O :: (O :: (O :: ((S
    (S (S (S (S O))))) :: (O :: (O :: (O :: (O :: (O :: ((S
    O) :: (O :: (O :: (O :: (O :: ((S (S (S (S (S (S O)))))) :: ((S (S (S (S
    (S (S O)))))) :: ((S (S (S (S (S (S (S (S O)))))))) :: (O :: (O :: ((S
    O) :: (O :: (O :: (O :: (O :: ((S (S (S (S (S (S O)))))) :: ((S (S (S (S
    (S (S (S O))))))) :: ((S (S (S (S (S (S (S (S
    O)))))))) :: (O :: (O :: (O :: ((S (S (S (S (S (S (S (S
    O)))))))) :: (O :: (O :: (O :: ((S (S (S (S (S (S (S (S O)))))))) :: ((S
    (S (S (S (S (S (S (S O)))))))) :: ((S (S (S (S (S (S (S (S
    O)))))))) :: (O :: (O :: (O :: (O :: ((S (S (S (S (S (S (S (S (S
    O))))))))) :: (O :: (O :: (O :: (O :: (O :: ((S (S (S (S (S (S (S (S (S
    O))))))))) :: []))))))))))))))))))))))))))))))))))))))))))))))))))))))))))))))))))))))))))))))))))))))))))))))))))));
    tb_bool =
    (O :: (O :: (O :: (O :: (O :: (O :: (O :: (O :: (O :: (O :: (O :: ((S
    O) :: (O :: (O :: (O :: (O :: ((S O) :: ((S
    O) :: (O :: (O :: (O :: (O :: ((S (S
    O)) :: (O :: (O :: (O :: (O :: (O :: ((S (S (S (S (S (S (S (S
    O)))))))) :: (O :: (O :: (O :: (O :: ((S (S (S
    O))) :: (O :: (O :: (O :: (O :: (O :: ((S (S (S (S (S (S (S (S (S
    O))))))))) :: (O :: (O :: (O :: (O :: ((S (S (S (S
    O)))) :: (O :: (O :: (O :: (O :: (O :: (O :: (O :: (O :: (O :: (O :: ((S
    (S (S (S (S O))))) :: (O :: (O :: (O :: (O :: (O :: ((S
    O) :: (O :: (O :: (O :: (O :: ((S (S (S (S (S (S O)))))) :: ((S (S (S (S
    (S (S O)))))) :: ((S (S (S (S (S (S (S (S O)))))))) :: (O :: (O :: ((S
    O) :: (O :: (O :: (O :: (O :: ((S (S (S (S (S (S O)))))) :: ((S (S (S (S
    (S (S (S O))))))) :: ((S (S (S (S (S (S (S (S
    O)))))))) :: (O :: (O :: (O :: ((S (S (S (S (S (S (S (S
    O)))))))) :: (O :: (O :: (O :: ((S (S (S (S (S (S (S (S O)))))))) :: ((S
    (S (S (S (S (S (S (S O)))))))) :: ((S (S (S (S (S (S (S (S
    O)))))))) :: (O :: (O :: (O :: (O :: ((S (S (S (S (S (S (S (S (S
    O))))))))) :: (O :: (O :: (O :: (O :: (O :: ((S (S (S (S (S (S (S (S (S
    O))))))))) :: [])))))))))))))))))))))))))))))))))))))))))))))))))))))))))))))))))))))))))))))))))))))))))))))))))))) }
