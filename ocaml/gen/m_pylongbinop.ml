
(** val xorb : bool -> bool -> bool **)

let xorb b1 b2 =
  if b1 then if b2 then false else true else b2

(** val negb : bool -> bool **)

let negb = function
| true -> false
| false -> true

type nat =
| O
| S of nat

(** val fst : ('a1 * 'a2) -> 'a1 **)

let fst = function
| (x, _) -> x

(** val snd : ('a1 * 'a2) -> 'a2 **)

let snd = function
| (_, y) -> y

(** val length : 'a1 list -> nat **)

let rec length = function
| [] -> O
| _ :: l' -> S (length l')

type comparison =
| Eq
| Lt
| Gt

(** val compOpp : comparison -> comparison **)

let compOpp = function
| Eq -> Eq
| Lt -> Gt
| Gt -> Lt

module Coq__1 = struct
 (** val add : nat -> nat -> nat **)
 let rec add n0 m =
   match n0 with
   | O -> m
   | S p -> S (add p m)
end
include Coq__1

type positive =
| XI of positive
| XO of positive
| XH

type n =
| N0
| Npos of positive

type z =
| Z0
| Zpos of positive
| Zneg of positive

module Pos =
 struct
  type mask =
  | IsNul
  | IsPos of positive
  | IsNeg
 end

module Coq_Pos =
 struct
  (** val succ : positive -> positive **)

  let rec succ = function
  | XI p -> XO (succ p)
  | XO p -> XI p
  | XH -> XO XH

  (** val add : positive -> positive -> positive **)

  let rec add x y =
    match x with
    | XI p ->
      (match y with
       | XI q -> XO (add_carry p q)
       | XO q -> XI (add p q)
       | XH -> XO (succ p))
    | XO p ->
      (match y with
       | XI q -> XI (add p q)
       | XO q -> XO (add p q)
       | XH -> XI p)
    | XH -> (match y with
             | XI q -> XO (succ q)
             | XO q -> XI q
             | XH -> XO XH)

  (** val add_carry : positive -> positive -> positive **)

  and add_carry x y =
    match x with
    | XI p ->
      (match y with
       | XI q -> XI (add_carry p q)
       | XO q -> XO (add_carry p q)
       | XH -> XI (succ p))
    | XO p ->
      (match y with
       | XI q -> XO (add_carry p q)
       | XO q -> XI (add p q)
       | XH -> XO (succ p))
    | XH ->
      (match y with
       | XI q -> XI (succ q)
       | XO q -> XO (succ q)
       | XH -> XI XH)

  (** val pred_double : positive -> positive **)

  let rec pred_double = function
  | XI p -> XI (XO p)
  | XO p -> XI (pred_double p)
  | XH -> XH

  (** val pred_N : positive -> n **)

  let pred_N = function
  | XI p -> Npos (XO p)
  | XO p -> Npos (pred_double p)
  | XH -> N0

  type mask = Pos.mask =
  | IsNul
  | IsPos of positive
  | IsNeg

  (** val succ_double_mask : mask -> mask **)

  let succ_double_mask = function
  | IsNul -> IsPos XH
  | IsPos p -> IsPos (XI p)
  | IsNeg -> IsNeg

  (** val double_mask : mask -> mask **)

  let double_mask = function
  | IsPos p -> IsPos (XO p)
  | x0 -> x0

  (** val double_pred_mask : positive -> mask **)

  let double_pred_mask = function
  | XI p -> IsPos (XO (XO p))
  | XO p -> IsPos (XO (pred_double p))
  | XH -> IsNul

  (** val sub_mask : positive -> positive -> mask **)

  let rec sub_mask x y =
    match x with
    | XI p ->
      (match y with
       | XI q -> double_mask (sub_mask p q)
       | XO q -> succ_double_mask (sub_mask p q)
       | XH -> IsPos (XO p))
    | XO p ->
      (match y with
       | XI q -> succ_double_mask (sub_mask_carry p q)
       | XO q -> double_mask (sub_mask p q)
       | XH -> IsPos (pred_double p))
    | XH -> (match y with
             | XH -> IsNul
             | _ -> IsNeg)

  (** val sub_mask_carry : positive -> positive -> mask **)

  and sub_mask_carry x y =
    match x with
    | XI p ->
      (match y with
       | XI q -> succ_double_mask (sub_mask_carry p q)
       | XO q -> double_mask (sub_mask p q)
       | XH -> IsPos (pred_double p))
    | XO p ->
      (match y with
       | XI q -> double_mask (sub_mask_carry p q)
       | XO q -> succ_double_mask (sub_mask_carry p q)
       | XH -> double_pred_mask p)
    | XH -> IsNeg

  (** val mul : positive -> positive -> positive **)

  let rec mul x y =
    match x with
    | XI p -> add y (XO (mul p y))
    | XO p -> XO (mul p y)
    | XH -> y

  (** val iter : ('a1 -> 'a1) -> 'a1 -> positive -> 'a1 **)

  let rec iter f x = function
  | XI n' -> f (iter f (iter f x n') n')
  | XO n' -> iter f (iter f x n') n'
  | XH -> f x

  (** val div2 : positive -> positive **)

  let div2 = function
  | XI p0 -> p0
  | XO p0 -> p0
  | XH -> XH

  (** val div2_up : positive -> positive **)

  let div2_up = function
  | XI p0 -> succ p0
  | XO p0 -> p0
  | XH -> XH

  (** val size : positive -> positive **)

  let rec size = function
  | XI p0 -> succ (size p0)
  | XO p0 -> succ (size p0)
  | XH -> XH

  (** val compare_cont : comparison -> positive -> positive -> comparison **)

  let rec compare_cont r x y =
    match x with
    | XI p ->
      (match y with
       | XI q -> compare_cont r p q
       | XO q -> compare_cont Gt p q
       | XH -> Gt)
    | XO p ->
      (match y with
       | XI q -> compare_cont Lt p q
       | XO q -> compare_cont r p q
       | XH -> Gt)
    | XH -> (match y with
             | XH -> r
             | _ -> Lt)

  (** val compare : positive -> positive -> comparison **)

  let compare =
    compare_cont Eq

  (** val eqb : positive -> positive -> bool **)

  let rec eqb p q =
    match p with
    | XI p0 -> (match q with
                | XI q0 -> eqb p0 q0
                | _ -> false)
    | XO p0 -> (match q with
                | XO q0 -> eqb p0 q0
                | _ -> false)
    | XH -> (match q with
             | XH -> true
             | _ -> false)

  (** val coq_Nsucc_double : n -> n **)

  let coq_Nsucc_double = function
  | N0 -> Npos XH
  | Npos p -> Npos (XI p)

  (** val coq_Ndouble : n -> n **)

  let coq_Ndouble = function
  | N0 -> N0
  | Npos p -> Npos (XO p)

  (** val coq_lor : positive -> positive -> positive **)

  let rec coq_lor p q =
    match p with
    | XI p0 ->
      (match q with
       | XI q0 -> XI (coq_lor p0 q0)
       | XO q0 -> XI (coq_lor p0 q0)
       | XH -> p)
    | XO p0 ->
      (match q with
       | XI q0 -> XI (coq_lor p0 q0)
       | XO q0 -> XO (coq_lor p0 q0)
       | XH -> XI p0)
    | XH -> (match q with
             | XO q0 -> XI q0
             | _ -> q)

  (** val coq_land : positive -> positive -> n **)

  let rec coq_land p q =
    match p with
    | XI p0 ->
      (match q with
       | XI q0 -> coq_Nsucc_double (coq_land p0 q0)
       | XO q0 -> coq_Ndouble (coq_land p0 q0)
       | XH -> Npos XH)
    | XO p0 ->
      (match q with
       | XI q0 -> coq_Ndouble (coq_land p0 q0)
       | XO q0 -> coq_Ndouble (coq_land p0 q0)
       | XH -> N0)
    | XH -> (match q with
             | XO _ -> N0
             | _ -> Npos XH)

  (** val ldiff : positive -> positive -> n **)

  let rec ldiff p q =
    match p with
    | XI p0 ->
      (match q with
       | XI q0 -> coq_Ndouble (ldiff p0 q0)
       | XO q0 -> coq_Nsucc_double (ldiff p0 q0)
       | XH -> Npos (XO p0))
    | XO p0 ->
      (match q with
       | XI q0 -> coq_Ndouble (ldiff p0 q0)
       | XO q0 -> coq_Ndouble (ldiff p0 q0)
       | XH -> Npos p)
    | XH -> (match q with
             | XO _ -> Npos XH
             | _ -> N0)

  (** val coq_lxor : positive -> positive -> n **)

  let rec coq_lxor p q =
    match p with
    | XI p0 ->
      (match q with
       | XI q0 -> coq_Ndouble (coq_lxor p0 q0)
       | XO q0 -> coq_Nsucc_double (coq_lxor p0 q0)
       | XH -> Npos (XO p0))
    | XO p0 ->
      (match q with
       | XI q0 -> coq_Nsucc_double (coq_lxor p0 q0)
       | XO q0 -> coq_Ndouble (coq_lxor p0 q0)
       | XH -> Npos (XI p0))
    | XH ->
      (match q with
       | XI q0 -> Npos (XO q0)
       | XO q0 -> Npos (XI q0)
       | XH -> N0)

  (** val iter_op : ('a1 -> 'a1 -> 'a1) -> positive -> 'a1 -> 'a1 **)

  let rec iter_op op0 p a =
    match p with
    | XI p0 -> op0 a (iter_op op0 p0 (op0 a a))
    | XO p0 -> iter_op op0 p0 (op0 a a)
    | XH -> a

  (** val to_nat : positive -> nat **)

  let to_nat x =
    iter_op Coq__1.add x (S O)

  (** val of_succ_nat : nat -> positive **)

  let rec of_succ_nat = function
  | O -> XH
  | S x -> succ (of_succ_nat x)
 end

module N =
 struct
  (** val succ_double : n -> n **)

  let succ_double = function
  | N0 -> Npos XH
  | Npos p -> Npos (XI p)

  (** val double : n -> n **)

  let double = function
  | N0 -> N0
  | Npos p -> Npos (XO p)

  (** val succ_pos : n -> positive **)

  let succ_pos = function
  | N0 -> XH
  | Npos p -> Coq_Pos.succ p

  (** val sub : n -> n -> n **)

  let sub n0 m =
    match n0 with
    | N0 -> N0
    | Npos n' ->
      (match m with
       | N0 -> n0
       | Npos m' ->
         (match Coq_Pos.sub_mask n' m' with
          | Coq_Pos.IsPos p -> Npos p
          | _ -> N0))

  (** val compare : n -> n -> comparison **)

  let compare n0 m =
    match n0 with
    | N0 -> (match m with
             | N0 -> Eq
             | Npos _ -> Lt)
    | Npos n' -> (match m with
                  | N0 -> Gt
                  | Npos m' -> Coq_Pos.compare n' m')

  (** val leb : n -> n -> bool **)

  let leb x y =
    match compare x y with
    | Gt -> false
    | _ -> true

  (** val pos_div_eucl : positive -> n -> n * n **)

  let rec pos_div_eucl a b =
    match a with
    | XI a' ->
      let (q, r) = pos_div_eucl a' b in
      let r' = succ_double r in
      if leb b r' then ((succ_double q), (sub r' b)) else ((double q), r')
    | XO a' ->
      let (q, r) = pos_div_eucl a' b in
      let r' = double r in
      if leb b r' then ((succ_double q), (sub r' b)) else ((double q), r')
    | XH ->
      (match b with
       | N0 -> (N0, (Npos XH))
       | Npos p -> (match p with
                    | XH -> ((Npos XH), N0)
                    | _ -> (N0, (Npos XH))))

  (** val coq_lor : n -> n -> n **)

  let coq_lor n0 m =
    match n0 with
    | N0 -> m
    | Npos p -> (match m with
                 | N0 -> n0
                 | Npos q -> Npos (Coq_Pos.coq_lor p q))

  (** val coq_land : n -> n -> n **)

  let coq_land n0 m =
    match n0 with
    | N0 -> N0
    | Npos p -> (match m with
                 | N0 -> N0
                 | Npos q -> Coq_Pos.coq_land p q)

  (** val ldiff : n -> n -> n **)

  let ldiff n0 m =
    match n0 with
    | N0 -> N0
    | Npos p -> (match m with
                 | N0 -> n0
                 | Npos q -> Coq_Pos.ldiff p q)

  (** val coq_lxor : n -> n -> n **)

  let coq_lxor n0 m =
    match n0 with
    | N0 -> m
    | Npos p -> (match m with
                 | N0 -> n0
                 | Npos q -> Coq_Pos.coq_lxor p q)
 end

module Z =
 struct
  (** val double : z -> z **)

  let double = function
  | Z0 -> Z0
  | Zpos p -> Zpos (XO p)
  | Zneg p -> Zneg (XO p)

  (** val succ_double : z -> z **)

  let succ_double = function
  | Z0 -> Zpos XH
  | Zpos p -> Zpos (XI p)
  | Zneg p -> Zneg (Coq_Pos.pred_double p)

  (** val pred_double : z -> z **)

  let pred_double = function
  | Z0 -> Zneg XH
  | Zpos p -> Zpos (Coq_Pos.pred_double p)
  | Zneg p -> Zneg (XI p)

  (** val pos_sub : positive -> positive -> z **)

  let rec pos_sub x y =
    match x with
    | XI p ->
      (match y with
       | XI q -> double (pos_sub p q)
       | XO q -> succ_double (pos_sub p q)
       | XH -> Zpos (XO p))
    | XO p ->
      (match y with
       | XI q -> pred_double (pos_sub p q)
       | XO q -> double (pos_sub p q)
       | XH -> Zpos (Coq_Pos.pred_double p))
    | XH ->
      (match y with
       | XI q -> Zneg (XO q)
       | XO q -> Zneg (Coq_Pos.pred_double q)
       | XH -> Z0)

  (** val add : z -> z -> z **)

  let add x y =
    match x with
    | Z0 -> y
    | Zpos x' ->
      (match y with
       | Z0 -> x
       | Zpos y' -> Zpos (Coq_Pos.add x' y')
       | Zneg y' -> pos_sub x' y')
    | Zneg x' ->
      (match y with
       | Z0 -> x
       | Zpos y' -> pos_sub y' x'
       | Zneg y' -> Zneg (Coq_Pos.add x' y'))

  (** val opp : z -> z **)

  let opp = function
  | Z0 -> Z0
  | Zpos x0 -> Zneg x0
  | Zneg x0 -> Zpos x0

  (** val sub : z -> z -> z **)

  let sub m n0 =
    add m (opp n0)

  (** val mul : z -> z -> z **)

  let mul x y =
    match x with
    | Z0 -> Z0
    | Zpos x' ->
      (match y with
       | Z0 -> Z0
       | Zpos y' -> Zpos (Coq_Pos.mul x' y')
       | Zneg y' -> Zneg (Coq_Pos.mul x' y'))
    | Zneg x' ->
      (match y with
       | Z0 -> Z0
       | Zpos y' -> Zneg (Coq_Pos.mul x' y')
       | Zneg y' -> Zpos (Coq_Pos.mul x' y'))

  (** val pow_pos : z -> positive -> z **)

  let pow_pos z0 =
    Coq_Pos.iter (mul z0) (Zpos XH)

  (** val pow : z -> z -> z **)

  let pow x = function
  | Z0 -> Zpos XH
  | Zpos p -> pow_pos x p
  | Zneg _ -> Z0

  (** val compare : z -> z -> comparison **)

  let compare x y =
    match x with
    | Z0 -> (match y with
             | Z0 -> Eq
             | Zpos _ -> Lt
             | Zneg _ -> Gt)
    | Zpos x' -> (match y with
                  | Zpos y' -> Coq_Pos.compare x' y'
                  | _ -> Gt)
    | Zneg x' ->
      (match y with
       | Zneg y' -> compOpp (Coq_Pos.compare x' y')
       | _ -> Lt)

  (** val leb : z -> z -> bool **)

  let leb x y =
    match compare x y with
    | Gt -> false
    | _ -> true

  (** val ltb : z -> z -> bool **)

  let ltb x y =
    match compare x y with
    | Lt -> true
    | _ -> false

  (** val geb : z -> z -> bool **)

  let geb x y =
    match compare x y with
    | Lt -> false
    | _ -> true

  (** val eqb : z -> z -> bool **)

  let eqb x y =
    match x with
    | Z0 -> (match y with
             | Z0 -> true
             | _ -> false)
    | Zpos p -> (match y with
                 | Zpos q -> Coq_Pos.eqb p q
                 | _ -> false)
    | Zneg p -> (match y with
                 | Zneg q -> Coq_Pos.eqb p q
                 | _ -> false)

  (** val max : z -> z -> z **)

  let max n0 m =
    match compare n0 m with
    | Lt -> m
    | _ -> n0

  (** val abs : z -> z **)

  let abs = function
  | Zneg p -> Zpos p
  | x -> x

  (** val to_nat : z -> nat **)

  let to_nat = function
  | Zpos p -> Coq_Pos.to_nat p
  | _ -> O

  (** val of_nat : nat -> z **)

  let of_nat = function
  | O -> Z0
  | S n1 -> Zpos (Coq_Pos.of_succ_nat n1)

  (** val of_N : n -> z **)

  let of_N = function
  | N0 -> Z0
  | Npos p -> Zpos p

  (** val pos_div_eucl : positive -> z -> z * z **)

  let rec pos_div_eucl a b =
    match a with
    | XI a' ->
      let (q, r) = pos_div_eucl a' b in
      let r' = add (mul (Zpos (XO XH)) r) (Zpos XH) in
      if ltb r' b
      then ((mul (Zpos (XO XH)) q), r')
      else ((add (mul (Zpos (XO XH)) q) (Zpos XH)), (sub r' b))
    | XO a' ->
      let (q, r) = pos_div_eucl a' b in
      let r' = mul (Zpos (XO XH)) r in
      if ltb r' b
      then ((mul (Zpos (XO XH)) q), r')
      else ((add (mul (Zpos (XO XH)) q) (Zpos XH)), (sub r' b))
    | XH -> if leb (Zpos (XO XH)) b then (Z0, (Zpos XH)) else ((Zpos XH), Z0)

  (** val div_eucl : z -> z -> z * z **)

  let div_eucl a b =
    match a with
    | Z0 -> (Z0, Z0)
    | Zpos a' ->
      (match b with
       | Z0 -> (Z0, a)
       | Zpos _ -> pos_div_eucl a' b
       | Zneg b' ->
         let (q, r) = pos_div_eucl a' (Zpos b') in
         (match r with
          | Z0 -> ((opp q), Z0)
          | _ -> ((opp (add q (Zpos XH))), (add b r))))
    | Zneg a' ->
      (match b with
       | Z0 -> (Z0, a)
       | Zpos _ ->
         let (q, r) = pos_div_eucl a' b in
         (match r with
          | Z0 -> ((opp q), Z0)
          | _ -> ((opp (add q (Zpos XH))), (sub b r)))
       | Zneg b' -> let (q, r) = pos_div_eucl a' (Zpos b') in (q, (opp r)))

  (** val div : z -> z -> z **)

  let div a b =
    let (q, _) = div_eucl a b in q

  (** val modulo : z -> z -> z **)

  let modulo a b =
    let (_, r) = div_eucl a b in r

  (** val quotrem : z -> z -> z * z **)

  let quotrem a b =
    match a with
    | Z0 -> (Z0, Z0)
    | Zpos a0 ->
      (match b with
       | Z0 -> (Z0, a)
       | Zpos b0 ->
         let (q, r) = N.pos_div_eucl a0 (Npos b0) in ((of_N q), (of_N r))
       | Zneg b0 ->
         let (q, r) = N.pos_div_eucl a0 (Npos b0) in
         ((opp (of_N q)), (of_N r)))
    | Zneg a0 ->
      (match b with
       | Z0 -> (Z0, a)
       | Zpos b0 ->
         let (q, r) = N.pos_div_eucl a0 (Npos b0) in
         ((opp (of_N q)), (opp (of_N r)))
       | Zneg b0 ->
         let (q, r) = N.pos_div_eucl a0 (Npos b0) in
         ((of_N q), (opp (of_N r))))

  (** val quot : z -> z -> z **)

  let quot a b =
    fst (quotrem a b)

  (** val rem : z -> z -> z **)

  let rem a b =
    snd (quotrem a b)

  (** val div2 : z -> z **)

  let div2 = function
  | Z0 -> Z0
  | Zpos p -> (match p with
               | XH -> Z0
               | _ -> Zpos (Coq_Pos.div2 p))
  | Zneg p -> Zneg (Coq_Pos.div2_up p)

  (** val log2 : z -> z **)

  let log2 = function
  | Zpos p0 ->
    (match p0 with
     | XI p -> Zpos (Coq_Pos.size p)
     | XO p -> Zpos (Coq_Pos.size p)
     | XH -> Z0)
  | _ -> Z0

  (** val shiftl : z -> z -> z **)

  let shiftl a = function
  | Z0 -> a
  | Zpos p -> Coq_Pos.iter (mul (Zpos (XO XH))) a p
  | Zneg p -> Coq_Pos.iter div2 a p

  (** val shiftr : z -> z -> z **)

  let shiftr a n0 =
    shiftl a (opp n0)

  (** val coq_lor : z -> z -> z **)

  let coq_lor a b =
    match a with
    | Z0 -> b
    | Zpos a0 ->
      (match b with
       | Z0 -> a
       | Zpos b0 -> Zpos (Coq_Pos.coq_lor a0 b0)
       | Zneg b0 -> Zneg (N.succ_pos (N.ldiff (Coq_Pos.pred_N b0) (Npos a0))))
    | Zneg a0 ->
      (match b with
       | Z0 -> a
       | Zpos b0 -> Zneg (N.succ_pos (N.ldiff (Coq_Pos.pred_N a0) (Npos b0)))
       | Zneg b0 ->
         Zneg
           (N.succ_pos (N.coq_land (Coq_Pos.pred_N a0) (Coq_Pos.pred_N b0))))

  (** val coq_land : z -> z -> z **)

  let coq_land a b =
    match a with
    | Z0 -> Z0
    | Zpos a0 ->
      (match b with
       | Z0 -> Z0
       | Zpos b0 -> of_N (Coq_Pos.coq_land a0 b0)
       | Zneg b0 -> of_N (N.ldiff (Npos a0) (Coq_Pos.pred_N b0)))
    | Zneg a0 ->
      (match b with
       | Z0 -> Z0
       | Zpos b0 -> of_N (N.ldiff (Npos b0) (Coq_Pos.pred_N a0))
       | Zneg b0 ->
         Zneg (N.succ_pos (N.coq_lor (Coq_Pos.pred_N a0) (Coq_Pos.pred_N b0))))

  (** val coq_lxor : z -> z -> z **)

  let coq_lxor a b =
    match a with
    | Z0 -> b
    | Zpos a0 ->
      (match b with
       | Z0 -> a
       | Zpos b0 -> of_N (Coq_Pos.coq_lxor a0 b0)
       | Zneg b0 ->
         Zneg (N.succ_pos (N.coq_lxor (Npos a0) (Coq_Pos.pred_N b0))))
    | Zneg a0 ->
      (match b with
       | Z0 -> a
       | Zpos b0 ->
         Zneg (N.succ_pos (N.coq_lxor (Coq_Pos.pred_N a0) (Npos b0)))
       | Zneg b0 -> of_N (N.coq_lxor (Coq_Pos.pred_N a0) (Coq_Pos.pred_N b0)))
 end

(** val nth : nat -> 'a1 list -> 'a1 -> 'a1 **)

let rec nth n0 l default =
  match n0 with
  | O -> (match l with
          | [] -> default
          | x :: _ -> x)
  | S m -> (match l with
            | [] -> default
            | _ :: t -> nth m t default)

(** val last : 'a1 list -> 'a1 -> 'a1 **)

let rec last l d =
  match l with
  | [] -> d
  | a :: l0 -> (match l0 with
                | [] -> a
                | _ :: _ -> last l0 d)

(** val forallb : ('a1 -> bool) -> 'a1 list -> bool **)

let rec forallb f = function
| [] -> true
| a :: l0 -> (&&) (f a) (forallb f l0)

(** val firstn : nat -> 'a1 list -> 'a1 list **)

let rec firstn n0 l =
  match n0 with
  | O -> []
  | S n1 -> (match l with
             | [] -> []
             | a :: l0 -> a :: (firstn n1 l0))

(** val ex_keep :
    (((((nat * n) * z) * z list) * z option) * positive) * bool **)

let ex_keep =
  ((((((O, N0), Z0), []), None), XH), true)

(** val min_int : z -> bool -> z **)

let min_int w = function
| true -> Z.opp (Z.pow (Zpos (XO XH)) (Z.sub w (Zpos XH)))
| false -> Z0

(** val max_int : z -> bool -> z **)

let max_int w = function
| true -> Z.sub (Z.pow (Zpos (XO XH)) (Z.sub w (Zpos XH))) (Zpos XH)
| false -> Z.sub (Z.pow (Zpos (XO XH)) w) (Zpos XH)

(** val in_rangeb : z -> bool -> z -> bool **)

let in_rangeb w s v =
  (&&) (Z.leb (min_int w s) v) (Z.leb v (max_int w s))

(** val wrap : z -> bool -> z -> z **)

let wrap w s v =
  if s
  then Z.sub
         (Z.modulo (Z.add v (Z.pow (Zpos (XO XH)) (Z.sub w (Zpos XH))))
           (Z.pow (Zpos (XO XH)) w))
         (Z.pow (Zpos (XO XH)) (Z.sub w (Zpos XH)))
  else Z.modulo v (Z.pow (Zpos (XO XH)) w)

(** val b2z : bool -> z **)

let b2z = function
| true -> Zpos XH
| false -> Z0

type pylong = { pl_neg : bool; pl_digits : z list }

(** val mag : z -> z list -> z **)

let rec mag sh = function
| [] -> Z0
| d :: r -> Z.add d (Z.mul (Z.pow (Zpos (XO XH)) sh) (mag sh r))

(** val value : z -> pylong -> z **)

let value sh x =
  if x.pl_neg then Z.opp (mag sh x.pl_digits) else mag sh x.pl_digits

(** val ndigits : pylong -> z **)

let ndigits x =
  Z.of_nat (length x.pl_digits)

(** val digit : pylong -> nat -> z **)

let digit x i =
  nth i x.pl_digits Z0

(** val digit_okb : z -> z -> bool **)

let digit_okb sh d =
  (&&) (Z.leb Z0 d) (Z.ltb d (Z.pow (Zpos (XO XH)) sh))

(** val wfb : z -> pylong -> bool **)

let wfb sh x =
  (&&)
    ((&&) (forallb (digit_okb sh) x.pl_digits)
      (negb (Z.eqb (last x.pl_digits (Zpos XH)) Z0)))
    (match x.pl_digits with
     | [] -> negb x.pl_neg
     | _ :: _ -> true)

(** val joinl_c : z -> bool -> z -> z list -> z option **)

let rec joinl_c jw js sh = function
| [] -> Some Z0
| d :: r ->
  (match joinl_c jw js sh r with
   | Some a ->
     let shifted = Z.shiftl a sh in
     if (&&) js (negb (in_rangeb jw js shifted))
     then None
     else Some (Z.coq_lor (wrap jw js shifted) (wrap jw js d))
   | None -> None)

(** val join_c : z -> bool -> z -> nat -> pylong -> z option **)

let join_c jw js sh k x =
  joinl_c jw js sh (firstn k x.pl_digits)

(** val digits_of : z -> nat -> z -> z list **)

let rec digits_of sh fuel m =
  match fuel with
  | O -> []
  | S f ->
    if Z.leb m Z0
    then []
    else (Z.modulo m (Z.pow (Zpos (XO XH)) sh)) :: (digits_of sh f
                                                     (Z.div m
                                                       (Z.pow (Zpos (XO XH))
                                                         sh)))

(** val of_Z : z -> z -> pylong **)

let of_Z sh v =
  { pl_neg = (Z.ltb v Z0); pl_digits =
    (digits_of sh (S (Z.to_nat (Z.log2 (Z.abs v)))) (Z.abs v)) }

(** val adapt_python : bool -> z -> z -> z **)

let adapt_python bconst r b =
  if bconst
  then b2z ((&&) (negb (Z.eqb r Z0)) (xorb (Z.ltb r Z0) (Z.ltb b Z0)))
  else b2z ((&&) (negb (Z.eqb r Z0)) (Z.ltb (Z.coq_lxor r b) Z0))

type op =
| OpAdd
| OpSubtract
| OpMultiply
| OpRemainder
| OpFloorDivide
| OpTrueDivide
| OpAnd
| OpOr
| OpXor
| OpLshift
| OpRshift
| OpEq
| OpNe

type order =
| ObjC
| CObj

type result =
| RInt of z
| RBool of bool
| RFloatDiv of z * z
| RFallback
| RZeroDiv
| RUB

(** val sHIFT : z **)

let sHIFT =
  Zpos (XO (XI (XI (XI XH))))

(** val mASK : z **)

let mASK =
  Z.sub (Z.pow (Zpos (XO XH)) sHIFT) (Zpos XH)

(** val lONG_BITS : z **)

let lONG_BITS =
  Z.mul (Zpos (XO (XO (XO XH)))) (Zpos (XO (XO (XO XH))))

(** val lLONG_BITS : z **)

let lLONG_BITS =
  Z.mul (Zpos (XO (XO (XO XH)))) (Zpos (XO (XO (XO XH))))

(** val ckl : z -> (z -> result) -> result **)

let ckl v k =
  if in_rangeb (Zpos (XO (XO (XO (XO (XO (XO XH))))))) true v
  then k v
  else RUB

(** val c_shl : z -> z -> (z -> result) -> result **)

let c_shl a b k =
  if (&&) (Z.leb Z0 b) (Z.ltb b (Zpos (XO (XO (XO (XO (XO (XO XH))))))))
  then k
         (wrap (Zpos (XO (XO (XO (XO (XO (XO XH))))))) true
           (Z.mul a (Z.pow (Zpos (XO XH)) b)))
  else RUB

(** val c_shr : z -> z -> (z -> result) -> result **)

let c_shr a b k =
  if (&&) (Z.leb Z0 b) (Z.ltb b (Zpos (XO (XO (XO (XO (XO (XO XH))))))))
  then k (Z.shiftr a b)
  else RUB

(** val c_mod_py : z -> z -> result **)

let c_mod_py a b =
  if (||) (Z.eqb b Z0)
       ((&&) (Z.eqb a (min_int (Zpos (XO (XO (XO (XO (XO (XO XH))))))) true))
         (Z.eqb b (Zneg XH)))
  then RUB
  else ckl (Z.rem a b) (fun x ->
         ckl (Z.mul (adapt_python false x b) b) (fun t ->
           ckl (Z.add x t) (fun x0 -> RInt x0)))

(** val c_div_py : z -> z -> result **)

let c_div_py a b =
  if (||) (Z.eqb b Z0)
       ((&&) (Z.eqb a (min_int (Zpos (XO (XO (XO (XO (XO (XO XH))))))) true))
         (Z.eqb b (Zneg XH)))
  then RUB
  else ckl (Z.quot a b) (fun q ->
         ckl (Z.mul q b) (fun qb ->
           ckl (Z.sub a qb) (fun r ->
             ckl (Z.sub q (adapt_python false r b)) (fun x -> RInt x))))

(** val is_zero : pylong -> bool **)

let is_zero x =
  Z.eqb (ndigits x) Z0

(** val is_neg : pylong -> bool **)

let is_neg x =
  x.pl_neg

(** val is_pos : pylong -> bool **)

let is_pos x =
  (&&) (negb x.pl_neg) (negb (is_zero x))

(** val rd : pylong -> nat -> (z -> result) -> result **)

let rd x i k =
  if Z.ltb (Z.of_nat i) (Z.max (Zpos XH) (ndigits x))
  then k (digit x i)
  else RUB

(** val operands : order -> z -> z -> z * z **)

let operands ord c v =
  match ord with
  | ObjC -> (v, c)
  | CObj -> (c, v)

(** val is_mul : op -> bool **)

let is_mul = function
| OpMultiply -> true
| _ -> false

(** val is_truediv : op -> bool **)

let is_truediv = function
| OpTrueDivide -> true
| _ -> false

(** val calc_llong : op -> z -> z -> result **)

let calc_llong o lla llb =
  match o with
  | OpAdd -> ckl (Z.add lla llb) (fun x -> RInt x)
  | OpSubtract -> ckl (Z.sub lla llb) (fun x -> RInt x)
  | OpMultiply -> ckl (Z.mul lla llb) (fun x -> RInt x)
  | OpRemainder -> c_mod_py lla llb
  | OpFloorDivide -> c_div_py lla llb
  | OpAnd -> RInt (Z.coq_land lla llb)
  | OpOr -> RInt (Z.coq_lor lla llb)
  | OpXor -> RInt (Z.coq_lxor lla llb)
  | OpLshift ->
    c_shl lla llb (fun llx ->
      c_shr llx llb (fun y ->
        if negb (Z.eqb lla y) then RFallback else RInt llx))
  | OpRshift ->
    if Z.geb llb lLONG_BITS
    then RInt (if Z.ltb lla Z0 then Zneg XH else Z0)
    else c_shr lla llb (fun x -> RInt x)
  | _ -> RUB

(** val calc_long : op -> pylong -> z -> z -> z -> result **)

let calc_long o x ival a b =
  match o with
  | OpAdd -> ckl (Z.add a b) (fun x0 -> RInt x0)
  | OpSubtract -> ckl (Z.sub a b) (fun x0 -> RInt x0)
  | OpMultiply -> calc_llong o a b
  | OpRemainder -> c_mod_py a b
  | OpFloorDivide -> c_div_py a b
  | OpTrueDivide ->
    if Z.leb lONG_BITS (Zpos (XI (XO (XI (XO (XI XH))))))
    then RFloatDiv (a, b)
    else ckl (Z.abs ival) (fun l ->
           if (||)
                (Z.leb l
                  (Z.pow (Zpos (XO XH)) (Zpos (XI (XO (XI (XO (XI XH))))))))
                (Z.leb (ndigits x)
                  (Z.div (Zpos (XO (XO (XI (XO (XI XH)))))) sHIFT))
           then RFloatDiv (a, b)
           else RFallback)
  | OpAnd -> RInt (Z.coq_land a b)
  | OpOr -> RInt (Z.coq_lor a b)
  | OpXor -> RInt (Z.coq_lxor a b)
  | OpLshift ->
    c_shl a b (fun xx ->
      let slow = if negb (Z.eqb a Z0) then calc_llong o a b else RInt xx in
      if Z.ltb b lONG_BITS
      then c_shr xx b (fun y -> if Z.eqb a y then RInt xx else slow)
      else slow)
  | OpRshift ->
    if Z.geb b lONG_BITS
    then RInt (if Z.ltb a Z0 then Zneg XH else Z0)
    else c_shr a b (fun x0 -> RInt x0)
  | _ -> RUB

(** val guard_long : op -> z -> bool **)

let guard_long o k =
  (&&)
    (Z.ltb
      (Z.add (Z.mul k sHIFT)
        (if is_mul o then Zpos (XO (XI (XI (XI XH)))) else Z0))
      (Z.sub lONG_BITS (Zpos XH)))
    (if is_truediv o
     then Z.ltb (Z.mul (Z.sub k (Zpos XH)) sHIFT) (Zpos (XI (XO (XI (XO (XI
            XH))))))
     else true)

(** val guard_llong : op -> z -> bool **)

let guard_llong o k =
  (&&) (negb (is_truediv o))
    (Z.ltb
      (Z.add (Z.mul k sHIFT)
        (if is_mul o then Zpos (XO (XI (XI (XI XH)))) else Z0))
      (Z.sub lLONG_BITS (Zpos XH)))

(** val unpack_join : nat -> pylong -> (z -> result) -> result **)

let unpack_join k x cont =
  match join_c (Zpos (XO (XO (XO (XO (XO (XO XH))))))) false sHIFT k x with
  | Some u ->
    let v = wrap (Zpos (XO (XO (XO (XO (XO (XO XH))))))) true u in
    if is_pos x then cont v else ckl (Z.mul v (Zneg XH)) cont
  | None -> RUB

(** val unpack :
    op -> pylong -> (z -> result) -> (z -> result) -> result -> result **)

let unpack o x kl kll big =
  let size0 = ndigits x in
  if Z.eqb size0 (Zpos XH)
  then rd x O (fun d -> if is_pos x then kl d else ckl (Z.mul d (Zneg XH)) kl)
  else let attempt = fun k rest ->
         if (&&) (Z.eqb size0 (Z.of_nat k)) (guard_long o (Z.of_nat k))
         then unpack_join k x kl
         else if (&&) (Z.eqb size0 (Z.of_nat k)) (guard_llong o (Z.of_nat k))
              then unpack_join k x kll
              else rest
       in
       attempt (S (S O))
         (attempt (S (S (S O))) (attempt (S (S (S (S O)))) big))

(** val fast_general : op -> order -> z -> pylong -> result **)

let fast_general o ord c x =
  unpack o x (fun ival ->
    let (a, b) = operands ord c ival in calc_long o x ival a b) (fun ival ->
    let (a, b) = operands ord c ival in calc_llong o a b) RFallback

(** val after_zero : op -> order -> z -> pylong -> result **)

let after_zero o ord c x =
  match o with
  | OpAnd ->
    if Z.eqb (Z.coq_land c mASK) c
    then rd x O (fun last_digit ->
           if is_pos x
           then RInt (Z.coq_land c last_digit)
           else ckl (Z.sub mASK last_digit) (fun t ->
                  ckl (Z.add t (Zpos XH)) (fun neg_digit -> RInt
                    (Z.coq_land c neg_digit))))
    else fast_general o ord c x
  | _ -> fast_general o ord c x

(** val unpacked : op -> order -> bool -> z -> pylong -> result **)

let unpacked o ord zc c x =
  if is_zero x
  then (match ord with
        | ObjC ->
          (match o with
           | OpAdd -> RInt c
           | OpSubtract -> ckl (Z.opp c) (fun x0 -> RInt x0)
           | OpTrueDivide -> after_zero o ord c x
           | OpOr -> RInt c
           | OpXor -> RInt c
           | OpEq -> after_zero o ord c x
           | OpNe -> after_zero o ord c x
           | _ -> RInt (value sHIFT x))
        | CObj ->
          (match o with
           | OpMultiply -> RInt (value sHIFT x)
           | OpRemainder -> if zc then RZeroDiv else after_zero o ord c x
           | OpFloorDivide -> if zc then RZeroDiv else after_zero o ord c x
           | OpTrueDivide -> if zc then RZeroDiv else after_zero o ord c x
           | OpAnd -> RInt (value sHIFT x)
           | OpEq -> after_zero o ord c x
           | OpNe -> after_zero o ord c x
           | _ -> RInt c))
  else after_zero o ord c x

(** val cmp_ret : bool -> bool -> result **)

let cmp_ret ne unequal =
  RBool (if ne then unequal else negb unequal)

(** val dne : pylong -> z -> nat -> (bool -> result) -> result **)

let dne x u i k =
  rd x i (fun d ->
    k
      (negb
        (Z.eqb d (Z.coq_land (Z.shiftr u (Z.mul (Z.of_nat i) sHIFT)) mASK))))

(** val cmp_digitwise : bool -> pylong -> z -> result **)

let cmp_digitwise ne x intval =
  let u = wrap (Zpos (XO (XO (XO (XO (XO (XO XH))))))) false intval in
  let size0 = ndigits x in
  if negb (Z.eqb (Z.shiftr u (Z.mul sHIFT (Zpos (XO XH)))) Z0)
  then if negb (Z.eqb size0 (Zpos (XI XH)))
       then cmp_ret ne true
       else dne x u O (fun n0 ->
              dne x u (S O) (fun n1 ->
                dne x u (S (S O)) (fun n2 ->
                  cmp_ret ne ((||) ((||) n0 n1) n2))))
  else if negb (Z.eqb (Z.shiftr u (Z.mul sHIFT (Zpos XH))) Z0)
       then if negb (Z.eqb size0 (Zpos (XO XH)))
            then cmp_ret ne true
            else dne x u O (fun n0 ->
                   dne x u (S O) (fun n1 -> cmp_ret ne ((||) n0 n1)))
       else if negb (Z.eqb size0 (Zpos XH))
            then cmp_ret ne true
            else rd x O (fun d0 ->
                   cmp_ret ne (negb (Z.eqb d0 (Z.coq_land u mASK))))

(** val compare0 : bool -> z -> pylong -> result **)

let compare0 ne c x =
  if Z.eqb c Z0
  then cmp_ret ne (negb (is_zero x))
  else if Z.ltb c Z0
       then if negb (is_neg x)
            then cmp_ret ne true
            else ckl (Z.opp c) (cmp_digitwise ne x)
       else if is_neg x then cmp_ret ne true else cmp_digitwise ne x c

(** val binop : op -> order -> bool -> z -> pylong -> result **)

let binop o ord zc c x =
  match o with
  | OpEq -> compare0 false c x
  | OpNe -> compare0 true c x
  | _ -> unpacked o ord zc c x

(** val c_small : z -> bool **)

let c_small c =
  Z.leb (Z.abs c) (Z.pow (Zpos (XO XH)) (Zpos (XO (XI (XI (XI XH))))))

(** val accepts : op -> order -> z -> bool **)

let accepts o ord c =
  (&&) (c_small c)
    (match o with
     | OpRemainder ->
       (match ord with
        | ObjC -> negb (Z.eqb c Z0)
        | CObj -> false)
     | OpFloorDivide ->
       (match ord with
        | ObjC -> negb (Z.eqb c Z0)
        | CObj -> false)
     | OpTrueDivide ->
       (match ord with
        | ObjC -> negb (Z.eqb c Z0)
        | CObj -> false)
     | OpLshift ->
       (match ord with
        | ObjC ->
          (&&) (Z.leb (Zpos XH) c)
            (Z.leb c (Zpos (XI (XI (XI (XI (XI XH)))))))
        | CObj -> false)
     | OpRshift ->
       (match ord with
        | ObjC ->
          (&&) (Z.leb (Zpos XH) c)
            (Z.leb c (Zpos (XI (XI (XI (XI (XI XH)))))))
        | CObj -> false)
     | _ -> true)

(** val template_ok : op -> order -> z -> bool **)

let template_ok o ord c =
  (&&) (c_small c)
    (match o with
     | OpRemainder ->
       (match ord with
        | ObjC -> negb (Z.eqb c Z0)
        | CObj -> true)
     | OpFloorDivide ->
       (match ord with
        | ObjC -> negb (Z.eqb c Z0)
        | CObj -> true)
     | OpTrueDivide ->
       (match ord with
        | ObjC -> negb (Z.eqb c Z0)
        | CObj -> true)
     | OpLshift ->
       (match ord with
        | ObjC ->
          (&&) (Z.leb (Zpos XH) c)
            (Z.leb c (Zpos (XI (XI (XI (XI (XI XH)))))))
        | CObj -> false)
     | OpRshift ->
       (match ord with
        | ObjC ->
          (&&) (Z.leb (Zpos XH) c)
            (Z.leb c (Zpos (XI (XI (XI (XI (XI XH)))))))
        | CObj -> false)
     | _ -> true)

(** val py_binop : op -> order -> z -> z -> result **)

let py_binop o ord c xv =
  let (l, r) = operands ord c xv in
  (match o with
   | OpAdd -> RInt (Z.add l r)
   | OpSubtract -> RInt (Z.sub l r)
   | OpMultiply -> RInt (Z.mul l r)
   | OpRemainder -> if Z.eqb r Z0 then RZeroDiv else RInt (Z.modulo l r)
   | OpFloorDivide -> if Z.eqb r Z0 then RZeroDiv else RInt (Z.div l r)
   | OpTrueDivide -> if Z.eqb r Z0 then RZeroDiv else RFloatDiv (l, r)
   | OpAnd -> RInt (Z.coq_land l r)
   | OpOr -> RInt (Z.coq_lor l r)
   | OpXor -> RInt (Z.coq_lxor l r)
   | OpLshift -> RInt (Z.shiftl l r)
   | OpRshift -> RInt (Z.shiftr l r)
   | OpEq -> RBool (Z.eqb l r)
   | OpNe -> RBool (negb (Z.eqb l r)))

(** val binop_z : op -> order -> bool -> z -> z -> result **)

let binop_z o ord zc c xv =
  binop o ord zc c (of_Z sHIFT xv)
