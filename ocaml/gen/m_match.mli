
val negb : bool -> bool

type nat =
| O
| S of nat

val fst : ('a1 * 'a2) -> 'a1

val length : 'a1 list -> nat

val app : 'a1 list -> 'a1 list -> 'a1 list

type comparison =
| Eq
| Lt
| Gt

val compOpp : comparison -> comparison

val add : nat -> nat -> nat

val sub : nat -> nat -> nat

type positive =
| XI of positive
| XO of positive
| XH

type n =
| N0
| Npos of positive

type z =
| Z0
| Zpos of positive
| Zneg of positive

val eqb : bool -> bool -> bool

module Nat :
 sig
  val eqb : nat -> nat -> bool

  val leb : nat -> nat -> bool

  val ltb : nat -> nat -> bool
 end

module Pos :
 sig
  val succ : positive -> positive

  val add : positive -> positive -> positive

  val add_carry : positive -> positive -> positive

  val pred_double : positive -> positive

  val compare_cont : comparison -> positive -> positive -> comparison

  val compare : positive -> positive -> comparison

  val eqb : positive -> positive -> bool

  val iter_op : ('a1 -> 'a1 -> 'a1) -> positive -> 'a1 -> 'a1

  val to_nat : positive -> nat

  val of_succ_nat : nat -> positive
 end

module N :
 sig
  val eqb : n -> n -> bool
 end

module Z :
 sig
  val double : z -> z

  val succ_double : z -> z

  val pred_double : z -> z

  val pos_sub : positive -> positive -> z

  val add : z -> z -> z

  val opp : z -> z

  val sub : z -> z -> z

  val compare : z -> z -> comparison

  val leb : z -> z -> bool

  val ltb : z -> z -> bool

  val eqb : z -> z -> bool

  val to_nat : z -> nat

  val of_nat : nat -> z
 end

val nth_error : 'a1 list -> nat -> 'a1 option

val rev : 'a1 list -> 'a1 list

val map : ('a1 -> 'a2) -> 'a1 list -> 'a2 list

val fold_left : ('a1 -> 'a2 -> 'a1) -> 'a2 list -> 'a1 -> 'a1

val existsb : ('a1 -> bool) -> 'a1 list -> bool

val forallb : ('a1 -> bool) -> 'a1 list -> bool

val filter : ('a1 -> bool) -> 'a1 list -> 'a1 list

val firstn : nat -> 'a1 list -> 'a1 list

val skipn : nat -> 'a1 list -> 'a1 list

val ex_keep : (((((nat * n) * z) * z list) * z option) * positive) * bool

type lit =
| LInt of z
| LBool of bool
| LNone
| LStr of n

type value =
| VInt of z
| VBool of bool
| VNone
| VStr of n
| VBytes of n
| VTuple of value list
| VList of value list
| VSeq of value list
| VDict of bool * (lit * value) list
| VInst of n * (n * value) list

type cls =
| CInt
| CBool
| CStr
| CBytes
| CTuple
| CList
| CDict
| CUser of n

type ctab = (n * n list) list

type exn =
| ETypeError
| EValueError
| EUnbound
| EInternal

type 'a res =
| Ok of 'a
| NoMatch
| Err of exn

type binds = (n * value) list

val bind : 'a1 res -> ('a1 -> 'a2 res) -> 'a2 res

val both : binds res -> binds res -> binds res

type star_t =
| StarNone
| StarWild
| StarCap of n

type key =
| KLit of lit
| KVal of lit
| KAttr of n

type pat =
| PLit of lit
| PVal of lit
| PCap of n
| PWild
| PSeq of pats * star_t * pats
| PMap of kpats * n option
| PClass of cls * pats * kpats
| POr of pats
| PAs of pat * n
and pats =
| PNil
| PCons of pat * pats
and kpats =
| KNil
| KCons of key * pat * kpats

val plen : pats -> nat

val klen : kpats -> nat

val kkeys : kpats -> key list

type ckey =
| CNum of z
| CStrK of n
| CNoneK
| CAttrK of n

val b2z : bool -> z

val canon : lit -> ckey

val ckey_eqb : ckey -> ckey -> bool

val vcanon : value -> ckey option

val eq_lit : lit -> value -> bool

val lit_match : lit -> value -> bool

val key_canon : key -> ckey

val memc : ckey -> ckey list -> bool

val nodupc : ckey list -> bool

val seq_items : value -> value list option

val map_items : value -> (lit * value) list option

val dict_get : ckey -> (lit * value) list -> value option

val attr_get : n -> (n * value) list -> value option

val getattr : value -> n -> value option

val klookup : value -> key -> value option

val isinst : value -> cls -> bool

val match_self : cls -> bool

val ctab_get : ctab -> n -> n list option

val match_args : ctab -> cls -> n list

val allowed : ctab -> cls -> nat

val star_binds : star_t -> value list -> binds

val rest_binds : n option -> (lit * value) list -> binds

val attr_vals : value -> n list -> value list option

val ref_lookups : (key -> bool) -> ckey list -> key list -> exn -> unit res

val ref_rest : kpats -> (lit * value) list -> (lit * value) list

val pm_ref : ctab -> pat -> value -> binds res

val is_wild : pat -> bool

val is_litkey : key -> bool

val index_z : value list -> z -> value option

val slice_z : value list -> z -> z -> value list option

val cy_map_dup : key list -> bool

val cy_cls_dup : n list -> key list -> bool

val del_key : ckey -> (lit * value) list -> (lit * value) list

val cy_rest : key list -> (lit * value) list -> (lit * value) list

val sorted_keys : key list -> key list

val lit_value : lit -> value

val as_src : pat -> lit option

val as_value : bool -> pat -> value -> value

val cy : bool -> ctab -> pat -> value -> binds res

val simple_notarget : pat -> bool

val all_simple_notarget : pats -> bool

val is_simple : pat -> bool

val simple_cmp : pat -> value -> bool

val simple_or : pats -> value -> bool

val cy_simple : bool -> pat -> value -> binds res

type guard =
| GNone
| GConst of bool
| GVarEq of n * lit

val env_get : n -> binds -> value option

val eval_guard : guard -> binds -> bool res

val has_guard : guard -> bool

type outcome = { o_sel : nat option; o_env : binds; o_guards : nat list }

type sres =
| SDone of outcome
| SRaise of exn * nat list

val run_cases :
  (nat -> pat -> guard -> value -> binds res) -> (pat * guard) list -> value
  -> nat -> binds -> nat list -> sres

val match_ref : ctab -> (pat * guard) list -> value -> sres

val match_cy : bool -> ctab -> (pat * guard) list -> value -> sres

val has_valkey : key list -> bool

val safe : ctab -> bool -> pat -> bool

val as_harmless : pat -> bool

val as_ok : pat -> bool

val as_ok_list : pats -> bool

val as_ok_kp : kpats -> bool

val as_ok_cases : (pat * guard) list -> bool

val safe_cases : ctab -> (pat * guard) list -> bool
